/-
Model of stacking (`reamber/base/Map.py: Map.Stacker, Map.stack`, `reamber/base/MapSet.py: MapSet.Stacker,
MapSet.stack`, `reamber/base/Property.py: stack_props`, the game `Stacker`s of OsuMap/QuaMap/BMSMap) — the
code as it is written now.  Core Lean only.

pandas is modelled as lists of rows (K2): a list's frame is a column list plus rows `(label, cells)`, cells being an
association list `column ↦ value`.  The stacked frame has a `RangeIndex`, so its rows carry no label.

* `Map.Stacker.__init__`  = `mkStacker`  (`_ixs` = prefix sums of the `slots`, `_stacked` = concat + `reset_index()`,
                                          `_unstacked` = the lists whose slot is `some _`)
* `Map.Stacker._update`   = `writeBack`  (each list := its own columns of its positional slice, labels = positions)
* `__setitem__` / `loc.__setitem__` / the `stack_props` setters = `resolve` (which pointwise assignment the call
  amounts to, or which exception it raises before anything is changed) followed by `assign` and `writeBack`
* `MapSet.Stacker.__setitem__` = `SetW.setRows` (row `k` of the assigned frame goes, label-aligned, to chart `k`)
-/
import Reamber.Generated.StackTables

namespace Reamber.Stack

/-- exception classes the stack operations can raise -/
inductive Err
  | key        -- KeyError: column not in the stacked frame
  | value      -- ValueError: length mismatch / "No objects to concatenate" / "cannot insert index, already exists"
  | index      -- IndexError: boolean mask of the wrong length
  | type       -- TypeError: arithmetic on a string cell
  | attr       -- AttributeError: reading a property the Stacker class does not have
  | nostacker  -- (harness protocol) the operation names a stacker that was never created
  deriving DecidableEq, Repr

def Err.toString : Err → String
  | .key => "key" | .value => "value" | .index => "index" | .type => "type" | .attr => "attr" | .nostacker => "nostacker"

/-- a cell of a frame: NaN, a number (ints and doubles are both exact rationals), a bool, a string (also used
for opaque objects such as Quaver key-sound lists) -/
inductive Cell
  | nan
  | num (q : Rat)
  | bool (b : Bool)
  | str (s : String)
  deriving DecidableEq, Repr

abbrev Cells := List (String × Cell)

/-- `row[c]`, NaN when the row has no such column (what `concat` fills in) -/
def getC : Cells → String → Cell
  | [], _ => .nan
  | (k, v) :: t, c => if k = c then v else getC t c

def keys (cs : Cells) : List String := cs.map (·.1)

/-- `row[cols]` -/
def proj (cols : List String) (cs : Cells) : Cells := cols.map (fun c => (c, getC cs c))

structure Row where
  label : Int
  cells : Cells
  deriving DecidableEq, Repr

structure Frame where
  cols : List String
  rows : List Row
  deriving DecidableEq, Repr

/-- one entry of `Map.objs`: key, class of the list object, its DataFrame -/
structure TList where
  key : String
  cls : String
  frame : Frame
  deriving DecidableEq, Repr

/-! ### `Stacker.__init__` -/

/-- column union of `pd.concat` (outer join, `sort=False`): order of first appearance -/
def addCols (acc cs : List String) : List String := acc ++ cs.filter (fun c => !acc.contains c)

def unionCols (ls : List (List String)) : List String := ls.foldl addCols []

/-- a row of `_stacked`: `reset_index()` turns the old label into the column `index`; missing columns are NaN -/
def stackRow (U : List String) (r : Row) : Cells := ("index", .num r.label) :: proj U r.cells

/-- a `Stacker`: `slots[i] = some n` iff list `i` of the map is in `_unstacked`, with `n = len(obj)` at stack time
(`_ixs` are the prefix sums); `scols`/`srows` are `_stacked` -/
inductive Value
  | scalar (c : Cell)
  | array (cs : List Cell)
  deriving DecidableEq, Repr

structure Stacker where
  slots : List (Option Nat)
  scols : List String
  srows : List Cells
  /-- plain Python attributes set on the object by `stack.<name> = v` for a name that is not a property -/
  pyattrs : List (String × Value) := []
  /-- columns pandas created *while a `loc` assignment failed* (list of columns, mask of the wrong length): they exist
  in `_stacked.columns` with the placeholder dtype `V0` — any arithmetic on them raises TypeError, the first successful
  assignment turns them into an ordinary column (NaN where nothing was assigned).  Their cells are not materialised
  in `srows` (a missing key reads as NaN, `padCells` creates it). -/
  voidcols : List String := []
  deriving DecidableEq, Repr

def slotsOf (incl : TList → Bool) (ls : List TList) : List (Option Nat) :=
  ls.map (fun l => if incl l then some l.frame.rows.length else none)

def memberCols : List TList → List (Option Nat) → List (List String)
  | l :: ls, some _ :: ss => l.frame.cols :: memberCols ls ss
  | _ :: ls, none :: ss => memberCols ls ss
  | _, _ => []

def stackedRows (U : List String) : List TList → List (Option Nat) → List Cells
  | l :: ls, some _ :: ss => l.frame.rows.map (stackRow U) ++ stackedRows U ls ss
  | _ :: ls, none :: ss => stackedRows U ls ss
  | _, _ => []

def mkStacker (incl : TList → Bool) (ls : List TList) : Except Err Stacker :=
  let slots := slotsOf incl ls
  let mc := memberCols ls slots
  if mc.isEmpty then .error .value                       -- pd.concat([]): No objects to concatenate
  else
    let U := unionCols mc
    if U.contains "index" then .error .value             -- reset_index(): cannot insert index, already exists
    else .ok ⟨slots, "index" :: U, stackedRows U ls slots, [], []⟩

/-! ### `Stacker._update` -/

def sliceRows (srows : List Cells) (off n : Nat) : List Cells := (srows.drop off).take n

/-- `_stacked[cols].iloc[i:j]`: own columns, labels = positions in the stack -/
def mkRows (cols : List String) : Nat → List Cells → List Row
  | _, [] => []
  | i, c :: cs => ⟨(i : Int), proj cols c⟩ :: mkRows cols (i + 1) cs

def writeBack (srows : List Cells) : Nat → List TList → List (Option Nat) → List TList
  | _, [], _ => []
  | _, l :: ls, [] => l :: ls
  | off, l :: ls, none :: ss => l :: writeBack srows off ls ss
  | off, l :: ls, some n :: ss =>
      { l with frame := ⟨l.frame.cols, mkRows l.frame.cols off (sliceRows srows off n)⟩ }
        :: writeBack srows (off + n) ls ss

/-! ### assignments on `_stacked` -/

/-- a selected row: listed columns get `g column old`; a listed column the row lacks is created from NaN -/
def updCells (cols : List String) (g : String → Cell → Cell) (cs : Cells) : Cells :=
  cs.map (fun kv => if cols.contains kv.1 then (kv.1, g kv.1 kv.2) else kv)
    ++ (cols.filter (fun c => !(keys cs).contains c)).map (fun c => (c, g c .nan))

/-- an unselected row: a created column is NaN -/
def padCells (cols : List String) (cs : Cells) : Cells :=
  cs ++ (cols.filter (fun c => !(keys cs).contains c)).map (fun c => (c, Cell.nan))

def updRows (sel : Nat → Bool) (cols : List String) (g : Nat → String → Cell → Cell) : Nat → List Cells → List Cells
  | _, [] => []
  | i, r :: rs => (if sel i then updCells cols (g i) r else padCells cols r) :: updRows sel cols g (i + 1) rs

/-- the pointwise assignment every stack setter amounts to: rows `sel`, columns `cols`, new value `g pos col old` -/
structure Action where
  sel : Nat → Bool
  cols : List String
  g : Nat → String → Cell → Cell

def assign (s : Stacker) (a : Action) : Stacker :=
  { s with scols := s.scols ++ a.cols.filter (fun c => !s.scols.contains c),
           srows := updRows a.sel a.cols a.g 0 s.srows,
           voidcols := s.voidcols.filter (fun c => !a.cols.contains c) }

/-! ### the operations -/

/-- right operand of `op=` -/
inductive Fn
  | add (q : Rat) | sub (q : Rat) | mul (q : Rat) | div (q : Rat)
  deriving DecidableEq, Repr

def Fn.app : Fn → Rat → Rat
  | .add q, x => x + q
  | .sub q, x => x - q
  | .mul q, x => x * q
  | .div q, x => x / q          -- the driver and the generators only admit `q ≠ 0`

/-- element-wise arithmetic: NaN stays NaN, a bool counts as 0/1, a string raises -/
def Fn.eval (f : Fn) : Cell → Except Err Cell
  | .nan => .ok .nan
  | .num x => .ok (.num (f.app x))
  | .bool b => .ok (.num (f.app (if b then 1 else 0)))
  | .str _ => .error .type

def Fn.evalD (f : Fn) (c : Cell) : Cell :=
  match f.eval c with
  | .ok v => v
  | .error _ => c

def Fn.okOn (f : Fn) (c : Cell) : Bool :=
  match f.eval c with
  | .ok _ => true
  | .error _ => false

inductive Op
  | stack (incl : Option (List String))                                   -- m.stack(include_types)
  | set (sid : Nat) (col : String) (v : Value)                            -- stack[col] = v
  | map (sid : Nat) (col : String) (f : Fn)                               -- stack[col] op= q
  | locSet (sid : Nat) (mask : List Bool) (single : Bool) (cols : List String) (v : Cell)
      -- stack.loc[mask, cols] = v   (`single`: the column is given as one name, not as a list)
  | locMap (sid : Nat) (mask : List Bool) (cols : List String) (f : Fn)   -- stack.loc[mask, cols] op= q
  | attrSet (sid : Nat) (name : String) (v : Value)                       -- stack.<name> = v
  | attrMap (sid : Nat) (name : String) (f : Fn)                          -- stack.<name> op= q
  deriving DecidableEq, Repr

def Op.sid? : Op → Option Nat
  | .stack _ => none
  | .set s _ _ | .map s _ _ | .locSet s _ _ _ _ | .locMap s _ _ _ | .attrSet s _ _ | .attrMap s _ _ => some s

def allSel : Nat → Bool := fun _ => true

def maskSel (mask : List Bool) : Nat → Bool := fun i => mask.getD i false

/-- rows `sel`, columns `cols`: is `f` defined on every selected cell (else the whole `op=` raises TypeError) -/
def evalOk (f : Fn) (sel : Nat → Bool) (cols : List String) : Nat → List Cells → Bool
  | _, [] => true
  | i, r :: rs => (!sel i || cols.all (fun c => f.okOn (getC r c))) && evalOk f sel cols (i + 1) rs

/-- what a call amounts to once it did not raise -/
inductive Outcome
  | pyattr (name : String) (v : Value)     -- only a plain Python attribute of the stacker object is set
  | act (a : Action)                       -- a pointwise assignment on `_stacked` followed by `_update`
  | grow (col : String) (cs : List Cell)   -- pandas quirk: a non-empty array assigned to a column of a frame with
                                           -- no rows gives the frame `len(array)` rows (other columns NaN); `_update`

def pyArith (f : Fn) : Value → Except Err Value
  | .scalar c => do .ok (.scalar (← f.eval c))
  | .array cs => if cs.all f.okOn then .ok (.array (cs.map f.evalD)) else .error .type

/-- what a setter call does, given the stacker it is called on and the property names of its class:
an exception (raised before anything is modified), or an `Outcome` -/
def resolve (props : List String) (s : Stacker) : Op → Except Err Outcome
  | .stack _ => .error .nostacker        -- (`step` handles `stack` itself)
  | .set _ col (.scalar c) => .ok (.act ⟨allSel, [col], fun _ _ _ => c⟩)
  | .set _ col (.array cs) =>
      if s.srows.isEmpty && !cs.isEmpty then .ok (.grow col cs)
      else if cs.length ≠ s.srows.length then .error .value
      else .ok (.act ⟨allSel, [col], fun i _ _ => cs.getD i .nan⟩)
  | .map _ col f =>
      if !s.scols.contains col then .error .key
      else if s.voidcols.contains col then .error .type
      else if !evalOk f allSel [col] 0 s.srows then .error .type
      else .ok (.act ⟨allSel, [col], fun _ _ old => f.evalD old⟩)
  | .locSet _ mask single cols v =>
      if mask.length ≠ s.srows.length then .error .index            -- (side effect on the copy: `errEffect`)
      else if single && s.srows.isEmpty && !cols.all (fun c => s.scols.contains c) then
        .error .value                 -- "cannot set a frame with no defined index and a scalar"
      else .ok (.act ⟨maskSel mask, cols, fun _ _ _ => v⟩)
  | .locMap _ mask cols f =>
      if !cols.all (fun c => s.scols.contains c) then .error .key          -- the getter looks the columns up first
      else if mask.length ≠ s.srows.length then .error .index
      else if cols.any (fun c => s.voidcols.contains c) then .error .type
      else if !evalOk f (maskSel mask) cols 0 s.srows then .error .type
      else .ok (.act ⟨maskSel mask, cols, fun _ _ old => f.evalD old⟩)
  | .attrSet _ name v =>
      if props.contains name then
        match v with
        | .scalar c => .ok (.act ⟨allSel, [name], fun _ _ _ => c⟩)
        | .array cs =>
            if s.srows.isEmpty && !cs.isEmpty then .ok (.grow name cs)
            else if cs.length ≠ s.srows.length then .error .value
            else .ok (.act ⟨allSel, [name], fun i _ _ => cs.getD i .nan⟩)
      else .ok (.pyattr name v)
  | .attrMap _ name f =>
      if props.contains name then
        if !s.scols.contains name then .error .key
        else if s.voidcols.contains name then .error .type
        else if !evalOk f allSel [name] 0 s.srows then .error .type
        else .ok (.act ⟨allSel, [name], fun _ _ old => f.evalD old⟩)
      else
        match s.pyattrs.lookup name with
        | none => .error .attr
        | some v => do .ok (.pyattr name (← pyArith f v))

/-! ### a chart and its live stackers -/

structure MapW where
  mcls : String
  lists : List TList
  stackers : List Stacker
  deriving DecidableEq, Repr

def lookupD {α} (tbl : List (String × α)) (k : String) (d : α) : α :=
  match tbl.lookup k with
  | some v => v
  | none => d

/-- `isinstance(list, ty)` through the generated MRO table -/
def isInst (cls ty : String) : Bool := (lookupD Generated.Stack.mro cls [cls]).contains ty

def inclOf : Option (List String) → TList → Bool
  | none, _ => true
  | some tys, l => tys.any (isInst l.cls)

def propsOf (mcls : String) : List String := lookupD Generated.Stack.stackerProps mcls Generated.Stack.baseProps

/-- the frame after the quirk: one row per array element -/
def growStacker (s : Stacker) (col : String) (cs : List Cell) : Stacker :=
  let scols := s.scols ++ [col].filter (fun c => !s.scols.contains c)
  { s with scols := scols, srows := cs.map (fun c => scols.map (fun k => (k, if k = col then c else Cell.nan))) }

/-- what a *failing* call leaves behind on the stacker's private copy (never on the lists): pandas creates the
missing columns of `loc[mask, [cols…]] = v` before it notices that the mask has the wrong length -/
def errEffect (s : Stacker) : Op → Stacker
  | .locSet _ mask single cols _ =>
      if mask.length ≠ s.srows.length && !single then
        { s with scols := s.scols ++ cols.filter (fun c => !s.scols.contains c),
                 voidcols := s.voidcols ++ cols.filter (fun c => !s.scols.contains c) }
      else s
  | _ => s

def applyAction (w : MapW) (sid : Nat) (s : Stacker) (a : Action) : MapW :=
  let s' := assign s a
  { w with lists := writeBack s'.srows 0 w.lists s'.slots, stackers := w.stackers.set sid s' }

/-- one call; an exception leaves everything as it was -/
def step (w : MapW) (op : Op) : MapW × Option Err :=
  match op with
  | .stack incl =>
      match mkStacker (inclOf incl) w.lists with
      | .ok s => ({ w with stackers := w.stackers ++ [s] }, none)
      | .error e => (w, some e)
  | op =>
      match op.sid? with
      | none => (w, none)
      | some sid =>
        match w.stackers[sid]? with
        | none => (w, some .nostacker)
        | some s =>
          match resolve (propsOf w.mcls) s op with
          | .error e => ({ w with stackers := w.stackers.set sid (errEffect s op) }, some e)
          | .ok (.pyattr name v) =>
              ({ w with stackers := w.stackers.set sid { s with pyattrs := (name, v) :: s.pyattrs } }, none)
          | .ok (.act a) => (applyAction w sid s a, none)
          | .ok (.grow col cs) =>
              let s' := growStacker s col cs
              ({ w with lists := writeBack s'.srows 0 w.lists s'.slots, stackers := w.stackers.set sid s' }, none)

/-- a history; returns every intermediate state (lists after each call) with the exception raised, if any -/
def runTrace (w : MapW) : List Op → List (MapW × Option Err)
  | [] => []
  | op :: ops => let r := step w op; r :: runTrace r.1 ops

def run (w : MapW) : List Op → MapW
  | [] => w
  | op :: ops => run (step w op).1 ops

def errs (w : MapW) : List Op → List Bool
  | [] => []
  | op :: ops => (step w op).2.isSome :: errs (step w op).1 ops

/-! ### mapsets -/

/-- label alignment of `stacked[key] = series` for a series labelled `0 … len-1`: positions beyond it get NaN,
labels beyond the stack are dropped -/
def alignRow : Nat → List Cell → List Cell
  | 0, _ => []
  | n + 1, [] => .nan :: alignRow n []
  | n + 1, c :: cs => c :: alignRow n cs

structure SetW where
  scls : String
  maps : List MapW
  mstackers : List (List Nat)      -- a `MapSet.Stacker`: the index of its `Map.Stacker` in every chart
  msattrs : List (List String) := []   -- per mapset stacker: names set as plain Python attributes
  deriving DecidableEq, Repr

inductive SOp
  | stack                                                  -- ms.stack()
  | set (ms : Nat) (key : String) (rows : List (List Cell))  -- stack[key] = DataFrame(rows)
  | map (ms : Nat) (key : String) (f : Fn)                 -- stack[key] op= q
  | attrSet (ms : Nat) (name : String) (rows : List (List Cell))
  | attrMap (ms : Nat) (name : String) (f : Fn)
  deriving DecidableEq, Repr

def setPropsOf (scls : String) : List String :=
  lookupD Generated.Stack.mapsetStackerProps scls Generated.Stack.baseProps

/-- `[_.stack() for _ in self]` -/
def stackAll : List MapW → Except Err (List MapW × List Nat)
  | [] => .ok ([], [])
  | m :: ms =>
    match step m (.stack none) with
    | (_, some e) => .error e
    | (m', none) =>
      match stackAll ms with
      | .error e => .error e
      | .ok (ms', sids) => .ok (m' :: ms', m.stackers.length :: sids)

/-- `for s, i in zip(self.stackers, value.iloc): s[key] = i` -/
def setRows (key : String) : List MapW → List Nat → List (List Cell) → List MapW
  | m :: ms, sid :: sids, row :: rows =>
      let n := match m.stackers[sid]? with | some s => s.srows.length | none => 0
      (step m (.set sid key (.array (alignRow n row)))).1 :: setRows key ms sids rows
  | ms, _, _ => ms

/-- the getter `pd.DataFrame([i[item] for i in self.stackers])` raises KeyError when a chart's stack lacks the column;
the arithmetic raises TypeError on a string cell -/
def getErr (key : String) (f : Option Fn) : List MapW → List Nat → Option Err
  | m :: ms, sid :: sids =>
      match m.stackers[sid]? with
      | none => some .nostacker
      | some s =>
        if !s.scols.contains key then some .key
        else match getErr key f ms sids with
          | some e => some e
          | none =>
            match f with
            | some f => if !s.voidcols.contains key && evalOk f allSel [key] 0 s.srows then none else some .type
            | none => none
  | _, _ => none

def mapRows (key : String) (f : Fn) : List MapW → List Nat → List MapW
  | m :: ms, sid :: sids => (step m (.map sid key f)).1 :: mapRows key f ms sids
  | ms, _ => ms

def sstep (w : SetW) (op : SOp) : SetW × Option Err :=
  match op with
  | .stack =>
      match stackAll w.maps with
      | .error e => (w, some e)
      | .ok (ms, sids) => ({ w with maps := ms, mstackers := w.mstackers ++ [sids], msattrs := w.msattrs ++ [[]] }, none)
  | .set i key rows =>
      match w.mstackers[i]? with
      | none => (w, some .nostacker)
      | some sids => ({ w with maps := setRows key w.maps sids rows }, none)
  | .map i key f =>
      match w.mstackers[i]? with
      | none => (w, some .nostacker)
      | some sids =>
        match getErr key (some f) w.maps sids with
        | some e => (w, some e)
        | none => ({ w with maps := mapRows key f w.maps sids }, none)
  | .attrSet i name rows =>
      match w.mstackers[i]? with
      | none => (w, some .nostacker)
      | some sids =>
        if (setPropsOf w.scls).contains name then ({ w with maps := setRows name w.maps sids rows }, none)
        else ({ w with msattrs := w.msattrs.set i (name :: w.msattrs.getD i []) }, none)
  | .attrMap i name f =>
      match w.mstackers[i]? with
      | none => (w, some .nostacker)
      | some sids =>
        if (setPropsOf w.scls).contains name then
          match getErr name (some f) w.maps sids with
          | some e => (w, some e)
          | none => ({ w with maps := mapRows name f w.maps sids }, none)
        else if (w.msattrs.getD i []).contains name then (w, none)   -- arithmetic on the stored (numeric) frame
        else (w, some .attr)

def srunTrace (w : SetW) : List SOp → List (SetW × Option Err)
  | [] => []
  | op :: ops => let r := sstep w op; r :: srunTrace r.1 ops

def srun (w : SetW) : List SOp → SetW
  | [] => w
  | op :: ops => srun (sstep w op).1 ops

def serrs (w : SetW) : List SOp → List Bool
  | [] => []
  | op :: ops => (sstep w op).2.isSome :: serrs (sstep w op).1 ops

end Reamber.Stack
