/-
Executable model of reamberPy's pattern package, *as written*:

  reamber/algorithms/pattern/Pattern.py               (__init__ sort, from_note_lists, group, v_mask, h_mask)
  reamber/algorithms/pattern/combos/PtnCombo.py       (combinations: sliding chunks, chord filter, meshgrid, combo/type filter, make_size2)
  reamber/algorithms/pattern/combos/_PtnCChordStream.py, _PtnCJack.py   (the two templates, with their literal arguments)
  reamber/algorithms/pattern/filters/PtnFilter.py     (PtnFilterCombo/Chord/Type: filter + create with its options)

A note is a row `(column, offset, type)`; a numpy record array is a `List Row`; a boolean mask is a `List Bool`.
Offsets are exact rationals (the harness stays on the exactly-representable stream, DESIGN §3 (E)).
Modelled, not verified (tied by the correspondence check only): `bisect_left/right` (as "number of leading
elements </<= x" — equal to bisect on the sorted frames `Pattern` builds), `[cols_.index(i) for i in set(cols_)]`
(as "first occurrence of each column"), `np.meshgrid(..).T.reshape` (as the cartesian product, order dropped),
`np.unique(axis=0)` (as duplicate removal, order dropped), `itertools.permutations`.
Core Lean only: this file is linked into the driver.
-/

namespace Reamber.Pattern

inductive Err where
  | value     -- ValueError (negative window, minimum_length < 2, numpy broadcast failure)
  | index     -- IndexError
  | other
deriving Repr, DecidableEq, Inhabited

def Err.toString : Err → String
  | .value => "value" | .index => "index" | .other => "other"

/-- the classes that can appear in the `type` column / in a type filter (base classes + one game's subclasses) -/
inductive Ty where
  | object | note | hit | hold | holdTail | osuHit | osuHold
deriving Repr, DecidableEq, Inhabited

def Ty.all : List Ty := [.object, .note, .hit, .hold, .holdTail, .osuHit, .osuHold]

def Ty.name : Ty → String
  | .object => "object" | .note => "Note" | .hit => "Hit" | .hold => "Hold" | .holdTail => "HoldTail"
  | .osuHit => "OsuHit" | .osuHold => "OsuHold"

/-- the part of the method resolution order that lies inside `Ty.all` -/
def Ty.ancestors : Ty → List Ty
  | .object => [.object]
  | .note => [.note, .object]
  | .hit => [.hit, .note, .object]
  | .hold => [.hold, .note, .object]
  | .holdTail => [.holdTail, .note, .object]
  | .osuHit => [.osuHit, .hit, .note, .object]
  | .osuHold => [.osuHold, .hold, .note, .object]

/-- `issubclass(a, b)` -/
def isSub (a b : Ty) : Bool := a.ancestors.contains b

structure Row where
  col : Int
  off : Rat
  ty : Ty
deriving Repr, DecidableEq, Inhabited

/-! ### Pattern.__init__ / from_note_lists -/

/-- stable insertion sort (structural, kernel-evaluable); `le x y` = "x may precede y" -/
def insertBy {α} (le : α → α → Bool) (x : α) : List α → List α
  | [] => [x]
  | y :: ys => if le x y then x :: y :: ys else y :: insertBy le x ys

def isort {α} (le : α → α → Bool) (l : List α) : List α := l.foldr (insertBy le) []

def offLe (a b : Row) : Bool := decide (a.off ≤ b.off)

/-- `pd.DataFrame({...}).sort_values("offset", ignore_index=True)` — the model sorts stably; pandas' default
quicksort may order ties differently, so results are compared up to the order of ties and every theorem about
`group` quantifies over *any* sorted arrangement. -/
def mkPattern (rows : List Row) : List Row := isort offLe rows

/-- one note list: the class of its items and `(column, offset, length)` per item (`length` only read for holds) -/
structure NoteList where
  ty : Ty
  items : List (Int × Rat × Rat)
deriving Repr, Inhabited

/-- `Pattern.from_note_lists` before the sort: empty lists are skipped; per list first all heads, then (when
requested and the item class is a `Hold`) all tails at `offset + length` with class `HoldTail`. -/
def noteListRows (includeTails : Bool) (nl : NoteList) : List Row :=
  let heads := nl.items.map (fun it => (⟨it.1, it.2.1, nl.ty⟩ : Row))
  let tails := if includeTails && isSub nl.ty .hold then
      nl.items.map (fun it => (⟨it.1, it.2.1 + it.2.2, .holdTail⟩ : Row)) else []
  heads ++ tails

def fromNoteLists (nls : List NoteList) (includeTails : Bool) : List Row :=
  mkPattern ((nls.filter (fun nl => !nl.items.isEmpty)).flatMap (noteListRows includeTails))

/-! ### Pattern.group -/

/-- `mask[ixs] = True` for the first occurrence of every column of the window -/
def firstOcc : List Int → List Int → List Bool
  | _, [] => []
  | seen, c :: t => (!seen.contains c) :: firstOcc (c :: seen) t

/-- `Pattern.v_mask(ar, offset, v_window, avoid_jack)` -/
def vMask (ar : List Row) (offset v : Rat) (aj : Bool) : List Bool :=
  let pLt : Row → Bool := fun r => decide (r.off < offset)
  let pLe : Row → Bool := fun r => decide (r.off ≤ offset + v)
  let pre := ar.takeWhile pLt                 -- start = bisect_left(offsets, offset)
  let rest := ar.dropWhile pLt
  let win := rest.takeWhile pLe               -- end = bisect_right(offsets, offset + v_window, lo=start)
  let post := rest.dropWhile pLe
  List.replicate pre.length false
    ++ (if aj then firstOcc [] (win.map (·.col)) else List.replicate win.length true)
    ++ List.replicate post.length false

/-- `Pattern.h_mask(ar, column, h_window)` -/
def hMask (ar : List Row) (col : Int) (h : Int) : List Bool :=
  ar.map (fun r => decide (((col - r.col).natAbs : Int) ≤ h))

/-- `ar[mask]` -/
def select {α} : List α → List Bool → List α
  | a :: t, b :: m => if b then a :: select t m else select t m
  | _, _ => []

/-- `ar[~is_grouped]` -/
def ungrouped (st : List (Row × Bool)) : List Row := (st.filter (fun p => !p.2)).map (·.1)

/-- `is_grouped[~is_grouped] |= mask` -/
def scatter : List (Row × Bool) → List Bool → List (Row × Bool)
  | [], _ => []
  | (r, true) :: t, m => (r, true) :: scatter t m
  | (r, false) :: t, b :: m => (r, b) :: scatter t m
  | (r, false) :: t, [] => (r, false) :: scatter t []

def groupMask (U : List Row) (r : Row) (v : Rat) (h : Option Int) (aj : Bool) : List Bool :=
  let m0 := vMask U r.off v aj
  match h with
  | none => m0
  | some hw => List.zipWith (fun a b => a && b) m0 (hMask U r.col hw)     -- mask &= h_mask

/-- the `for ix, col, offset, *_ in self.df.itertuples()` loop; `st` = rows with their `is_grouped` flag -/
def groupLoop (v : Rat) (h : Option Int) (aj : Bool) : List (Row × Bool) → Nat → Nat → List (List Row)
  | _, _, 0 => []
  | st, ix, fuel + 1 =>
    match st[ix]? with
    | none => []
    | some (_, true) => groupLoop v h aj st (ix + 1) fuel          -- `continue`
    | some (r, false) =>
      let U := ungrouped st
      let m := groupMask U r v h aj
      select U m :: groupLoop v h aj (scatter st m) (ix + 1) fuel

/-- `Pattern.group(v_window, h_window, avoid_jack)` on the (sorted) frame `rows` -/
def group (rows : List Row) (v : Rat) (h : Option Int) (aj : Bool) : Except Err (List (List Row)) :=
  if v < 0 then .error .value else
  if (match h with | some hw => decide (hw < 0) | none => false) then .error .value else
  .ok (groupLoop v h aj (rows.map (fun r => (r, false))) 0 rows.length)

/-! ### filters -/

/-- all ways to insert `x` into a list -/
def inserts {α} (x : α) : List α → List (List α)
  | [] => [[x]]
  | y :: ys => (x :: y :: ys) :: (inserts x ys).map (y :: ·)

/-- `itertools.permutations(l)` (as a set; one entry per index permutation) -/
def perms {α} : List α → List (List α)
  | [] => [[]]
  | x :: xs => (perms xs).flatMap (inserts x)

/-- cartesian product — `np.asarray(np.meshgrid(*ls)).T.reshape(-1, len(ls))` up to row order -/
def product {α} : List (List α) → List (List α)
  | [] => [[]]
  | l :: ls => l.flatMap (fun a => (product ls).map (a :: ·))

def lmin : List Int → Int
  | [] => 0
  | a :: t => t.foldl min a
def lmax : List Int → Int
  | [] => 0
  | a :: t => t.foldl max a

/-- `np.arange(n)` -/
def arange (n : Int) : List Int := (List.range n.toNat).map Int.ofNat
/-- `list(range(a, b + 1))` -/
def rangeIncl (a b : Int) : List Int := (arange (b + 1 - a)).map (a + ·)

/-- `np.min(rows, axis=0)` / `np.max(rows, axis=0)` for rows of width `w` -/
def colMin (w : Nat) (rows : List (List Int)) : List Int := (List.range w).map (fun j => lmin (rows.map (·.getD j 0)))
def colMax (w : Nat) (rows : List (List Int)) : List Int := (List.range w).map (fun j => lmax (rows.map (·.getD j 0)))

def hasBit (opts bit : Nat) : Bool := opts &&& bit != 0

/-- `PtnFilterCombo.Option` / `PtnFilterChord.Option` / `PtnFilterType.Option` bit values -/
def optRepeat : Nat := 1
def optHMirror : Nat := 2
def optVMirror : Nat := 4
def optAnyOrder : Nat := 1
def optAndLower : Nat := 2
def optAndHigher : Nat := 4
def optTypeAnyOrder : Nat := 1
def optTypeMirror : Nat := 2

structure ComboFilter where
  ar : List (List Int)
  keys : Int
  invert : Bool
deriving Repr, Inhabited

/-- `np.sum(row * keys ** np.arange(n - 1, -1, -1))` -/
def hashCols (keys : Int) (l : List Int) : Int := l.foldl (fun acc c => acc * keys + c) 0

/-- `PtnFilterCombo.filter` on one row of columns -/
def ComboFilter.filter (f : ComboFilter) (data : List Int) : Bool :=
  let hit := (f.ar.map (hashCols f.keys)).contains (hashCols f.keys data)
  if f.invert then !hit else hit

/-- the REPEAT expansion of one base combo: `ar_combo + (np.arange(freedom) - minimum)[..., np.newaxis]` -/
def repeatExpand (keys : Int) (c : List Int) : List (List Int) :=
  let mn := lmin c
  let mx := lmax c
  let freedom := keys - mx + mn
  (arange freedom).map (fun d => c.map (· + (d - mn)))

def comboCreateAr (combos : List (List Int)) (keys : Int) (opts : Nat) : List (List Int) :=
  let a0 := if opts &&& optRepeat == optRepeat then combos.flatMap (repeatExpand keys) else combos
  let a1 := if hasBit opts optHMirror then a0 ++ a0.map (fun r => r.map (fun x => (keys - 1) - x)) else a0
  let a2 := if hasBit opts optVMirror then a1 ++ a1.map List.reverse else a1
  a2.eraseDups

/-- `PtnFilterCombo.create(combos, keys, options, exclude)` -/
def comboCreate (combos : List (List Int)) (keys : Int) (opts : Nat) (exclude : Bool) : ComboFilter :=
  ⟨comboCreateAr combos keys opts, keys, exclude⟩

structure ChordFilter where
  ar : List (List Int)
  invert : Bool
deriving Repr, Inhabited

/-- `PtnFilterChord.filter` (after the D20 repair): `any(all(self.ar == data, axis=-1))` — a whole row matches -/
def ChordFilter.filter (f : ChordFilter) (sizes : List Int) : Bool :=
  let hit := f.ar.any (fun r => r == sizes)
  if f.invert then !hit else hit

/-- what `data in self.ar` computed before the repair (numpy: `(self.ar == data).any()`, element-wise) — kept for
the counterexample theorem of D20 -/
def chordFilterElementwise (f : ChordFilter) (sizes : List Int) : Bool :=
  let hit := f.ar.any (fun r => (r.zip sizes).any (fun p => p.1 == p.2))
  if f.invert then !hit else hit

def chordCreateAr (sizes : List (List Int)) (keys : Int) (opts : Nat) : List (List Int) :=
  let w := (sizes.headD []).length
  let s1 := if hasBit opts optAndHigher then
      sizes ++ product ((colMin w sizes).map (fun i => rangeIncl i keys)) else sizes
  let s2 := if hasBit opts optAndLower then
      s1 ++ product ((colMax w s1).map (fun i => rangeIncl 1 i)) else s1
  let s3 := if hasBit opts optAnyOrder then s2.flatMap perms else s2
  s3.eraseDups

/-- `PtnFilterChord.create(chord_sizes, keys, options, exclude)` -/
def chordCreate (sizes : List (List Int)) (keys : Int) (opts : Nat) (exclude : Bool) : ChordFilter :=
  ⟨chordCreateAr sizes keys opts, exclude⟩

structure TypeFilter where
  ar : List (List Ty)
  invert : Bool
deriving Repr, Inhabited

/-- row-wise `issubclass` of every position (`for ix, cls in enumerate(type_filter)`) -/
def typeRowMatch : List Ty → List Ty → Bool
  | _, [] => true
  | [], _ :: _ => false            -- the code indexes `data[:, ix]` past the end: IndexError; outside the domain
  | d :: ds, c :: cs => isSub d c && typeRowMatch ds cs

/-- `PtnFilterType.filter` on one row of types -/
def TypeFilter.filter (f : TypeFilter) (tys : List Ty) : Bool :=
  let hit := f.ar.any (fun tf => typeRowMatch tys tf)
  if f.invert then !hit else hit

def typeCreateAr (types : List (List Ty)) (opts : Nat) : List (List Ty) :=
  let t1 := if hasBit opts optTypeAnyOrder then types.flatMap perms
            else if hasBit opts optTypeMirror then types ++ types.map List.reverse
            else types
  t1.eraseDups

/-- `PtnFilterType.create(types, options, exclude)` -/
def typeCreate (types : List (List Ty)) (opts : Nat) (exclude : Bool) : TypeFilter :=
  ⟨typeCreateAr types opts, exclude⟩

/-! ### PtnCombo.combinations -/

/-- the three optional callables of `combinations` -/
structure Filters where
  chord : Option (List Int → Bool) := none
  combo : Option (List Int → Bool) := none
  type : Option (List Ty → Bool) := none

/-- `self.groups[i:j] for i, j in zip(range(0, G - size + 1), range(size, G + 1))` -/
def windowsOf {α} (n : Nat) (gs : List α) : List (List α) :=
  (List.range (gs.length + 1 - n)).map (fun i => (gs.drop i).take n)

def chordOk (F : Filters) (chunk : List (List Row)) : Bool :=
  match F.chord with
  | none => true
  | some f => f (chunk.map (fun g => (g.length : Int)))

def comboOk (F : Filters) (s : List Row) : Bool :=
  match F.combo with
  | none => true
  | some f => f (s.map (·.col))

def typeOk (F : Filters) (s : List Row) : Bool :=
  match F.type with
  | none => true
  | some f => f (s.map (·.ty))

/-- `PtnCombo(groups).combinations(size, make_size2=False, …)`: one list of sequences per accepted chunk,
empty results dropped -/
def combinations (gs : List (List Row)) (size : Nat) (F : Filters) : List (List (List Row)) :=
  let chunks := (windowsOf size gs).filter (chordOk F)
  let combos := chunks.map (fun ch => ((product ch).filter (comboOk F)).filter (typeOk F))
  combos.filter (fun c => !c.isEmpty)

/-- adjacent pairs of one sequence -/
def adjPairs {α} : List α → List (List α)
  | a :: b :: t => [a, b] :: adjPairs (b :: t)
  | _ => []

/-- `make_size2=True`: `sliding_window_view(ar, [ar.shape[0], 2]).reshape(-1, 2)` per chunk (up to row order) -/
def foldSize2 (cs : List (List (List Row))) : List (List (List Row)) := cs.map (fun c => c.flatMap adjPairs)

/-- the three filter objects `template_chord_stream(primary, secondary, keys, and_lower, include_jack)` builds — note
the precedence of the conditional expression in the source: `ANY_ORDER | AND_LOWER if and_lower else 0` is
`(ANY_ORDER | AND_LOWER) if and_lower else 0`, so without `and_lower` the chord filter is the single row
`[primary, secondary]` (a jump followed by a single, but not a single followed by a jump). -/
def chordStreamFilters (primary secondary keys : Int) (andLower includeJack : Bool) :
    ChordFilter × Option ComboFilter × TypeFilter :=
  (chordCreate [[primary, secondary]] keys (if andLower then optAnyOrder ||| optAndLower else 0) false,
   if includeJack then none else some (comboCreate [[0, 0]] keys optRepeat true),
   typeCreate [[.holdTail, .object]] optTypeAnyOrder true)

def templateChordStream (gs : List (List Row)) (primary secondary keys : Int) (andLower includeJack : Bool) :
    List (List (List Row)) :=
  let fs := chordStreamFilters primary secondary keys andLower includeJack
  foldSize2 (combinations gs 2
    { chord := some fs.1.filter, combo := fs.2.1.map (fun f => f.filter), type := some fs.2.2.filter })

/-- the two filter objects `template_jacks(minimum_length, keys)` builds -/
def jackFilters (minLen : Nat) (keys : Int) : ComboFilter × TypeFilter :=
  (comboCreate [List.replicate minLen 0] keys optRepeat false,
   typeCreate [Ty.holdTail :: List.replicate (minLen - 1) Ty.object] optTypeAnyOrder true)

/-- `template_jacks(minimum_length, keys)` -/
def templateJacks (gs : List (List Row)) (minLen : Nat) (keys : Int) : Except Err (List (List (List Row))) :=
  if minLen < 2 then .error .value else
  let fs := jackFilters minLen keys
  .ok (foldSize2 (combinations gs minLen { combo := some fs.1.filter, type := some fs.2.filter }))

end Reamber.Pattern
