/-
Executable model of `reamber/algorithms/osu/hitsound_copy.py` (as it is now in the source, i.e. after the
D19a/D19b/D19c repairs), of `OsuMap.reset_samples` and of the parts of pandas it uses, over lists of rows.

  * a chart is (hits, holds, event samples); a note row carries the osu sound fields;
  * file names are lists of code points (`File`); the names of a volume group are aggregated as a list
    (`"hitsound_file": list`) — the `";".join` / `.split(";")` of the code before D19c survives only in the
    hand-written variant `copyWithJoin` at the end of this file, kept for the counterexample;
  * `sort_values("offset")` is numpy's quicksort — not stable for > 16 rows — so the model is parameterised by
    the sorting permutations `σs` (source rows) and `σt` (target rows) that pandas chose; the theorems hold
    for every permutation;
  * the writes `df.at[slot_indexes[slot], …] = …` are modelled as a log of (row index, payload) pairs that is
    applied in order (the slot indexes are computed from `df_to_offsets`, which no write changes).

Core Lean only (linked into the driver).
-/
import Reamber.Model.Timing

namespace Reamber.Hitsound

open Reamber.Timing (gather isort)

/-- a file name as code points -/
abbrev File := List Nat

/-- `HS_CLAP`, `HS_FINISH`, `HS_WHISTLE` (locals of `hitsound_copy`) -/
def hsClap : Nat := 2
def hsFinish : Nat := 4
def hsWhistle : Nat := 8
/-- `;` — the separator of `";".join` / `.split(";")` in the code before the D19c repair (variant below) -/
def sep : Nat := 59
/-- what `reset_samples` writes: `OsuSampleSet.AUTO`, `custom_set=0`, `hitsound_file=""` -/
def resetSet : Int := 0
def resetCustom : Int := 0
def resetFile : File := []

structure Note where
  offset : Rat
  column : Int
  /-- `none` = NaN / no `length` column (a hit row after `pd.concat`) -/
  length : Option Rat
  hs : Nat
  sampleSet : Int
  additionSet : Int
  customSet : Int
  volume : Int
  file : File
deriving DecidableEq, Repr, Inhabited

/-- an event sample (`OsuSample`) -/
structure Ev where
  offset : Rat
  file : File
  volume : Int
deriving DecidableEq, Repr, Inhabited

structure Chart where
  hits : List Note
  holds : List Note
  samples : List Ev
deriving DecidableEq, Repr, Inhabited

/-- `hs & m == m` -/
def hasBit (hs m : Nat) : Bool := hs &&& m == m

/-- `pd.concat([hits.df, holds.df])`: hit rows have no `length` (NaN) -/
def concatNotes (c : Chart) : List Note := c.hits.map (fun n => { n with length := none }) ++ c.holds

/-- the row filter on the source frame -/
def active (n : Note) : Bool :=
  n.additionSet != 0 || n.customSet != 0 || n.hs != 0 || n.sampleSet != 0 || n.file != []

/-- a source row after the bit split (`np.where(hs & M == M, M, 0)`) -/
structure SRow where
  offset : Rat
  volume : Int
  file : File
  clap : Nat
  fin : Nat
  whi : Nat
deriving DecidableEq, Repr, Inhabited

def toSRow (n : Note) : SRow :=
  ⟨n.offset, n.volume, n.file,
   if hasBit n.hs hsClap then hsClap else 0,
   if hasBit n.hs hsFinish then hsFinish else 0,
   if hasBit n.hs hsWhistle then hsWhistle else 0⟩

/-- `df_src` after filter, `sort_values("offset")` (permutation `σ`) and the bit split -/
def srcRows (σ : List Nat) (src : Chart) : List SRow :=
  (gather ((concatNotes src).filter active) σ).map toSRow

/-- `OsuMap.reset_samples()` -/
def resetNote (n : Note) : Note :=
  { n with hs := resetSet.toNat, sampleSet := resetSet, additionSet := resetSet, customSet := resetCustom,
           file := resetFile }

def resetSamples (c : Chart) : Chart :=
  { hits := c.hits.map resetNote, holds := c.holds.map resetNote, samples := [] }

/-! ### group keys (`groupby` sorts the distinct keys ascending) -/

def dedup {α} [DecidableEq α] : List α → List α
  | [] => []
  | x :: xs => x :: (dedup xs).filter (fun y => y ≠ x)

def keysRat (xs : List Rat) : List Rat := isort (fun a b => decide (a ≤ b)) (dedup xs)
def keysInt (xs : List Int) : List Int := isort (fun a b => decide (a ≤ b)) (dedup xs)

/-! ### `";".join` and `.split(";")` — only used by the pre-D19c variant `copyWithJoin` -/

def joinSep (s : Nat) : List File → File
  | [] => []
  | [p] => p
  | p :: q :: ps => p ++ s :: joinSep s (q :: ps)

def splitSep (s : Nat) : File → List File
  | [] => [[]]
  | c :: cs =>
    if c = s then [] :: splitSep s cs
    else match splitSep s cs with
      | [] => [[c]]
      | p :: ps => (c :: p) :: ps

/-! ### the volume groups of one offset group (`groupby("volume").agg(list, sum, sum, sum)`) -/

structure VGroup where
  volume : Int
  /-- `"hitsound_file": list` — the names of the group's rows, in row order -/
  names : List File
  clapSum : Nat
  finSum : Nat
  whiSum : Nat
deriving Repr

def mkVGroup (rows : List SRow) (v : Int) : VGroup :=
  let g := rows.filter (fun r => r.volume == v)
  ⟨v, g.map (·.file), (g.map (·.clap)).sum, (g.map (·.fin)).sum, (g.map (·.whi)).sum⟩

def volGroups (rows : List SRow) : List VGroup :=
  (keysInt (rows.map (·.volume))).map (mkVGroup rows)

/-! ### the two slot loops -/

inductive Payload where
  | dflt (val : Nat) (vol : Int)
  | file (f : File) (vol : Int)
deriving DecidableEq, Repr

/-- `volume if volume > 0 else 0` -/
def clampVol (v : Int) : Int := if v > 0 then v else 0

def applyP : Payload → Note → Note
  | .dflt val vol, n => { n with hs := val, volume := clampVol vol }
  | .file f vol, n => { n with file := f, volume := clampVol vol }

/-- the value slotted in one iteration: `val = 0; if claps: val += 2; …` -/
def slotVal (c f w : Nat) : Nat :=
  (if c ≠ 0 then hsClap else 0) + (if f ≠ 0 then hsFinish else 0) + (if w ≠ 0 then hsWhistle else 0)

/-- `for _ in range(samples): if slot == slot_max: break; …` — the remaining slot indexes are threaded;
returns the writes and the slots that are left -/
def defaultsLoop (vol : Int) : Nat → Nat → Nat → Nat → List Nat → List (Nat × Payload) × List Nat
  | 0, _, _, _, slots => ([], slots)
  | _ + 1, _, _, _, [] => ([], [])
  | n + 1, c, f, w, i :: rest =>
    let r := defaultsLoop vol n (c - 1) (f - 1) (w - 1) rest
    ((i, .dflt (slotVal c f w) vol) :: r.1, r.2)

/-- `for file in hitsound_files: if slot == slot_max: samples.append(…); continue; …` -/
def filesLoop (t : Rat) (vol : Int) : List File → List Nat → List (Nat × Payload) × List Ev × List Nat
  | [], slots => ([], [], slots)
  | f :: fs, [] =>
    let r := filesLoop t vol fs []
    (r.1, ⟨t, f, vol⟩ :: r.2.1, r.2.2)
  | f :: fs, i :: rest =>
    let r := filesLoop t vol fs rest
    ((i, .file f vol) :: r.1, r.2.1, r.2.2)

/-- `[file for file in v_group["hitsound_file"] if len(file) > 0]` -/
def groupFiles (g : VGroup) : List File := g.names.filter (fun f => f.length > 0)

/-- one iteration of `for _, v_group in v_groups.iterrows()` -/
def groupStep (t : Rat) (g : VGroup) (slots : List Nat) : List (Nat × Payload) × List Ev × List Nat :=
  let claps := g.clapSum / hsClap
  let finishes := g.finSum / hsFinish
  let whistles := g.whiSum / hsWhistle
  let samples := max claps (max finishes whistles)
  let d := defaultsLoop g.volume samples claps finishes whistles slots
  let f := filesLoop t g.volume (groupFiles g) d.2
  (d.1 ++ f.1, f.2.1, f.2.2)

def groupsLoop (t : Rat) : List VGroup → List Nat → List (Nat × Payload) × List Ev
  | [], _ => ([], [])
  | g :: gs, slots =>
    let a := groupStep t g slots
    let b := groupsLoop t gs a.2.2
    (a.1 ++ b.1, a.2.1 ++ b.2)

/-- `list((df_to_offsets == offset)[df_to_offsets == offset].index)`, counted from `b` -/
def slotsFrom (b : Nat) (t : Rat) : List Rat → List Nat
  | [] => []
  | o :: os => if o = t then b :: slotsFrom (b + 1) t os else slotsFrom (b + 1) t os

def modifyAt {α} (f : α → α) : Nat → List α → List α
  | _, [] => []
  | 0, x :: xs => f x :: xs
  | n + 1, x :: xs => x :: modifyAt f n xs

/-- the `df.at[i, …] = …` writes, in order -/
def applyWrites (df : List Note) (ws : List (Nat × Payload)) : List Note :=
  ws.foldl (fun d w => modifyAt (applyP w.2) w.1 d) df

/-- the body of `for offset, offset_group in df_src` -/
def keyStep (rows : List SRow) (offs : List Rat) (t : Rat) : List (Nat × Payload) × List Ev :=
  groupsLoop t (volGroups (rows.filter (fun r => r.offset == t))) (slotsFrom 0 t offs)

def keysLoop (rows : List SRow) (offs : List Rat) : List Rat → List Note × List Ev → List Note × List Ev
  | [], st => st
  | t :: ts, st =>
    let r := keyStep rows offs t
    keysLoop rows offs ts (applyWrites st.1 r.1, st.2 ++ r.2)

/-- `hitsound_copy(osu_src, osu_tgt)` with the sorting permutations pandas chose -/
def copyWith (σs σt : List Nat) (src tgt : Chart) : Chart :=
  let rows := srcRows σs src
  let df0 := gather (concatNotes (resetSamples tgt)) σt
  let offs := df0.map (·.offset)
  let r := keysLoop rows offs (keysRat (rows.map (·.offset))) (df0, [])
  { hits := (r.1.filter (fun n => n.length.isNone)),
    holds := r.1.filter (fun n => n.length.isSome),
    samples := r.2 }

/-- a stable `argsort` (what `kind="stable"` would give; numpy's quicksort agrees up to 16 rows) -/
def stableArgsort (xs : List Rat) : List Nat :=
  isort (fun i j => decide (xs.getD i 0 ≤ xs.getD j 0)) (List.range xs.length)

def copy (src tgt : Chart) : Chart :=
  copyWith (stableArgsort (((concatNotes src).filter active).map (·.offset)))
           (stableArgsort ((concatNotes tgt).map (·.offset))) src tgt

/-! ### the code before the D19c repair, hand-written: names joined with `;` and split again

Only the aggregation differs; everything else is shared with the model above. Kept so that
`semicolon_counterexample` can state what the repaired code no longer does. -/

/-- `";".join` per group, then `.split(";")`: what `v_group["hitsound_file"]` used to be iterated as -/
def joinSplit (g : VGroup) : VGroup := { g with names := splitSep sep (joinSep sep g.names) }

def keyStepJoin (rows : List SRow) (offs : List Rat) (t : Rat) : List (Nat × Payload) × List Ev :=
  groupsLoop t ((volGroups (rows.filter (fun r => r.offset == t))).map joinSplit) (slotsFrom 0 t offs)

def keysLoopJoin (rows : List SRow) (offs : List Rat) : List Rat → List Note × List Ev → List Note × List Ev
  | [], st => st
  | t :: ts, st =>
    let r := keyStepJoin rows offs t
    keysLoopJoin rows offs ts (applyWrites st.1 r.1, st.2 ++ r.2)

def copyWithJoin (σs σt : List Nat) (src tgt : Chart) : Chart :=
  let rows := srcRows σs src
  let df0 := gather (concatNotes (resetSamples tgt)) σt
  let offs := df0.map (·.offset)
  let r := keysLoopJoin rows offs (keysRat (rows.map (·.offset))) (df0, [])
  { hits := (r.1.filter (fun n => n.length.isNone)),
    holds := r.1.filter (fun n => n.length.isSome),
    samples := r.2 }

def copyJoin (src tgt : Chart) : Chart :=
  copyWithJoin (stableArgsort (((concatNotes src).filter active).map (·.offset)))
               (stableArgsort ((concatNotes tgt).map (·.offset))) src tgt

end Reamber.Hitsound
