/-
C06 — executable model of reamberPy's Quaver reader / writer, *as written*:

  reamber/quaver/QuaMap.py                    (read: section pop order, _read_notes split, _read_bpms, _read_svs; write)
  reamber/quaver/QuaMapMeta.py                (_read_metadata, _write_meta, dataclass defaults)
  reamber/quaver/lists/notes/QuaHitList.py    (from_yaml / to_yaml: the pandas steps, column-wise, NaN = `none`)
  reamber/quaver/lists/notes/QuaHoldList.py   (from_yaml / to_yaml)
  reamber/quaver/lists/QuaBpmList.py, QuaSvList.py  (to_yaml)
  reamber/quaver/QuaBpm.py, QuaSv.py, base/Bpm.py   (item constructors used by _read_bpms / _read_svs: metronome = 4)

The model starts at the *parsed YAML document* (PyYAML is trusted): a mapping whose values are scalars, opaque
lists, and three sections of records.  Numbers are exact rationals; a pandas NaN cell is `none` / `.nan`.
Python exceptions are the `Err` enum.  Core Lean only (linked into the driver).
-/

namespace Reamber.Qua

inductive Err where
  | key      -- KeyError: a section is missing (`file.pop("HitObjects")`)
  | attr     -- AttributeError: `df.column` when no hit object of the list declares `Lane`
  | type     -- a value of a kind the code cannot process (outside the modelled domain)
  | other
deriving Repr, DecidableEq, Inhabited

def Err.toString : Err → String
  | .key => "key" | .attr => "attr" | .type => "type" | .other => "other"

/-- `[f x for x in l]` where `f` may raise: the first failure wins -/
def mapE {α β} (f : α → Except Err β) : List α → Except Err (List β)
  | [] => .ok []
  | a :: t => do
    let b ← f a
    let r ← mapE f t
    .ok (b :: r)

/-- one key sound `{Sample: s, Volume: v}`; opaque to the code (object column) -/
structure KS where
  sample : Int
  volume : Int
deriving Repr, DecidableEq, Inhabited

/-- a value of the parsed YAML document (only the kinds a .qua uses) -/
inductive YV where
  | nan                       -- `.nan`
  | bool (b : Bool)
  | int (i : Int)
  | flt (q : Rat)
  | str (s : String)
  | ks (l : List KS)          -- a `KeySounds` list
  | strs (l : List String)    -- an opaque list (EditorLayers, CustomAudioSamples, SoundEffects; in memory: tags)
deriving Repr, DecidableEq, Inhabited

/-- a YAML mapping / Python dict (the harness never sends duplicate keys) -/
abbrev Rec := List (String × YV)

def Rec.get (r : Rec) (k : String) : Option YV := List.lookup k r

structure Doc where
  info : Rec                         -- every top-level key except the three sections
  hitObjects : Option (List Rec)     -- `none` = key absent
  timingPoints : Option (List Rec)
  sliderVelocities : Option (List Rec)
deriving Repr, DecidableEq

/-! ### in-memory chart (rows with exactly the declared fields) -/

/-- a cell of the `keysounds` object column -/
inductive KsCell where
  | nan
  | list (l : List KS)
deriving Repr, DecidableEq, Inhabited

structure Hit where
  offset : Rat
  column : Int
  keysounds : KsCell
deriving Repr, DecidableEq

structure Hold where
  offset : Rat
  column : Int
  length : Rat
  keysounds : KsCell
deriving Repr, DecidableEq

structure Bpm where
  offset : Rat
  bpm : Rat
  metronome : Rat
deriving Repr, DecidableEq

structure Sv where
  offset : Rat
  multiplier : Rat
deriving Repr, DecidableEq

structure Chart where
  info : Rec            -- keyed by the YAML key of each attribute, in `_write_meta` order; `Tags` holds `.strs`
  hits : List Hit
  holds : List Hold
  bpms : List Bpm
  svs : List Sv
deriving Repr, DecidableEq

/-! ### constants of the source (tied to /repo by `Generated/QuaTables.lean` + `consts_tie`) -/

/-- `QuaMapMeta`: YAML key and dataclass default of every attribute, in `_write_meta` order.
`tags` (a list in memory) is listed with its in-memory default. -/
def metaTable : Rec :=
  [("AudioFile", .str ""), ("SongPreviewTime", .int 0), ("BackgroundFile", .str ""), ("BannerFile", .str ""),
   ("Genre", .str ""), ("BPMDoesNotAffectScrollVelocity", .bool true), ("InitialScrollVelocity", .flt 1),
   ("HasScratchKey", .bool true), ("MapId", .int (-1)), ("MapSetId", .int (-1)), ("Mode", .str "Keys4"),
   ("Title", .str ""), ("Artist", .str ""), ("Source", .str ""), ("Tags", .strs []), ("Creator", .str ""),
   ("DifficultyName", .str ""), ("Description", .str ""), ("EditorLayers", .strs []),
   ("CustomAudioSamples", .strs []), ("SoundEffects", .strs [])]

def metaKeys : List String := metaTable.map Prod.fst

def tagsKey : String := "Tags"
/-- `_read_bpms`: `b.get("StartTime", 0)`, `b.get("Bpm", 120)`; `Bpm.__init__(metronome=4)` -/
def dfltStart : Rat := 0
def dfltBpm : Rat := 120
def dfltMetronome : Rat := 4
/-- `_read_svs`: `sv.get("Multiplier", 1.0)` -/
def dfltMultiplier : Rat := 1
/-- `from_yaml`: `fillna(0)` on offset / column / length -/
def fillOffset : Rat := 0
def fillColumn : Rat := 0
def fillLength : Rat := 0
/-- `from_yaml`: `df.column -= 1`; `to_yaml`: `df.column += 1` -/
def laneShift : Int := 1

/-! ### tags: `[i for i in s.split(" ") if i]` and `" ".join(tags)` -/

/-- Python `s.split(" ")` on a list of characters: every single space separates -/
def splitSp : List Char → List (List Char)
  | [] => [[]]
  | c :: cs =>
    if c = ' ' then [] :: splitSp cs
    else match splitSp cs with
      | [] => [[c]]
      | w :: ws => (c :: w) :: ws

def joinSp : List (List Char) → List Char
  | [] => []
  | [w] => w
  | w :: w' :: ws => w ++ ' ' :: joinSp (w' :: ws)

def tagsOf (s : String) : List String :=
  ((splitSp s.toList).filter (fun w => !w.isEmpty)).map String.ofList

def joinTags (l : List String) : String := String.ofList (joinSp (l.map String.toList))

/-! ### reading -/

def numOf : YV → Except Err Rat
  | .int i => .ok (i : Rat)
  | .flt q => .ok q
  | _ => .error .type

/-- an optional numeric key: absent → NaN cell (`none`) -/
def numCell (r : Rec) (k : String) : Except Err (Option Rat) :=
  match r.get k with
  | none => .ok none
  | some v => (numOf v).map some

/-- the `KeySounds` cell of `pd.DataFrame(dicts)` / `reindex`: absent → NaN; a scalar stays a scalar, which the last
step of `from_yaml` treats like NaN (`isinstance(k, list)`); a list of something else is outside the domain -/
def ksCell (r : Rec) : Except Err KsCell :=
  match r.get "KeySounds" with
  | none => .ok .nan
  | some (.ks l) => .ok (.list l)
  | some (.strs _) => .error .type
  | some _ => .ok .nan

/-- `df.keysounds = [k if isinstance(k, list) else [] for k in df.keysounds]` (repair of D21) -/
def ksFill : KsCell → KsCell
  | .nan => .list []
  | k => k

/-- a row of the frame `pd.DataFrame(dicts)` builds from hit-object records (NaN = `none`) -/
structure NoteRow where
  start : Option Rat
  endT : Option Rat
  lane : Option Rat
  ks : KsCell
deriving Repr, DecidableEq

def noteRowOf (r : Rec) : Except Err NoteRow := do
  let s ← numCell r "StartTime"
  let e ← numCell r "EndTime"
  let l ← numCell r "Lane"
  let k ← ksCell r
  .ok ⟨s, e, l, k⟩

/-- NaN-propagating subtraction of two cells -/
def nanSub : Option Rat → Option Rat → Option Rat
  | some a, some b => some (a - b)
  | _, _ => none

/-- a column value that must be an integer (lane numbers) -/
def intOfRat (q : Rat) : Except Err Int := if q.den = 1 then .ok q.num else .error .type

/-- `QuaHitList.from_yaml` (called only for a non-empty list) -/
def hitsFromYaml (rs : List Rec) : Except Err (List Hit) := do
  let rows ← mapE noteRowOf rs                                              -- pd.DataFrame(dicts); rename
  if rows.all (fun r => r.lane.isNone) then .error .attr                     -- df.column: no such column
  else
    let rows := rows.map (fun r => { r with lane := r.lane.map (· - (laneShift : Rat)) })   -- df.column -= 1
    -- reindex adds the missing columns as NaN; fillna(0) on offset and column; non-list keysounds become []
    mapE (fun r => do
      let c ← intOfRat (r.lane.getD fillColumn)
      .ok (⟨r.start.getD fillOffset, c, ksFill r.ks⟩ : Hit)) rows

/-- `QuaHoldList.from_yaml` (called only for a non-empty list of records that all have `EndTime`) -/
def holdsFromYaml (rs : List Rec) : Except Err (List Hold) := do
  let rows ← mapE noteRowOf rs                                              -- pd.DataFrame(dicts)
  let rows := rows.map (fun r => { r with start := some (r.start.getD fillOffset) })   -- reindex + StartTime.fillna(0)
  let rows := rows.map (fun r => { r with endT := nanSub r.endT r.start })   -- df["EndTime"] -= df["StartTime"]
  if rows.all (fun r => r.lane.isNone) then .error .attr                     -- df.column: no such column
  else
    let rows := rows.map (fun r => { r with lane := r.lane.map (· - (laneShift : Rat)) })   -- df.column -= 1
    mapE (fun r => do
      let c ← intOfRat (r.lane.getD fillColumn)
      .ok (⟨r.start.getD fillOffset, c, r.endT.getD fillLength, ksFill r.ks⟩ : Hold)) rows

def hasEnd (r : Rec) : Bool := (r.get "EndTime").isSome

/-- `QuaMap._read_notes` -/
def readNotes (ns : List Rec) : Except Err (List Hit × List Hold) := do
  let hs := ns.filter (fun r => !hasEnd r)
  let ls := ns.filter hasEnd
  let hits ← if hs.isEmpty then .ok [] else hitsFromYaml hs
  let holds ← if ls.isEmpty then .ok [] else holdsFromYaml ls
  .ok (hits, holds)

/-- `QuaMap._read_bpms`: one `QuaBpm(offset=b.get("StartTime", 0), bpm=b.get("Bpm", 120))` per item -/
def readBpm (r : Rec) : Except Err Bpm := do
  let o ← numCell r "StartTime"
  let b ← numCell r "Bpm"
  .ok ⟨o.getD dfltStart, b.getD dfltBpm, dfltMetronome⟩

/-- `QuaMap._read_svs` -/
def readSv (r : Rec) : Except Err Sv := do
  let o ← numCell r "StartTime"
  let m ← numCell r "Multiplier"
  .ok ⟨o.getD dfltStart, m.getD dfltMultiplier⟩

/-- one attribute of `_read_metadata`: `d.get(key, self.attr)`; tags: `[i for i in d.get("Tags", "").split(" ") if i]` -/
def readMetaVal (d : Rec) (k : String) (dflt : YV) : Except Err YV :=
  if k = tagsKey then
    match d.get k with
    | none => .ok (.strs (tagsOf ""))
    | some (.str s) => .ok (.strs (tagsOf s))
    | some _ => .error .type
  else .ok ((d.get k).getD dflt)

def readMeta (d : Rec) : Except Err Rec :=
  mapE (fun kd => (readMetaVal d kd.1 kd.2).map (fun v => (kd.1, v))) metaTable

def sectionOf (s : Option (List Rec)) : Except Err (List Rec) :=
  match s with
  | none => .error .key
  | some l => .ok l

/-- `QuaMap.read` after `yaml.safe_load` -/
def read (d : Doc) : Except Err Chart := do
  let ho ← sectionOf d.hitObjects
  let (hits, holds) ← readNotes ho
  let tp ← sectionOf d.timingPoints
  let bpms ← mapE readBpm tp
  let sv ← sectionOf d.sliderVelocities
  let svs ← mapE readSv sv
  let m ← readMeta d.info
  .ok ⟨m, hits, holds, bpms, svs⟩

/-! ### writing -/

/-- `astype(int)` on a float column: truncation toward zero -/
def truncI (q : Rat) : Int := if 0 ≤ q then q.floor else -((-q).floor)

def ksYV : KsCell → YV
  | .nan => .nan
  | .list l => .ks l

/-- `QuaHitList.to_yaml`, one record -/
def writeHit (h : Hit) : Rec :=
  [("StartTime", .int (truncI h.offset)), ("Lane", .int (h.column + laneShift)), ("KeySounds", ksYV h.keysounds)]

/-- `QuaHoldList.to_yaml`, one record: `EndTime = int(offset + length)` -/
def writeHold (h : Hold) : Rec :=
  [("StartTime", .int (truncI h.offset)), ("Lane", .int (h.column + laneShift)), ("KeySounds", ksYV h.keysounds),
   ("EndTime", .int (truncI (h.offset + h.length)))]

/-- `QuaBpmList.to_yaml`: `metronome` is dropped -/
def writeBpm (b : Bpm) : Rec := [("StartTime", .int (truncI b.offset)), ("Bpm", .flt b.bpm)]

def writeSv (s : Sv) : Rec := [("StartTime", .int (truncI s.offset)), ("Multiplier", .flt s.multiplier)]

/-- one entry of `_write_meta`; tags: `" ".join(self.tags)` -/
def writeMetaVal (kv : String × YV) : Except Err (String × YV) :=
  if kv.1 = tagsKey then
    match kv.2 with
    | .strs l => .ok (kv.1, .str (joinTags l))
    | _ => .error .type
  else .ok kv

def writeMeta (m : Rec) : Except Err Rec := mapE writeMetaVal m

/-- `QuaMap.write` before `yaml.dump` -/
def write (c : Chart) : Except Err Doc := do
  let m ← writeMeta c.info
  .ok ⟨m, some (c.hits.map writeHit ++ c.holds.map writeHold), some (c.bpms.map writeBpm), some (c.svs.map writeSv)⟩

end Reamber.Qua
