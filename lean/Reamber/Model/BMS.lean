/-
Executable model of reamberPy's BMS reader and writer, *as written*:

  reamber/bms/BMSMap.py       (read: line classifier, _read_file_header, _read_notes;
                               write: _write_file_header, _write_notes)
  reamber/bms/BMSChannel.py   (the five layouts — through `Generated/BMSTables.lean`, regenerated from the source)
  reamber/bms/BMSMapMeta.py   (defaults)

on top of the timing kernel `Model/Timing.lean` (Snap arithmetic, cumulative offsets, the re-snapping
`TimingMap`, reseat, `find_lcm`).

Bytes are `List Char` with every char < 256 (the harness sends the shift_jis encoding of each line, one char per
byte); the codec itself is not modelled.  Numbers are exact rationals.  Python exceptions are the `Err` enum.
Core Lean only: this file is linked into the driver.

Not modelled (the model refuses with `Err.unsupported`, so no theorem is true of such input for the wrong
reason): channel-02 lines (time signatures — outside the quantifier of C04/C05), tempo values ≤ 0.
-/
import Reamber.Model.Timing
import Reamber.Generated.BMSTables

namespace Reamber.BMS

open Reamber.Timing

abbrev Bytes := List Char

inductive Err where
  | timing (e : Timing.Err)   -- ValueError / IndexError / ZeroDivisionError
  | key                       -- KeyError (no #BPM header, unknown #BPMxx id, column not in the layout)
  | lnTail                    -- Exception("Failed to match LN Tail on Column …")
  | assert                    -- AssertionError (writer: too many tempo points)
  | unsupported               -- outside the modelled domain (see the header of this file)
deriving Repr, DecidableEq, Inhabited

def Err.toString : Err → String
  | .timing e => e.toString
  | .key => "key"
  | .lnTail => "lntail"
  | .assert => "assert"
  | .unsupported => "unsupported"

def liftT {α} : Except Timing.Err α → Except Err α
  | .ok a => .ok a
  | .error e => .error (.timing e)

/-- sequential processing with the first failure winning (`for … : …` with exceptions) -/
def foldlE {σ α} (f : σ → α → Except Err σ) : σ → List α → Except Err σ
  | s, [] => .ok s
  | s, a :: t =>
    match f s a with
    | .error e => .error e
    | .ok s' => foldlE f s' t

/-! ### layouts (from the generated tables) -/

structure Layout where
  timeSig : Bytes
  bpmCh : Bytes
  exbpmCh : Bytes
  lanes : List (Bytes × Nat)
deriving Repr, DecidableEq

/-- `config_rev[role]` for `config_rev = {v: k for k, v in config.items()}`: the last channel with that role -/
def roleChannel (hdr : List (String × String)) (role : String) : Option Bytes :=
  (hdr.reverse.find? (fun p => p.2 = role)).map (fun p => p.1.toList)

def mkLayout (hdr : List (String × String)) (lanes : List (String × Nat)) : Option Layout := do
  let ts ← roleChannel hdr "TIME_SIG"
  let b ← roleChannel hdr "BPM_CHANGE"
  let e ← roleChannel hdr "EXBPM_CHANGE"
  some ⟨ts, b, e, lanes.map (fun p => (p.1.toList, p.2))⟩

def layoutOf (name : String) : Option Layout :=
  match Generated.BMS.layouts.find? (fun p => p.1 = name) with
  | some (_, (hdr, lanes)) => mkLayout hdr lanes
  | none => none

def maxKeys : Nat := Generated.BMS.maxKeys
/-- `DEFAULT_METRONOME` -/
def defMet : Rat := (Generated.BMS.defaultMetronome : Nat)

/-- `config[channel]` for a note channel -/
def laneOf (lay : Layout) (ch : Bytes) : Option Nat := (lay.lanes.find? (fun p => p.1 = ch)).map (·.2)
/-- `channel_map[column]` for `channel_map = {v: k for k, v in config.items()}`: the last channel of that column -/
def channelOf (lay : Layout) (col : Nat) : Option Bytes := (lay.lanes.reverse.find? (fun p => p.2 = col)).map (·.1)

/-! ### lexing -/

def isWs (c : Char) : Bool := c = ' ' || c = '\t' || c = '\n' || c = '\r' || c.toNat = 11 || c.toNat = 12
def isDigit (c : Char) : Bool := decide ('0' ≤ c) && decide (c ≤ '9')

def lstrip : Bytes → Bytes
  | [] => []
  | c :: t => if isWs c then lstrip t else c :: t

def strip (s : Bytes) : Bytes := (lstrip (lstrip s).reverse).reverse

/-- `bytes.split(b" ", 1)`: `(head, none)` when there is no space -/
def splitSpace1 : Bytes → Bytes × Option Bytes
  | [] => ([], none)
  | c :: t => if c = ' ' then ([], some t) else
    match splitSpace1 t with
    | (a, b) => (c :: a, b)

/-- `bytes.split(sep)` -/
def splitOnC (sep : Char) : Bytes → List Bytes
  | [] => [[]]
  | c :: t =>
    if c = sep then [] :: splitOnC sep t else
    match splitOnC sep t with
    | [] => [[c]]
    | h :: r => (c :: h) :: r

inductive Line where
  | header (k v : Bytes)
  | note (measure channel seq : Bytes)
  | skip
deriving Repr, DecidableEq

/-- the body of the `for line in lines` loop of `BMSMap.read` -/
def classify (raw : Bytes) : Except Err Line :=
  let line := strip raw
  match line with
  | '#' :: _ =>
    match splitSpace1 line with
    | (k, some v) => .ok (.header (k.drop 1) v)
    | (cmd, none) =>
      match cmd with
      | _ :: c1 :: _ =>
        if isDigit c1 then
          match splitOnC ':' cmd with
          | [command, data] => .ok (.note ((command.drop 1).take 3) ((command.drop 4).take 2) data)
          | _ => .error (.timing .value)      -- `command, data = ….split(b":")` does not unpack
        else .ok .skip
      | _ => .error (.timing .index)          -- `line_split[0][1]` on the one-byte line "#"
  | _ => .ok .skip

abbrev Dict (α : Type) := List (Bytes × α)

/-- `d[k] = v` on an insertion-ordered dict -/
def dictSet {α} (d : Dict α) (k : Bytes) (v : α) : Dict α :=
  if d.any (fun p => p.1 = k) then d.map (fun p => if p.1 = k then (k, v) else p) else d ++ [(k, v)]

def dictGet? {α} (d : Dict α) (k : Bytes) : Option α := (d.find? (fun p => p.1 = k)).map (·.2)

structure Doc where
  header : Dict Bytes
  notes : List (Bytes × Bytes × Bytes)     -- (measure, channel, sequence) in file order
deriving Repr

def docStep (d : Doc) (raw : Bytes) : Except Err Doc :=
  match classify raw with
  | .error e => .error e
  | .ok (.header k v) => .ok { d with header := dictSet d.header k v }
  | .ok (.note m c s) => .ok { d with notes := d.notes ++ [(m, c, s)] }
  | .ok .skip => .ok d

def parseDoc (lines : List Bytes) : Except Err Doc := foldlE docStep ⟨[], []⟩ lines

/-! ### numbers -/

def takeDigits : Bytes → List Nat × Bytes
  | [] => ([], [])
  | c :: t =>
    if isDigit c then
      match takeDigits t with
      | (d, r) => ((c.toNat - 48) :: d, r)
    else ([], c :: t)

def natOfDigits (ds : List Nat) : Nat := ds.foldl (fun a d => 10 * a + d) 0

/-- `float(bytes)` for plain decimal / exponent notation (exact value of the text; `inf`, `nan`, `_` are not modelled) -/
def parseFloat (s0 : Bytes) : Option Rat :=
  let s := strip s0
  let (neg, s) := match s with
    | '-' :: t => (true, t)
    | '+' :: t => (false, t)
    | _ => (false, s)
  let (ip, s1) := takeDigits s
  let (fp, s2) := match s1 with
    | '.' :: t => takeDigits t
    | _ => ([], s1)
  if ip.isEmpty && fp.isEmpty then none else
  let mant : Rat := ((natOfDigits (ip ++ fp) : Nat) : Rat) / ((10 ^ fp.length : Nat) : Rat)
  let expo : Option Int := match s2 with
    | [] => some 0
    | e :: t =>
      if e = 'e' || e = 'E' then
        let (eneg, t) := match t with
          | '-' :: u => (true, u)
          | '+' :: u => (false, u)
          | _ => (false, t)
        let (ed, r) := takeDigits t
        if ed.isEmpty || !r.isEmpty then none
        else some (if eneg then -((natOfDigits ed : Nat) : Int) else ((natOfDigits ed : Nat) : Int))
      else none
  expo.map fun ex =>
    let v : Rat := if ex ≥ 0 then mant * ((10 ^ ex.toNat : Nat) : Rat) else mant / ((10 ^ (-ex).toNat : Nat) : Rat)
    if neg then -v else v

/-- `int(bytes)` of a digit string -/
def parseNat (s : Bytes) : Option Nat :=
  if s.isEmpty || !s.all isDigit then none else some (natOfDigits (s.map (fun c => c.toNat - 48)))

def hexVal? (c : Char) : Option Nat :=
  if isDigit c then some (c.toNat - 48)
  else if 'a' ≤ c ∧ c ≤ 'f' then some (c.toNat - 87)
  else if 'A' ≤ c ∧ c ≤ 'F' then some (c.toNat - 55)
  else none

/-- `int(pair, 16)` for a two-character pair -/
def parseHex2 (p : Bytes) : Option Nat :=
  match p with
  | [a, b] => do
    let x ← hexVal? a
    let y ← hexVal? b
    some (16 * x + y)
  | [a] => hexVal? a
  | _ => none

def upper (c : Char) : Char := if 'a' ≤ c ∧ c ≤ 'z' then Char.ofNat (c.toNat - 32) else c

/-! ### _read_file_header -/

structure Header where
  title : Bytes             -- `data.get(b"TITLE", b"")`: empty bytes when the key is absent (D43)
  artist : Bytes
  version : Bytes
  lnEnd : Bytes             -- `data.get(b"LNOBJ", b"")`
  exbpms : Dict Rat
  samples : Dict Bytes
  bpm0 : Rat
  misc : Dict Bytes
deriving Repr

def isExbpmKey (k : Bytes) : Bool := (k.take 3).map upper = ['B', 'P', 'M'] && k.length = 5
def isWavKey (k : Bytes) : Bool := (k.take 3).map upper = ['W', 'A', 'V']

def exbpmStep (d : Dict Rat) (kv : Bytes × Bytes) : Except Err (Dict Rat) :=
  if isExbpmKey kv.1 then
    match parseFloat kv.2 with
    | none => .error (.timing .value)
    | some v => .ok (dictSet d (kv.1.drop 3) v)
  else .ok d

def readHeader (data : Dict Bytes) : Except Err Header := do
  let exbpms ← foldlE exbpmStep [] data
  let samples : Dict Bytes := data.foldl (fun d kv => if isWavKey kv.1 then dictSet d (kv.1.drop (kv.1.length - 2)) kv.2 else d) []
  let rest := data.filter (fun kv => !(isExbpmKey kv.1) && !(isWavKey kv.1))
  match dictGet? rest "BPM".toList with
  | none => .error .key
  | some v =>
    match parseFloat v with
    | none => .error (.timing .value)
    | some bpm0 =>
      .ok { title := (dictGet? data "TITLE".toList).getD Generated.BMS.missingHeaderDefault.toList,
            artist := (dictGet? data "ARTIST".toList).getD Generated.BMS.missingHeaderDefault.toList,
            version := (dictGet? data "PLAYLEVEL".toList).getD Generated.BMS.missingHeaderDefault.toList, lnEnd := (dictGet? data "LNOBJ".toList).getD [],
            exbpms := exbpms, samples := samples, bpm0 := bpm0,
            misc := rest.filter (fun kv => kv.1 ≠ "BPM".toList) }

/-! ### _read_notes: events -/

structure HitS where
  sample : Bytes
  snap : Snap
deriving Repr, DecidableEq, Inhabited

structure HoldS where
  head : HitS
  tail : Snap
deriving Repr, DecidableEq, Inhabited

/-- per-lane stacks, newest first (`hits[column]`, `holds[column]` reversed) -/
structure Lane where
  hits : List HitS
  holds : List HoldS
deriving Repr, DecidableEq, Inhabited

structure Ctx where
  layout : Layout
  lnEnd : Bytes
  exbpms : Dict Rat
  samples : Dict Bytes

/-- what one non-empty pair of a data line does -/
inductive Ev where
  | tempo (b : BcSnap)
  | note (col : Nat) (tail : Bool) (sample : Bytes) (snap : Snap)
  | bad (e : Err)
deriving Repr, DecidableEq

/-- `[sequence[i:i+2] for i in range(0, len(sequence), 2)]` -/
def pairsOf : Bytes → List Bytes
  | a :: b :: t => [a, b] :: pairsOf t
  | [a] => [[a]]
  | [] => []

def zipIdxFrom {α} : Nat → List α → List (Nat × α)
  | _, [] => []
  | i, a :: t => (i, a) :: zipIdxFrom (i + 1) t

/-- body of `for i, pair in enumerate(pairs)`; `none` = nothing happens -/
def pairEvent (ctx : Ctx) (measure : Int) (channel : Bytes) (division : Nat) (i : Nat) (pair : Bytes) : Option Ev :=
  if pair = ['0', '0'] || pair = ['0'] then none
  else if division = 0 then some (.bad (.timing .zeroDiv))            -- `Fraction(i, 0)`
  else
    let beat : Rat := ((i : Nat) : Rat) / ((division : Nat) : Rat) * defMet
    if channel = ctx.layout.bpmCh || channel = ctx.layout.exbpmCh then
      let bpm? : Except Err Rat :=
        if channel = ctx.layout.bpmCh then
          match parseHex2 pair with
          | some v => .ok ((v : Nat) : Rat)
          | none => .error (.timing .value)
        else
          match dictGet? ctx.exbpms pair with
          | some v => .ok v
          | none => .error .key
      match bpm? with
      | .error e => some (.bad e)
      | .ok bpm =>
        if bpm ≤ 0 then some (.bad .unsupported) else
        match Snap.make measure beat (some defMet) with
        | .error e => some (.bad (.timing e))
        | .ok s => some (.tempo ⟨bpm, defMet, s⟩)
    else
      match laneOf ctx.layout channel with
      | none => none
      | some col =>
        if pair = ctx.lnEnd then some (.note col true [] ⟨measure, beat, none⟩)
        else some (.note col false ((dictGet? ctx.samples pair).getD []) ⟨measure, beat, none⟩)

/-- everything one data line does, in order (a failure is an event too, so that the first failure in
processing order wins) -/
def lineEvents (ctx : Ctx) (d : Bytes × Bytes × Bytes) : List Ev :=
  match parseNat d.1 with
  | none => [.bad (.timing .value)]                       -- `int(d["measure"])`
  | some m =>
    if d.2.1 = ctx.layout.timeSig then [.bad .unsupported]
    else
      let division := d.2.2.length / 2
      (zipIdxFrom 0 (pairsOf d.2.2)).filterMap (fun p => pairEvent ctx (m : Int) d.2.1 division p.1 p.2)

structure St where
  bcsRev : List BcSnap      -- tempo changes appended so far, newest first
  lanes : Nat → Lane

/-- the `pair == self.ln_end_channel` branch and its `else` -/
def laneStep (tail : Bool) (sample : Bytes) (snap : Snap) (l : Lane) : Except Err Lane :=
  if tail then
    match l.hits with
    | [] => .error .lnTail
    | h :: t => .ok ⟨t, ⟨h, snap⟩ :: l.holds⟩
  else .ok ⟨⟨sample, snap⟩ :: l.hits, l.holds⟩

def applyEv (st : St) : Ev → Except Err St
  | .bad e => .error e
  | .tempo b => .ok { st with bcsRev := b :: st.bcsRev }
  | .note col tail sample snap =>
    if col ≥ maxKeys then .error (.timing .index) else       -- `hits[column]` on a list of MAX_KEYS stacks
    match laneStep tail sample snap (st.lanes col) with
    | .error e => .error e
    | .ok l => .ok { st with lanes := fun k => if k = col then l else st.lanes k }

def events (ctx : Ctx) (notes : List (Bytes × Bytes × Bytes)) : List Ev := notes.flatMap (lineEvents ctx)

/-- the special case "a measure 0 beat 0 tempo change right after the header tempo overrides it" — it looks at
the *first appended* change only -/
def dropOverridden : List BcSnap → List BcSnap
  | b0 :: b1 :: rest => if b1.snap.measure = 0 ∧ b1.snap.beat = 0 then b1 :: rest else b0 :: b1 :: rest
  | l => l

structure HitOut where
  col : Nat
  sample : Bytes
  offset : Rat
deriving Repr, DecidableEq

structure HoldOut where
  col : Nat
  sample : Bytes
  offset : Rat
  length : Rat
deriving Repr, DecidableEq

structure Chart where
  header : Header
  hits : List HitOut
  holds : List HoldOut
  bpms : List BcOff
  /-- the tempo changes as handed to `TimingMap.from_bpm_changes_snap` (sorted) — exported for the domain predicates -/
  tempo : List BcSnap
deriving Repr

def flatHits (st : St) : List (Nat × HitS) :=
  (List.range maxKeys).flatMap (fun k => (st.lanes k).hits.reverse.map (fun h => (k, h)))

def flatHolds (st : St) : List (Nat × HoldS) :=
  (List.range maxKeys).flatMap (fun k => (st.lanes k).holds.reverse.map (fun h => (k, h)))

def initSt (bpm0 : Rat) : St := ⟨[⟨bpm0, defMet, ⟨0, 0, some defMet⟩⟩], fun _ => ⟨[], []⟩⟩

/-- `_read_notes` after the line loop, up to the timed hits and holds: `(hits, holds, timing map, tempo list)` -/
def timedNotes (g : Array Rat) (st : St) : Except Err (List HitOut × List HoldOut × List BcOff × List BcSnap) := do
  let cs := sortBcSnap (dropOverridden st.bcsRev.reverse)
  let tm ← liftT (fromBcSnap 0 cs false)
  let hs := flatHits st
  let hOff ← if hs.isEmpty then pure [] else liftT (offsets g tm (hs.map (·.2.snap)))
  let hits := (hs.zip hOff).map (fun p => (⟨p.1.1, p.1.2.sample, p.2⟩ : HitOut))
  let ls := flatHolds st
  let headOff ← if ls.isEmpty then pure [] else liftT (offsets g tm (ls.map (·.2.head.snap)))
  let tailOff ← if ls.isEmpty then pure [] else liftT (offsets g tm (ls.map (·.2.tail)))
  let holds := (ls.zip (headOff.zip tailOff)).map (fun p => (⟨p.1.1, p.1.2.head.sample, p.2.1, p.2.2 - p.2.1⟩ : HoldOut))
  .ok (hits, holds, tm, cs)

/-- `_read_notes` after the line loop: the timed notes, then `tm.reseat()` for the tempo list -/
def finishRead (g : Array Rat) (st : St) : Except Err (List HitOut × List HoldOut × List BcOff × List BcSnap) := do
  let (hits, holds, tm, cs) ← timedNotes g st
  let (bco, bcs) ← liftT (bcsOfBco g tm)
  let t0 := (bco.head?.map (·.offset)).getD 0
  let tm2 ← liftT (fromBcSnap t0 bcs true)
  .ok (hits, holds, tm2, cs)

/-- `BMSMap.read` up to the timed hits and holds (everything but the final `tm.reseat()`) -/
def readNotes (g : Array Rat) (lay : Layout) (lines : List Bytes) : Except Err (List HitOut × List HoldOut) :=
  match parseDoc lines with
  | .error e => .error e
  | .ok doc =>
    match readHeader doc.header with
    | .error e => .error e
    | .ok hdr =>
      if hdr.bpm0 ≤ 0 then .error .unsupported else
      match foldlE applyEv (initSt hdr.bpm0) (events ⟨lay, hdr.lnEnd, hdr.exbpms, hdr.samples⟩ doc.notes) with
      | .error e => .error e
      | .ok st =>
        match timedNotes g st with
        | .error e => .error e
        | .ok r => .ok (r.1, r.2.1)

/-- `BMSMap.read(lines, note_channel_config)` -/
def read (g : Array Rat) (lay : Layout) (lines : List Bytes) : Except Err Chart :=
  match parseDoc lines with
  | .error e => .error e
  | .ok doc =>
    match readHeader doc.header with
    | .error e => .error e
    | .ok hdr =>
      if hdr.bpm0 ≤ 0 then .error .unsupported else
      match foldlE applyEv (initSt hdr.bpm0) (events ⟨lay, hdr.lnEnd, hdr.exbpms, hdr.samples⟩ doc.notes) with
      | .error e => .error e
      | .ok st =>
        match finishRead g st with
        | .error e => .error e
        | .ok r => .ok ⟨hdr, r.1, r.2.1, r.2.2.1, r.2.2.2⟩


/-! ### `BMSMap.read_file` -/

/-- the line separators of `str.splitlines()` that are single bytes in a shift_jis file besides LF and CR:
VT, FF, FS, GS, RS (`\x0b`, `\x0c`, `\x1c`–`\x1e`) -/
def pyExoticSep (c : Char) : Bool :=
  c.toNat = 11 || c.toNat = 12 || c.toNat = 28 || c.toNat = 29 || c.toNat = 30

/-- `codecs.open(path, encoding="shift_jis").readlines()` = `read().splitlines(keepends=True)`, then `.strip()` per
line (done by `read` again): the file's bytes cut at LF, CR, CRLF (one separator), VT, FF, FS, GS, RS; a trailing
separator does not start another line.  The codec itself is not modelled (one `Char` per byte; no separator byte
occurs inside a two-byte character). -/
def pyLinesAux : Bytes → Bytes → List Bytes
  | cur, [] => if cur.isEmpty then [] else [cur.reverse]
  | cur, [c] => if c.toNat = 13 || c.toNat = 10 || pyExoticSep c then [cur.reverse] else [(c :: cur).reverse]
  | cur, c :: d :: t =>
    if c.toNat = 13 then
      (if d.toNat = 10 then cur.reverse :: pyLinesAux [] t else cur.reverse :: pyLinesAux [] (d :: t))
    else if c.toNat = 10 || pyExoticSep c then cur.reverse :: pyLinesAux [] (d :: t)
    else pyLinesAux (c :: cur) (d :: t)

def pyLines (b : Bytes) : List Bytes := pyLinesAux [] b

/-- `BMSMap.read_file(path, note_channel_config)` on the bytes of the file -/
def readFile (g : Array Rat) (lay : Layout) (bytes : Bytes) : Except Err Chart := read g lay (pyLines bytes)

/-! ## writer: `BMSMap.write` -/

/-- the in-memory chart the writer looks at. `holds` carry `tail = offset + length` as the double pandas computes. -/
structure WHold where
  col : Nat
  sample : Bytes
  offset : Rat
  tail : Rat
deriving Repr, DecidableEq

structure WChart where
  title : Bytes
  artist : Bytes
  version : Bytes
  lnEnd : Bytes
  samples : Dict Bytes          -- id ↦ file, insertion order
  misc : Dict Bytes
  bpms : List BcOff             -- list order
  hits : List HitOut
  holds : List WHold
deriving Repr

def b36Digit (n : Nat) : Char := if n < 10 then Char.ofNat (48 + n) else Char.ofNat (55 + n)

/-- `bytes(base_repr(e, 36).zfill(2), "ascii")` for `e < 1296` -/
def base36 (e : Nat) : Bytes := [b36Digit (e / 36 % 36), b36Digit (e % 36)]

def natDigits : Nat → Nat → List Char
  | 0, _ => []
  | fuel + 1, n => if n < 10 then [Char.ofNat (48 + n)] else natDigits fuel (n / 10) ++ [Char.ofNat (48 + n % 10)]

def showNat (n : Nat) : Bytes := natDigits (n + 1) n

def padLeft (k : Nat) (c : Char) (s : Bytes) : Bytes := List.replicate (k - s.length) c ++ s

/-- nearest integer, ties to even (`round` / `format` on an exact value) -/
def roundHalfEven (q : Rat) : Int :=
  let f := q.floor
  let r := q - (f : Rat)
  if r < 1 / 2 then f else if r > 1 / 2 then f + 1 else if f % 2 = 0 then f else f + 1

/-- `q` rounded to `k` decimals (half-even on the exact value), as a rational -/
def roundDec (k : Nat) (q : Rat) : Rat := ((roundHalfEven (q * ((10 ^ k : Nat) : Rat)) : Int) : Rat) / ((10 ^ k : Nat) : Rat)

/-- `f"{q:.kf}"` -/
def showFixed (k : Nat) (q : Rat) : Bytes :=
  let n := roundHalfEven (q * ((10 ^ k : Nat) : Rat))
  let a := n.natAbs
  let ip := a / 10 ^ k
  let fp := a % 10 ^ k
  (if n < 0 then ['-'] else []) ++ showNat ip ++ (if k = 0 then [] else '.' :: padLeft k '0' (showNat fp))

/-- exact decimal text of a value with a terminating expansion (every double has one); `none` otherwise.
Stands for `str(float)`: another text, the same number. -/
def showExactAux (q : Rat) : Nat → Nat → Option Bytes
  | 0, _ => none
  | fuel + 1, k => if (q * ((10 ^ k : Nat) : Rat)).den = 1 then some (showFixed k q) else showExactAux q fuel (k + 1)

def showExact (q : Rat) : Option Bytes := showExactAux q 400 0

structure WRow where
  snap : Snap
  channel : Bytes
  value : Bytes
deriving Repr, DecidableEq

/-- `sample_map.get(sample, no_sample_default)` for `sample_map = {v: k for k, v in self.samples.items()}` -/
def sampleId (samples : Dict Bytes) (dflt : Bytes) (sample : Bytes) : Bytes :=
  ((samples.reverse.find? (fun p => p.2 = sample)).map (·.1)).getD dflt

def mkRows (lay : Layout) (snaps : List Snap) (cols : List Nat) (values : List Bytes) : Except Err (List WRow) :=
  match snaps, cols, values with
  | s :: ss, c :: cs, v :: vs =>
    match channelOf lay c with
    | none => .error .key                      -- `channel_map[column]`
    | some ch =>
      match mkRows lay ss cs vs with
      | .error e => .error e
      | .ok r => .ok (⟨s, ch, v⟩ :: r)
  | _, _, _ => .ok []

structure WSlot where
  measure : Int
  channel : Bytes
  value : Bytes
  den : Nat
  num : Nat
deriving Repr, DecidableEq

def slotOfRow (r : WRow) : WSlot :=
  let met : Nat := ((r.snap.met.getD 0).floor).toNat
  ⟨r.snap.measure, r.channel, r.value, r.snap.beat.den * met, r.snap.beat.num.toNat⟩

/-- `find_lcm(dfg["den"].tolist(), 100)` assigned back row by row: each row's new denominator -/
def newDens (thr : Nat) (rows : List WSlot) : List Nat :=
  (zipIdxFrom 0 rows).map fun p =>
    let grp := (zipIdxFrom 0 rows).filter (fun q => q.2.measure = p.2.measure && q.2.channel = p.2.channel)
    let l := findLcm (grp.map (·.2.den)) thr
    let pos := (grp.takeWhile (fun q => q.1 ≠ p.1)).length
    l.getD pos 0

structure WCell where
  measure : Int
  channel : Bytes
  den : Nat          -- `new_den`
  idx : Nat          -- `int(num * new_den / den)`
  value : Bytes
deriving Repr, DecidableEq

def cellOf (s : WSlot) (nd : Nat) : WCell :=
  ⟨s.measure, s.channel, nd, ((((s.num * nd : Nat) : Rat) / ((s.den : Nat) : Rat)).floor).toNat, s.value⟩

def bytesLe : Bytes → Bytes → Bool
  | [], _ => true
  | _ :: _, [] => false
  | a :: s, b :: t => if a < b then true else if b < a then false else bytesLe s t

def cellKeyLe (a b : WCell) : Bool :=
  if a.measure < b.measure then true else if b.measure < a.measure then false
  else if a.channel ≠ b.channel then bytesLe a.channel b.channel
  else decide (a.den ≤ b.den)

def sameLine (a b : WCell) : Bool := a.measure = b.measure && a.channel = b.channel && a.den = b.den

/-- group keys in `groupby(["measure", "channel", "new_den"])` order -/
def lineKeys (cells : List WCell) : List WCell :=
  (isort cellKeyLe cells).foldr (fun c acc => match acc with
    | [] => [c]
    | d :: _ => if sameLine c d then acc else c :: acc) []

/-- `seq = [b"00"] * den; for row in group: seq[int(num)] = value` -/
def fillSeq (den : Nat) (cells : List WCell) : List Bytes :=
  cells.foldl (fun seq c => seq.set c.idx c.value) (List.replicate den ['0', '0'])

def lineOf (cells : List WCell) (k : WCell) : Bytes :=
  let grp := cells.filter (sameLine k)
  '#' :: padLeft 3 '0' (showNat k.measure.toNat) ++ k.channel ++ [':'] ++ (fillSeq k.den grp).flatten

/-- `_write_notes` up to the slot table: one cell per written object (hits, hold heads, hold tails, tempo points) -/
def writeCells (g : Array Rat) (lay : Layout) (dflt : Bytes) (c : WChart) : Except Err (List WCell) := do
  if c.bpms.any (fun b => b.met ≠ defMet) then .error .unsupported          -- channel-02 lines: outside C05
  let tm := sortBcOff c.bpms
  let hs ← liftT (snaps g tm (c.hits.map (·.offset)))
  let hits ← mkRows lay hs (c.hits.map (·.col)) (c.hits.map (fun h => sampleId c.samples dflt h.sample))
  let ls ← liftT (snaps g tm (c.holds.map (·.offset)))
  let heads ← mkRows lay ls (c.holds.map (·.col)) (c.holds.map (fun h => sampleId c.samples dflt h.sample))
  let ts ← liftT (snaps g tm (c.holds.map (·.tail)))
  let tails ← mkRows lay ts (c.holds.map (·.col)) (c.holds.map (fun _ => c.lnEnd))
  let bs ← liftT (snaps g tm (c.bpms.map (·.offset)))
  let bpms : List WRow := (zipIdxFrom 0 bs).map (fun p => ⟨p.2, lay.exbpmCh, base36 (p.1 + 1)⟩)
  let slots := (hits ++ heads ++ tails ++ bpms).map slotOfRow
  .ok ((slots.zip (newDens Generated.BMS.lcmThreshold slots)).map (fun p => cellOf p.1 p.2))

/-- the line loop: one line per (measure, channel, new_den) group, in `groupby` order -/
def linesOfCells (cells : List WCell) : List Bytes := (lineKeys cells).map (lineOf cells)

/-- `_write_notes`: the data lines, in output order -/
def writeNotes (g : Array Rat) (lay : Layout) (dflt : Bytes) (c : WChart) : Except Err (List Bytes) :=
  match writeCells g lay dflt c with
  | .error e => .error e
  | .ok cells => .ok (linesOfCells cells)

/-- `_write_file_header`: the header lines (an empty `ln_obj` line when there is no `#LNOBJ` id, as the code joins it) -/
def writeHeader (c : WChart) : Except Err (List Bytes) :=
  match c.bpms with
  | [] => .error (.timing .index)                       -- `self.bpms[0]`
  | b0 :: _ =>
    if c.bpms.length ≥ Generated.BMS.maxBpms then .error .assert else
    match showExact b0.bpm with
    | none => .error .unsupported
    | some bpmText =>
      .ok (["#TITLE ".toList ++ c.title, "#ARTIST ".toList ++ c.artist, "#BPM ".toList ++ bpmText,
            "#PLAYLEVEL ".toList ++ c.version]
           ++ c.misc.map (fun kv => '#' :: kv.1 ++ [' '] ++ kv.2)
           ++ [if c.lnEnd.isEmpty then [] else "#LNOBJ ".toList ++ c.lnEnd]
           ++ (zipIdxFrom 1 c.bpms).map (fun p => "#BPM".toList ++ base36 p.1 ++ [' '] ++ showFixed Generated.BMS.exbpmDecimals p.2.bpm)
           ++ c.samples.map (fun kv => "#WAV".toList ++ kv.1 ++ [' '] ++ kv.2))

/-- `BMSMap.write(note_channel_config, no_sample_default)` as the list of `\r\n`-separated lines -/
def write (g : Array Rat) (lay : Layout) (dflt : Bytes) (c : WChart) : Except Err (List Bytes) := do
  let h ← writeHeader c
  let n ← writeNotes g lay dflt c
  .ok (h ++ [[]] ++ n)

end Reamber.BMS
