/-
Executable model of reamberPy's tempo analysis routines, *as written*:

  reamber/algorithms/utils/dominant_bpm.py        (sorted offsets ++ [last], diff, set_axis(bpm), groupby.sum, idxmax)
  reamber/algorithms/analysis/scroll_speed.py     (bpm step function, SV step function, outer merge, ffill/bfill)
  reamber/algorithms/generate/sv_normalize.py     (bpm_dom / bpm per tempo point)

pandas is modelled as lists of rows (DESIGN §5 K2): `sort_values` = stable insertion sort, `ffill`/`bfill`,
`drop_duplicates`, `groupby(..).sum()/.last()` (keys ascending), `merge(how="outer")`, `idxmax` (first maximum).
Numbers are exact rationals; NaN / None is `Option.none`.  Core Lean only (linked into the driver).
-/
import Reamber.Model.Timing

namespace Reamber.Analysis

open Reamber.Timing (isort insertBy)

/-- a tempo point (`offset`, `bpm`) -/
structure Tp where
  time : Rat
  bpm : Rat
deriving Repr, DecidableEq, Inhabited

/-- a scroll-velocity point (`offset`, `multiplier`) -/
structure Sv where
  time : Rat
  mult : Rat
deriving Repr, DecidableEq, Inhabited

/-! ### constants of the source (tied to it by `Generated/Analysis.lean` + `consts_tie`) -/

/-- `pd.DataFrame({"offset": m.bpms.offset, "multiplier": 1})` — a tempo point resets the SV to this value -/
def resetMult : Rat := 1
/-- `"multiplier": [1, None]` for the rows at (first, last) stacked offset -/
def headTailMult : List (Option Rat) := [some 1, none]
/-- `"bpm": [None, None]` for the rows at (first, last) stacked offset -/
def headTailBpm : List (Option Rat) := [none, none]
/-- `override_bpm: float = None` in both `scroll_speed` and `sv_normalize` -/
def overrideDefault : Option Rat := none
/-- both `sort_values("offset", kind="stable")` calls of scroll_speed are stable sorts (fix of D28); the model's
`sortRow` / `sortMRow` are stable insertion sorts -/
def sortKinds : List String := ["stable", "stable"]
/-- map classes for which `hasattr(m, "svs")` holds -/
def gamesWithSv : List String := ["osu", "quaver"]

/-! ### generic list helpers -/

def sortRat (l : List Rat) : List Rat := isort (fun a b => decide (a ≤ b)) l
def sortTp (l : List Tp) : List Tp := isort (fun a b => decide (a.time ≤ b.time)) l

/-- distinct values (membership is what matters; the result is sorted afterwards) -/
def dedup : List Rat → List Rat
  | [] => []
  | a :: t => if a ∈ t then dedup t else a :: dedup t

/-- `Series.diff().dropna()` : consecutive differences -/
def diffs : List Rat → List Rat
  | a :: b :: t => (b - a) :: diffs (b :: t)
  | _ => []

def sumRat : List Rat → Rat
  | [] => 0
  | a :: t => a + sumRat t

/-- ascending distinct group keys, as `groupby` orders them -/
def groupKeys (ks : List Rat) : List Rat := sortRat (dedup ks)

/-- `set_axis(keys).groupby(level=0).sum()` on (key, value) rows -/
def groupSum (rows : List (Rat × Rat)) : List (Rat × Rat) :=
  (groupKeys (rows.map (·.1))).map fun k => (k, sumRat ((rows.filter (fun r => r.1 = k)).map (·.2)))

/-- running first maximum: a later row replaces the best one only when strictly larger -/
def argmaxAux (best : Rat × Rat) : List (Rat × Rat) → Rat × Rat
  | [] => best
  | p :: t => argmaxAux (if best.2 < p.2 then p else best) t

/-- `Series.idxmax()` : label of the first maximal value; `none` = ValueError on an empty Series -/
def idxmax : List (Rat × Rat) → Option Rat
  | [] => none
  | p :: t => some (argmaxAux p t).1

/-! ### dominant_bpm -/

/-- (bpm, interval) rows: the sorted tempo list paired *by position* with the differences of the sorted
sequence `offsets ++ [last]` -/
def dominantRows (bpms : List Tp) (last : Rat) : List (Rat × Rat) :=
  let sb := sortTp bpms
  (sb.map (·.bpm)).zip (diffs (sortRat (sb.map (·.time) ++ [last])))

/-- `dominant_bpm(m)` with `last = m.stack().offset.max()` -/
def dominantBpm (bpms : List Tp) (last : Rat) : Option Rat := idxmax (groupSum (dominantRows bpms last))

/-- `override_bpm if override_bpm else dominant_bpm(m)` (0 is falsy) -/
def refBpm (bpms : List Tp) (last : Rat) (override : Option Rat) : Option Rat :=
  match override with
  | some b => if b = 0 then dominantBpm bpms last else some b
  | none => dominantBpm bpms last

/-! ### sv_normalize -/

/-- one SV per row of the tempo frame, in row order: `multiplier = bpm_dom / bpm` -/
def svNormalizeWith (bpms : List Tp) (ref : Rat) : List Sv := bpms.map fun p => ⟨p.time, ref / p.bpm⟩

def svNormalize (bpms : List Tp) (last : Rat) (override : Option Rat) : Option (List Sv) :=
  (refBpm bpms last override).map (svNormalizeWith bpms)

/-! ### scroll_speed -/

/-- (offset, value) row of a two-column frame; `none` = NaN -/
abbrev Row := Rat × Option Rat

def sortRow (l : List Row) : List Row := isort (fun a b => decide (a.1 ≤ b.1)) l

def ffillAux (cur : Option Rat) : List Row → List Row
  | [] => []
  | (t, v) :: rest =>
    let c := match v with | some x => some x | none => cur
    (t, c) :: ffillAux c rest

/-- `.ffill()` -/
def ffill (l : List Row) : List Row := ffillAux none l
/-- `.bfill()` -/
def bfill (l : List Row) : List Row := (ffill l.reverse).reverse

/-- `.drop_duplicates()` (keep = "first") -/
def dropDup : List Row → List Row
  | [] => []
  | r :: t => r :: (dropDup t).filter (fun x => x ≠ r)

/-- rows of the tempo frame in `pd.concat` order: the tempo points, then the rows at the first / last stacked
offset without a value -/
def bpmRows (bpms : List Tp) (omin omax : Rat) : List Row :=
  bpms.map (fun p => (p.time, some p.bpm)) ++ [omin, omax].zip headTailBpm

/-- what happens to the frame once it is sorted: `.ffill().bfill().drop_duplicates()` -/
def bpmFrameOf (sorted : List Row) : List Row := dropDup (bfill (ffill sorted))

/-- the tempo step function (`sort_values("offset")` modelled as the stable sort) -/
def bpmFrame (bpms : List Tp) (omin omax : Rat) : List Row := bpmFrameOf (sortRow (bpmRows bpms omin omax))

/-- last non-null value, `GroupBy.last` -/
def lastSome : List (Option Rat) → Option Rat
  | [] => none
  | v :: t => match lastSome t with
    | some x => some x
    | none => v

/-- `.groupby("offset").last()` : one row per distinct offset (ascending), last non-null value in row order -/
def groupLast (rows : List Row) : List Row :=
  (groupKeys (rows.map (·.1))).map fun k => (k, lastSome ((rows.filter (fun r => r.1 = k)).map (·.2)))

/-- rows of the SV frame in `pd.concat` order: tempo points (reset), first / last offset, the SVs -/
def svRows (bpms : List Tp) (svs : List Sv) (omin omax : Rat) : List Row :=
  bpms.map (fun p => (p.time, some resetMult)) ++ [omin, omax].zip headTailMult ++ svs.map (fun s => (s.time, some s.mult))

def svFrame (bpms : List Tp) (svs : List Sv) (omin omax : Rat) : List Row :=
  ffill (groupLast (svRows bpms svs omin omax))

structure MRow where
  t : Rat
  bpm : Option Rat
  mult : Option Rat
deriving Repr, DecidableEq, Inhabited

/-- `pd.merge(l, r, on="offset", how="outer")` : keys ascending; per key the left rows (in order) × the right rows -/
def mergeOuter (l r : List Row) : List MRow :=
  (groupKeys (l.map (·.1) ++ r.map (·.1))).flatMap fun k =>
    let ls := l.filter (fun x => x.1 = k)
    let rs := r.filter (fun x => x.1 = k)
    match ls, rs with
    | [], rs => rs.map fun y => ⟨k, none, y.2⟩
    | ls, [] => ls.map fun x => ⟨k, x.2, none⟩
    | ls, rs => ls.flatMap fun x => rs.map fun y => ⟨k, x.2, y.2⟩

def sortMRow (l : List MRow) : List MRow := isort (fun a b => decide (a.t ≤ b.t)) l

/-- `.ffill().bfill()` on the merged frame = column-wise fills -/
def fillMerged (l : List MRow) : List MRow :=
  let b := bfill (ffill (l.map fun r => (r.t, r.bpm)))
  let m := bfill (ffill (l.map fun r => (r.t, r.mult)))
  (b.zip m).map fun p => ⟨p.1.1, p.1.2, p.2.2⟩

/-- the frame whose rows become the result: (offset, active bpm, active multiplier) -/
def speedFrame (hasSv : Bool) (bpms : List Tp) (svs : List Sv) (omin omax : Rat) : List MRow :=
  let df := bpmFrame bpms omin omax
  if hasSv then fillMerged (sortMRow (mergeOuter df (svFrame bpms svs omin omax)))
  else df.map fun r => ⟨r.1, r.2, some 1⟩

def optMul (a b : Option Rat) : Option Rat := do let x ← a; let y ← b; pure (x * y)

/-- `x.bpm / bpm * (x.multiplier if has_sv else 1)` per row -/
def speedOf (ref : Rat) (r : MRow) : Rat × Option Rat := (r.t, optMul (r.bpm.map (· / ref)) r.mult)

/-- `scroll_speed(m, override_bpm)`; `omin/omax = m.stack().offset.min()/max()`, `hasSv = hasattr(m, "svs")`;
`none` = the exception of `idxmax` on an empty tempo list -/
def scrollSpeed (hasSv : Bool) (bpms : List Tp) (svs : List Sv) (omin omax : Rat) (override : Option Rat) :
    Option (List (Rat × Option Rat)) :=
  (refBpm bpms omax override).map fun ref => (speedFrame hasSv bpms svs omin omax).map (speedOf ref)

/-! ### the chart as the routines see it: first / last object are `m.stack().offset.min()/max()` -/

/-- what the three routines read from a map: the offsets of its note lists (hits and holds), its tempo list and -
where the map class has one (`hasattr(m, "svs")`) - its SV list -/
structure Chart where
  hasSv : Bool
  bpms : List Tp
  svs : List Sv
  notes : List Rat
deriving Repr, DecidableEq, Inhabited

/-- `m.stack().offset` : the offsets of every list in `m.objs` (note lists, tempo list, SV list if present) -/
def Chart.stackOffsets (c : Chart) : List Rat :=
  c.notes ++ c.bpms.map (·.time) ++ (if c.hasSv then c.svs.map (·.time) else [])

def rmin (a b : Rat) : Rat := if a ≤ b then a else b
def rmax (a b : Rat) : Rat := if a ≤ b then b else a

/-- (`stack().offset.min()`, `stack().offset.max()`); `none` = a chart without any object (NaN in the code; never
reached with a tempo point) -/
def Chart.bounds (c : Chart) : Option (Rat × Rat) :=
  match c.stackOffsets with
  | [] => none
  | a :: t => some (t.foldl rmin a, t.foldl rmax a)

/-- `dominant_bpm(m)` -/
def Chart.dominantBpm (c : Chart) : Option Rat := c.bounds.bind fun b => Analysis.dominantBpm c.bpms b.2
/-- `sv_normalize(m, override_bpm)` -/
def Chart.svNormalize (c : Chart) (override : Option Rat) : Option (List Sv) :=
  c.bounds.bind fun b => Analysis.svNormalize c.bpms b.2 override
/-- `scroll_speed(m, override_bpm)` -/
def Chart.scrollSpeed (c : Chart) (override : Option Rat) : Option (List (Rat × Option Rat)) :=
  c.bounds.bind fun b => Analysis.scrollSpeed c.hasSv c.bpms c.svs b.1 b.2 override

/-! ### sessions: several calls on one chart object with edits in between -/

inductive Call where
  | dominant
  | speed (override : Option Rat)
  | normalize (override : Option Rat)
deriving Repr, DecidableEq

inductive Answer where
  | bpm (v : Option Rat)
  | speeds (rows : Option (List (Rat × Option Rat)))
  | svs (rows : Option (List Sv))
deriving Repr, DecidableEq

/-- the routines are functions of the chart they are handed: nothing is kept between calls -/
def Chart.answer (c : Chart) : Call → Answer
  | .dominant => .bpm c.dominantBpm
  | .speed ov => .speeds (c.scrollSpeed ov)
  | .normalize ov => .svs (c.svNormalize ov)

/-- a session: a call on the chart as it is, then an edit (any function of the chart), and so on. Each entry of
the trace is (the chart at the time of the call, the call, its answer). -/
def runSession (c : Chart) : List (Call × (Chart → Chart)) → List (Chart × Call × Answer)
  | [] => []
  | (q, e) :: rest => (c, q, c.answer q) :: runSession (e c) rest

end Reamber.Analysis
