/-
The O2Jam reader on EVERY float32: tempo events and header tempos that are NaN, ±inf, subnormal or −0.0.

`Model/O2J.lean` (`readFile`) computes with exact rationals and declines (`Err.nonfinite`) as soon as a tempo float is
NaN or ±inf.  This file is the same reader — same framing, same channel dispatch, same hold buffer, same sort, same
sweep, line by line — over the values the Python code really handles (replayed on the real code, see
`harness/props/c07.py`, claim `read` with `xf` tempo events):

* a tempo event is skipped iff `bpm == 0` : +0.0 and −0.0 (both decode to `.fin 0`); NaN and ±inf are NOT skipped;
* `4 * d / bpm` for a finite distance `d` : the rational for a finite tempo (subnormals included: `decodeF32` gives
  their exact value), ±0.0 for bpm = ±inf (time stands still while an infinite tempo is in effect), NaN for bpm = NaN;
* `offset + …` : NaN as soon as one operand is NaN — every position at or after a consumed NaN tempo event gets the
  time NaN, positions before it are not affected (control flow only looks at measures, which are always finite);
* the header tempo: ±0.0 raises `ZeroDivisionError` at the first division; NaN / ±inf are used like an event's.

Times are `XT` = a rational or NaN (±inf cannot arise: distances are finite, a zero tempo is never divided by).
`readFileX` never returns `Err.nonfinite`; `Lemmas/O2JX.lean` proves that it refines `readFile` wherever that one does
not decline.  Core only.
-/
import Reamber.Model.O2J

namespace Reamber.O2J

open Reamber.Timing (isort minToMsec)
open Reamber.Generated

/-- a time as the reader computes it: a number, or NaN -/
inductive XT where
  | fin (q : Rat)
  | nan
deriving Repr, DecidableEq, Inhabited

def XT.add : XT → XT → XT
  | .fin a, .fin b => .fin (a + b)
  | _, _ => .nan

def XT.sub : XT → XT → XT
  | .fin a, .fin b => .fin (a - b)
  | _, _ => .nan

/-- `RAConst.min_to_msec(4 * d / bpm_val)` for a finite distance `d` (in measures) -/
def advX (d : Rat) : F32 → XT
  | .fin q => .fin ((4 * d / q) * minToMsec)
  | .inf _ => .fin 0
  | .nan => .nan

/-- `read_events_bpm` on every float: only ±0.0 is "no event" -/
def bpmsAuxX (measure : Int) (n : Nat) : Nat → List (List Nat) → List (Rat × F32)
  | _, [] => []
  | i, g :: rest =>
    match decodeF32 g with
    | .fin q =>
      if q = 0 then bpmsAuxX measure n (i + 1) rest
      else (slotPos measure n i, .fin q) :: bpmsAuxX measure n (i + 1) rest
    | .inf s => (slotPos measure n i, .inf s) :: bpmsAuxX measure n (i + 1) rest
    | .nan => (slotPos measure n i, .nan) :: bpmsAuxX measure n (i + 1) rest

def bpmsOfX (p : RawPkg) : List (Rat × F32) :=
  let gs := groups p.data
  bpmsAuxX p.measure gs.length 0 gs

structure PkgX where
  measure : Int
  channel : Int
  slots : List Slot
  notes : List Note
  bpms : List (Rat × F32)
  mfrac : Bool
deriving Repr, DecidableEq, Inhabited

def decodePkgX (p : RawPkg) (buf : Buf) : Except Err (PkgX × Buf) :=
  if isNoteChannel p.channel then do
    let sl := slotsOf p
    let (ns, b) ← foldBuf buf sl
    .ok (⟨p.measure, p.channel, sl, ns, [], false⟩, b)
  else if p.channel = O2J.chBpmChange then
    .ok (⟨p.measure, p.channel, [], [], bpmsOfX p, false⟩, buf)
  else if p.channel = O2J.chMeasureFraction then
    if p.data.length < 4 then .error .struct else .ok (⟨p.measure, p.channel, [], [], [], true⟩, buf)
  else .ok (⟨p.measure, p.channel, [], [], [], false⟩, buf)

def readLevelX : Nat → List Nat → Buf → Except Err (List PkgX × Bool × List Nat × Buf)
  | 0, q, buf => .ok ([], false, q, buf)
  | n + 1, q, buf =>
    if q.isEmpty then .ok ([], true, q, buf) else do
      let (rp, q1) ← popPkg q
      let (p, b1) ← decodePkgX rp buf
      let (ps, miss, q2, b2) ← readLevelX n q1 b1
      .ok (p :: ps, miss, q2, b2)

def readLevelsX : List Int → List Nat → Buf → Except Err (List (List PkgX × Bool))
  | [], _, _ => .ok []
  | c :: cs, q, buf => do
    let (ps, miss, q1, b1) ← readLevelX c.toNat q buf
    let r ← readLevelsX cs q1 b1
    .ok ((ps, miss) :: r)

/-! ### the sweep of `read_pkgs` over extended values -/

structure StX where
  offset : XT
  measure : Rat
  bpm : F32
deriving Repr, DecidableEq, Inhabited

def segTimeX (st : StX) (p : Rat) : XT := st.offset.add (advX (p - st.measure) st.bpm)

def consumeX (st : StX) (e : Rat × F32) : StX := ⟨segTimeX st e.1, e.1, e.2⟩

def advanceX (st : StX) : List (Rat × F32) → Rat → StX × List XT × List (Rat × F32)
  | [], _ => (st, [], [])
  | e :: rest, nm =>
    if e.1 ≤ nm then
      let r := advanceX (consumeX st e) rest nm
      (r.1, (consumeX st e).offset :: r.2.1, r.2.2)
    else (st, [], e :: rest)

def consumeAllX (st : StX) : List (Rat × F32) → List XT
  | [] => []
  | e :: rest => (consumeX st e).offset :: consumeAllX (consumeX st e) rest

def sweepX (st : StX) (bpms : List (Rat × F32)) : List Rat → List (Rat × XT) × List XT
  | [] => ([], consumeAllX st bpms)
  | nm :: rest =>
    let a := advanceX st bpms nm
    let r := sweepX a.1 a.2.2 rest
    ((nm, segTimeX a.1 nm) :: r.1, a.2.1 ++ r.2)

def lookupTX (tbl : List (Rat × XT)) (m : Rat) : Option XT := (tbl.find? (fun p => p.1 = m)).map (·.2)

structure NoteOutX where
  note : Note
  time : XT
  len : Option XT
deriving Repr, DecidableEq, Inhabited

structure BpmOutX where
  pos : Rat
  bpm : F32
  time : XT
deriving Repr, DecidableEq, Inhabited

structure LevelOutX where
  notes : List NoteOutX
  bpms : List BpmOutX
deriving Repr, DecidableEq, Inhabited

def timeNoteX (tbl : List (Rat × XT)) (n : Note) : Except Err NoteOutX :=
  match lookupTX tbl n.pos with
  | none => .error .key
  | some t =>
    match n with
    | .hit _ => .ok ⟨n, t, none⟩
    | .hold _ tl =>
      match lookupTX tbl tl.pos with
      | none => .error .key
      | some t2 => .ok ⟨n, t, some (t2.sub t)⟩

def sortBpmsX (l : List (Rat × F32)) : List (Rat × F32) := isort (fun a b => decide (a.1 ≤ b.1)) l

def zipBpmsX : List (Rat × F32) → List XT → List BpmOutX
  | e :: es, t :: ts => ⟨e.1, e.2, t⟩ :: zipBpmsX es ts
  | _, _ => []

/-- `O2JMap.read_pkgs(pkgs, init_bpm)` for any float header tempo and any float tempo events -/
def readPkgsX (pkgs : List PkgX) (missing : Bool) (init : F32) : Except Err LevelOutX :=
  if missing then .error .attr else
  if pkgs.any (·.mfrac) then .error .attr else
  let notes := sortNotes (pkgs.flatMap (·.notes))
  let bpms := sortBpmsX (pkgs.flatMap (·.bpms))
  let nms := dedupSort (notes.map Note.pos ++ notes.filterMap Note.tailPos)
  if init = .fin 0 ∧ (nms ≠ [] ∨ bpms ≠ []) then .error .zeroDiv else
  let r := sweepX ⟨.fin 0, 0, init⟩ bpms nms
  do
    let outs ← mapE (timeNoteX r.1) notes
    .ok ⟨outs, ⟨0, init, .fin 0⟩ :: zipBpmsX bpms r.2⟩

structure FileOutX where
  header : List (String × MetaVal)
  levels : List LevelOutX
deriving Repr, DecidableEq, Inhabited

/-- `O2JMapSet.read(b)` on every byte string — no float is declined -/
def readFileX (bs : List Nat) : Except Err FileOutX := do
  let hdr ← readMeta bs
  let lvls ← readLevelsX (packageCounts hdr) (bs.drop 300) []
  let init ← match lookupMeta hdr "bpm" with
    | some (.flt v) => .ok v
    | _ => .error Err.attr
  let outs ← mapE (fun (l : List PkgX × Bool) => readPkgsX l.1 l.2 init) lvls
  .ok ⟨hdr, outs⟩

/-! ### embedding of the rational model's results -/

def NoteOut.toX (o : NoteOut) : NoteOutX := ⟨o.note, .fin o.time, o.len.map XT.fin⟩
def BpmOut.toX (o : BpmOut) : BpmOutX := ⟨o.pos, .fin o.bpm, .fin o.time⟩
def LevelOut.toX (l : LevelOut) : LevelOutX := ⟨l.notes.map NoteOut.toX, l.bpms.map BpmOut.toX⟩
def FileOut.toX (f : FileOut) : FileOutX := ⟨f.header, f.levels.map LevelOut.toX⟩

/-- `readFileX` agrees with `readFile` wherever that one does not decline (evaluated by the driver on every case;
proved in `Lemmas/O2JX.lean`) -/
def refinesB (bs : List Nat) : Bool :=
  match readFile bs, readFileX bs with
  | .error .nonfinite, _ => true
  | .error e, .error e' => decide (e = e')
  | .ok out, .ok outx => decide (outx = out.toX)
  | _, _ => false

/-- `O2JMapSet.read_file(path)` : `open(path, "rb").read()` then `read`; the file system is a parameter -/
def readFileAt (fs : String → Option (List Nat)) (path : String) : Option (Except Err FileOutX) :=
  (fs path).map readFileX

end Reamber.O2J
