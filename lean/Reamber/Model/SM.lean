/-
Executable model of reamberPy's StepMania reader and writer, *as written*:

  reamber/sm/SMMapSet.py      (read: ';'-split, "#NOTES:" routing;  write: header + charts joined by "\n")
  reamber/sm/SMMapSetMeta.py  (_read_metadata: ':'-split, comment trick, tag dispatch; _read_bpms; _read_stops;
                               _write_metadata: the 22 header lines, `round(beat, 2)`)
  reamber/sm/SMMapMeta.py     (_read_note_metadata; SMMapChartTypes.get_keys)
  reamber/sm/SMMap.py         (read; _read_notes: ','/'\n' split with the "//"/blank filter, int(beat*len/4) slicing,
                               Fraction(i, len(beat_str)), per-column hold/roll tail logic, tm.offsets, the reseated
                               tempo list;  write: tm.beats, measure/num/den, reduce(lcm_and_cap), slot fill, padding)
  reamber/sm/SMConst.py       (note symbols)

Texts are `List Char`.  Numbers are exact rationals.  Python exceptions are `Timing.Err`; a non-empty `#STOPS`
value is outside the model (`RErr.stops`).  The timing kernel is `Reamber/Model/Timing.lean`.
No Mathlib imports: this file is linked into the driver.
-/
import Reamber.Model.Timing

namespace Reamber.SM

open Reamber.Timing

abbrev Str := List Char

/-! ### Python `str` methods used by the reader -/

/-- `s.split(c)` for a one-character separator: always at least one piece -/
def splitOn (c : Char) : Str → List Str
  | [] => [[]]
  | x :: xs =>
    if x = c then [] :: splitOn c xs
    else match splitOn c xs with
      | [] => [[x]]
      | p :: ps => (x :: p) :: ps

/-- `str.isspace()` for one character (what `strip()` removes) -/
def isWs (c : Char) : Bool :=
  let n := c.toNat
  (decide (9 ≤ n) && decide (n ≤ 13)) || (decide (28 ≤ n) && decide (n ≤ 32)) || n == 0x85 || n == 0xA0 || n == 0x1680 ||
  (decide (0x2000 ≤ n) && decide (n ≤ 0x200A)) || n == 0x2028 || n == 0x2029 || n == 0x202F || n == 0x205F || n == 0x3000

def lstrip (s : Str) : Str := s.dropWhile isWs
def rstrip (s : Str) : Str := (s.reverse.dropWhile isWs).reverse
def strip (s : Str) : Str := rstrip (lstrip s)

/-- `pat in s` -/
def hasInfix (pat : Str) : Str → Bool
  | [] => pat.isEmpty
  | c :: t => pat.isPrefixOf (c :: t) || hasInfix pat t

/-- `sep.join(ps)` -/
def joinWith (sep : Str) : List Str → Str
  | [] => []
  | [p] => p
  | p :: q :: rest => p ++ sep ++ joinWith sep (q :: rest)

/-- suffix of `s` starting at its last `'#'`, if any -/
def lastHashSuffix : Str → Option Str
  | [] => none
  | c :: t =>
    match lastHashSuffix t with
    | some r => some r
    | none => if c = '#' then some (c :: t) else none

/-- `if not s0.startswith("#"): s0 = s0[s0.rfind("#"):]`  (`rfind` = -1 keeps the last character) -/
def commentTrick (s : Str) : Str :=
  if s.head? = some '#' then s else
  match lastHashSuffix s with
  | some r => r
  | none => s.drop (s.length - 1)

/-! ### numbers: `float(s)` and `int(s)` on the grammar the formats use
(`[ws][+-]digits[.digits][(e|E)[+-]digits][ws]`; Python's `inf`/`nan`/`1_0` forms are outside the model) -/

def digitVal (c : Char) : Option Nat :=
  if '0' ≤ c ∧ c ≤ '9' then some (c.toNat - 48) else none

def takeDigits : Str → List Nat × Str
  | [] => ([], [])
  | c :: t =>
    match digitVal c with
    | some d => let (ds, r) := takeDigits t; (d :: ds, r)
    | none => ([], c :: t)

def natOfDigits (ds : List Nat) : Nat := ds.foldl (fun a d => 10 * a + d) 0

def takeSign : Str → Bool × Str
  | '-' :: t => (true, t)
  | '+' :: t => (false, t)
  | s => (false, s)

def parseFloat (s0 : Str) : Except Err Rat :=
  let (neg, s1) := takeSign (strip s0)
  let (ip, s2) := takeDigits s1
  let (fp, s3) : List Nat × Str := match s2 with
    | '.' :: t => takeDigits t
    | _ => ([], s2)
  if ip.isEmpty && fp.isEmpty then .error .value else
  let mant : Rat := (natOfDigits (ip ++ fp) : Rat) / ((10 ^ fp.length : Nat) : Rat)
  let sgn (q : Rat) : Rat := if neg then -q else q
  match s3 with
  | [] => .ok (sgn mant)
  | e :: t =>
    if e = 'e' ∨ e = 'E' then
      let (eneg, t1) := takeSign t
      let (ed, r) := takeDigits t1
      if ed.isEmpty || !r.isEmpty then .error .value else
      let p : Rat := ((10 ^ natOfDigits ed : Nat) : Rat)
      .ok (sgn (if eneg then mant / p else mant * p))
    else .error .value

def parseInt (s0 : Str) : Except Err Int :=
  let (neg, s1) := takeSign (strip s0)
  let (ds, r) := takeDigits s1
  if ds.isEmpty || !r.isEmpty then .error .value else
  .ok (if neg then -(natOfDigits ds : Int) else (natOfDigits ds : Int))

/-! ### constants of the source (tied to `Generated/SMTables.lean` by `Props/C02.lean: tables_tie`) -/

/-- `SMConst` -/
def hitChar : Char := '1'
def holdHeadChar : Char := '2'
def holdTailChar : Char := '3'
def liftChar : Char := 'L'
def keysoundChar : Char := 'K'
def fakeChar : Char := 'F'
def mineChar : Char := 'M'
def rollHeadChar : Char := '4'
def rollTailChar : Char := '3'

/-- `SMMap.py`: METRONOME, MAX_SNAP, MAX_KEYS -/
def metronome : Nat := 4
def maxSnap : Nat := 384
def maxKeys : Nat := 18

/-- `SMMapChartTypes.get_keys` restricted to the chart types with a key count (all others give `None`) -/
def keyTable : List (Str × Nat) :=
  [ (['d','a','n','c','e','-','s','i','n','g','l','e'], 4),
    (['d','a','n','c','e','-','d','o','u','b','l','e'], 8),
    (['d','a','n','c','e','-','s','o','l','o'], 6),
    (['d','a','n','c','e','-','c','o','u','p','l','e'], 4),
    (['d','a','n','c','e','-','t','h','r','e','e','p','a','n','e','l'], 3),
    (['d','a','n','c','e','-','r','o','u','t','i','n','e'], 8),
    (['k','b','7','-','s','i','n','g','l','e'], 7) ]

def getKeys (chartType : Str) : Option Nat := keyTable.lookup chartType

/-- `_read_metadata`: tags whose value is stored as a stripped string, with the attribute they set -/
def stringTags : List (Str × Str) :=
  [ (['#','T','I','T','L','E'], ['t','i','t','l','e']),
    (['#','S','U','B','T','I','T','L','E'], ['s','u','b','t','i','t','l','e']),
    (['#','A','R','T','I','S','T'], ['a','r','t','i','s','t']),
    (['#','T','I','T','L','E','T','R','A','N','S','L','I','T'], ['t','i','t','l','e','_','t','r','a','n','s','l','i','t']),
    (['#','S','U','B','T','I','T','L','E','T','R','A','N','S','L','I','T'], ['s','u','b','t','i','t','l','e','_','t','r','a','n','s','l','i','t']),
    (['#','A','R','T','I','S','T','T','R','A','N','S','L','I','T'], ['a','r','t','i','s','t','_','t','r','a','n','s','l','i','t']),
    (['#','G','E','N','R','E'], ['g','e','n','r','e']),
    (['#','C','R','E','D','I','T'], ['c','r','e','d','i','t']),
    (['#','B','A','N','N','E','R'], ['b','a','n','n','e','r']),
    (['#','B','A','C','K','G','R','O','U','N','D'], ['b','a','c','k','g','r','o','u','n','d']),
    (['#','L','Y','R','I','C','S','P','A','T','H'], ['l','y','r','i','c','s','_','p','a','t','h']),
    (['#','C','D','T','I','T','L','E'], ['c','d','_','t','i','t','l','e']),
    (['#','M','U','S','I','C'], ['m','u','s','i','c']),
    (['#','D','I','S','P','L','A','Y','B','P','M'], ['d','i','s','p','l','a','y','_','b','p','m']),
    (['#','B','G','C','H','A','N','G','E','S'], ['b','g','_','c','h','a','n','g','e','s']),
    (['#','F','G','C','H','A','N','G','E','S'], ['f','g','_','c','h','a','n','g','e','s']) ]

def tagOffset : Str := ['#','O','F','F','S','E','T']
def tagBpms : Str := ['#','B','P','M','S']
def tagStops : Str := ['#','S','T','O','P','S']
def tagSampleStart : Str := ['#','S','A','M','P','L','E','S','T','A','R','T']
def tagSampleLength : Str := ['#','S','A','M','P','L','E','L','E','N','G','T','H']
def tagSelectable : Str := ['#','S','E','L','E','C','T','A','B','L','E']
def notesTag : Str := ['#','N','O','T','E','S',':']
def yesStr : Str := ['Y','E','S']

/-- `RAConst.SEC_TO_MSEC` -/
def secToMsec : Rat := 1000

/-! ### results -/

inductive RErr where
  | py (e : Err)    -- a Python exception of that class
  | stops           -- non-empty `#STOPS`: outside the model
deriving Repr, DecidableEq, Inhabited

def liftPy {α} : Except Err α → Except RErr α
  | .ok a => .ok a
  | .error e => .error (.py e)

inductive Kind where
  | hit | mine | lift | fake | keysound | hold | roll
deriving Repr, DecidableEq, Inhabited

def Kind.toString : Kind → String
  | .hit => "hit" | .mine => "mine" | .lift => "lift" | .fake => "fake" | .keysound => "keysound"
  | .hold => "hold" | .roll => "roll"

/-- `SMMapSetMeta` (string attributes as an association list: attribute ↦ value, later assignments first) -/
structure Header where
  strs : List (Str × Str) := []
  offset : Option Rat := none
  sampleStart : Rat := 0
  sampleLength : Rat := 10
  selectable : Bool := true
deriving Repr, DecidableEq, Inhabited

def Header.str (h : Header) (attr : Str) : Str := (h.strs.lookup attr).getD []

/-- a tap-like object at a position -/
structure PTap where
  kind : Kind
  col : Nat
  pos : Snap
deriving Repr, DecidableEq, Inhabited

/-- a hold/roll head with its tail once a `3` has closed it (`holds[col][-1] = (head, tail)`) -/
structure PLong where
  col : Nat
  head : Snap
  tail : Option Snap
deriving Repr, DecidableEq, Inhabited

/-- state of the `_read_notes` loop; lists hold the most recent entry first -/
structure PState where
  taps : List PTap := []
  holds : List PLong := []
  rolls : List PLong := []
  seen : List Snap := []
deriving Repr, DecidableEq, Inhabited

structure Note where
  kind : Kind
  col : Nat
  time : Rat
  length : Rat
deriving Repr, DecidableEq, Inhabited

structure Chart where
  chartType : Str
  description : Str
  difficulty : Str
  difficultyVal : Int
  groove : List Rat
  bpms : List (Rat × Rat)       -- (offset, bpm) of `tm_reseat.bpm_changes_offset`
  notes : List Note
deriving Repr, DecidableEq, Inhabited

structure MapSet where
  hdr : Header
  charts : List Chart
deriving Repr, DecidableEq, Inhabited

/-- `foldl` in `Except` -/
def foldlE {ε α β} (f : β → α → Except ε β) : β → List α → Except ε β
  | b, [] => .ok b
  | b, a :: t => match f b a with
    | .ok b' => foldlE f b' t
    | .error e => .error e

def mapER {ε α β} (f : α → Except ε β) : List α → Except ε (List β)
  | [] => .ok []
  | a :: t => match f a with
    | .error e => .error e
    | .ok b => match mapER f t with
      | .error e => .error e
      | .ok r => .ok (b :: r)

/-! ### `_read_notes`: text → positions -/

/-- the note-data filter: split measures on ',', rows on '\n', drop rows containing "//" and empty rows -/
def measuresOf (data : Str) : List (List Str) :=
  (splitOn ',' data).map fun m => (splitOn '\n' m).filter fun l => !hasInfix ['/', '/'] l && !l.isEmpty

/-- `measure_str[int(beat*len/4) : int((beat+1)*len/4)]` -/
def beatSlice (rows : List Str) (b : Nat) : List Str :=
  let L := rows.length
  (rows.take ((b + 1) * L / 4)).drop (b * L / 4)

/-- close the most recent entry of column `col` if it is still open (`isinstance(holds[col][-1], Snap)`) -/
def closeLast (col : Nat) (t : Snap) : List PLong → Option (List PLong)
  | [] => none
  | l :: ls =>
    if l.col = col then (if l.tail.isNone then some ({ l with tail := some t } :: ls) else none)
    else (closeLast col t ls).map (l :: ·)

/-- one character of a row: the `if/elif` chain in source order -/
def charStep (st : PState) (col : Nat) (ch : Char) (sn : Snap) : Except Err PState :=
  if ch = '0' then .ok st else
  let st' : PState := { st with seen := sn :: st.seen }
  let tap (k : Kind) : Except Err PState :=
    if col ≥ maxKeys then .error .index else .ok { st' with taps := ⟨k, col, sn⟩ :: st'.taps }
  if ch = hitChar then tap .hit
  else if ch = mineChar then tap .mine
  else if ch = holdHeadChar then
    if col ≥ maxKeys then .error .index else .ok { st' with holds := ⟨col, sn, none⟩ :: st'.holds }
  else if ch = rollHeadChar then
    if col ≥ maxKeys then .error .index else .ok { st' with rolls := ⟨col, sn, none⟩ :: st'.rolls }
  else if ch = rollTailChar then
    if col ≥ maxKeys then .error .index else
    match closeLast col sn st'.holds with
    | some hs => .ok { st' with holds := hs }
    | none =>
      match closeLast col sn st'.rolls with
      | some rs => .ok { st' with rolls := rs }
      | none => .error .index
  else if ch = liftChar then tap .lift
  else if ch = fakeChar then tap .fake
  else if ch = keysoundChar then tap .keysound
  else .ok st'

/-- one visit of the innermost loop body: column, position, character -/
structure Ev where
  col : Nat
  pos : Snap
  ch : Char
deriving Repr, DecidableEq, Inhabited

/-- `for beat in range(METRONOME): beat_str = …slice…; for snap, snap_str in enumerate(beat_str):`
the rows of measure `m` in visiting order, each with `Snap(measure, beat + Fraction(snap, len(beat_str)), 4)`
(always in range, so `__post_init__` does not carry) -/
def rowSnaps (m : Nat) (rows : List Str) : List (Snap × Str) :=
  (List.range metronome).flatMap fun (b : Nat) =>
    let sl := beatSlice rows b
    sl.zipIdx.map fun (ri : Str × Nat) =>
      (⟨(m : Int), (b : Rat) + (ri.2 : Rat) / (sl.length : Rat), some (metronome : Rat)⟩, ri.1)

/-- `for col, col_char in enumerate(snap_str)` -/
def rowEvents (sn : Snap) (row : Str) : List Ev := row.zipIdx.map fun (ci : Char × Nat) => ⟨ci.2, sn, ci.1⟩

/-- the nested `for` loops of `_read_notes`, flattened in visiting order -/
def eventsOf (ms : List (List Str)) : List Ev :=
  ms.zipIdx.flatMap fun (rm : List Str × Nat) =>
    (rowSnaps rm.2 rm.1).flatMap fun (sr : Snap × Str) => rowEvents sr.1 sr.2

/-- the loop body folded over the visits; the first exception stops it -/
def runEvents (evs : List Ev) (st : PState) : Except Err PState :=
  foldlE (fun st e => charStep st e.col e.ch e.pos) st evs

def parseNotes (data : Str) : Except Err PState := runEvents (eventsOf (measuresOf data)) {}

/-! ### positions → milliseconds -/

def dedupSnaps : List Snap → List Snap
  | [] => []
  | s :: t => s :: (dedupSnaps t).filter (fun x => !(x.eqv s))

def timeOf (tbl : List (Snap × Rat)) (s : Snap) : Rat :=
  match tbl.find? (fun p => p.1.eqv s) with
  | some p => p.2
  | none => 0

/-- one hold/roll of `_expand_hold` (an unclosed head makes `zip(*…)` raise TypeError) -/
def longNote (k : Kind) (tf : Snap → Rat) (p : PLong) : Except Err Note :=
  match p.tail with
  | none => .error .other
  | some t => .ok ⟨k, p.col, tf p.head, tf t - tf p.head⟩

/-- `_expand` / `_expand_hold` with the millisecond position of a stored position given by `tf` -/
def expandWith (tf : Snap → Rat) (st : PState) : Except Err (List Note) :=
  match mapER (longNote .hold tf) st.holds.reverse with
  | .error e => .error e
  | .ok hs =>
    match mapER (longNote .roll tf) st.rolls.reverse with
    | .error e => .error e
    | .ok rs => .ok (st.taps.reverse.map (fun p => ⟨p.kind, p.col, tf p.pos, 0⟩) ++ hs ++ rs)

/-- …through the dictionary `snap_mapping` -/
def expandNotes (tbl : List (Snap × Rat)) (st : PState) : Except Err (List Note) := expandWith (timeOf tbl) st

/-- `SMMap._read_notes` (without the `#STOPS` shifting: stops are empty in the model).  `σf` chooses the
permutation `np.argsort` returns for the list of distinct positions (`TimingMap.offsets` sorts its queries). -/
def readNotesWith (σf : List Snap → List Nat) (data : Str) (t0 : Option Rat) (bcs : Option (List BcSnap))
    (stopsSeen : Bool) : Except Err (List (Rat × Rat) × List Note) := do
  let l ← match bcs with
    | none => .error .other            -- `deepcopy(None).sort` : AttributeError
    | some l => .ok l
  let tm ← fromBcSnapNoReseat (t0.getD 0) l
  let tmR ← fromBcSnap (t0.getD 0) l true
  if t0.isNone then .error .other else   -- `None + float` : TypeError (approximation: raised here)
  let st ← parseNotes data
  let qs := dedupSnaps st.seen.reverse
  let ts ← offsetsWith defaultGrid (σf qs) tm qs
  let notes ← expandNotes (qs.zip ts) st
  -- `stops` defaults to an empty list (repair D31): a text without a `#STOPS` tag reads like one with an empty tag
  let _ := stopsSeen
  .ok (tmR.map (fun b => (b.offset, b.bpm)), notes)

/-- the executable instance: a stable ascending argsort -/
def readNotes (data : Str) (t0 : Option Rat) (bcs : Option (List BcSnap)) (stopsSeen : Bool) :
    Except Err (List (Rat × Rat) × List Note) :=
  readNotesWith (stableArgsort Snap.lt) data t0 bcs stopsSeen

/-! ### `SMMap.read`, `_read_note_metadata` -/

def getIdx (l : List Str) (i : Nat) : Except Err Str :=
  match l[i]? with
  | some s => .ok s
  | none => .error .index

def readMap (t0 : Option Rat) (bcs : Option (List BcSnap)) (stopsSeen : Bool) (tok : Str) : Except Err Chart :=
  -- `_, *note_metadata, note_data = s.split(":")`
  match splitOn ':' tok with
  | [] => .error .value
  | [_] => .error .value
  | _ :: rest => do
    let md := rest.dropLast
    let data := rest.getLastD []
    let ct ← getIdx md 0
    let ds ← getIdx md 1
    let df ← getIdx md 2
    let dv ← getIdx md 3
    let dvi ← parseInt dv
    let gr ← getIdx md 4
    let grv ← mapE parseFloat (splitOn ',' (strip gr))
    let (bpms, notes) ← readNotes data t0 bcs stopsSeen
    .ok ⟨strip ct, strip ds, strip df, dvi, grv, bpms, notes⟩

/-! ### `_read_metadata`, `_read_bpms`, `_read_stops` -/

def readBpm (line : Str) : Except Err BcSnap :=
  match splitOn '=' line with
  | [a, b] => do
    let beat ← parseFloat a
    let bpm ← parseFloat b
    let s ← Snap.make 0 beat (some (metronome : Rat))
    .ok ⟨bpm, (metronome : Rat), s⟩
  | _ => .error .value

def readStops (bcs : Option (List BcSnap)) (t0 : Option Rat) (lines : List Str) : Except RErr Unit :=
  match bcs with
  | none => .error (.py .other)
  | some l =>
    match fromBcSnapNoReseat (t0.getD 0) l with
    | .error e => .error (.py e)
    | .ok _ =>
      if t0.isNone && decide (l.length ≥ 2) then .error (.py .other)
      else if lines.all (fun x => x.isEmpty) then .ok ()
      else .error .stops

structure MState where
  hdr : Header := {}
  bcs : Option (List BcSnap) := none
  stopsSeen : Bool := false
deriving Repr, Inhabited

def metaLine (st : MState) (line : Str) : Except RErr MState :=
  if line.isEmpty then .ok st else
  let s := (splitOn ':' line).map strip
  let s0 := s.headD []
  if s0.isEmpty then .ok st else
  let tag := commentTrick s0
  let arg : Except RErr Str := match s.tail with
    | a :: _ => .ok (strip a)
    | [] => .error (.py .index)
  match stringTags.lookup tag with
  | some attr => do
    let a ← arg
    .ok { st with hdr := { st.hdr with strs := (attr, a) :: st.hdr.strs } }
  | none =>
    if tag = tagOffset then do
      let a ← arg
      let v ← liftPy (parseFloat a)
      .ok { st with hdr := { st.hdr with offset := some (-(v * secToMsec)) } }
    else if tag = tagBpms then do
      let a ← arg
      let l ← liftPy (mapE readBpm (splitOn ',' a))
      .ok { st with bcs := some l }
    else if tag = tagStops then do
      let a ← arg
      readStops st.bcs st.hdr.offset (splitOn ',' a)
      .ok { st with stopsSeen := true }
    else if tag = tagSampleStart then do
      let a ← arg
      let v ← liftPy (parseFloat a)
      .ok { st with hdr := { st.hdr with sampleStart := v * secToMsec } }
    else if tag = tagSampleLength then do
      let a ← arg
      let v ← liftPy (parseFloat a)
      .ok { st with hdr := { st.hdr with sampleLength := v * secToMsec } }
    else if tag = tagSelectable then do
      let a ← arg
      .ok { st with hdr := { st.hdr with selectable := decide (a = yesStr) } }
    else .ok st

/-- `SMMapSet.read` -/
def read (text : Str) : Except RErr MapSet :=
  let toks := (splitOn ';' text).map strip
  let maps := toks.filter (hasInfix notesTag)
  let metas := toks.filter (fun t => !hasInfix notesTag t)
  match foldlE metaLine {} metas with
  | .error e => .error e
  | .ok st =>
    match mapER (readMap st.hdr.offset st.bcs st.stopsSeen) maps with
    | .error e => .error (.py e)
    | .ok cs => .ok ⟨st.hdr, cs⟩

/-- Python's universal-newline translation of a text file opened with `open(path, "r")`: "\r\n" and a bare "\r"
both become "\n" -/
def univNl : Str → Str
  | [] => []
  | '\r' :: '\n' :: t => '\n' :: univNl t
  | '\r' :: t => '\n' :: univNl t
  | c :: t => c :: univNl t

/-- `SMMapSet.read_file` on the decoded content of the file -/
def readFile (content : Str) : Except RErr MapSet := read (univNl content)

/-! ## Writer (`SMMapSet.write`, `SMMapSetMeta._write_metadata`, `SMMap.write`)

The model produces the *structure* of the written text (header values, `#BPMS` pairs, the rows of every
measure); numeric fields are exact values (float rendering is a parameter, DESIGN K3). -/

/-- an in-memory chart: header fields, tempo list `(offset, bpm)` (metronome is the default 4), objects -/
structure WChart where
  chartType : Str
  description : Str
  difficulty : Str
  difficultyVal : Int
  groove : List Rat
  bpms : List (Rat × Rat)
  notes : List Note
deriving Repr, DecidableEq, Inhabited

/-- the three parallel lists `SMMap.write` builds, in its concatenation order: hits, hold heads, hold tails,
roll heads, roll tails, fakes, keysounds, lifts, mines -/
def writeOrder (notes : List Note) : List (Rat × Nat × Char) :=
  let sel (k : Kind) : List Note := notes.filter (fun n => n.kind = k)
  (sel .hit).map (fun n => (n.time, n.col, hitChar)) ++
  (sel .hold).map (fun n => (n.time, n.col, holdHeadChar)) ++
  (sel .hold).map (fun n => (n.time + n.length, n.col, holdTailChar)) ++
  (sel .roll).map (fun n => (n.time, n.col, rollHeadChar)) ++
  (sel .roll).map (fun n => (n.time + n.length, n.col, rollTailChar)) ++
  (sel .fake).map (fun n => (n.time, n.col, fakeChar)) ++
  (sel .keysound).map (fun n => (n.time, n.col, keysoundChar)) ++
  (sel .lift).map (fun n => (n.time, n.col, liftChar)) ++
  (sel .mine).map (fun n => (n.time, n.col, mineChar))

/-- `BpmList.to_timing_map` (the sort by offset happens inside the timing kernel) -/
def toTimingMap (bpms : List (Rat × Rat)) : List BcOff := bpms.map fun p => ⟨p.2, (metronome : Rat), p.1⟩

/-- one object after `measure = beat // 4`, `den = beat.denominator * 4`, `num = beat.numerator % den` -/
structure Slot where
  measure : Int
  num : Nat
  den : Nat
  col : Nat
  ch : Char
deriving Repr, DecidableEq, Inhabited

def slotOf (beat : Rat) (col : Nat) (ch : Char) : Slot :=
  let den : Nat := beat.den * metronome
  ⟨(beat / (metronome : Rat)).floor, (beat.num % (den : Int)).toNat, den, col, ch⟩

/-- `lcm_and_cap` -/
def capLcm (x y : Nat) : Nat := min (Nat.lcm x y) maxSnap

/-- `min(reduce(lcm_and_cap, g.den), MAX_SNAP)` -/
def denMax : List Nat → Nat
  | [] => 0
  | d :: t => min (t.foldl capLcm d) maxSnap

/-- `int(num * (den_max / den))` (exact quotient, truncated) -/
def rowOf (num den dmax : Nat) : Nat := num * dmax / den

def setCell (g : List (List Char)) (r c : Nat) (ch : Char) : Except Err (List (List Char)) :=
  match g[r]? with
  | none => .error .index
  | some row => if c < row.length then .ok (g.set r (row.set c ch)) else .error .index

/-- the rows of one measure: a `den_max × keys` grid of '0', every object written at `(row, column)`, later
objects overwrite earlier ones -/
def fillMeasure (keys : Nat) (g : List Slot) : Except Err (List Str) :=
  let dmax := denMax (g.map (·.den))
  foldlE (fun grid s => setCell grid (rowOf s.num s.den dmax) s.col s.ch)
    (List.replicate dmax (List.replicate keys '0')) g

def paddingMeasure : List Str := List.replicate metronome ['0', '0', '0', '0']

/-- distinct measures in ascending order (what `groupby("measure")` iterates over) -/
def measuresSorted (slots : List Slot) : List Int :=
  (isort (fun a b => decide (a ≤ b)) (slots.map (·.measure))).eraseDups

/-- the `for measure, g in notes_gb` loop with its `prev_measure` padding -/
def writeLoop (keys : Nat) (slots : List Slot) : Int → List Int → Except Err (List (List Str))
  | _, [] => .ok []
  | prev, m :: rest =>
    match fillMeasure keys (slots.filter (fun s => s.measure = m)) with
    | .error e => .error e
    | .ok rows =>
      match writeLoop keys slots m rest with
      | .error e => .error e
      | .ok tl => .ok (List.replicate (m - prev - 1).toNat paddingMeasure ++ rows :: tl)

/-- `SMMap.write`: the measures of the chart -/
def writeChartRows (c : WChart) : Except Err (List (List Str)) := do
  let objs := writeOrder c.notes
  let bs ← beats defaultGrid (toTimingMap c.bpms) (objs.map (·.1))
  let slots := (objs.zip bs).map fun ob => slotOf ob.2 ob.1.2.1 ob.1.2.2
  match getKeys c.chartType with
  | none => if slots.isEmpty then .ok [] else .error .other     -- `range(None)` : TypeError, at the first measure
  | some keys => writeLoop keys slots (-1) (measuresSorted slots)

/-- nearest integer, ties to even (the core of Python's `round`) -/
def roundHalfEven (x : Rat) : Int :=
  let f : Int := x.floor
  let r : Rat := x - (f : Rat)
  if r < 1 / 2 then f else if r > 1 / 2 then f + 1 else if f % 2 = 0 then f else f + 1

/-- Python `round(x, d)` on the exact value -/
def roundDec (d : Nat) (q : Rat) : Rat := (roundHalfEven (q * ((10 ^ d : Nat) : Rat)) : Rat) / ((10 ^ d : Nat) : Rat)

/-- what `_write_metadata` applies to the `#BPMS` beats (6 decimals since the repair D33) -/
def round6 (q : Rat) : Rat := roundDec 6 q

/-- the 2-decimal rounding the writer used before D33 (kept for the counterexample) -/
def round2 (q : Rat) : Rat := roundDec 2 q

structure WHeader where
  strs : List (Str × Str)       -- attribute ↦ value
  offset : Rat
  sampleStart : Rat
  sampleLength : Rat
  selectable : Bool
deriving Repr, DecidableEq, Inhabited

structure WrittenChart where
  chartType : Str
  description : Str
  difficulty : Str
  difficultyVal : Int
  groove : List Rat
  measures : List (List Str)
deriving Repr, DecidableEq, Inhabited

structure Written where
  strs : List (Str × Str)       -- tag ↦ value for the plain string lines, in file order
  offsetSec : Rat               -- `-RAConst.msec_to_sec(self.offset)`
  bpms : List (Rat × Rat)       -- `round(float(beat), 6) = bpm` pairs
  sampleStartSec : Rat
  sampleLengthSec : Rat
  selectable : Str              -- the text after "#SELECTABLE:" up to ';'
  charts : List WrittenChart
deriving Repr, DecidableEq, Inhabited

/-- `_write_metadata`: plain string lines `#TAG:{self.attr};` in file order -/
def writeStringTags : List (Str × Str) := stringTags

def noStr : Str := ['N', 'O']

/-- `SMMapSet.write` -/
def write (h : WHeader) (charts : List WChart) : Except Err Written :=
  match charts with
  | [] => .error .index             -- `self[0]`
  | c0 :: _ => do
    let bb ← beats defaultGrid (toTimingMap c0.bpms) (c0.bpms.map (·.1))
    let cs ← mapE (fun c => do
      let ms ← writeChartRows c
      .ok (⟨c.chartType, c.description, c.difficulty, c.difficultyVal, c.groove, ms⟩ : WrittenChart)) charts
    .ok { strs := writeStringTags.map (fun ta => (ta.1, (h.strs.lookup ta.2).getD [])),
          offsetSec := -(h.offset / secToMsec),
          bpms := (bb.zip c0.bpms).map (fun p => (round6 p.1, p.2.2)),
          sampleStartSec := h.sampleStart / secToMsec,
          sampleLengthSec := h.sampleLength / secToMsec,
          selectable := if h.selectable then yesStr else noStr,
          charts := cs }

/-! ### the text `SMMapSet.write` returns

`"\n".join(_write_metadata() + [line for map in maps for line in map.write()])`.  Python's number rendering
(`repr` of a float inside an f-string, `str` of an int) is a parameter: the model fixes every other character. -/

structure Shows where
  rat : Rat → Str
  int : Int → Str

/-- `f"#TITLE:{self.title};"` (the tags of `stringTags` carry their '#') -/
def strLine (tv : Str × Str) : Str := tv.1 ++ ':' :: tv.2 ++ [';']

/-- `",\n".join(f"{round(float(beat), 6)}={bpm.bpm}" ...)` -/
def bpmsParam (sh : Shows) (bpms : List (Rat × Rat)) : Str :=
  joinWith [',', '\n'] (bpms.map fun p => sh.rat p.1 ++ '=' :: sh.rat p.2)

/-- the 22 lines of `_write_metadata` (no stops in the model: `#STOPS:;`) -/
def headerLines (sh : Shows) (w : Written) : List Str :=
  (w.strs.take 13).map strLine ++
  [ tagOffset ++ ':' :: sh.rat w.offsetSec ++ [';'],
    tagBpms ++ ':' :: bpmsParam sh w.bpms ++ [';'],
    tagStops ++ [':', ';'],
    tagSampleStart ++ ':' :: sh.rat w.sampleStartSec ++ [';'],
    tagSampleLength ++ ':' :: sh.rat w.sampleLengthSec ++ [';'] ] ++
  ((w.strs.drop 13).take 1).map strLine ++
  [ tagSelectable ++ ':' :: w.selectable ++ [';'] ] ++
  (w.strs.drop 14).map strLine

def indent5 : Str := [' ', ' ', ' ', ' ', ' ']

/-- `"\n,\n".join("\n".join(rows) for each measure)` -/
def noteData (ms : List (List Str)) : Str := joinWith ['\n', ',', '\n'] (ms.map (joinWith ['\n']))

/-- the banner comment line after its two slashes: six dashes, `{chart_type}[{difficulty_val} {difficulty}]`, six dashes -/
def bannerText (sh : Shows) (c : WrittenChart) : Str :=
  ['-', '-', '-', '-', '-', '-'] ++ c.chartType ++ '[' :: sh.int c.difficultyVal ++ ' ' :: c.difficulty ++
    [']', '-', '-', '-', '-', '-', '-']

/-- the nine strings `SMMap.write` returns -/
def chartLines (sh : Shows) (c : WrittenChart) : List Str :=
  [ '/' :: '/' :: bannerText sh c,
    notesTag,
    indent5 ++ c.chartType ++ [':'],
    indent5 ++ c.description ++ [':'],
    indent5 ++ c.difficulty ++ [':'],
    indent5 ++ sh.int c.difficultyVal ++ [':'],
    indent5 ++ joinWith [','] (c.groove.map sh.rat) ++ [':'],
    noteData c.measures,
    [';', '\n', '\n'] ]

/-- the text of `SMMapSet.write` -/
def renderWritten (sh : Shows) (w : Written) : Str :=
  joinWith ['\n'] (headerLines sh w ++ (w.charts.map (chartLines sh)).flatten)

end Reamber.SM
