/-
C17 — what the property demands of `full_ln`, stated independently of the pandas pipeline.

`Spec gap thr inp out` (`inp` = the notes of the chart, `out` = the notes of the result; a note is a `Row`,
`length = none` = hit):

  for every column there is a processing order `col` of the column's input notes — a permutation of them in
  ascending time, *any* order among notes stacked at the same time — such that the column's output notes
  are, up to order, `o` with `ColRule gap thr col o`:
    * one output note per input note, at the same time and column (position by position),
    * every note but the last: a hold of length `next − t − gap` when that is ≥ `thr`, a hit otherwise,
    * the last note: unchanged (kind and length).

`specB` is the executable form evaluated on the implementation's output by the driver
(`specB_iff : specB … = true ↔ Spec …` is proved in `Props/C17.lean`).  Core Lean only.
-/
import Reamber.Model.FullLN

namespace Reamber.FullLN

/-- the stated rule for a note `r` whose column's next note starts at `next` -/
def expected (gap thr : Rat) (r : Row) (next : Rat) : Row :=
  if thr ≤ next - r.offset - gap then { r with length := some (next - r.offset - gap) }
  else { r with length := none }

/-- what position `i` of the column must become -/
def expectedAt (gap thr : Rat) (col : List Row) (i : Nat) : Option Row :=
  match col[i]?, col[i+1]? with
  | some r, some n => some (expected gap thr r n.offset)
  | some r, none => some r
  | none, _ => none

/-- `out` is what the statement demands for a column whose notes, in processing order, are `col` -/
def ColRule (gap thr : Rat) (col out : List Row) : Prop :=
  out.length = col.length ∧ ∀ i, i < col.length → out[i]? = expectedAt gap thr col i

def SortedByOffset (l : List Row) : Prop := l.Pairwise (fun a b => a.offset ≤ b.offset)

def inColumn (c : Int) (l : List Row) : List Row := l.filter (fun r => r.column == c)

/-- the full statement (see the header) -/
def Spec (gap thr : Rat) (inp out : List Row) : Prop :=
  ∀ c : Int, ∃ col, col.Perm (inColumn c inp) ∧ SortedByOffset col ∧
    ∃ o, o.Perm (inColumn c out) ∧ ColRule gap thr col o

/-! ### executable form -/

/-- the rule as a recursion over the column in processing order -/
def applyRule (gap thr : Rat) : List Row → List Row
  | [] => []
  | [x] => [x]
  | x :: y :: rest => expected gap thr x y.offset :: applyRule gap thr (y :: rest)

def sortedB : List Row → Bool
  | [] => true
  | [_] => true
  | a :: b :: t => decide (a.offset ≤ b.offset) && sortedB (b :: t)

/-- candidate processing orders of a column: the stable order with each note of the latest time in turn moved
to the end (only the identity of the *last* note can make a difference).  Every candidate is re-checked by
`colSpecB`, so soundness assumes nothing about this function; completeness (`specB_complete`) uses it. -/
def candidates (I : List Row) : List (List Row) :=
  let s := sortByOffset I
  match s.getLast? with
  | none => []
  | some last => (s.filter (fun x => x.offset == last.offset)).map (fun x => s.erase x ++ [x])

def colSpecB (gap thr : Rat) (I O : List Row) : Bool :=
  if I.isEmpty then O.isEmpty
  else (candidates I).any (fun arr => sortedB arr && arr.isPerm I && (applyRule gap thr arr).isPerm O)

/-- the distinct values of a list (only so that each column is examined once) -/
def dedupInt (l : List Int) : List Int := l.foldr (fun c acc => if acc.contains c then acc else c :: acc) []

def specB (gap thr : Rat) (inp out : List Row) : Bool :=
  (dedupInt ((inp ++ out).map (·.column))).all (fun c => colSpecB gap thr (inColumn c inp) (inColumn c out))

/-! ### separate, weaker observations used for diagnostics in the replay (each follows from `Spec`) -/

def key (r : Row) : Rat × Int := (r.offset, r.column)

/-- one note per input note at the same time and column -/
def conservationB (inp out : List Row) : Bool := (out.map key).isPerm (inp.map key)

/-- no hold of `out` reaches (with the gap) a later note of its column -/
def noOverlapB (gap : Rat) (out : List Row) : Bool :=
  out.all (fun a => out.all (fun b =>
    !(a.column == b.column && decide (a.offset < b.offset)) ||
      match a.length with
      | none => true
      | some l => decide (a.offset + l + gap ≤ b.offset)))

end Reamber.FullLN
