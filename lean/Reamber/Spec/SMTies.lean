/-
`#BPMS` lists with several entries on one beat.

`Spec.SM.changesOf` orders the pairs by beat with a *stable* sort and `timeAt` walks through every change
whose position is at or before the queried one, so of several entries on one beat the last one in file order
is in force from that beat on (a zero-length segment contributes no time) — what StepMania does when a later
`beat=bpm` entry replaces the segment an earlier one made on the same row, and what
`BpmList.to_timing_map` (Python's stable `list.sort`, last row of equal offsets found by the sweep) does with
tempo rows at one offset.  `tempoOk` (the C02 domain) asks for distinct beats; `tempoOkWeak` only for a
first change at beat 0 and positive tempos.  Core only.
-/
import Reamber.Spec.SM

namespace Reamber.SM

open Reamber.Timing

/-- the tempo part of the domain with entries on equal beats allowed: a first change at beat 0, positive tempos -/
def tempoOkWeak (bpms : List (Rat × Rat)) : Bool :=
  let s := isort (fun a b => decide (a.1 ≤ b.1)) bpms
  (match s.head? with
   | some p => p.1 == 0
   | none => false) &&
  s.all (fun p => decide (0 < p.2))

/-- the pairs that are in force: of several entries on one beat (adjacent after the stable sort) only the last
one in file order is kept -/
def dropOverridden : List (Rat × Rat) → List (Rat × Rat)
  | [] => []
  | [p] => [p]
  | p :: q :: rest => if p.1 = q.1 then dropOverridden (q :: rest) else p :: dropOverridden (q :: rest)

/-- `#BPMS` pairs ascending by beat (stable), overridden entries removed -/
def effectivePairs (bpms : List (Rat × Rat)) : List (Rat × Rat) :=
  dropOverridden (isort (fun a b => decide (a.1 ≤ b.1)) bpms)

/-- the tempo change in force at position `s`: the last one the integration of `timeAt` passes -/
def activeAux (cur : BcSnap) : List BcSnap → Snap → BcSnap
  | [], _ => cur
  | nxt :: rest, s => if nxt.snap.le s then activeAux nxt rest s else cur

def activeChange (cs : List BcSnap) (s : Snap) : BcSnap :=
  match cs with
  | [] => default
  | c :: rest => activeAux c rest s

end Reamber.SM
