/-
C11 — what "reseating keeps every change at its time" demands, independent of the while loop in
`Model/Timing.lean`.

* `cumTimes t0 cs` : millisecond position of every change of an ascending list — piecewise-linear integration of
  beat length:  T₀ = t0,  T_{k+1} = T_k + dist_k(s_k, s_{k+1}) · 60000/bpm_k   (`dist_k` counts beats with the
  metronome in force in segment k).
* `seatedB out` : every tempo point lies on a measure line.
* `interleaveB tol ins outs` : the original changes (time, bpm, "whole number of measures follows") appear in
  `outs` (time, bpm) *in order*, first on first, last on last, with at most one extra point between two
  consecutive originals, each at its own millisecond position, and with its own bpm wherever a whole number of
  measures follows.  `tol = 0` is exact equality; the harness uses `tol > 0` only for the IEEE-double stream.
* `sameTimelineB` : same points (time, bpm) one for one — "reseating a seated list changes nothing".

Core only (linked into the driver): the Bool functions below are evaluated on the *implementation's* output.
-/
import Reamber.Model.Timing
import Reamber.Spec.Timing

namespace Reamber.Timing

/-- `|a − b| ≤ tol·(1 + |a| + |b|)`; for `tol = 0` this is `a = b`. -/
def closeR (tol a b : Rat) : Bool := decide (rabs (a - b) ≤ tol * (1 + rabs a + rabs b))

/-- millisecond position of every change, integrating the list itself -/
def cumTimes : Rat → List BcSnap → List Rat
  | _, [] => []
  | T, [_] => [T]
  | T, a :: b :: rest => T :: cumTimes (T + snapDist a.snap b.snap a.met * beatLen a.bpm) (b :: rest)

/-- every tempo point lies on a measure line -/
def seatedB (out : List BcSnap) : Bool := out.all (fun b => decide (b.snap.beat = 0))

/-- `|in| ≤ |out| ≤ 2·|in| − 1` -/
def lengthOkB (nIn nOut : Nat) : Bool := decide (nIn ≤ nOut) && decide (nOut + 1 ≤ 2 * nIn)

/-- an original change as the property sees it -/
structure InPt where
  time : Rat
  bpm : Rat
  /-- a whole number of measures follows (always true for the last change) -/
  whole : Bool
deriving Repr, DecidableEq

structure OutPt where
  time : Rat
  bpm : Rat
deriving Repr, DecidableEq

/-- beats from `a` to `b`, in measures of `a`'s metronome, is a whole number -/
def wholeAfter (a b : BcSnap) : Bool := decide (frac (snapDist a.snap b.snap a.met / a.met) = 0)

def wholeFlags : List BcSnap → List Bool
  | [] => []
  | [_] => [true]
  | a :: b :: rest => wholeAfter a b :: wholeFlags (b :: rest)

def zip3 : List Rat → List BcSnap → List Bool → List InPt
  | t :: ts, c :: cs, w :: ws => ⟨t, c.bpm, w⟩ :: zip3 ts cs ws
  | _, _, _ => []

/-- the original changes (list already ascending) with their integrated times -/
def inPts (t0 : Rat) (cs : List BcSnap) : List InPt := zip3 (cumTimes t0 cs) cs (wholeFlags cs)

def zip2 : List Rat → List BcSnap → List OutPt
  | t :: ts, c :: cs => ⟨t, c.bpm⟩ :: zip2 ts cs
  | _, _ => []

/-- the points of a reseated list with the times obtained by integrating *that* list -/
def outPts (t0 : Rat) (out : List BcSnap) : List OutPt := zip2 (cumTimes t0 out) out

def outPtsOff (out : List BcOff) : List OutPt := out.map (fun b => ⟨b.offset, b.bpm⟩)

def matchPt (tol : Rat) (bpmToo : Bool) (i : InPt) (o : OutPt) : Bool :=
  closeR tol i.time o.time && (!(bpmToo && i.whole) || closeR tol i.bpm o.bpm)

/-- originals appear in order, first on first, last on last, at most one extra point per original interval -/
def interleaveB (tol : Rat) (bpmToo : Bool) : List InPt → List OutPt → Bool
  | [], [] => true
  | [i], [o] => matchPt tol bpmToo i o
  | i :: rest@(_ :: _), o :: os =>
    matchPt tol bpmToo i o &&
      (interleaveB tol bpmToo rest os ||
        (match os with
         | _ :: os' => interleaveB tol bpmToo rest os'
         | [] => false))
  | _, _ => false

/-- drop every point that repeats the bpm of the last kept point: what is left is "which bpm is active from when" -/
def canonPts (tol : Rat) : Option Rat → List OutPt → List OutPt
  | _, [] => []
  | none, o :: os => o :: canonPts tol (some o.bpm) os
  | some b, o :: os => if closeR tol b o.bpm then canonPts tol (some b) os else o :: canonPts tol (some o.bpm) os

def ptsCloseB (tol : Rat) : List OutPt → List OutPt → Bool
  | [], [] => true
  | i :: is, o :: os => closeR tol i.time o.time && closeR tol i.bpm o.bpm && ptsCloseB tol is os
  | _, _ => false

/-- the same tempo timeline (which bpm is active at which time) -/
def sameTimelineB (tol : Rat) (ins : List InPt) (outs : List OutPt) : Bool :=
  ptsCloseB tol (canonPts tol none (ins.map fun i => ⟨i.time, i.bpm⟩)) (canonPts tol none outs)

/-! ### hypotheses of the theorems, as executable predicates (the harness's `dom`) -/

/-- what a `BpmChangeSnap` built through the constructors satisfies: positive bpm and metronome, the snap carries
the same metronome, position inside its measure -/
def wfOne (b : BcSnap) : Bool :=
  decide (0 < b.bpm) && decide (0 < b.met) && decide (b.snap.met = some b.met) &&
  decide (0 ≤ b.snap.measure) && decide (0 ≤ b.snap.beat) && decide (b.snap.beat < b.met)

def wfB (l : List BcSnap) : Bool := l.all wfOne

def firstZeroB : List BcSnap → Bool
  | [] => false
  | b :: _ => decide (b.snap.measure = 0) && decide (b.snap.beat = 0)

/-- first-pass quantities of the interval `a → b` of the (ascending) input: distance in beats and in measures -/
def beatDist (a b : BcSnap) : Rat := snapDist a.snap b.snap a.met
def measDist (a b : BcSnap) : Rat := beatDist a b / a.met

/-- branch 2 of the loop ("extend by metronome") fires on the interval `a → b` — the open finding D16 -/
def beatExtendAt (thr : Rat) (a b : BcSnap) : Bool :=
  let mr := frac (measDist a b)
  let br := frac (beatDist a b)
  !(decide (0 < mr) && decide (mr ≤ thr)) && decide (0 < br) && decide (br ≤ thr)

/-- branch 1 ("extend by bpm") fires with *no* whole measure in the interval: two changes closer than
`thr` measures — the loop then places the stretched point one measure *before* the current one (D16b) -/
def tinyGapAt (thr : Rat) (a b : BcSnap) : Bool :=
  let md := measDist a b
  decide (0 < md) && decide (md ≤ thr)

def anyAdj (p : BcSnap → BcSnap → Bool) : List BcSnap → Bool
  | [] => false
  | [_] => false
  | a :: b :: rest => p a b || anyAdj p (b :: rest)

def noBeatExtendB (thr : Rat) (l : List BcSnap) : Bool := !(anyAdj (beatExtendAt thr) l)
def noTinyGapB (thr : Rat) (l : List BcSnap) : Bool := !(anyAdj (tinyGapAt thr) l)

/-- the metronome itself does not look like "a whole number of beats plus a tiny remainder" (true of every
integer metronome and of every metronome whose fractional part exceeds the threshold) -/
def metOkB (thr : Rat) (l : List BcSnap) : Bool :=
  l.all (fun b => !(decide (0 < frac b.met) && decide (frac b.met ≤ thr)))

/-- which branch of the loop the first pass over the interval `a → b` takes (evidence tags) -/
def classifyAt (thr : Rat) (a b : BcSnap) : String :=
  let md := measDist a b
  let mq := ffloor md
  let mr := frac md
  let br := frac (beatDist a b)
  if 0 < mr ∧ mr ≤ thr then (if mq = 1 then "b1set" else if mq = 0 then "b1tiny" else "b1ins")
  else if 0 < br ∧ br ≤ thr then (if mq = 0 then "b2set" else "b2ins")
  else if mr > thr then (if mq = 0 then "b3set" else "b3ins")
  else "keep"

def classesOf (thr : Rat) : List BcSnap → List String
  | [] => []
  | [_] => []
  | a :: b :: rest => classifyAt thr a b :: classesOf thr (b :: rest)

/-- distance of the first-pass decisions from their discontinuities (for the float stream's boundary rule) -/
def marginAt (thr : Rat) (a b : BcSnap) : Rat :=
  let md := measDist a b
  let bd := beatDist a b
  let mr := frac md
  let br := frac bd
  let m1 := min mr (1 - mr)
  let m2 := rabs (mr - thr)
  let m3 := min br (1 - br)
  let m4 := rabs (br - thr)
  -- exact hits of `rem = 0` are not discontinuities of the *timeline* (see harness): only count non-zero distances
  let nz (x : Rat) : Rat := if x = 0 then 1 else x
  min (min (nz m1) (nz m2)) (min (nz m3) (nz m4))

def marginB (thr : Rat) : List BcSnap → Rat
  | [] => 1
  | [_] => 1
  | a :: b :: rest => min (marginAt thr a b) (marginB thr (b :: rest))

end Reamber.Timing
