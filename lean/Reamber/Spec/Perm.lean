/-
C15 — "a chart is a set of timed objects": the relations `≈` under which the result of an operation must not
depend on the row order of the chart's lists, and the tie hypotheses under which that is meaningful.

* `SameRows a b`     — the same multiset of rows (`List.Perm`); `sameRowsB` is the executable form the driver
                       evaluates on rows observed on the *implementation's* outputs (f(chart) vs f(permuted chart));
* `TiesEqual key l`  — rows of `l` that share a key are the same row.  With it a list *is* a function of its
                       multiset once sorted by `key`; without it the result of a sort-then-pair routine is
                       inherently order dependent (two different tempo points at one time, a hit and a hold on one
                       (time, column), two SVs with different multipliers at one time).

Core Lean only (linked into the driver).
-/
import Reamber.Model.Analysis
import Reamber.Spec.FullLN

namespace Reamber.PermInv

/-- a cell of a row observed on an implementation output (NaN, number, text, flag) -/
inductive Cell where
  | nan
  | num (q : Rat)
  | str (s : String)
  | bool (b : Bool)
  deriving DecidableEq, Repr, Inhabited

/-- the two lists hold the same rows with the same multiplicities -/
def SameRows {α} (a b : List α) : Prop := a.Perm b

def sameRowsB {α} [DecidableEq α] (a b : List α) : Bool := a.isPerm b

theorem sameRowsB_iff {α} [DecidableEq α] (a b : List α) : sameRowsB a b = true ↔ SameRows a b := by
  unfold sameRowsB SameRows
  exact List.isPerm_iff

/-- optional results (`none` = the operation raises): both raise, or both return the same multiset -/
def OptSameRows {α} : Option (List α) → Option (List α) → Prop
  | none, none => True
  | some a, some b => a.Perm b
  | _, _ => False

/-- rows that share a key are equal -/
def TiesEqual {α κ} (key : α → κ) (l : List α) : Prop := ∀ a ∈ l, ∀ b ∈ l, key a = key b → a = b

def tiesEqualB {α κ} [DecidableEq α] [DecidableEq κ] (key : α → κ) (l : List α) : Bool :=
  l.all fun a => l.all fun b => !(decide (key a = key b)) || decide (a = b)

theorem tiesEqualB_iff {α κ} [DecidableEq α] [DecidableEq κ] (key : α → κ) (l : List α) :
    tiesEqualB key l = true ↔ TiesEqual key l := by
  simp only [tiesEqualB, TiesEqual, List.all_eq_true, Bool.or_eq_true, Bool.not_eq_true', decide_eq_false_iff_not,
    decide_eq_true_eq]
  constructor
  · intro h a ha b hb hk
    rcases h a ha b hb with h1 | h1
    · exact absurd hk h1
    · exact h1
  · intro h a ha b hb
    by_cases hk : key a = key b
    · exact Or.inr (h a ha b hb hk)
    · exact Or.inl hk

/-! ### the hypotheses of the analysis routines -/

open Reamber.Analysis in
/-- two tempo points at one time are the same tempo point -/
def tempoTiesB (bpms : List Analysis.Tp) : Bool := tiesEqualB (fun p : Analysis.Tp => p.time) bpms

open Reamber.Analysis in
/-- coinciding SVs carry equal multipliers -/
def svTiesB (svs : List Analysis.Sv) : Bool := tiesEqualB (fun s : Analysis.Sv => s.time) svs

/-- no two different notes share (time, column) — over the frame `full_ln` stacks -/
def noteTiesB (stacked : List FullLN.Row) : Bool := tiesEqualB FullLN.key stacked

end Reamber.PermInv
