/-
C09 — read → convert → write: the common abstract chart and the statement "the written file carries the
source's timeline to within the coarser of the two formats' time resolutions".

* `AChart`          what every format's denotation has in common: hits `(time, column)`, holds
                    `(time, column, length)` and tempo points `(time, bpm)`, each read as a multiset.
* `ofOsu … ofO2J`   the abstraction of each format's denotation (`Spec/Osu.lean` `denote`, `Spec/Qua.lean` `denote`,
                    `Spec/SM.lean` `denote` + `timedNotes`, `Spec/BMS.lean` `denote`, `Spec/O2J.lean` `specLevel`).
                    StepMania's mines, lifts, fakes, key sounds and rolls have no counterpart in any other format and
                    no converter carries them: they are not part of the abstract chart (as in C08's `contentOk`).
* `Res`             the time resolution of the *target*: `ms` — every time moves by less than 1 ms (osu, Quaver write
                    whole milliseconds); `beat f g` — by at most `f` beats at the tempo in force (StepMania 1/96,
                    BMS 1/192) plus `g` = 1/192 beat for every tempo change before it (the writers snap tempo changes
                    to the same grid), and not at all when the source chart lies on the snap grid (`gridExact`).
* ties             of several tempo points at one time (osu / Quaver lines, an O2Jam header tempo and a tempo event at
                    measure 0, `#BPMS` entries at one beat) the LATER one — in file order — is in force
                    (`lastAtTime`, `lastAtBeat`, `bpmAt`): a zero-length section holds no beats.
* `CloseTo`         declarative: some pairing (a rearrangement of both row lists) puts every source row next to a
                    target row with the same column (+ shift) and times within the resolution; tempo points are
                    compared as a *timeline* (`normBpms`: time order, a point that repeats the tempo in force is
                    dropped — readers that re-seat tempo points insert such points).
* `closeTo`         the decidable version the driver evaluates (`c09.close`): canonical order, then first-fit
                    pairing.  `Lemmas/Pipeline.lean` proves `closeTo … = true → CloseTo …` (soundness).

`eps` is the float bridge of DESIGN §3 (the implementation computes in doubles, the denotations are exact):
two times / tempos count as equal when they differ by at most `eps + eps·max(|a|,|b|)`.
Core Lean only.
-/
import Reamber.Spec.Osu
import Reamber.Spec.SM
import Reamber.Spec.BMS
import Reamber.Spec.Qua
import Reamber.Spec.O2J

namespace Reamber.Pipeline

open Reamber.Timing

abbrev AHit := Rat × Int
abbrev AHold := Rat × Int × Rat
abbrev ABpm := Rat × Rat

structure AChart where
  hits : List AHit := []
  holds : List AHold := []
  bpms : List ABpm := []
deriving Repr, DecidableEq, Inhabited

/-! ### abstraction of each format's denotation -/

def ofOsu (c : Osu.Chart) : AChart :=
  { hits := c.hits.map (fun h => (h.offset, h.column))
    holds := c.holds.map (fun h => (h.offset, h.column, h.length))
    bpms := c.bpms.map (fun b => (b.offset, b.bpm)) }

def ofQua (c : Qua.Chart) : AChart :=
  { hits := c.hits.map (fun h => (h.offset, h.column))
    holds := c.holds.map (fun h => (h.offset, h.column, h.length))
    bpms := c.bpms.map (fun b => (b.offset, b.bpm)) }

/-- key sounds are no part of the abstract chart: a document is abstracted with every `KeySounds` value replaced by
the empty list (so that a document written with `KeySounds: .nan` — open finding D08 — still has a timeline) -/
def dropKsRec (r : Qua.Rec) : Qua.Rec :=
  r.map fun kv => if kv.1 = "KeySounds" then (kv.1, Qua.YV.ks []) else kv

def dropKs (d : Qua.Doc) : Qua.Doc := { d with hitObjects := d.hitObjects.map (·.map dropKsRec) }

/-- the abstract chart of a document: of its denotation where it has one, else of the denotation without key sounds -/
def ofQuaDoc (d : Qua.Doc) : Except Qua.Err AChart :=
  match Qua.Spec.denote d with
  | .ok c => .ok (ofQua c)
  | .error _ => (Qua.Spec.denote (dropKs d)).map ofQua

def ofSMChart (offsetSec : Rat) (bpms : List (Rat × Rat)) (c : SM.DChart) : AChart :=
  let ns := SM.timedNotes offsetSec bpms c
  { hits := (ns.filter (fun n => n.kind = SM.Kind.hit)).map (fun n => (n.time, (n.col : Int)))
    holds := (ns.filter (fun n => n.kind = SM.Kind.hold)).map (fun n => (n.time, (n.col : Int), n.length))
    bpms := (SM.tempoTimes offsetSec bpms).zip (bpms.map (·.2)) }

/-- of several `#BPMS` entries at one beat the LATER one is in force (StepMania keeps its segments in a sorted list
and a later entry replaces an earlier one at the same beat; the same rule as for osu / Quaver lines at one time) -/
def lastAtBeat : List (Rat × Rat) → List (Rat × Rat)
  | a :: b :: rest => if a.1 = b.1 then lastAtBeat (b :: rest) else a :: lastAtBeat (b :: rest)
  | l => l

/-- the `#BPMS` entries in beat order (stable), one per beat -/
def smTempo (b : List (Rat × Rat)) : List (Rat × Rat) := lastAtBeat (isort (fun x y => decide (x.1 ≤ y.1)) b)

/-- one abstract chart per `#NOTES` value; `none` when the text has no usable `#OFFSET` / `#BPMS` -/
def ofSM (d : SM.Denoted) : Option (List AChart) :=
  match d.offsetSec, d.bpms with
  | some o, some b => if SM.tempoOk (smTempo b) then some (d.charts.map (ofSMChart o (smTempo b))) else none
  | _, _ => none

def ofBMS (d : BMS.Denotation) : AChart :=
  { hits := d.hits.map (fun h => (h.offset, (h.col : Int)))
    holds := d.holds.map (fun h => (h.offset, (h.col : Int), h.length))
    bpms := d.tempo.map (fun c => (timeAt 0 d.tempo c.snap, c.bpm)) }

def ofO2JNote (o : O2J.NoteOut) : Option AHit :=
  match o.note with
  | .hit s => some (o.time, s.col)
  | .hold _ _ => none

def ofO2JHold (o : O2J.NoteOut) : Option AHold :=
  match o.note with
  | .hit _ => none
  | .hold h _ => some (o.time, h.col, o.len.getD 0)

def ofO2J (l : O2J.LevelOut) : AChart :=
  { hits := l.notes.filterMap ofO2JNote
    holds := l.notes.filterMap ofO2JHold
    bpms := l.bpms.map (fun b => (b.time, b.bpm)) }

/-! ### the tempo timeline -/

def sortBpms (l : List ABpm) : List ABpm := isort (fun a b => decide (a.1 ≤ b.1)) l

def slack (eps a b : Rat) : Rat := eps + eps * max (rabs a) (rabs b)

def eqUpTo (eps a b : Rat) : Bool := decide (rabs (a - b) ≤ slack eps a b)

/-- drop every point that repeats the tempo of the point kept before it -/
def dedupBpms (eps : Rat) : Option Rat → List ABpm → List ABpm
  | _, [] => []
  | none, p :: t => p :: dedupBpms eps (some p.2) t
  | some cur, p :: t => if eqUpTo eps cur p.2 then dedupBpms eps (some cur) t else p :: dedupBpms eps (some p.2) t

/-- of several points at one time only the last (in the stable time order) is in force -/
def lastAtTime : List ABpm → List ABpm
  | a :: b :: rest => if a.1 = b.1 then lastAtTime (b :: rest) else a :: lastAtTime (b :: rest)
  | l => l

/-- two tempo points at one time with different tempos (points in time order) -/
def tieUnequal : List ABpm → Bool
  | a :: b :: rest => (decide (a.1 = b.1) && decide (a.2 ≠ b.2)) || tieUnequal (b :: rest)
  | _ => false

/-- the tempo timeline: points in time order, one point per time, repetitions of the tempo in force dropped -/
def normBpms (eps : Rat) (l : List ABpm) : List ABpm := dedupBpms eps none (lastAtTime (sortBpms l))

/-- tempo in force at `t` for points in time order: the last point at or before `t`, else the first point -/
def bpmAtAux (cur : Rat) : List ABpm → Rat → Rat
  | [], _ => cur
  | p :: rest, t => if p.1 ≤ t then bpmAtAux p.2 rest t else cur

def bpmAt (bpms : List ABpm) (t : Rat) : Option Rat :=
  match sortBpms bpms with
  | [] => none
  | p :: rest => some (bpmAtAux p.2 rest t)

/-- the tempo point in force at `t` (time and tempo) -/
def pointAtAux (cur : ABpm) : List ABpm → Rat → ABpm
  | [], _ => cur
  | p :: rest, t => if p.1 ≤ t then pointAtAux p rest t else cur

def pointAt (bpms : List ABpm) (t : Rat) : Option ABpm :=
  match sortBpms bpms with
  | [] => none
  | p :: rest => some (pointAtAux p rest t)

/-! ### resolution -/

inductive Res where
  | ms
  /-- `f` beats at the tempo in force for the object itself, plus `g` beats (at the tempo before it) for every
  tempo change at or before the object: a beat-based writer snaps the tempo changes too, and everything after a
  moved tempo change moves with it -/
  | beat (f g : Rat)
deriving Repr, DecidableEq

/-- accumulated allowance for the tempo changes at or before `t` (points in time order) -/
def tempoSlack (g : Rat) : List ABpm → Rat → Rat
  | a :: b :: rest, t =>
    if b.1 ≤ t then (if 0 < a.2 then g * beatLen a.2 else 0) + tempoSlack g (b :: rest) t else 0
  | _, _ => 0

/-- how far a time `t` of the source chart may move -/
def tolAt (res : Res) (src : AChart) (t : Rat) : Rat :=
  match res with
  | .ms => 1
  | .beat f g =>
    (match bpmAt src.bpms t with
     | some b => if 0 < b then f * beatLen b else 0
     | none => 0) + tempoSlack g (sortBpms src.bpms) t

/-- `t` lies a multiple of 1/`n` beat after the tempo point in force -/
def onBeatGrid (n : Nat) (src : AChart) (t : Rat) : Bool :=
  match pointAt src.bpms t with
  | some p => decide (0 < p.2) && decide ((((t - p.1) * p.2 / minToMsec) * (n : Rat)).den = 1)
  | none => false

/-- consecutive tempo points a whole number (≥ 1) of 4-beat measures apart -/
def onMeasureLines : List ABpm → Bool
  | a :: b :: rest =>
    decide (0 < a.2) && decide (((b.1 - a.1) * a.2 / minToMsec / 4).den = 1) && decide (a.1 < b.1) &&
      onMeasureLines (b :: rest)
  | [a] => decide (0 < a.2)
  | [] => true

def timesOf (c : AChart) : List Rat :=
  c.hits.map (·.1) ++ c.holds.map (·.1) ++ c.holds.map (fun h => h.1 + h.2.2)

/-- the source chart lies on the snap grid: tempo points on measure lines counted from the first one, every object
on a 1/48 beat, nothing before the first tempo point.  Then a beat-based writer loses nothing. -/
def gridExact (src : AChart) : Bool :=
  let bp := sortBpms src.bpms
  onMeasureLines bp &&
  (match bp.head? with
   | some p => (timesOf src).all (fun t => decide (p.1 ≤ t))
   | none => false) &&
  (timesOf src).all (onBeatGrid 48 src)

/-- is the time `u` of the target within the resolution of the source time `t`?  (`exact`: the source chart is
`gridExact` and the resolution is beat-based — only the float bridge is allowed) -/
def closeTime (eps : Rat) (res : Res) (exact : Bool) (src : AChart) (t u : Rat) : Bool :=
  match res with
  | .ms => decide (rabs (t - u) < 1 + slack eps t u)
  | .beat _ _ =>
    if exact then eqUpTo eps t u
    else decide (rabs (t - u) ≤ tolAt res src t + slack eps t u)

def closeHit (eps : Rat) (res : Res) (exact : Bool) (shift : Int) (src : AChart) (a b : AHit) : Bool :=
  decide (a.2 + shift = b.2) && closeTime eps res exact src a.1 b.1

/-- head and tail each within the resolution -/
def closeHold (eps : Rat) (res : Res) (exact : Bool) (shift : Int) (src : AChart) (a b : AHold) : Bool :=
  decide (a.2.1 + shift = b.2.1) && closeTime eps res exact src a.1 b.1 &&
  closeTime eps res exact src (a.1 + a.2.2) (b.1 + b.2.2)

def closeBpm (eps : Rat) (res : Res) (exact : Bool) (src : AChart) (a b : ABpm) : Bool :=
  closeTime eps res exact src a.1 b.1 && eqUpTo eps a.2 b.2

/-! ### pairing -/

/-- remove the first element satisfying `p` -/
def removeFirst {α} (p : α → Bool) : List α → Option (List α)
  | [] => none
  | b :: bs => if p b then some bs else (removeFirst p bs).map (b :: ·)

/-- first-fit pairing: every `a` takes the first remaining `b` it is close to; nothing may remain -/
def matchUp {α β} (close : α → β → Bool) : List α → List β → Bool
  | [], bs => bs.isEmpty
  | a :: as, bs =>
    match removeFirst (close a) bs with
    | none => false
    | some bs' => matchUp close as bs'

def leHit (a b : AHit) : Bool := decide (a.2 < b.2) || (decide (a.2 = b.2) && decide (a.1 ≤ b.1))

def leHold (a b : AHold) : Bool :=
  decide (a.2.1 < b.2.1) ||
  (decide (a.2.1 = b.2.1) && (decide (a.1 < b.1) || (decide (a.1 = b.1) && decide (a.2.2 ≤ b.2.2))))

def sortHits (l : List AHit) : List AHit := isort leHit l
def sortHolds (l : List AHold) : List AHold := isort leHold l

structure Verdict where
  hits : Bool
  holds : Bool
  bpms : Bool
deriving Repr, DecidableEq

def Verdict.all (v : Verdict) : Bool := v.hits && v.holds && v.bpms

/-- the decidable statement evaluated on implementation output: `tgt` carries `src` (columns shifted by `shift`) -/
def closeVerdict (eps : Rat) (res : Res) (exact : Bool) (shift : Int) (src tgt : AChart) : Verdict :=
  { hits := matchUp (closeHit eps res exact shift src) (sortHits src.hits) (sortHits tgt.hits)
    holds := matchUp (closeHold eps res exact shift src) (sortHolds src.holds) (sortHolds tgt.holds)
    bpms := matchUp (closeBpm eps res exact src) (normBpms eps src.bpms) (normBpms eps tgt.bpms) }

def closeTo (eps : Rat) (res : Res) (exact : Bool) (shift : Int) (src tgt : AChart) : Bool :=
  (closeVerdict eps res exact shift src tgt).all

/-- position by position -/
inductive Zipped {α β} (R : α → β → Prop) : List α → List β → Prop
  | nil : Zipped R [] []
  | cons {a b as bs} : R a b → Zipped R as bs → Zipped R (a :: as) (b :: bs)

/-- after rearranging both lists, `as` and `bs` are related position by position (a perfect pairing of the two
multisets) -/
def Paired {α β} (R : α → β → Prop) (as : List α) (bs : List β) : Prop :=
  ∃ (as' : List α) (bs' : List β), List.Perm as' as ∧ List.Perm bs' bs ∧ Zipped R as' bs'

/-- the declarative statement: hits and holds of the source can be paired off with those of the target (same
column up to the shift, times within the resolution), and the two tempo timelines pair off likewise -/
def CloseTo (eps : Rat) (res : Res) (exact : Bool) (shift : Int) (src tgt : AChart) : Prop :=
  Paired (fun a b => closeHit eps res exact shift src a b = true) src.hits tgt.hits ∧
  Paired (fun a b => closeHold eps res exact shift src a b = true) src.holds tgt.holds ∧
  Paired (fun a b => closeBpm eps res exact src a b = true) (normBpms eps src.bpms) (normBpms eps tgt.bpms)

/-! ### what the converters need to know about a chart -/

/-- key count as the converters infer it: largest column + 1 (`stack().column.max() + 1`) -/
def keysOf (c : AChart) : Option Int :=
  match c.hits.map (·.2) ++ c.holds.map (·.2.1) with
  | [] => none
  | x :: xs => some (xs.foldl max x + 1)

/-- time of the first tempo point (`bpms.first_offset()`) -/
def firstTempo (c : AChart) : Option Rat := (sortBpms c.bpms).head?.map (·.1)

/-- smallest time of all rows the chart stacks (`stack().offset.min()` sees hits, holds and tempo points here;
Quaver's scroll velocities are passed separately) -/
def minTime (c : AChart) (extra : List Rat) : Option Rat :=
  match c.hits.map (·.1) ++ c.holds.map (·.1) ++ c.bpms.map (·.1) ++ extra with
  | [] => none
  | x :: xs => some (xs.foldl min x)

/-- an object starts or ends before the first tempo point -/
def beforeFirstTempo (c : AChart) : Bool :=
  match firstTempo c with
  | some t0 => (timesOf c).any (fun t => decide (t < t0))
  | none => true

/-- some hit / hold head / hold tail lies strictly inside a hold of its own column (predicate of D37) -/
def insideHold (c : AChart) : Bool :=
  c.holds.any fun h =>
    let lo := h.1
    let hi := h.1 + h.2.2
    let col := h.2.1
    c.hits.any (fun x => decide (x.2 = col) && decide (lo < x.1) && decide (x.1 < hi)) ||
    c.holds.any (fun y => decide (y.2.1 = col) &&
      ((decide (lo < y.1) && decide (y.1 < hi)) || (decide (lo < y.1 + y.2.2) && decide (y.1 + y.2.2 < hi))))

/-- two rows of one column at the same time (heads, tails and hits alike): a cell of a row-based file holds one
symbol — outside every writer's domain -/
def cellCollision (c : AChart) : Bool :=
  let cells := c.hits.map (fun x => (x.2, x.1)) ++ c.holds.map (fun h => (h.2.1, h.1)) ++
               c.holds.map (fun h => (h.2.1, h.1 + h.2.2))
  cells.eraseDups.length != cells.length

/-- the (column, time) cells of a chart: hits, hold heads, hold tails -/
def cellsOf (c : AChart) : List (Int × Rat) :=
  c.hits.map (fun x => (x.2, x.1)) ++ c.holds.map (fun h => (h.2.1, h.1)) ++ c.holds.map (fun h => (h.2.1, h.1 + h.2.2))

/-- two cells of one column closer than the resolution allows them to be told apart: a row-based writer may put
them into one cell (outside the writers' domains: C03 / C05 "no two objects in one cell") -/
def crowded (res : Res) (src : AChart) : Bool :=
  let cells := cellsOf src
  (cells.zipIdx).any fun a => (cells.zipIdx).any fun b =>
    decide (a.2 < b.2) && decide (a.1.1 = b.1.1) &&
      decide (rabs (a.1.2 - b.1.2) ≤ tolAt res src a.1.2 + tolAt res src b.1.2)

/-- two tempo points (of different times) closer than the resolution can tell apart: the written file may hold
them at one position, where only one of them is in force -/
def tempoCrowded (res : Res) (src : AChart) : Bool :=
  let pts := lastAtTime (sortBpms src.bpms)
  (pts.zip pts.tail).any fun p =>
    decide (rabs (p.1.1 - p.2.1) ≤ tolAt res src p.1.1 + tolAt res src p.2.1)

end Reamber.Pipeline
