/-
Declarative statement of C19, independent of the pandas pipelines in `Model/Analysis.lean`
(no sorting, no positional pairing, no fills):

* a tempo point is *active* from its time to the least tempo time strictly after it (or to the last object);
  the total of a bpm value is the sum over the tempo points carrying it; a dominant bpm is a value of the
  chart with maximal total;
* at a time `t` the active tempo point is one with the greatest time ≤ t; the active SVs are the SVs at the
  greatest SV time ≤ t provided that time is not before the active tempo point (else the multiplier is 1);
  speed = active bpm / reference · active multiplier;
* normalisation: exactly the tempo points' times, `mult · bpm = reference`.

The `…B` versions are the decidable forms the driver evaluates on implementation output.
-/
import Reamber.Model.Analysis

namespace Reamber.Analysis

/-! ### dominant bpm -/

/-- least element of `ts` strictly greater than `t` -/
def nextTime : List Rat → Rat → Option Rat
  | [], _ => none
  | x :: xs, t =>
    match nextTime xs t with
    | none => if t < x then some x else none
    | some y => if t < x ∧ x < y then some x else some y

/-- how long the tempo point at `t` is the active one inside `[·, last]` -/
def span (ts : List Rat) (last t : Rat) : Rat :=
  let e := match nextTime ts t with | some y => (if y ≤ last then y else last) | none => last
  if e ≤ t then 0 else e - t

/-- total active time of the bpm value `v` -/
def totalTime (bpms : List Tp) (last v : Rat) : Rat :=
  sumRat ((bpms.filter (fun p => p.bpm = v)).map (fun p => span (bpms.map (·.time)) last p.time))

/-- `v` is a bpm value of the chart whose total active time is maximal -/
def IsDominant (bpms : List Tp) (last v : Rat) : Prop :=
  (∃ p ∈ bpms, p.bpm = v) ∧ ∀ p ∈ bpms, totalTime bpms last p.bpm ≤ totalTime bpms last v

def isDominantB (bpms : List Tp) (last v : Rat) : Bool :=
  bpms.any (fun p => p.bpm = v) && bpms.all (fun p => decide (totalTime bpms last p.bpm ≤ totalTime bpms last v))

/-- all maximisers (ascending, distinct) -/
def dominantSet (bpms : List Tp) (last : Rat) : List Rat :=
  (groupKeys (bpms.map (·.bpm))).filter (fun v => isDominantB bpms last v)

/-- `ref` is an admissible reference bpm: the override when one is given, else a dominant bpm -/
def IsRef (bpms : List Tp) (last : Rat) (override : Option Rat) (ref : Rat) : Prop :=
  match override with
  | some b => ref = b
  | none => IsDominant bpms last ref

/-- admissible reference bpms: the override when given (and non-zero), else any dominant bpm -/
def refSet (bpms : List Tp) (last : Rat) (override : Option Rat) : List Rat :=
  match override with
  | some b => if b = 0 then dominantSet bpms last else [b]
  | none => dominantSet bpms last

/-! ### scroll speed -/

/-- `p` is the tempo point in force at `t` -/
def IsActiveTp (bpms : List Tp) (t : Rat) (p : Tp) : Prop :=
  p ∈ bpms ∧ p.time ≤ t ∧ ∀ q ∈ bpms, q.time ≤ t → q.time ≤ p.time

def activeTps (bpms : List Tp) (t : Rat) : List Tp :=
  bpms.filter fun p => decide (p.time ≤ t) && bpms.all (fun q => decide (q.time ≤ t → q.time ≤ p.time))

/-- multipliers admissible at `t` when the tempo point in force started at `t0`: those of the SVs at the
greatest SV time ≤ t if that time is ≥ t0 (an SV lasts until the next SV or tempo point; an SV on a tempo
point wins over the reset; coinciding SVs: any of them), else 1 -/
def activeMults (svs : List Sv) (t0 t : Rat) : List Rat :=
  let cands := svs.filter fun s => decide (t0 ≤ s.time) && decide (s.time ≤ t)
  let top := cands.filter fun s => cands.all (fun s' => decide (s'.time ≤ s.time))
  if top.isEmpty then [1] else top.map (·.mult)

/-- admissible speeds at `t` for reference bpm `ref`; empty when no tempo point is at or before `t`
(the statement is silent there) -/
def allowedSpeeds (hasSv : Bool) (bpms : List Tp) (svs : List Sv) (ref t : Rat) : List Rat :=
  (activeTps bpms t).flatMap fun p =>
    if hasSv then (activeMults svs p.time t).map (fun m => p.bpm / ref * m) else [p.bpm / ref]

/-- the breakpoints: tempo times ∪ SV times (games with SVs) ∪ {first, last stacked offset} -/
def breakpoints (hasSv : Bool) (bpms : List Tp) (svs : List Sv) (omin omax : Rat) : List Rat :=
  groupKeys (bpms.map (·.time) ++ (if hasSv then svs.map (·.time) else []) ++ [omin, omax])

/-- a result row is right: silent before the first tempo point, else the value is an admissible speed -/
def rowOkB (hasSv : Bool) (bpms : List Tp) (svs : List Sv) (ref : Rat) (r : Rat × Option Rat) : Bool :=
  (activeTps bpms r.1).isEmpty ||
    (match r.2 with | some s => (allowedSpeeds hasSv bpms svs ref r.1).contains s | none => false)

/-- the whole result is right for reference `ref`: its offsets are exactly the breakpoints, every row is right -/
def speedOkB (hasSv : Bool) (bpms : List Tp) (svs : List Sv) (omin omax ref : Rat) (out : List (Rat × Option Rat)) : Bool :=
  decide (groupKeys (out.map (·.1)) = breakpoints hasSv bpms svs omin omax) && out.all (rowOkB hasSv bpms svs ref)

/-- the valued rows of the frame `l` are exactly the tempo points -/
def FrameOf (bpms : List Tp) (l : List Row) : Prop :=
  (∀ t b, (t, some b) ∈ l → (⟨t, b⟩ : Tp) ∈ bpms) ∧ (∀ p ∈ bpms, (p.time, some p.bpm) ∈ l)

/-- no valueless row precedes a valued row with the same offset (what a *stable* sort of
`tempo rows ++ marker rows` guarantees, and an unstable one does not: finding D28) -/
def ValuedFirst (l : List Row) : Prop :=
  ∀ a b t, l = a ++ (t, none) :: b → ∀ r ∈ b, r.1 = t → r.2 = none

/-! ### SV normalisation -/

/-- one SV per tempo point, at its time, whose multiplier times that bpm is the reference -/
def SvNormOk (bpms : List Tp) (ref : Rat) (out : List Sv) : Prop :=
  out.length = bpms.length ∧ ∀ i (h : i < bpms.length) (h' : i < out.length),
    out[i].time = bpms[i].time ∧ out[i].mult * bpms[i].bpm = ref

def svNormOkB (bpms : List Tp) (ref : Rat) (out : List Sv) : Bool :=
  decide (out.length = bpms.length) &&
    (bpms.zip out).all fun x => decide (x.2.time = x.1.time) && decide (x.2.mult * x.1.bpm = ref)

/-! ### the hypotheses -/

/-- two tempo points never share a time; there is one; every bpm is non-zero -/
def tempoOkB (bpms : List Tp) : Bool :=
  !bpms.isEmpty && decide ((bpms.map (·.time)).Nodup) && bpms.all (fun p => decide (p.bpm ≠ 0))

/-- `last` is at or after every tempo point (it is `stack().offset.max()`, which includes them) -/
def lastOkB (bpms : List Tp) (last : Rat) : Bool := bpms.all fun p => decide (p.time ≤ last)

/-- the row at the last stacked offset shares its offset with a tempo point that changes the bpm: the sort of
the tempo frame has a tie whose order decides the result (finding D28: numpy's sort is not stable) -/
def tieAtMaxB (bpms : List Tp) (omax : Rat) : Bool :=
  bpms.any fun p => decide (p.time = omax) &&
    bpms.any (fun q => decide (q.time < p.time) && decide (q.bpm ≠ p.bpm) &&
      bpms.all (fun r => decide (r.time < p.time → r.time ≤ q.time)))

/-! ### chart level: what a call must return on the chart as it is at the time of the call -/

/-- the answer of a call is right for the chart `c`: first / last object are the bounds of its stacked offsets -/
def AnswerOk (c : Chart) (q : Call) (a : Answer) : Prop :=
  ∃ lo hi, c.bounds = some (lo, hi) ∧
    match q with
    | .dominant => ∃ v, a = .bpm (some v) ∧ IsDominant c.bpms hi v
    | .speed ov => ∃ ref out, a = .speeds (some out) ∧ IsRef c.bpms hi ov ref ∧
        speedOkB c.hasSv c.bpms c.svs lo hi ref out = true
    | .normalize ov => ∃ ref out, a = .svs (some out) ∧ IsRef c.bpms hi ov ref ∧ SvNormOk c.bpms ref out

/-- the override of a call, if any -/
def Call.override : Call → Option Rat
  | .dominant => none
  | .speed ov => ov
  | .normalize ov => ov

end Reamber.Analysis
