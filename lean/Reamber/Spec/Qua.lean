/-
C06 — what the property demands, stated independently of the pandas steps of the code.

* `denote`      : the chart a parsed .qua document declares, object by object, with the format's defaults for
                  omitted keys (`StartTime` 0, `KeySounds` [], `Bpm` 120, `Multiplier` 1.0 — the defaults reamberPy's
                  reader documents; the Quaver reference cannot be consulted offline: recorded assumption).
* `quantize`    : the chart a written document can denote: times are whole milliseconds (truncated toward 0),
                  a tempo point carries no metronome (default 4), a NaN key-sound cell (not a list) reads back as [].
* `docAllowed`  : only the keys and value types the format defines.
* `DocDom` / `ChartDom` flags: the hypotheses of the theorems of `Props/C06.lean`, as Bool functions the
  harness evaluates through the driver.
Core Lean only.
-/
import Reamber.Model.Qua

namespace Reamber.Qua.Spec

open Reamber.Qua

/-! ### denotation of a document -/

inductive Obj where
  | hit (h : Hit)
  | hold (h : Hold)
deriving Repr, DecidableEq

def startOf (r : Rec) : Except Err Rat :=
  match r.get "StartTime" with
  | none => .ok 0
  | some v => numOf v

def laneOf (r : Rec) : Except Err Int :=
  match r.get "Lane" with
  | none => .error .attr
  | some v => do let q ← numOf v; intOfRat q

def keySoundsOf (r : Rec) : Except Err KsCell :=
  match r.get "KeySounds" with
  | none => .ok (KsCell.list [])
  | some (.ks l) => .ok (KsCell.list l)
  | some _ => .error .type

/-- one hit object: an object with an end time is a hold of that duration -/
def denoteObj (r : Rec) : Except Err Obj := do
  let start ← startOf r
  let lane ← laneOf r
  let ks ← keySoundsOf r
  match r.get "EndTime" with
  | none => .ok (.hit ⟨start, lane - 1, ks⟩)
  | some v => do
    let e ← numOf v
    .ok (.hold ⟨start, lane - 1, e - start, ks⟩)

def objHits : List Obj → List Hit
  | [] => []
  | .hit h :: t => h :: objHits t
  | .hold _ :: t => objHits t

def objHolds : List Obj → List Hold
  | [] => []
  | .hit _ :: t => objHolds t
  | .hold h :: t => h :: objHolds t

def denoteTp (r : Rec) : Except Err Bpm := do
  let o ← match r.get "StartTime" with
    | none => .ok (0 : Rat)
    | some v => numOf v
  let b ← match r.get "Bpm" with
    | none => .ok (120 : Rat)
    | some v => numOf v
  .ok ⟨o, b, 4⟩

def denoteSv (r : Rec) : Except Err Sv := do
  let o ← match r.get "StartTime" with
    | none => .ok (0 : Rat)
    | some v => numOf v
  let m ← match r.get "Multiplier" with
    | none => .ok (1 : Rat)
    | some v => numOf v
  .ok ⟨o, m⟩

/-- the notes, tempo points and scroll velocities a document declares (metadata: `readMeta`, which *is* the
statement "the value of the key, else the default", tags split at spaces) -/
def denote (d : Doc) : Except Err Chart := do
  let ho ← sectionOf d.hitObjects
  let objs ← mapE denoteObj ho
  let tp ← sectionOf d.timingPoints
  let bpms ← mapE denoteTp tp
  let sv ← sectionOf d.sliderVelocities
  let svs ← mapE denoteSv sv
  let m ← readMeta d.info
  .ok ⟨m, objHits objs, objHolds objs, bpms, svs⟩

/-! ### what a written document can carry -/

def qHit (h : Hit) : Hit := { h with offset := (truncI h.offset : Rat), keysounds := ksFill h.keysounds }
def qHold (h : Hold) : Hold :=
  { h with offset := (truncI h.offset : Rat), length := (truncI (h.offset + h.length) : Rat) - (truncI h.offset : Rat),
           keysounds := ksFill h.keysounds }
def qBpm (b : Bpm) : Bpm := { b with offset := (truncI b.offset : Rat), metronome := 4 }
def qSv (s : Sv) : Sv := { s with offset := (truncI s.offset : Rat) }

def quantize (c : Chart) : Chart :=
  ⟨c.info, c.hits.map qHit, c.holds.map qHold, c.bpms.map qBpm, c.svs.map qSv⟩


/-! ### "the same chart with times moved by less than 1 ms" -/

def closeT (a b : Rat) : Bool := decide (a - b < 1) && decide (b - a < 1)

def closeHit (a b : Hit) : Bool := closeT a.offset b.offset && a.column == b.column && a.keysounds == b.keysounds
/-- head and tail of a hold each move by less than 1 ms -/
def closeHold (a b : Hold) : Bool :=
  closeT a.offset b.offset && closeT (a.offset + a.length) (b.offset + b.length) && a.column == b.column &&
  a.keysounds == b.keysounds
/-- the metronome is not compared: the format (as modelled) has no key for it -/
def closeBpm (a b : Bpm) : Bool := closeT a.offset b.offset && a.bpm == b.bpm
def closeSv (a b : Sv) : Bool := closeT a.offset b.offset && a.multiplier == b.multiplier

def closeList {α} (f : α → α → Bool) : List α → List α → Bool
  | [], [] => true
  | a :: as, b :: bs => f a b && closeList f as bs
  | _, _ => false

/-- same objects in the same order, every time within 1 ms (metadata is compared separately) -/
def closeChart (a b : Chart) : Bool :=
  closeList closeHit a.hits b.hits && closeList closeHold a.holds b.holds &&
  closeList closeBpm a.bpms b.bpms && closeList closeSv a.svs b.svs

def closeWhy (a b : Chart) : List String :=
  (if closeList closeHit a.hits b.hits then [] else ["hits"]) ++
  (if closeList closeHold a.holds b.holds then [] else ["holds"]) ++
  (if closeList closeBpm a.bpms b.bpms then [] else ["bpms"]) ++
  (if closeList closeSv a.svs b.svs then [] else ["svs"])

/-! ### allowed keys and value types -/

inductive Ty where
  | int | num | bool | str | ks | list
deriving Repr, DecidableEq

def hasTy : Ty → YV → Bool
  | .int, .int _ => true
  | .num, .int _ => true
  | .num, .flt _ => true
  | .bool, .bool _ => true
  | .str, .str _ => true
  | .ks, .ks _ => true
  | .list, .strs _ => true
  | _, _ => false

def hitObjectKeys : List (String × Ty) := [("StartTime", .int), ("Lane", .int), ("EndTime", .int), ("KeySounds", .ks)]
def timingPointKeys : List (String × Ty) := [("StartTime", .int), ("Bpm", .num)]
def sliderVelocityKeys : List (String × Ty) := [("StartTime", .int), ("Multiplier", .num)]
/-- the declared type of every metadata attribute (`QuaMapMeta` annotations); `Tags` is a string in a file -/
def metaKeyTypes : List (String × Ty) :=
  [("AudioFile", .str), ("SongPreviewTime", .int), ("BackgroundFile", .str), ("BannerFile", .str),
   ("Genre", .str), ("BPMDoesNotAffectScrollVelocity", .bool), ("InitialScrollVelocity", .num),
   ("HasScratchKey", .bool), ("MapId", .int), ("MapSetId", .int), ("Mode", .str),
   ("Title", .str), ("Artist", .str), ("Source", .str), ("Tags", .str), ("Creator", .str),
   ("DifficultyName", .str), ("Description", .str), ("EditorLayers", .list),
   ("CustomAudioSamples", .list), ("SoundEffects", .list)]

def entryAllowed (tbl : List (String × Ty)) (kv : String × YV) : Bool :=
  match tbl.lookup kv.1 with
  | none => false
  | some t => hasTy t kv.2

def recAllowed (tbl : List (String × Ty)) (r : Rec) : Bool := r.all (entryAllowed tbl)

def secAllowed (tbl : List (String × Ty)) : Option (List Rec) → Bool
  | none => false
  | some l => l.all (recAllowed tbl)

def docAllowed (d : Doc) : Bool :=
  recAllowed metaKeyTypes d.info && secAllowed hitObjectKeys d.hitObjects &&
  secAllowed timingPointKeys d.timingPoints && secAllowed sliderVelocityKeys d.sliderVelocities

/-- the entries of a document that are not allowed (for the replay's detail) -/
def offending (d : Doc) : List (String × String) :=
  let bad (sec : String) (tbl : List (String × Ty)) (rs : List Rec) : List (String × String) :=
    (rs.flatMap (fun r => r.filter (fun kv => !entryAllowed tbl kv))).map (fun kv => (sec, kv.1))
  bad "meta" metaKeyTypes [d.info] ++ bad "HitObjects" hitObjectKeys (d.hitObjects.getD []) ++
  bad "TimingPoints" timingPointKeys (d.timingPoints.getD []) ++
  bad "SliderVelocities" sliderVelocityKeys (d.sliderVelocities.getD [])

/-! ### hypotheses of the theorems, as Bool functions -/

/-- every hit object declares its `KeySounds` (no longer a hypothesis since the repair of D21; kept as a tag) -/
def keySoundsDeclared (d : Doc) : Bool :=
  (d.hitObjects.getD []).all (fun r => match r.get "KeySounds" with | some (.ks _) => true | _ => false)

/-- every hit object declares its `Lane` (the property does not speak about an omitted lane) -/
def lanesDeclared (d : Doc) : Bool := (d.hitObjects.getD []).all (fun r => (r.get "Lane").isSome)

/-- a numeric key: absent, or a YAML int / float -/
def numLike : Option YV → Bool
  | none => true
  | some (.int _) => true
  | some (.flt _) => true
  | _ => false

/-- a hit object as the property quantifies over them: `StartTime` / `EndTime` numeric when present, `Lane` an
integer, `KeySounds` omitted or a list of key sounds -/
def objOk (r : Rec) : Bool :=
  numLike (r.get "StartTime") && numLike (r.get "EndTime") &&
  (match r.get "Lane" with | some (.int _) => true | _ => false) &&
  (match r.get "KeySounds" with | none => true | some (.ks _) => true | _ => false)

def objsDeclared (d : Doc) : Bool := (d.hitObjects.getD []).all objOk

/-- no `keysounds` cell of the chart is NaN (the code no longer produces such cells since the repair of D08/D21) -/
def ksLists (c : Chart) : Bool :=
  c.hits.all (fun h => h.keysounds != .nan) && c.holds.all (fun h => h.keysounds != .nan)

/-- in-memory type of every metadata attribute: as `metaKeyTypes`, with `Tags` a list -/
def memKeyTypes : List (String × Ty) :=
  metaKeyTypes.map (fun kt => if kt.1 = tagsKey then (kt.1, Ty.list) else kt)

def metaTyped (m : Rec) : Bool := recAllowed memKeyTypes m

/-- a tag survives `" ".join` / `split(" ")`: non-empty, no space -/
def tagOk (t : String) : Bool := !t.toList.isEmpty && !t.toList.contains ' '

def tagsOk (m : Rec) : Bool :=
  match m.get tagsKey with
  | some (.strs l) => l.all tagOk
  | _ => false

def metaKeysOk (m : Rec) : Bool := m.map Prod.fst == metaKeys

end Reamber.Qua.Spec
