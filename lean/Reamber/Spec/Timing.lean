/-
Declarative semantics of tempo maps, independent of the sweep in `Model/Timing.lean`.

`timeAt t0 cs s` : the millisecond position of snap `s` under tempo changes `cs` (ascending, first at
measure 0 beat 0, which sits at `t0`):  T₀ = t0,  T_{i+1} = T_i + dist_i(s_i, s_{i+1}) · 60000/bpm_i,
timeAt s = T_i + dist_i(s_i, s) · 60000/bpm_i  for the last i with s_i ≤ s — piecewise-linear integration
of beat length.  `dist_i` counts beats with the metronome in force in segment i.
-/
import Reamber.Model.Timing

namespace Reamber.Timing

/-- beats from `a` to `b` when every measure in between has `M` beats -/
def snapDist (a b : Snap) (M : Rat) : Rat := ((b.measure - a.measure : Int) : Rat) * M + (b.beat - a.beat)

def timeAtAux (T : Rat) (cur : BcSnap) : List BcSnap → Snap → Rat
  | [], s => T + snapDist cur.snap s cur.met * beatLen cur.bpm
  | nxt :: rest, s =>
    if nxt.snap.le s then timeAtAux (T + snapDist cur.snap nxt.snap cur.met * beatLen cur.bpm) nxt rest s
    else T + snapDist cur.snap s cur.met * beatLen cur.bpm

def timeAt (t0 : Rat) (cs : List BcSnap) (s : Snap) : Rat :=
  match cs with
  | [] => t0
  | c :: rest => timeAtAux t0 c rest s

/-- millisecond position of each change itself -/
def changeTimes (t0 : Rat) (cs : List BcSnap) : List Rat := cs.map (fun c => timeAt t0 cs c.snap)

def rabs (x : Rat) : Rat := if x < 0 then -x else x

/-- `y` is a nearest element of `g` to `x` -/
def IsNearest (g : List Rat) (x y : Rat) : Prop := y ∈ g ∧ ∀ z ∈ g, rabs (y - x) ≤ rabs (z - x)

/-- decidable version used by the driver on implementation output -/
def isNearestB (g : List Rat) (x y : Rat) : Bool := g.contains y && g.all (fun z => decide (rabs (y - x) ≤ rabs (z - x)))

/-- snaps ascending (weakly) -/
def sortedSnaps : List BcSnap → Bool
  | [] => true
  | [_] => true
  | a :: b :: rest => a.snap.le b.snap && sortedSnaps (b :: rest)

/-- snaps strictly ascending: no two changes at the same position -/
def strictSnaps : List BcSnap → Bool
  | [] => true
  | [_] => true
  | a :: b :: rest => a.snap.lt b.snap && strictSnaps (b :: rest)

/-- The fractional part of the beat distance between consecutive changes is a grid value — the hypothesis
`TimingMap` forces by storing only millisecond offsets and re-snapping every change on every query (D22). -/
def gridCompatible (g : List Rat) : List BcSnap → Bool
  | [] => true
  | [_] => true
  | a :: b :: rest => g.contains (frac (snapDist a.snap b.snap a.met)) && gridCompatible g (b :: rest)

/-- metronome constant, or changing only on measure lines, and every change's beat inside its measure -/
def metronomeOk : List BcSnap → Bool
  | [] => true
  | [_] => true
  | a :: b :: rest => (decide (a.met = b.met) || decide (b.snap.beat = 0)) && metronomeOk (b :: rest)

/-- a tempo change in the form the constructors produce (`BpmChangeSnap(bpm, metronome, Snap(m, b, metronome))`):
the snap carries the change's own metronome, which is a positive whole number; the bpm is positive; the position
is normalised (measure ≥ 0, 0 ≤ beat < metronome) -/
def wfChange (c : BcSnap) : Bool :=
  decide (c.snap.met = some c.met) && decide (c.met.den = 1) && decide (0 < c.met) && decide (0 < c.bpm)
    && decide (0 ≤ c.snap.measure) && decide (0 ≤ c.snap.beat) && decide (c.snap.beat < c.met)

def wfChanges (cs : List BcSnap) : Bool := cs.all wfChange

/-- the first change sits on measure 0, beat 0 (what `from_bpm_changes_snap` demands) -/
def firstAtZero : List BcSnap → Bool
  | [] => false
  | c :: _ => decide (c.snap.measure = 0) && decide (c.snap.beat = 0)

/-- a query at or after the first change, with a non-negative beat (any `Snap(...)` the constructor accepts) -/
def queryOk (cs : List BcSnap) (q : Snap) : Bool :=
  match cs with
  | [] => false
  | c :: _ => c.snap.le q && decide (0 ≤ q.beat)

/-- cumulative beat count of each change (constant metronome reading: `measure·M + beat` differences) -/
def changeBeatsAux (B : Rat) (cur : BcSnap) : List BcSnap → List Rat
  | [] => [B]
  | nxt :: rest => B :: changeBeatsAux (B + snapDist cur.snap nxt.snap cur.met) nxt rest

def changeBeats : List BcSnap → List Rat
  | [] => []
  | c :: rest => changeBeatsAux 0 c rest

/-- index of the last change whose time is ≤ t (none if t precedes the first) -/
def activeIdx (Ts : List Rat) (t : Rat) : Option Nat :=
  let k := (Ts.takeWhile (fun T => decide (T ≤ t))).length
  if k = 0 then none else some (k - 1)

/-- neighbours of `r` in an ascending grid and the tie margin `(r - lo) - (hi - r)` -/
def tieMargin (g : List Rat) (r : Rat) : Rat :=
  let lo := ((g.filter (fun z => decide (z ≤ r))).getLast?).getD 0
  let hi := (g.find? (fun z => decide (z ≥ r))).getD 1
  (r - lo) - (hi - r)

structure TimeInfo where
  beforeFirst : Bool
  onGrid : Bool
  beatLen : Rat
  absBeat : Rat
  tieMargin : Option Rat

/-- what the specification says about a millisecond time `t`: the active segment, its beat distance from
that segment's change, whether that distance is on the snap grid -/
def timeInfo (g : List Rat) (t0 : Rat) (cs : List BcSnap) (t : Rat) : TimeInfo :=
  let Ts := changeTimes t0 cs
  match activeIdx Ts t with
  | none => ⟨true, false, 0, 0, none⟩
  | some i =>
    let c := cs.getD i default
    let T := Ts.getD i 0
    let B := (changeBeats cs).getD i 0
    let bl := beatLen c.bpm
    let d := (t - T) / bl
    let r := frac d
    let on := g.contains r
    ⟨false, on, bl, B + d, if on then none else some (tieMargin g r)⟩

/-- the tempo segment in force at time `t`: (time of its change, cumulative beats at its change, the change) -/
def segAtAux (T B : Rat) (cur : BcSnap) : List BcSnap → Rat → Rat × Rat × BcSnap
  | [], _ => (T, B, cur)
  | n :: rest, t =>
    if T + snapDist cur.snap n.snap cur.met * beatLen cur.bpm ≤ t then
      segAtAux (T + snapDist cur.snap n.snap cur.met * beatLen cur.bpm) (B + snapDist cur.snap n.snap cur.met) n rest t
    else (T, B, cur)

/-- what the specification says about a millisecond time `t`, by recursion over the (sorted) change list — the
form the round-trip and beats theorems of `Props/C10.lean` are stated against (`OnGridAt`, `activeBeatLen`,
`beatAt` are its components) -/
def timeInfo2 (g : List Rat) (t0 : Rat) (cs : List BcSnap) (t : Rat) : TimeInfo :=
  match cs with
  | [] => ⟨true, false, 0, 0, none⟩
  | c :: rest =>
    if t < t0 then ⟨true, false, 0, 0, none⟩ else
    let s := segAtAux t0 0 c rest t
    let bl := beatLen s.2.2.bpm
    let d := (t - s.1) / bl
    let r := frac d
    let on := g.contains r
    ⟨false, on, bl, s.2.1 + d, if on then none else some (tieMargin g r)⟩

end Reamber.Timing
