/-
`denote` — what a `.sm` text means by the StepMania rules, written independently of the reader's code
structure (no `split`-then-route):

* MSD layer, a character automaton: `//` starts a comment that runs to the end of the line (anywhere);
  outside a value everything up to the next `#` is ignored; `#` opens a value, `:` separates its
  parameters, `;` closes it; parameters are trimmed.  (Backslash escapes and the "missing `;`" recovery of
  newer MSD readers are outside the domain: `denote` is `none` on texts that would need them.)
* `.sm` layer: `#OFFSET` seconds, `#BPMS` `beat=bpm` pairs, `#NOTES` with exactly six parameters after the
  tag (type, description, difficulty, meter, radar, note data).
* note data, a character scanner: `,` ends a measure, a line break ends a row, rows are trimmed, blank rows
  do not count; row `r` of the `R` rows of measure `m` is at beat `4m + 4r/R`; symbols `1 2 3 4 M L F K`;
  a `3` closes the latest unclosed `2`/`4` of its column; a row shorter than the key count leaves the
  missing columns empty.
* time of a beat: `Timing.timeAt (−1000·OFFSET)` over the `#BPMS` changes (piecewise-linear integration of
  beat length), `Spec/Timing.lean`.

Core only.  Number lexing (`parseFloat`, `parseInt`, `isWs`) is shared with the model (K3).
-/
import Reamber.Model.SM
import Reamber.Spec.Timing

namespace Reamber.SM

open Reamber.Timing

/-! ### MSD layer -/

/-- remove `//…` up to (not including) the line break; the flag says "inside a comment" -/
def stripCommentsAux : Bool → Str → Str
  | _, [] => []
  | true, c :: t => if c = '\n' then c :: stripCommentsAux false t else stripCommentsAux true t
  | false, [c] => [c]
  | false, c :: d :: t =>
    if c = '/' ∧ d = '/' then stripCommentsAux true t else c :: stripCommentsAux false (d :: t)

def stripComments (s : Str) : Str := stripCommentsAux false s

def trim (s : Str) : Str := ((s.dropWhile isWs).reverse.dropWhile isWs).reverse

structure Msd where
  done : List (List Str) := []     -- finished values, most recent first
  params : List Str := []          -- finished parameters of the open value, most recent first
  cur : Str := []                  -- open parameter, reversed
  inValue : Bool := false
  clean : Bool := true             -- no `\`, no `#` inside a value
deriving Repr, Inhabited

def Msd.close (st : Msd) : Msd :=
  { st with done := ((trim st.cur.reverse :: st.params).reverse) :: st.done, params := [], cur := [], inValue := false }

def msdStep (st : Msd) (c : Char) : Msd :=
  let st := if c = '\\' then { st with clean := false } else st
  if !st.inValue then
    if c = '#' then { st with inValue := true, params := [], cur := [] } else st
  else if c = ':' then { st with params := trim st.cur.reverse :: st.params, cur := [] }
  else if c = ';' then st.close
  else if c = '#' then { st with clean := false, cur := c :: st.cur }
  else { st with cur := c :: st.cur }

/-- the values of an MSD text, in file order, each a list of trimmed parameters (the first is the tag
without `#`); `none` when the text needs escapes / recovery -/
def msd (text : Str) : Option (List (List Str)) :=
  let st := (stripComments text).foldl msdStep {}
  let st := if st.inValue then st.close else st
  if st.clean then some st.done.reverse else none

/-! ### note data -/

structure Scan where
  measures : List (List Str) := []   -- finished measures, most recent first; rows in order
  rows : List Str := []              -- finished rows of the open measure, most recent first
  line : Str := []                   -- open line, reversed
deriving Repr, Inhabited

def Scan.endLine (s : Scan) : Scan :=
  let l := trim s.line.reverse
  if l.isEmpty then { s with line := [] } else { s with rows := l :: s.rows, line := [] }

def Scan.endMeasure (s : Scan) : Scan :=
  let s := s.endLine
  { s with measures := s.rows.reverse :: s.measures, rows := [] }

def scanStep (s : Scan) (c : Char) : Scan :=
  if c = ',' then s.endMeasure
  else if c = '\n' then s.endLine
  else { s with line := c :: s.line }

/-- measures → rows (trimmed, blank rows dropped) -/
def scanRows (data : Str) : List (List Str) := ((data.foldl scanStep {}).endMeasure).measures.reverse

inductive Sym where
  | tap (k : Kind) | head (k : Kind) | tail
deriving Repr, DecidableEq

/-- the StepMania note symbols -/
def symOf (c : Char) : Option Sym :=
  if c = '1' then some (.tap .hit) else if c = '2' then some (.head .hold) else if c = '3' then some .tail
  else if c = '4' then some (.head .roll) else if c = 'M' then some (.tap .mine) else if c = 'L' then some (.tap .lift)
  else if c = 'F' then some (.tap .fake) else if c = 'K' then some (.tap .keysound) else none

structure DNote where
  kind : Kind
  col : Nat
  beat : Rat
  endBeat : Option Rat      -- holds and rolls
deriving Repr, DecidableEq, Inhabited

/-- pairing state: finished notes (most recent first), open head per column, "every tail found a head and no
head was opened over an open one" -/
structure Pair where
  notes : List DNote := []
  opened : List (Nat × Kind × Rat) := []
  ok : Bool := true
deriving Repr, Inhabited

def pairStep (p : Pair) (col : Nat) (beat : Rat) (s : Sym) : Pair :=
  match s with
  | .tap k => { p with notes := ⟨k, col, beat, none⟩ :: p.notes }
  | .head k =>
    if (p.opened.lookup col).isSome then { p with ok := false }
    else { p with opened := (col, k, beat) :: p.opened }
  | .tail =>
    match p.opened.lookup col with
    | some (k, b) => { p with notes := ⟨k, col, b, some beat⟩ :: p.notes, opened := p.opened.filter (fun e => e.1 != col) }
    | none => { p with ok := false }

/-- the symbols of a row with their columns (column = index in the trimmed row) -/
def rowSyms (row : Str) : List (Nat × Sym) :=
  row.zipIdx.filterMap fun (ci : Char × Nat) => (symOf ci.1).map (fun s => (ci.2, s))

/-- all (column, beat, symbol) events of the note data in time order: row `r` of `R` in measure `m` ↦ `4m + 4r/R` -/
def events (ms : List (List Str)) : List (Nat × Rat × Sym) :=
  ms.zipIdx.flatMap fun (rm : List Str × Nat) =>
    rm.1.zipIdx.flatMap fun (rr : Str × Nat) =>
      let beat : Rat := 4 * (rm.2 : Rat) + 4 * (rr.2 : Rat) / (rm.1.length : Rat)
      (rowSyms rr.1).map fun cs => (cs.1, beat, cs.2)

def pairAll (evs : List (Nat × Rat × Sym)) : Pair := evs.foldl (fun p e => pairStep p e.1 e.2.1 e.2.2) {}

structure DChart where
  chartType : Str
  description : Str
  difficulty : Str
  meter : Option Int
  radar : Option (List Rat)
  notes : List DNote
  wellBracketed : Bool        -- every `3` closes a head, no head opened over an open one, none left open
  rowsMult4 : Bool            -- every measure has a multiple-of-4 number of rows
  maxRowLen : Nat
  measures : List (List Str)  -- the rows as scanned
deriving Repr, Inhabited

def denoteChart (ps : List Str) : DChart :=
  let ms := scanRows (ps.getD 5 [])
  let p := pairAll (events ms)
  { chartType := ps.getD 0 [], description := ps.getD 1 [], difficulty := ps.getD 2 [],
    meter := (parseInt (ps.getD 3 [])).toOption,
    radar := (mapE parseFloat ((splitOn ',' (ps.getD 4 [])).map trim)).toOption,
    notes := p.notes.reverse,
    wellBracketed := p.ok && p.opened.isEmpty,
    rowsMult4 := ms.all (fun rows => rows.length % 4 == 0),
    maxRowLen := (ms.map (fun rows => (rows.map List.length).foldl max 0)).foldl max 0,
    measures := ms }

structure Denoted where
  values : List (List Str)          -- every MSD value (tag first)
  offsetSec : Option Rat
  bpms : Option (List (Rat × Rat))  -- `#BPMS` pairs in file order
  stopsPresent : Bool               -- a `#STOPS` value exists
  stopsEmpty : Bool                 -- …and it is empty
  charts : List DChart
  chartsWellFormed : Bool           -- every `#NOTES` value has exactly six parameters after the tag
deriving Repr, Inhabited

def tagIs (name : Str) (v : List Str) : Bool := v.head? == some name

def firstParam (vals : List (List Str)) (name : Str) : Option Str :=
  ((vals.filter (tagIs name)).getLast?).map (fun v => v.getD 1 [])

def parsePair (s : Str) : Option (Rat × Rat) :=
  match splitOn '=' s with
  | [a, b] => match parseFloat a, parseFloat b with
    | .ok x, .ok y => some (x, y)
    | _, _ => none
  | _ => none

def parsePairs (s : Str) : Option (List (Rat × Rat)) :=
  let items := ((splitOn ',' s).map trim).filter (fun x => !x.isEmpty)
  items.foldr (fun it acc => match parsePair it, acc with
    | some p, some l => some (p :: l)
    | _, _ => none) (some [])

def denote (text : Str) : Option Denoted :=
  match msd text with
  | none => none
  | some vals =>
    let notes := vals.filter (tagIs ['N','O','T','E','S'])
    let stops := firstParam vals ['S','T','O','P','S']
    some {
      values := vals
      offsetSec := (firstParam vals ['O','F','F','S','E','T']).bind (fun s => (parseFloat s).toOption)
      bpms := (firstParam vals ['B','P','M','S']).bind parsePairs
      stopsPresent := stops.isSome
      stopsEmpty := match stops with
        | some s => s.isEmpty
        | none => false
      charts := notes.map (fun v => denoteChart v.tail)
      chartsWellFormed := notes.all (fun v => v.length == 7) }

/-! ### times -/

/-- the position `(measure, beat)` of an absolute beat count, 4 beats per measure -/
def snapOfBeat (q : Rat) : Snap :=
  let m : Int := (q / 4).floor
  ⟨m, q - 4 * (m : Rat), some 4⟩

/-- `#BPMS` pairs as tempo changes, ascending by beat (stable) -/
def changesOf (bpms : List (Rat × Rat)) : List BcSnap :=
  (isort (fun a b => decide (a.1 ≤ b.1)) bpms).map fun p => ⟨p.2, 4, snapOfBeat p.1⟩

/-- millisecond position of an absolute beat: integrate beat length over the `#BPMS` segments from `−1000·OFFSET` -/
def timeOfBeat (offsetSec : Rat) (bpms : List (Rat × Rat)) (beat : Rat) : Rat :=
  timeAt (-(1000 * offsetSec)) (changesOf bpms) (snapOfBeat beat)

/-- the tempo part of the domain: a first change at beat 0, changes at distinct non-negative beats, positive tempos -/
def tempoOk (bpms : List (Rat × Rat)) : Bool :=
  let s := isort (fun a b => decide (a.1 ≤ b.1)) bpms
  (match s.head? with
   | some p => p.1 == 0
   | none => false) &&
  s.all (fun p => decide (0 < p.2)) &&
  (s.zip s.tail).all (fun pq => decide (pq.1.1 < pq.2.1))

/-- every tempo-change beat lies on the 1/48-beat grid -/
def tempoOnGrid (bpms : List (Rat × Rat)) : Bool := bpms.all (fun p => (p.1 * 48).den == 1)

structure TNote where
  kind : Kind
  col : Nat
  time : Rat
  length : Rat
deriving Repr, DecidableEq, Inhabited

def timedNotes (offsetSec : Rat) (bpms : List (Rat × Rat)) (c : DChart) : List TNote :=
  c.notes.map fun n =>
    let t := timeOfBeat offsetSec bpms n.beat
    match n.endBeat with
    | none => ⟨n.kind, n.col, t, 0⟩
    | some e => ⟨n.kind, n.col, t, timeOfBeat offsetSec bpms e - t⟩

/-- millisecond position of every `#BPMS` change -/
def tempoTimes (offsetSec : Rat) (bpms : List (Rat × Rat)) : List Rat :=
  bpms.map fun p => timeOfBeat offsetSec bpms p.1

end Reamber.SM
