/-
C14 — specification: what "leaves its inputs identical" and "shares no mutable state" mean on heaps, stated
independently of the step function of Model/Effects.lean, with decidable versions that the harness evaluates
(through the driver) on what it observed around every real call.
-/
import Reamber.Model.Effects

namespace Reamber.Effects

/-- every listed cell holds the same frame (or is equally absent) in `h'` as in `h` -/
def FrameHolds {α} (h h' : Heap α) (refs : List Ref) : Prop := ∀ r ∈ refs, h'[r]? = h[r]?

/-- no cell reachable from the result existed before the call (`n` = heap size before the call) -/
def Fresh (n : Nat) (ret : List Ref) : Prop := ∀ r ∈ ret, n ≤ r

def frameB {α} [DecidableEq α] (h h' : Heap α) (refs : List Ref) : Bool := refs.all (fun r => decide (h'[r]? = h[r]?))

def freshB (n : Nat) (ret : List Ref) : Bool := ret.all (fun r => decide (n ≤ r))

theorem frameB_iff {α} [DecidableEq α] (h h' : Heap α) (refs : List Ref) :
    frameB h h' refs = true ↔ FrameHolds h h' refs := by
  simp [frameB, FrameHolds]

theorem freshB_iff (n : Nat) (ret : List Ref) : freshB n ret = true ↔ Fresh n ret := by
  simp [freshB, Fresh]

/-- cells whose content differs between two heaps (absent vs present counts as different) -/
def changed {α} [DecidableEq α] (h h' : Heap α) : List Ref :=
  (List.range (max h.length h'.length)).filter (fun r => decide (h'[r]? ≠ h[r]?))

/-- an unchanged frame is unchanged in each of the four things the property names -/
theorem Frame.same_components {f g : Frame} (e : f = g) :
    f.rows = g.rows ∧ f.cols.map (·.1) = g.cols.map (·.1) ∧ f.cols.map (·.2) = g.cols.map (·.2) ∧ f.labels = g.labels ∧
    f.kind = g.kind := by
  subst e; exact ⟨rfl, rfl, rfl, rfl, rfl⟩

end Reamber.Effects
