/-
C08 — what the property demands of a conversion result, independent of how `cast`/`convert` compute it.
Every clause is a `Bool` so that the driver can evaluate it on the *implementation's* output; the theorems of
`Props/C08.lean` are stated against these same definitions.

For source `src` (its maps `m₀ … m_{n-1}`), shift argument `k` and result `out` (charts `t₀ …`):
* `onePerSource` — as many target charts as source charts;
* `contentOk`    — hits `(offset, column)`, holds `(offset, column, length)`, tempo points `(offset, bpm)` of `tᵢ`
                   are those of `mᵢ` as multisets of rows, the column shifted by exactly `k`;
* `svsOk`        — when both games have scroll velocities: `(offset, multiplier)` carried over;
* `fieldsOk`     — every list of `tᵢ` has exactly the columns its class declares, full length, no NaN;
* `metaOk`       — title / artist / creator equal the source's; the difficulty name ends with the source's
                   (a presentation prefix such as `"Level "` is allowed); a role one of the two games lacks is skipped;
* `untouched`    — the source after the call equals the source before.
-/
import Reamber.Model.Convert

namespace Reamber.Convert

/-- the first `n` rows of some columns, row-wise (a short column reads as NaN) -/
def rowsOf (cols : List (List Cell)) (n : Nat) : List (List Cell) :=
  (List.range n).map fun i => cols.map fun c => c.getD i .nan

def colsOf (f : Frame) : List String → Option (List (List Cell))
  | [] => some []
  | k :: t =>
    match f.col? k, colsOf f t with
    | some c, some r => some (c :: r)
    | _, _ => none

/-- rows of `f` restricted to the columns `ks` (`none` when one is missing) -/
def projRows (f : Frame) (ks : List String) : Option (List (List Cell)) :=
  (colsOf f ks).map (rowsOf · f.nrows)

/-- shift the second entry (the column) of a projected row -/
def shiftRow (k : Int) : List Cell → List Cell
  | o :: c :: rest => o :: addCell k c :: rest
  | r => r

def keysHits : List String := ["offset", "column"]
def keysHolds : List String := ["offset", "column", "length"]
def keysBpms : List String := ["offset", "bpm"]
def keysSvs : List String := ["offset", "multiplier"]

/-- the rows of `tgt` over `ks` are those of `src` (column shifted by `k`), as multisets -/
def sameRows (tgt src : Frame) (ks : List String) (k : Int) : Bool :=
  match projRows tgt ks, projRows src ks with
  | some rt, some rs => rt.isPerm (rs.map (shiftRow k))
  | _, _ => false

def contentOk (k : Int) (m : SrcMap) (t : TChart) : Bool :=
  match m.lists.lookup "hits", m.lists.lookup "holds", m.lists.lookup "bpms" with
  | some h, some l, some b =>
    sameRows t.hits h keysHits k && sameRows t.holds l keysHolds k && sameRows t.bpms b keysBpms 0
  | _, _, _ => false

/-- the game's map class declares an `svs` list -/
def hasSvs (mcs : List MapClass) (game : String) : Bool :=
  mcs.any fun mc => mc.game == game && (mc.lists.lookup "svs").isSome

def svsOk (mcs : List MapClass) (sg tg : String) (m : SrcMap) (t : TChart) : Bool :=
  if hasSvs mcs sg && hasSvs mcs tg then
    match m.lists.lookup "svs", t.svs with
    | some s, some ts => sameRows ts s keysSvs 0
    | _, _ => false
  else true

def noNan (f : Frame) : Bool := f.cols.all fun p => p.2.all (· != Cell.nan)

/-- exactly the declared columns, each of full length, no missing value -/
def frameFieldsOk (lc : ListClass) (f : Frame) : Bool :=
  f.names.isPerm (lc.props.map (·.1)) && f.cols.all (fun p => p.2.length == f.nrows) && noNan f

def listFieldsOk (T : Tables) (mapClass attr : String) (f : Frame) : Bool :=
  match (T.mcs.find? (·.name == mapClass)).bind (·.lists.lookup attr) with
  | none => false
  | some cls =>
    match findClass T.lcs cls with
    | none => false
    | some lc => frameFieldsOk lc f

def fieldsOk (T : Tables) (mapClass : String) (t : TChart) : Bool :=
  listFieldsOk T mapClass "hits" t.hits && listFieldsOk T mapClass "holds" t.holds &&
  listFieldsOk T mapClass "bpms" t.bpms &&
  (match t.svs with
   | some s => listFieldsOk T mapClass "svs" s
   | none => ((T.mcs.find? (·.name == mapClass)).bind (·.lists.lookup "svs")).isNone)

inductive Role where
  | title | artist | creator | diff
  deriving DecidableEq, Repr

/-- where a game keeps a role when it is the *target*: (`"map"`/`"set"`, attribute).  StepMania has no free-text
difficulty name (its difficulty is one of six slots plus a meter), BMS has no creator. -/
def tgtRole : String → Role → Option (String × String)
  | "osu", .title => some ("map", "title")
  | "osu", .artist => some ("map", "artist")
  | "osu", .creator => some ("map", "creator")
  | "osu", .diff => some ("map", "version")
  | "qua", .title => some ("map", "title")
  | "qua", .artist => some ("map", "artist")
  | "qua", .creator => some ("map", "creator")
  | "qua", .diff => some ("map", "difficulty_name")
  | "sm", .title => some ("set", "title")
  | "sm", .artist => some ("set", "artist")
  | "sm", .creator => some ("set", "credit")
  | "bms", .title => some ("map", "title")
  | "bms", .artist => some ("map", "artist")
  | "bms", .diff => some ("map", "version")
  | _, _ => none

/-- a reference to the source's metadata, independent of the variable names a converter body uses -/
inductive RAtom where
  | lit (s : String)
  /-- attribute of the map set (StepMania, O2Jam sources) -/
  | setAttr (a : String)
  /-- attribute of the map -/
  | mapAttr (a : String)
  /-- the map's level name (O2Jam) -/
  | level
  deriving DecidableEq, Repr

/-- what a role *is* in each source game: the attribute(s) whose concatenation is the role's text -/
def roleSpec : String → Role → Option (List RAtom)
  | "osu", .title => some [.mapAttr "title"]
  | "osu", .artist => some [.mapAttr "artist"]
  | "osu", .creator => some [.mapAttr "creator"]
  | "osu", .diff => some [.mapAttr "version"]
  | "qua", .title => some [.mapAttr "title"]
  | "qua", .artist => some [.mapAttr "artist"]
  | "qua", .creator => some [.mapAttr "creator"]
  | "qua", .diff => some [.mapAttr "difficulty_name"]
  | "bms", .title => some [.mapAttr "title"]
  | "bms", .artist => some [.mapAttr "artist"]
  | "bms", .diff => some [.mapAttr "version"]
  | "sm", .title => some [.setAttr "title"]
  | "sm", .artist => some [.setAttr "artist"]
  | "sm", .creator => some [.setAttr "credit"]
  | "sm", .diff => some [.mapAttr "difficulty", .lit " ", .mapAttr "difficulty_val"]
  | "o2j", .title => some [.setAttr "title"]
  | "o2j", .artist => some [.setAttr "artist"]
  | "o2j", .creator => some [.setAttr "creator"]
  | "o2j", .diff => some [.level]
  | _, _ => none

def evalRAtom (src : Src) (m : SrcMap) : RAtom → Option String
  | .lit s => some s
  | .setAttr a => src.attrs.lookup a
  | .mapAttr a => m.attrs.lookup a
  | .level => some m.levelName

def evalRAtoms (src : Src) (m : SrcMap) : List RAtom → Option String
  | [] => some ""
  | a :: t =>
    match evalRAtom src m a, evalRAtoms src m t with
    | some x, some y => some (x ++ y)
    | _, _ => none

/-- the value a role has in the *source* (`none`: the game lacks the role, or the attribute is absent) -/
def srcRole (game : String) (r : Role) (src : Src) (m : SrcMap) : Option String :=
  (roleSpec game r).bind (evalRAtoms src m)

def roleOk (sg tg : String) (r : Role) (src : Src) (m : SrcMap) (g : TGroup) (t : TChart) : Bool :=
  match tgtRole tg r, srcRole sg r src m with
  | some (lvl, a), some v =>
    match (if lvl == "set" then g.setMeta else t.attrs).lookup a with
    | some w => if r = .diff then v.toList.isSuffixOf w.toList else w == v
    | none => false
  | _, _ => true

def metaOk (sg tg : String) (src : Src) (m : SrcMap) (g : TGroup) (t : TChart) : Bool :=
  roleOk sg tg .title src m g t && roleOk sg tg .artist src m g t &&
  roleOk sg tg .creator src m g t && roleOk sg tg .diff src m g t

def onePerSource (src : Src) (out : Out) : Bool := out.charts.length == src.maps.length

/-- each chart paired with the group (top-level object) it sits in -/
def Out.pairs (o : Out) : List (TGroup × TChart) := o.groups.flatMap fun g => g.charts.map fun t => (g, t)

structure Verdict where
  onePer : Bool
  content : Bool
  svs : Bool
  fields : Bool
  metas : Bool
  deriving DecidableEq, Repr

/-- all clauses over the charts paired with the source maps by position -/
def specAll (T : Tables) (sg tg mapClass : String) (src : Src) (k : Int) (out : Out) : Verdict :=
  let ps := src.maps.zip out.pairs
  { onePer := onePerSource src out
    content := ps.all fun p => contentOk k p.1 p.2.2
    svs := ps.all fun p => svsOk T.mcs sg tg p.1 p.2.2
    fields := out.pairs.all fun p => fieldsOk T mapClass p.2
    metas := ps.all fun p => metaOk sg tg src p.1 p.2.1 p.2.2 }

def Verdict.all (v : Verdict) : Bool := v.onePer && v.content && v.svs && v.fields && v.metas

def untouched (before after : Src) : Bool := decide (before = after)

/-! ### static conditions on a table entry, and the dynamic conditions on a source (hypotheses of the theorems) -/

def isAttr : MapFrom → Bool
  | .attr _ => true
  | .arrayStr _ _ => true
  | _ => false

/-- no mapping entry is assigned by row label (was false for `BMSToOsu` before D27 was repaired) -/
def labelsFree (c : Conv) : Bool := c.casts.all fun cc => cc.mapping.all fun p => isAttr p.2

def freshFrame (f : Frame) : Bool := f.index == rangeIdx f.nrows

/-- every list of the map carries the labels `0..n-1` (true of a freshly read / freshly built chart only) -/
def freshLabels (m : SrcMap) : Bool := m.lists.all fun p => freshFrame p.2

def classHasListDefault (lc : ListClass) : Bool := lc.props.any fun p => p.2.2 == Dflt.emptyList

/-- some list class the converter casts into declares a `[]` default (Quaver `keysounds`; before D08 was repaired
`empty` left NaN there) -/
def tgtHasListDefault (T : Tables) (c : Conv) : Bool :=
  c.casts.any fun cc => match findClass T.lcs cc.cls with
    | some lc => classHasListDefault lc
    | none => false

def goodShape : Shape → Bool
  | .single | .singleSet | .listOfMaps | .listOfSets | .mergedSet => true
  | _ => false

/-- the last entry of a mapping that names `to` (what the column holds in the end: later assignments win) -/
def lastFrom : List (String × MapFrom) → String → Option MapFrom → Option MapFrom
  | [], _, acc => acc
  | (t, f) :: rest, to, acc => lastFrom rest to (if t == to then some f else acc)

/-- the last cast into `attr` reads the current source map's `attr`, builds the class the target map declares for
`attr`, names declared columns only, and (finally) maps each key column to itself -/
def castStaticOk (T : Tables) (c : Conv) (attr : String) (keys : List String) : Bool :=
  match declaredCls T.mcs c attr, lastCast c attr with
  | some cls, some cc =>
    cc.cls == cls && cc.srcVar == curVar c && cc.srcAttr == attr &&
    (match findClass T.lcs cls with
     | some lc =>
       keys.all (fun k => lastFrom cc.mapping k none == some (MapFrom.attr k)) &&
       keys.all (fun k => ((schemaOf lc).map (·.1)).contains k) &&
       cc.mapping.all (fun p => (lc.props.map (·.1)).contains p.1)
     | none => false)
  | _, _ => false

def svsStaticOk (T : Tables) (c : Conv) : Bool :=
  if hasSvs T.mcs c.srcGame && hasSvs T.mcs c.tgtGame then castStaticOk T c "svs" keysSvs
  else (lastCast c "svs").isNone

def staticOk (T : Tables) (c : Conv) : Bool :=
  c.unparsed.isEmpty && goodShape c.shape &&
  castStaticOk T c "hits" keysHits && castStaticOk T c "holds" keysHolds && castStaticOk T c "bpms" keysBpms &&
  svsStaticOk T c &&
  c.casts.all (fun cc => (findClass T.lcs cc.cls).isSome && (declaredCls T.mcs c cc.tgtAttr).isSome)

/-- what an atom of a converter body refers to: the parameter is the set when the body loops over it, else the
map; the loop variable is the map (mirrors `evalAtom`) -/
def abstractAtom (c : Conv) : Atom → Option RAtom
  | .lit s => some (.lit s)
  | .attr o a =>
    if o == c.param then (if c.loopVar.isSome then some (.setAttr a) else some (.mapAttr a))
    else if some o == c.loopVar then some (.mapAttr a)
    else none
  | .levelName s m => if s == c.param && some m == c.loopVar then some .level else none

def absAtoms (c : Conv) : List Atom → Option (List RAtom)
  | [] => some []
  | a :: t =>
    match abstractAtom c a, absAtoms c t with
    | some x, some y => some (x :: y)
    | _, _ => none

def exprAtoms : MetaExpr → Option (List Atom)
  | .fmt ps => some ps
  | .decoded a => some [a]
  | .encoded ps => some ps
  | .opaque _ => none

/-- the last assignment to `<level>.<attr>` of the body (later assignments win) -/
def lastAssign : List MetaAssign → String → String → Option MetaAssign → Option MetaAssign
  | [], _, _, acc => acc
  | m :: t, lvl, a, acc => lastAssign t lvl a (if m.level == lvl && m.attr == a then some m else acc)

def setOnly : RAtom → Bool
  | .lit _ => true
  | .setAttr _ => true
  | _ => false

def hasSet : Shape → Bool
  | .singleSet | .listOfSets | .mergedSet => true
  | _ => false

/-- the last assignment to the target's role attribute is built from exactly the source's role attribute(s)
(through the codec only); the difficulty name may carry a prefix.  A role kept on the set needs a set; in the merged
shape the set's attributes are assigned after the loop and may refer to the source set only. -/
def roleStaticOk (c : Conv) (r : Role) : Bool :=
  match tgtRole c.tgtGame r, roleSpec c.srcGame r with
  | some (lvl, a), some want =>
    match lastAssign c.metas lvl a none with
    | some m =>
      match exprAtoms m.expr with
      | some ps =>
        match absAtoms c ps with
        | some rs =>
          (if r = .diff then want.isSuffixOf rs else rs == want) &&
          (lvl == "map" || (lvl == "set" && hasSet c.shape)) &&
          (!(lvl == "set" && c.shape == Shape.mergedSet) || rs.all setOnly)
        | none => false
      | none => false
    | none => false
  | _, _ => true

def metaStaticOk (c : Conv) : Bool :=
  roleStaticOk c .title && roleStaticOk c .artist && roleStaticOk c .creator && roleStaticOk c .diff

/-- dynamic well-formedness of one source map: the four lists exist where the game has them, every column is as
long as the index, the key columns are present -/
def frameWF (f : Frame) : Bool := f.cols.all fun p => p.2.length == f.nrows

def srcMapOk (m : SrcMap) : Bool :=
  m.lists.all (fun p => frameWF p.2) &&
  (match m.lists.lookup "hits", m.lists.lookup "holds", m.lists.lookup "bpms" with
   | some h, some l, some b =>
     (colsOf h keysHits).isSome && (colsOf l keysHolds).isSome && (colsOf b keysBpms).isSome
   | _, _, _ => false)

/-- the source has its SV list, with the key columns, whenever both games have SVs -/
def srcSvsOk (T : Tables) (c : Conv) (m : SrcMap) : Bool :=
  if hasSvs T.mcs c.srcGame && hasSvs T.mcs c.tgtGame then
    match m.lists.lookup "svs" with
    | some s => (colsOf s keysSvs).isSome
    | none => false
  else true

/-- no list of the source map holds a missing value, every column has full length -/
def srcNoNan (m : SrcMap) : Bool := m.lists.all fun p => noNan p.2 && frameWF p.2

/-- the hypotheses of the theorems about a whole conversion, on the source -/
def srcOk (T : Tables) (c : Conv) (src : Src) : Bool :=
  src.maps.all fun m => srcMapOk m && srcSvsOk T c m && srcNoNan m

end Reamber.Convert
