/-
C13 — what the property demands, stated without the stacker: every time (`offset`) and duration (`length`)
divided by `r`, every `bpm` multiplied by `r`, every other field unchanged; for osu the sample events and the
preview point, for StepMania the sample window and the file offset, scale as times.

`scale*` is the declarative result; `close*` compares a result with it cell by cell (columns matched by name,
rows by position, numbers within `ε` relative + `ε` absolute — `ε = 0` is equality, which is what the theorems
are stated with; the harness passes `ε = 2⁻⁴⁰` on the float stream, DESIGN §3).  The same `*ScalesB` predicates
are evaluated by the driver on the implementation's output.
Core Lean only.
-/
import Reamber.Model.Rate

namespace Reamber.Rate

/-- the columns that hold times, durations and tempos -/
def timeCols : List String := ["offset"]
def durCols : List String := ["length"]
def bpmCols : List String := ["bpm"]

/-- every other column any game's lists declare: lanes, metronome, SV multiplier, hit-sound and key-sound
attributes — none of them a time, a duration or a tempo.  (`Props/C13.lean: schema_tie` checks against the
schema generated from the source that no column is left unclassified.) -/
def otherCols : List String :=
  ["column", "metronome", "multiplier", "kiai", "sample_set", "sample_set_index", "volume", "addition_set",
   "custom_set", "hitsound_file", "hitsound_set", "keysounds", "sample", "pan", "sample_file"]

/-- file-level fields of an osu map that are times (the property names: preview point, sample events) -/
def osuTimeFields : List String := ["samples", "preview_time"]
/-- … and the ones that are not (`audio_lead_in` is silence before the audio starts, in real time) -/
def osuOtherFields : List String :=
  ["background_file_name", "hp_drain_rate", "circle_size", "overall_difficulty", "approach_rate", "slider_multiplier",
   "slider_tick_rate", "title", "title_unicode", "artist", "artist_unicode", "creator", "version", "source", "tags",
   "beatmap_id", "beatmap_set_id", "distance_spacing", "beat_divisor", "grid_size", "timeline_zoom", "audio_file_name",
   "audio_lead_in", "countdown", "sample_set", "stack_leniency", "mode", "letterbox_in_breaks", "special_style",
   "widescreen_storyboard"]
/-- file-level fields of a StepMania set that are times (the property names: file offset, sample window) -/
def smTimeFields : List String := ["offset", "sample_start", "sample_length"]
def smOtherFields : List String :=
  ["title", "subtitle", "artist", "title_translit", "subtitle_translit", "artist_translit", "genre", "credit", "banner",
   "background", "lyrics_path", "cd_title", "music", "display_bpm", "selectable", "bg_changes", "fg_changes"]

def scaleCell (r : Rat) (col : String) : Cell → Cell
  | .num q =>
    if timeCols.contains col || durCols.contains col then .num (q / r)
    else if bpmCols.contains col then .num (q * r)
    else .num q
  | c => c

def scaleRow (r : Rat) : List String → List Cell → List Cell
  | k :: ks, v :: vs => scaleCell r k v :: scaleRow r ks vs
  | _, vs => vs

def scaleFrame (r : Rat) (f : Frame) : Frame := ⟨f.cols, f.rows.map (scaleRow r f.cols)⟩

/-- the osu preview point: a time — unless it is negative: `PreviewTime: -1` is osu's "no preview point" marker, not
a time, so it belongs to "all other fields are unchanged" (open finding N13a: the code divides it like a time) -/
def scalePreview (r : Rat) (p : Rat) : Rat := if p < 0 then p else p / r

def scaleChart (g : Game) (r : Rat) (c : Chart) : Chart :=
  { c with
    lists := c.lists.map (fun p => (p.1, scaleFrame r p.2)),
    samples := if g = .osu then c.samples.map (scaleFrame r) else c.samples,
    preview := if g = .osu then c.preview.map (scalePreview r) else c.preview }

def scaleSet (k : SetKind) (g : Game) (r : Rat) (s : MapSet) : MapSet :=
  { s with
    maps := s.maps.map (scaleChart g r),
    offset := if k = .sm then s.offset.map (· / r) else s.offset,
    sampleStart := if k = .sm then s.sampleStart.map (· / r) else s.sampleStart,
    sampleLength := if k = .sm then s.sampleLength.map (· / r) else s.sampleLength }

/-! ### comparison up to `ε` -/

def absR (q : Rat) : Rat := if q < 0 then -q else q

def closeRat (ε a b : Rat) : Bool := decide (absR (a - b) ≤ ε + ε * (if absR a < absR b then absR b else absR a))

def closeCell (ε : Rat) : Cell → Cell → Bool
  | .num a, .num b => closeRat ε a b
  | a, b => a == b

def closeCells (ε : Rat) : List Cell → List Cell → Bool
  | [], [] => true
  | a :: as, b :: bs => closeCell ε a b && closeCells ε as bs
  | _, _ => false

/-- same column set; each column (by name) equal cell by cell in row order -/
def closeFrame (ε : Rat) (want got : Frame) : Bool :=
  want.cols.all (fun c => got.cols.contains c) && got.cols.all (fun c => want.cols.contains c) &&
  want.rows.length == got.rows.length &&
  want.cols.all (fun c => closeCells ε (want.col c) (got.col c))

def closeOptRat (ε : Rat) : Option Rat → Option Rat → Bool
  | some a, some b => closeRat ε a b
  | none, none => true
  | _, _ => false

def closeOptFrame (ε : Rat) : Option Frame → Option Frame → Bool
  | some a, some b => closeFrame ε a b
  | none, none => true
  | _, _ => false

def closeLists (ε : Rat) : List (String × Frame) → List (String × Frame) → Bool
  | [], [] => true
  | a :: as, b :: bs => a.1 == b.1 && closeFrame ε a.2 b.2 && closeLists ε as bs
  | _, _ => false

def closeChart (ε : Rat) (want got : Chart) : Bool :=
  closeLists ε want.lists got.lists && closeOptFrame ε want.samples got.samples &&
  closeOptRat ε want.preview got.preview && want.extra == got.extra

def closeCharts (ε : Rat) : List Chart → List Chart → Bool
  | [], [] => true
  | a :: as, b :: bs => closeChart ε a b && closeCharts ε as bs
  | _, _ => false

def closeSet (ε : Rat) (want got : MapSet) : Bool :=
  closeCharts ε want.maps got.maps && closeOptRat ε want.offset got.offset &&
  closeOptRat ε want.sampleStart got.sampleStart && closeOptRat ε want.sampleLength got.sampleLength &&
  want.extra == got.extra

/-- **the specification of C13 on one map**: `out` is `c` with times and durations divided by `r`, tempos
multiplied by `r`, everything else unchanged -/
def chartScalesB (ε : Rat) (g : Game) (r : Rat) (c out : Chart) : Bool := closeChart ε (scaleChart g r c) out

/-- … and on a map set -/
def setScalesB (ε : Rat) (k : SetKind) (g : Game) (r : Rat) (s out : MapSet) : Bool :=
  closeSet ε (scaleSet k g r s) out

/-! ### the domain of the theorems -/

def nodupB : List String → Bool
  | [] => true
  | c :: cs => !cs.contains c && nodupB cs

def Frame.wf (f : Frame) : Bool := nodupB f.cols && f.rows.all (fun r => r.length == f.cols.length)

/-- the three columns `Map.rate` touches hold numbers (or NaN) wherever they occur -/
def Frame.numericCols (f : Frame) : Bool :=
  ["offset", "bpm", "length"].all (fun c => (f.col c).all Cell.numeric)

def hasCol (fs : List Frame) (c : String) : Bool := fs.any (fun f => f.cols.contains c)

/-- the lists of a map as every game's map class has them: well-formed frames, all three columns present
somewhere (every map has a hold list and a tempo list, even when empty), numeric where present -/
def listsOk (fs : List Frame) : Bool :=
  fs.all Frame.wf && fs.all Frame.numericCols && hasCol fs "offset" && hasCol fs "bpm" && hasCol fs "length"

def samplesOk (f : Frame) : Bool :=
  f.wf && f.cols.contains "offset" && (f.col "offset").all Cell.numeric &&
  !f.cols.contains "length" && !f.cols.contains "bpm"

def chartOk (g : Game) (c : Chart) : Bool :=
  listsOk (c.lists.map (·.2)) &&
  (if g = .osu then (match c.samples, c.preview with
                     | some sm, some pv => samplesOk sm && decide (0 ≤ pv)
                     | _, _ => false) else true)

def setOk (k : SetKind) (g : Game) (s : MapSet) : Bool :=
  s.maps.all (chartOk g) &&
  (if k = .sm then s.sampleStart.isSome && s.sampleLength.isSome else true)

end Reamber.Rate
