/-
Declarative statement of property C20, independent of the loops in `Model/Pattern.lean`, as decidable
(Bool-valued) predicates: the same definitions are (a) what the theorems of `Props/C20.lean` are stated
against and (b) what the driver evaluates on the *implementation's* output.  Core Lean only.
-/
import Reamber.Model.Pattern

namespace Reamber.Pattern

/-! ### the frame -/

/-- ascending by offset (ties in any order) -/
def SortedOff (l : List Row) : Prop := l.Pairwise (fun a b => a.off ≤ b.off)

def sortedOffB : List Row → Bool
  | [] => true
  | a :: t => t.all (fun b => decide (a.off ≤ b.off)) && sortedOffB t

/-- `df` holds exactly the given notes, ascending by offset -/
def patternSpec (input df : List Row) : Bool := df.isPerm input && sortedOffB df

/-- every note of every list, and — when requested — a `HoldTail` at `offset + length` for every item of a list
whose item class is a `Hold` -/
def expectedRows (nls : List NoteList) (includeTails : Bool) : List Row :=
  nls.flatMap (fun nl => nl.items.map (fun it => (⟨it.1, it.2.1, nl.ty⟩ : Row)))
  ++ (if includeTails then
        (nls.filter (fun nl => isSub nl.ty .hold)).flatMap
          (fun nl => nl.items.map (fun it => (⟨it.1, it.2.1 + it.2.2, .holdTail⟩ : Row)))
      else [])

/-! ### grouping -/

/-- every note in exactly one group (as multisets of rows) -/
def partitionOk (rows : List Row) (gs : List (List Row)) : Bool := gs.flatten.isPerm rows

/-- all times within `[t, t + v]` of the group's first note -/
def vWindowOk (v : Rat) : List Row → Bool
  | [] => false
  | l :: t => (l :: t).all (fun r => decide (l.off ≤ r.off) && decide (r.off ≤ l.off + v))

/-- all columns within `h` of the group's first note (`none`: no constraint) -/
def hWindowOk (h : Option Int) : List Row → Bool
  | [] => false
  | l :: t => match h with
    | none => true
    | some hw => (l :: t).all (fun r => decide (((l.col - r.col).natAbs : Int) ≤ hw))

/-- no column twice when jacks are avoided -/
def noRepeatOk (aj : Bool) (g : List Row) : Bool := !aj || decide (g.map (·.col)).Nodup

def groupOk (v : Rat) (h : Option Int) (aj : Bool) (g : List Row) : Bool :=
  vWindowOk v g && hWindowOk h g && noRepeatOk aj g

/-- the grouping half of C20 -/
def groupSpec (rows : List Row) (v : Rat) (h : Option Int) (aj : Bool) (gs : List (List Row)) : Bool :=
  partitionOk rows gs && gs.all (groupOk v h aj)

/-! ### combinations -/

/-- `s` takes one note from each group of the chunk, in order -/
def takesOneEach : List Row → List (List Row) → Bool
  | [], [] => true
  | r :: s, g :: gs => g.contains r && takesOneEach s gs
  | _, _ => false

/-- `s` is an allowed combination of size `n`: for some `i`, it takes one note from each of the groups
`i, …, i+n-1` and the chunk passes the chord filter, `s` the column filter and the type filter -/
def allowed (gs : List (List Row)) (n : Nat) (F : Filters) (s : List Row) : Bool :=
  (List.range (gs.length + 1 - n)).any (fun i =>
    let ch := (gs.drop i).take n
    takesOneEach s ch && chordOk F ch && comboOk F s && typeOk F s)

/-- every unfiltered candidate: all sequences through any `n` consecutive groups -/
def candidates (gs : List (List Row)) (n : Nat) : List (List Row) := (windowsOf n gs).flatMap product

/-- "none extra, none missing" for a reported list of sequences -/
def combosSpec (gs : List (List Row)) (n : Nat) (F : Filters) (reported : List (List Row)) : Bool :=
  reported.all (allowed gs n F) && (candidates gs n).all (fun s => !allowed gs n F s || reported.contains s)

/-- folded output (`make_size2`): exactly the adjacent pairs of allowed sequences -/
def foldedSpec (gs : List (List Row)) (n : Nat) (F : Filters) (reported : List (List Row)) : Bool :=
  let good := ((candidates gs n).filter (allowed gs n F)).flatMap adjPairs
  reported.all good.contains && good.all reported.contains

/-! ### what the three filters mean: membership in their row sets -/

def bxor (a b : Bool) : Bool := if b then !a else a

/-- column filter: the row of columns is one of the listed rows -/
def comboMember (ar : List (List Int)) (invert : Bool) (cols : List Int) : Bool := bxor (ar.contains cols) invert

/-- chord filter: the row of group sizes is one of the listed rows -/
def chordMember (ar : List (List Int)) (invert : Bool) (sizes : List Int) : Bool := bxor (ar.contains sizes) invert

/-- position-wise `issubclass`, same length -/
def subRow : List Ty → List Ty → Bool
  | [], [] => true
  | d :: ds, c :: cs => isSub d c && subRow ds cs
  | _, _ => false

/-- type filter: some listed row is position-wise a superclass row of the sequence's types -/
def typeMember (ar : List (List Ty)) (invert : Bool) (tys : List Ty) : Bool := bxor (ar.any (subRow tys)) invert

/-- the filters as membership predicates (what `allowed` is evaluated with on implementation output) -/
def memberFilters (chord : Option (List (List Int) × Bool)) (combo : Option (List (List Int) × Bool))
    (type : Option (List (List Ty) × Bool)) : Filters :=
  { chord := chord.map (fun p => chordMember p.1 p.2),
    combo := combo.map (fun p => comboMember p.1 p.2),
    type := type.map (fun p => typeMember p.1 p.2) }

/-- every column (of filter rows and data) is a column of a `keys`-key map — where the positional hash is injective -/
def inRange (keys : Int) (l : List Int) : Bool := l.all (fun x => decide (0 ≤ x) && decide (x < keys))

/-! ### option expansions, declaratively -/

/-- `row` is `base` moved sideways by a constant, and lies inside the `keys` columns -/
def isTranslate (keys : Int) (base row : List Int) : Bool :=
  match base, row with
  | b0 :: _, r0 :: _ => (row == base.map (· + (r0 - b0))) && inRange keys row
  | _, _ => false

def hmirror (keys : Int) (r : List Int) : List Int := r.map (fun x => (keys - 1) - x)

/-- membership in the set `PtnFilterCombo.create(combos, keys, options)` denotes -/
def comboSpecMem (combos : List (List Int)) (keys : Int) (opts : Nat) (row : List Int) : Bool :=
  let m0 : List Int → Bool := fun r =>
    if opts &&& optRepeat == optRepeat then combos.any (fun c => isTranslate keys c r) else combos.contains r
  let m1 : List Int → Bool := fun r => m0 r || (hasBit opts optHMirror && m0 (hmirror keys r))
  let m2 : List Int → Bool := fun r => m1 r || (hasBit opts optVMirror && m1 r.reverse)
  m2 row

/-- componentwise `lo_j ≤ r_j ≤ keys` -/
def inBoxAbove : List Int → Int → List Int → Bool
  | [], _, [] => true
  | l :: lo, k, x :: r => decide (l ≤ x) && decide (x ≤ k) && inBoxAbove lo k r
  | _, _, _ => false

/-- componentwise `1 ≤ r_j ≤ hi_j` -/
def inBoxBelow : List Int → List Int → Bool
  | [], [] => true
  | h :: hi, x :: r => decide (1 ≤ x) && decide (x ≤ h) && inBoxBelow hi r
  | _, _ => false

/-- the rows after the AND_HIGHER stage (needed only for the column maxima the AND_LOWER stage starts from) -/
def chordStage1 (sizes : List (List Int)) (keys : Int) (opts : Nat) : List (List Int) :=
  let w := (sizes.headD []).length
  if hasBit opts optAndHigher then sizes ++ product ((colMin w sizes).map (fun i => rangeIncl i keys)) else sizes

/-- membership in the set `PtnFilterChord.create(chord_sizes, keys, options)` denotes: the given rows; with
AND_HIGHER every row between the column minima and `keys`; with AND_LOWER every row between 1 and the column
maxima so far; with ANY_ORDER every rearrangement of those -/
def chordSpecMem (sizes : List (List Int)) (keys : Int) (opts : Nat) (row : List Int) : Bool :=
  let w := (sizes.headD []).length
  let lo := colMin w sizes
  let hi := colMax w (chordStage1 sizes keys opts)
  let m2 : List Int → Bool := fun r =>
    sizes.contains r
    || (hasBit opts optAndHigher && inBoxAbove lo keys r)
    || (hasBit opts optAndLower && inBoxBelow hi r)
  if hasBit opts optAnyOrder then (perms row).any m2 else m2 row

/-- membership in the set `PtnFilterType.create(types, options)` denotes -/
def typeSpecMem (types : List (List Ty)) (opts : Nat) (row : List Ty) : Bool :=
  if hasBit opts optTypeAnyOrder then (perms row).any types.contains
  else if hasBit opts optTypeMirror then types.contains row || types.contains row.reverse
  else types.contains row

/-- a reported row set equals the denoted set: nothing extra (each reported row is a member), nothing missing
(each row of the complete enumeration `full` is reported) -/
def rowSetSpec {α} [BEq α] (mem : List α → Bool) (full reported : List (List α)) : Bool :=
  reported.all mem && full.all reported.contains

end Reamber.Pattern
