/-
Specification of C12 — "editing the stack equals editing each list".  Independent of the stacking mechanism:
no concatenation, no copy, no slices.  A chart is a list of label-free tables; an assignment through a stack
that covers the lists flagged in `member` is the same assignment applied to every member list separately
(its rows are the positions `off … off+len-1` of the stack, its columns are its own columns); everything else —
lengths, row order, key and class of every list, columns that are not assigned, lists that lack the column,
lists that are not members — is left as it is.  Row labels are not part of the statement.
Core only; the Bool versions are what the driver evaluates on the implementation's output.
-/
import Reamber.Model.Stack

namespace Reamber.Stack

/-- a list without its row labels -/
structure Tbl where
  key : String
  cls : String
  cols : List String
  rows : List Cells
  deriving DecidableEq, Repr

def TList.content (l : TList) : Tbl := ⟨l.key, l.cls, l.frame.cols, l.frame.rows.map (·.cells)⟩

def contents (ls : List TList) : List Tbl := ls.map TList.content

/-- the assignment on one row of one list: only columns the list has, only the assigned ones -/
def specCells (cols : List String) (g : String → Cell → Cell) (cs : Cells) : Cells :=
  cs.map (fun kv => if cols.contains kv.1 then (kv.1, g kv.1 kv.2) else kv)

/-- the assignment on one list whose first row is position `i` of the stack -/
def specRows (sel : Nat → Bool) (cols : List String) (g : Nat → String → Cell → Cell) : Nat → List Cells → List Cells
  | _, [] => []
  | i, r :: rs => (if sel i then specCells cols (g i) r else r) :: specRows sel cols g (i + 1) rs

/-- the assignment applied to each member list separately -/
def specTbls (a : Action) : Nat → List Tbl → List Bool → List Tbl
  | _, [], _ => []
  | _, t :: ts, [] => t :: ts
  | off, t :: ts, false :: ms => t :: specTbls a off ts ms
  | off, t :: ts, true :: ms =>
      { t with rows := specRows a.sel a.cols a.g off t.rows } :: specTbls a (off + t.rows.length) ts ms

/-- which assignment a *successful* call denotes (purely from the call; `none`: it assigns nothing) -/
def specAction (props : List String) : Op → Option Action
  | .stack _ => none
  | .set _ col (.scalar c) => some ⟨allSel, [col], fun _ _ _ => c⟩
  | .set _ col (.array cs) => some ⟨allSel, [col], fun i _ _ => cs.getD i .nan⟩
  | .map _ col f => some ⟨allSel, [col], fun _ _ old => f.evalD old⟩
  | .locSet _ mask _ cols v => some ⟨maskSel mask, cols, fun _ _ _ => v⟩
  | .locMap _ mask cols f => some ⟨maskSel mask, cols, fun _ _ old => f.evalD old⟩
  | .attrSet _ name (.scalar c) => if props.contains name then some ⟨allSel, [name], fun _ _ _ => c⟩ else none
  | .attrSet _ name (.array cs) =>
      if props.contains name then some ⟨allSel, [name], fun i _ _ => cs.getD i .nan⟩ else none
  | .attrMap _ name f => if props.contains name then some ⟨allSel, [name], fun _ _ old => f.evalD old⟩ else none

/-- the abstract chart: tables, and for every stack handle the lists it covers -/
structure SpecW where
  mcls : String
  tbls : List Tbl
  handles : List (List Bool)
  deriving DecidableEq, Repr

def memberOf (incl : Option (List String)) (ts : List Tbl) : List Bool :=
  ts.map (fun t => match incl with | none => true | some tys => tys.any (isInst t.cls))

/-- one call.  `failed` = the call raised an exception (observable): then nothing changes -/
def specStep (sw : SpecW) (op : Op) (failed : Bool) : SpecW :=
  if failed then sw else
  match op with
  | .stack incl => { sw with handles := sw.handles ++ [memberOf incl sw.tbls] }
  | op =>
    match op.sid?, specAction (propsOf sw.mcls) op with
    | some sid, some a =>
      match sw.handles[sid]? with
      | some member => { sw with tbls := specTbls a 0 sw.tbls member }
      | none => sw
    | _, _ => sw

def specRun (sw : SpecW) : List (Op × Bool) → SpecW
  | [] => sw
  | (op, failed) :: rest => specRun (specStep sw op failed) rest

def specTrace (sw : SpecW) : List (Op × Bool) → List SpecW
  | [] => []
  | (op, failed) :: rest => let s := specStep sw op failed; s :: specTrace s rest

def toSpec (w : MapW) : SpecW := ⟨w.mcls, contents w.lists, w.stackers.map (fun s => s.slots.map Option.isSome)⟩

/-- the coupling between a stacker's copy and the live lists: slice `k` of the copy, restricted to the columns of
list `k`, is list `k` (and the recorded lengths are the lengths) -/
def Coupled (srows : List Cells) : Nat → List TList → List (Option Nat) → Prop
  | _, [], _ => True
  | _, _ :: _, [] => True
  | off, _ :: ls, none :: ss => Coupled srows off ls ss
  | off, l :: ls, some n :: ss =>
      n = l.frame.rows.length ∧ (sliceRows srows off n).map (proj l.frame.cols) = l.frame.rows.map (·.cells)
        ∧ Coupled srows (off + n) ls ss

def coupledB (srows : List Cells) : Nat → List TList → List (Option Nat) → Bool
  | _, [], _ => true
  | _, _ :: _, [] => true
  | off, _ :: ls, none :: ss => coupledB srows off ls ss
  | off, l :: ls, some n :: ss =>
      decide (n = l.frame.rows.length) && decide ((sliceRows srows off n).map (proj l.frame.cols) = l.frame.rows.map (·.cells))
        && coupledB srows (off + n) ls ss

/-- the stacker an assignment goes through is up to date.  This is the hypothesis of `write_through`
(known finding D25: the code writes back a stale copy) -/
def FreshAt (w : MapW) (op : Op) : Prop :=
  ∀ sid s, op.sid? = some sid → w.stackers[sid]? = some s → Coupled s.srows 0 w.lists s.slots

def freshAtB (w : MapW) (op : Op) : Bool :=
  match op.sid? with
  | none => true
  | some sid =>
    match w.stackers[sid]? with
    | none => true
    | some s => coupledB s.srows 0 w.lists s.slots

def Fresh (w : MapW) : List Op → Prop
  | [] => True
  | op :: ops => FreshAt w op ∧ Fresh (step w op).1 ops

def freshTrace (w : MapW) : List Op → List Bool
  | [] => []
  | op :: ops => freshAtB w op :: freshTrace (step w op).1 ops

/-- the call targets the newest stacker of the chart (or none that exists) -/
def latestAtB (w : MapW) (op : Op) : Bool :=
  match op.sid? with
  | none => true
  | some sid => decide (w.stackers.length ≤ sid + 1)

/-- `m.stack().x = …`, `s = m.stack(); s.a += 1; s.loc[…] = …; s = m.stack(); …`: repeated re-stacking where only the
newest stacker is ever assigned through -/
def Latest (w : MapW) : List Op → Prop
  | [] => True
  | op :: ops => latestAtB w op = true ∧ Latest (step w op).1 ops

def latestTrace (w : MapW) : List Op → List Bool
  | [] => []
  | op :: ops => latestAtB w op :: latestTrace (step w op).1 ops

/-- well-formed lists: distinct column names, every row has exactly the columns of its frame -/
def WFList (l : TList) : Prop := l.frame.cols.Nodup ∧ ∀ r ∈ l.frame.rows, keys r.cells = l.frame.cols

def wfListB (l : TList) : Bool := decide l.frame.cols.Nodup && l.frame.rows.all (fun r => decide (keys r.cells = l.frame.cols))

/-! ### mapsets: the same per chart -/

structure SpecSetW where
  scls : String
  charts : List SpecW
  mhandles : List (List Nat)
  deriving DecidableEq, Repr

/-- number of rows a stack handle covers -/
def coveredRows : List Tbl → List Bool → Nat
  | t :: ts, true :: ms => t.rows.length + coveredRows ts ms
  | _ :: ts, false :: ms => coveredRows ts ms
  | _, _ => 0

def handleRows (sw : SpecW) (sid : Nat) : Nat :=
  match sw.handles[sid]? with
  | some member => coveredRows sw.tbls member
  | none => 0

/-- chart `k` gets row `k` of the assigned frame, aligned by label = position: stack position `i` receives `row[i]`,
NaN beyond the end of the row (`specAction` of an array reads `row.getD i nan`); charts beyond the frame's rows are
not assigned -/
def specSetRows (key : String) : List SpecW → List Nat → List (List Cell) → List SpecW
  | sw :: sws, sid :: sids, row :: rows =>
      specStep sw (.set sid key (.array row)) false :: specSetRows key sws sids rows
  | sws, _, _ => sws

def specMapRows (key : String) (f : Fn) : List SpecW → List Nat → List SpecW
  | sw :: sws, sid :: sids => specStep sw (.map sid key f) false :: specMapRows key f sws sids
  | sws, _ => sws

def specSStep (w : SpecSetW) (op : SOp) (failed : Bool) : SpecSetW :=
  if failed then w else
  match op with
  | .stack =>
      { w with charts := w.charts.map (fun c => specStep c (.stack none) false),
               mhandles := w.mhandles ++ [w.charts.map (fun c => c.handles.length)] }
  | .set i key rows =>
      match w.mhandles[i]? with
      | some sids => { w with charts := specSetRows key w.charts sids rows }
      | none => w
  | .map i key f =>
      match w.mhandles[i]? with
      | some sids => { w with charts := specMapRows key f w.charts sids }
      | none => w
  | .attrSet i name rows =>
      match w.mhandles[i]? with
      | some sids => if (setPropsOf w.scls).contains name then { w with charts := specSetRows name w.charts sids rows } else w
      | none => w
  | .attrMap i name f =>
      match w.mhandles[i]? with
      | some sids => if (setPropsOf w.scls).contains name then { w with charts := specMapRows name f w.charts sids } else w
      | none => w

def specSTrace (w : SpecSetW) : List (SOp × Bool) → List SpecSetW
  | [] => []
  | (op, failed) :: rest => let s := specSStep w op failed; s :: specSTrace s rest

def specSRun (w : SpecSetW) : List (SOp × Bool) → SpecSetW
  | [] => w
  | (op, failed) :: rest => specSRun (specSStep w op failed) rest

def toSpecSet (w : SetW) : SpecSetW := ⟨w.scls, w.maps.map toSpec, w.mstackers⟩

def SOp.ms? : SOp → Option Nat
  | .stack => none
  | .set i _ _ | .map i _ _ | .attrSet i _ _ | .attrMap i _ _ => some i

def chartsFreshB : List MapW → List Nat → Bool
  | m :: ms, sid :: sids =>
      (match m.stackers[sid]? with
       | some s => coupledB s.srows 0 m.lists s.slots
       | none => true) && chartsFreshB ms sids
  | _, _ => true

/-- every chart's stacker behind the mapset stacker the call goes through is up to date -/
def sfreshAtB (w : SetW) (op : SOp) : Bool :=
  match op.ms? with
  | none => true
  | some i =>
    match w.mstackers[i]? with
    | none => true
    | some sids => chartsFreshB w.maps sids

def sfreshTrace (w : SetW) : List SOp → List Bool
  | [] => []
  | op :: ops => sfreshAtB w op :: sfreshTrace (sstep w op).1 ops

end Reamber.Stack
