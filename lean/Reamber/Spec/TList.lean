/-
C16 — specification: the list operations on a **plain sequence of rows** (`List α`, no labels).

`SpecStep op xs r` says what operation `op` must return on the sequence `xs` (`r` is the resulting sequence or
the exception class). Sorting is relational: any permutation that is ordered by offset is accepted (tie order
is free). `specStepB` is the decidable version the harness evaluates on the implementation's output;
`specStepB_iff` ties the two.  `stepRows` is the functional version with Python's stable `sorted`.
Core Lean only.
-/
import Reamber.Model.TList

namespace Reamber.TList

section spec
variable {α : Type} (off len : α → Rat)

/-- the bound test of `after` (`gt = true`) / `before` on a key -/
def keep (gt incl : Bool) (x v : Rat) : Bool :=
  if gt then (if incl then decide (x ≤ v) else decide (x < v))
  else (if incl then decide (v ≤ x) else decide (v < x))

/-- head or tail of a hold: what `HoldList.after(include_tail)` / `before(include_head)` compare -/
def tailKey (useTail : Bool) (a : α) : Rat := if useTail then off a + len a else off a

/-- ordered by offset, ascending or (rev) descending -/
def OrderedBy (rev : Bool) (ys : List α) : Prop :=
  ys.Pairwise (fun a b => if rev then off b ≤ off a else off a ≤ off b)

instance (rev : Bool) (ys : List α) : Decidable (OrderedBy off rev ys) := by
  unfold OrderedBy; exact inferInstance

/-- what one operation returns on a plain sequence of rows -/
def SpecStep (op : Op α) (xs : List α) (r : Except Err (List α)) : Prop :=
  match op with
  | .slice a b c => r = pySlice xs a b c
  | .after x incl => r = .ok (xs.filter fun a => keep true incl x (off a))
  | .before x incl => r = .ok (xs.filter fun a => keep false incl x (off a))
  | .between lo hi il ih => r = .ok (xs.filter fun a => keep true il lo (off a) && keep false ih hi (off a))
  | .hAfter x incl tail => r = .ok (xs.filter fun a => keep true incl x (tailKey off len tail a))
  | .hBefore x incl head => r = .ok (xs.filter fun a => keep false incl x (tailKey off len (!head) a))
  | .hBetween lo hi il ih head tail =>
      r = .ok (xs.filter fun a => keep true il lo (tailKey off len tail a) && keep false ih hi (tailKey off len (!head) a))
  | .sorted rev => ∃ ys, r = .ok ys ∧ ys.Perm xs ∧ OrderedBy off rev ys
  | .append zs sort =>
      if sort then ∃ ys, r = .ok ys ∧ ys.Perm (xs ++ zs) ∧ OrderedBy off false ys
      else r = .ok (xs ++ zs)

/-- the same with Python's stable `sorted` — a function -/
def stepRows (op : Op α) (xs : List α) : Except Err (List α) :=
  match op with
  | .slice a b c => pySlice xs a b c
  | .after x incl => .ok (xs.filter fun a => keep true incl x (off a))
  | .before x incl => .ok (xs.filter fun a => keep false incl x (off a))
  | .between lo hi il ih => .ok (xs.filter fun a => keep true il lo (off a) && keep false ih hi (off a))
  | .hAfter x incl tail => .ok (xs.filter fun a => keep true incl x (tailKey off len tail a))
  | .hBefore x incl head => .ok (xs.filter fun a => keep false incl x (tailKey off len (!head) a))
  | .hBetween lo hi il ih head tail =>
      .ok (xs.filter fun a => keep true il lo (tailKey off len tail a) && keep false ih hi (tailKey off len (!head) a))
  | .sorted rev => .ok (isort (leBy off rev) xs)
  | .append zs sort => .ok (if sort then isort (leBy off false) (xs ++ zs) else xs ++ zs)

def runRows : List (Op α) → List α → Except Err (List α)
  | [], xs => .ok xs
  | op :: ops, xs =>
    match stepRows off len op xs with
    | .error e => .error e
    | .ok ys => runRows ops ys

/-- a pool of plain sequences: `xs' = op(xs)` joins the pool, `xs` stays what it was -/
def poolStepRows (i : Nat) (op : Op α) (pool : List (List α)) : Except Err (List (List α)) :=
  match pool[i]? with
  | none => .error .index
  | some xs =>
    match stepRows off len op xs with
    | .error e => .error e
    | .ok ys => .ok (pool ++ [ys])

def runPoolRows : List (Nat × Op α) → List (List α) → Except Err (List (List α))
  | [], pool => .ok pool
  | iop :: ops, pool =>
    match poolStepRows off len iop.1 iop.2 pool with
    | .error e => .error e
    | .ok pool' => runPoolRows ops pool'

/-- a finite sequence of operations on a plain sequence (any tie order at every sort) -/
inductive RunSpec : List (Op α) → List α → Except Err (List α) → Prop
  | nil (xs) : RunSpec [] xs (.ok xs)
  | err {op ops xs e} : SpecStep off len op xs (.error e) → RunSpec (op :: ops) xs (.error e)
  | cons {op ops xs ys r} : SpecStep off len op xs (.ok ys) → RunSpec ops ys r → RunSpec (op :: ops) xs r

/-- one step of the implementation on labelled rows, with the tie order of every sort left free
(numpy's default sort is not stable beyond 16 rows): everything but the order of ties is as in `step` -/
def StepRel (op : Op α) (t : Tbl α) (r : Except Err (Tbl α)) : Prop :=
  match op with
  | .sorted rev => ∃ t', r = .ok t' ∧ t'.Perm t ∧ OrderedBy off rev (rows t')
  | .append zs true => ∃ t', r = .ok t' ∧ t'.Perm (relabel (rows t ++ zs)) ∧ OrderedBy off false (rows t')
  | _ => r = step off len op t

inductive RunRel : List (Op α) → Tbl α → Except Err (Tbl α) → Prop
  | nil (t) : RunRel [] t (.ok t)
  | err {op ops t e} : StepRel off len op t (.error e) → RunRel (op :: ops) t (.error e)
  | cons {op ops t t' r} : StepRel off len op t (.ok t') → RunRel ops t' r → RunRel (op :: ops) t r

/-! ### observables on a plain sequence -/

def IsMin (m : Rat) (vs : List Rat) : Prop := m ∈ vs ∧ ∀ v ∈ vs, m ≤ v
def IsMax (m : Rat) (vs : List Rat) : Prop := m ∈ vs ∧ ∀ v ∈ vs, v ≤ m

/-- `first_offset` on a plain sequence: no value iff empty, else the least offset -/
def SpecFirst (xs : List α) (r : Option Rat) : Prop :=
  match r with
  | none => xs = []
  | some m => IsMin m (xs.map off)

def SpecLast (key : α → Rat) (xs : List α) (r : Option Rat) : Prop :=
  match r with
  | none => xs = []
  | some m => IsMax m (xs.map key)

end spec

/-! ### decidable versions (evaluated by the driver on the implementation's output) -/

section dec
variable {α : Type} [DecidableEq α] (off len : α → Rat)

instance : DecidableEq Err := inferInstance

def exceptEq (a b : Except Err (List α)) : Bool :=
  match a, b with
  | .ok x, .ok y => decide (x = y)
  | .error e, .error f => decide (e = f)
  | _, _ => false

theorem exceptEq_iff (a b : Except Err (List α)) : exceptEq a b = true ↔ a = b := by
  cases a <;> cases b <;> simp [exceptEq]

def sortedPermB (rev : Bool) (xs : List α) (r : Except Err (List α)) : Bool :=
  match r with
  | .ok ys => ys.isPerm xs && decide (OrderedBy off rev ys)
  | .error _ => false

def specStepB (op : Op α) (xs : List α) (r : Except Err (List α)) : Bool :=
  match op with
  | .sorted rev => sortedPermB off rev xs r
  | .append zs true => sortedPermB off false (xs ++ zs) r
  | op => exceptEq r (stepRows off len op xs)

def specFirstB (xs : List α) (r : Option Rat) : Bool :=
  match r with
  | none => xs.isEmpty
  | some m => (xs.map off).contains m && (xs.map off).all (fun v => decide (m ≤ v))

def specLastB (key : α → Rat) (xs : List α) (r : Option Rat) : Bool :=
  match r with
  | none => xs.isEmpty
  | some m => (xs.map key).contains m && (xs.map key).all (fun v => decide (v ≤ m))

end dec

/-! ### declared fields, item of a row -/

/-- same fields, order and multiplicity aside: every name of one list is in the other, no name twice -/
def sameFields (a b : List String) : Bool :=
  a.all (fun k => b.contains k) && b.all (fun k => a.contains k) && decide a.Nodup

/-- "has exactly the declared fields" -/
def hasDeclaredFields (s : Schema) (cols : List String) : Bool := sameFields cols s.declaredNames

/-- no row lacks a value: no NaN cell ("an empty list of n rows has exactly the declared fields" — a field whose
value is missing is not there) -/
def noMissing (rs : List Rec) : Bool := rs.all fun r => r.all fun kv => kv.2 != Cell.nan

/-- every row has exactly the given fields, each once -/
def rowsHaveFields (names : List String) (rs : List Rec) : Bool := rs.all fun r => sameFields (r.map (·.1)) names

/-- "an item built from a row carries that row's values": every field of the row that the item class is
allowed to hold is in the item with the row's value -/
def itemCarries (names : List String) (row item : Rec) : Bool :=
  row.all fun kv => !names.contains kv.1 || item.lookup kv.1 == some kv.2

end Reamber.TList
