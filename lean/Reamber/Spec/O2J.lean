/-
What property C07 demands of an O2Jam reader, stated independently of the reader's loops and of the tables in the
source.  All format constants here are LITERALS (the OJN format as documented by open2jam), not the generated ones:

* the 300-byte header: every field at its declared offset, with its declared type and count (`formatLayout`);
* channel 1 = tempo, channels 2..8 = columns 0..6; note type 0 = hit, 2 = long-note head, 3 = long-note tail;
  an event whose first int16 is 0 is empty; slot i of n in measure m sits at position m + i/n (in measures);
* a long-note tail pairs with the most recent long-note event on its column, which must be a head (`pairFrom`);
* a position p (in measures, 4 beats each) sits at `posTime init evs p` milliseconds: piecewise-linear integration
  over the header tempo from position 0 and all tempo events at or before p in position order (`integ`) — this is
  `Timing.timeAt 0 ((init at 0) :: evs) (4p beats)` (proved in Props/C07: `posTime_eq_timeAt`).

Shared with the model: the byte decoders (`leNat`, `decodeI16/I32/F32`), package framing (`popPkg`, `groups`), `slotPos`,
the stable insertion sort.
-/
import Reamber.Model.O2J

namespace Reamber.O2J.Spec

open Reamber.O2J
open Reamber.Timing (isort minToMsec)

/-! ### header -/

/-- the OJN header as laid out by the format: (attribute, byte offset, struct code, count, shape) -/
def formatLayout : List (String × Nat × Char × Nat × String) :=
  [("song_id", 0, 'i', 1, "first"), ("signature", 4, 's', 4, "decode"), ("encode_version", 8, 'f', 1, "first"),
   ("genre", 12, 'i', 1, "first"), ("bpm", 16, 'f', 1, "first"), ("level", 20, 'h', 4, "list"),
   ("event_count", 28, 'i', 3, "list"), ("note_count", 40, 'i', 3, "list"), ("measure_count", 52, 'i', 3, "list"),
   ("package_count", 64, 'i', 3, "list"), ("old_encode_version", 76, 'h', 1, "first"), ("old_song_id", 78, 'h', 1, "first"),
   ("old_genre", 80, 's', 20, "join"), ("bmp_size", 100, 'i', 1, "first"), ("old_file_version", 104, 'i', 1, "first"),
   ("title", 108, 's', 64, "decode"), ("artist", 172, 's', 32, "decode"), ("creator", 204, 's', 32, "decode"),
   ("ojm_file", 236, 's', 32, "decode"), ("cover_size", 268, 'i', 1, "first"), ("duration", 272, 'i', 3, "list"),
   ("note_offset", 284, 'i', 3, "list"), ("cover_offset", 296, 'i', 1, "first")]

def headerSize : Nat := 300

/-- width in bytes of a struct code -/
def codeSize : Char → Nat
  | 'i' => 4 | 'f' => 4 | 'h' => 2 | _ => 1

/-- `count` values of code `c` starting at byte `off` -/
def readN (md : List Nat) (c : Char) : Nat → Nat → Except Err (List Field)
  | 0, _ => .ok []
  | k + 1, off => do
    let v ← readField c (slice md off (codeSize c))
    let r ← readN md c k (off + codeSize c)
    .ok (v :: r)

def shapeVal (name shape : String) (f : List Field) : Except Err (String × MetaVal) :=
  if shape = "first" then
    match f with
    | [] => .error .index
    | .int i :: _ => .ok (name, .int i)
    | .flt x :: _ => .ok (name, .flt x)
    | .byte b :: _ => .ok (name, .byte b)
  else if shape = "list" then .ok (name, .list f)
  else if shape = "decode" then .ok (name, .text (decodeReplace f))
  else .ok (name, .bytes (fieldBytes f))

def specField (md : List Nat) (e : String × Nat × Char × Nat × String) : Except Err (String × MetaVal) := do
  let f ← readN md e.2.2.1 e.2.2.2.1 e.2.1
  shapeVal e.1 e.2.2.2.2 f

/-- the header attributes of a byte string, each read directly at its declared offset -/
def specMeta (bs : List Nat) : Except Err (List (String × MetaVal)) :=
  mapE (specField (bs.take headerSize)) formatLayout

/-! ### time -/

/-- integration from the state "at position m, time T, tempo b" over tempo events `(position, tempo)` -/
def integ (T m b : Rat) : List (Rat × Rat) → Rat → Rat
  | [], p => T + (p - m) * 4 * (minToMsec / b)
  | e :: rest, p =>
    if e.1 ≤ p then integ (T + (e.1 - m) * 4 * (minToMsec / b)) e.1 e.2 rest p
    else T + (p - m) * 4 * (minToMsec / b)

/-- millisecond position of measure position `p` : header tempo from position 0 (= 0 ms), then the tempo events -/
def posTime (init : Rat) (evs : List (Rat × Rat)) (p : Rat) : Rat := integ 0 0 init evs p

/-- tempo events weakly ascending by position -/
def sortedEvs : List (Rat × Rat) → Bool
  | [] => true
  | [_] => true
  | a :: b :: rest => decide (a.1 ≤ b.1) && sortedEvs (b :: rest)

/-! ### pairing -/

/-- the most recent long-note event (head or tail) on column `c`, in a prefix given most-recent-first -/
def lastLn (revPre : List Slot) (c : Int) : Option Slot :=
  revPre.find? (fun s => decide (s.col = c) && decide (s.kind ≠ .hit))

/-- the head still open on column `c` after the prefix -/
def openHead (revPre : List Slot) (c : Int) : Option Slot :=
  match lastLn revPre c with
  | some s => if s.kind = .head then some s else none
  | none => none

/-- notes of a slot stream in stream order: every hit, and every tail together with the head it closes -/
def pairFrom (revPre : List Slot) : List Slot → Except Err (List Note)
  | [] => .ok []
  | s :: rest =>
    match s.kind with
    | .hit => do
      let ns ← pairFrom (s :: revPre) rest
      .ok (.hit s :: ns)
    | .head => pairFrom (s :: revPre) rest
    | .tail =>
      match openHead revPre s.col with
      | none => .error .key
      | some h => do
        let ns ← pairFrom (s :: revPre) rest
        .ok (.hold h s :: ns)

/-- no head is left open at the end of the stream -/
def closedB (slots : List Slot) : Bool :=
  slots.all (fun s => (openHead slots.reverse s.col).isNone)

/-! ### events of a package, with the format's literal constants -/

def specSlot (measure : Int) (col : Int) (n i : Nat) (g : List Nat) : Option Slot :=
  if decodeI16 (g.take 2) = 0 then none else
  let vp := g.getD 2 0
  let t := g.getD 3 0
  let mk := fun k => some ⟨slotPos measure n i, col, vp / 16, vp % 16, k⟩
  if t = 0 then mk .hit else if t = 2 then mk .head else if t = 3 then mk .tail else none

def specSlotsAux (measure : Int) (col : Int) (n : Nat) : Nat → List (List Nat) → List Slot
  | _, [] => []
  | i, g :: rest =>
    match specSlot measure col n i g with
    | some s => s :: specSlotsAux measure col n (i + 1) rest
    | none => specSlotsAux measure col n (i + 1) rest

def isColChannel (ch : Int) : Bool := decide (2 ≤ ch) && decide (ch ≤ 8)

/-- the note slots of a package: channels 2..8 are columns 0..6 -/
def specSlots (p : RawPkg) : List Slot :=
  if isColChannel p.channel then
    let gs := groups p.data
    specSlotsAux p.measure (p.channel - 2) gs.length 0 gs
  else []

/-- tempo events of a channel-1 package: every finite non-zero float (non-finite ones make the file ill-formed) -/
def specBpmsAux (measure : Int) (n : Nat) : Nat → List (List Nat) → List (Rat × Rat)
  | _, [] => []
  | i, g :: rest =>
    match decodeF32 g with
    | .fin q => if q = 0 then specBpmsAux measure n (i + 1) rest
                else (slotPos measure n i, q) :: specBpmsAux measure n (i + 1) rest
    | _ => specBpmsAux measure n (i + 1) rest

def specBpms (p : RawPkg) : List (Rat × Rat) :=
  if p.channel = 1 then
    let gs := groups p.data
    specBpmsAux p.measure gs.length 0 gs
  else []

def allFinite (p : RawPkg) : Bool :=
  if p.channel = 1 then (groups p.data).all (fun g => match decodeF32 g with | .fin _ => true | _ => false) else true

/-- `n` packages off the front of the byte string (`none` if it is too short) -/
def frame : Nat → List Nat → Option (List RawPkg × List Nat)
  | 0, q => some ([], q)
  | n + 1, q =>
    match popPkg q with
    | .error _ => none
    | .ok (p, q1) =>
      match frame n q1 with
      | none => none
      | some (ps, q2) => some (p :: ps, q2)

def frameLevels : List Int → List Nat → Option (List (List RawPkg))
  | [], _ => some []
  | c :: cs, q =>
    match frame c.toNat q with
    | none => none
    | some (ps, q1) =>
      match frameLevels cs q1 with
      | none => none
      | some r => some (ps :: r)

/-! ### the expected content of a level -/

def noteOut (init : Rat) (evs : List (Rat × Rat)) (n : Note) : NoteOut :=
  match n with
  | .hit s => ⟨n, posTime init evs s.pos, none⟩
  | .hold h t => ⟨n, posTime init evs h.pos, some (posTime init evs t.pos - posTime init evs h.pos)⟩

def bpmOut (init : Rat) (evs : List (Rat × Rat)) (e : Rat × Rat) : BpmOut := ⟨e.1, e.2, posTime init evs e.1⟩

/-- what a level must contain: the paired notes (listed in stable position order — the order is not part of the
property, the harness compares multisets) and the tempo points, each at its integrated time -/
def specLevel (init : Rat) (pkgs : List RawPkg) : Except Err LevelOut := do
  let notes ← pairFrom [] (pkgs.flatMap specSlots)
  let evs := sortBpms (pkgs.flatMap specBpms)
  .ok ⟨(sortNotes notes).map (noteOut init evs), ⟨0, init, 0⟩ :: evs.map (bpmOut init evs)⟩

/-- the header tempo as the format stores it (the package counts: `packageCounts`, shared with the model) -/
def headerTempo (hdr : List (String × MetaVal)) : Option Rat :=
  match lookupMeta hdr "bpm" with
  | some (.flt (.fin q)) => some q
  | _ => none

/-- what a level needs for the specification to speak: no measure-fraction package, finite tempo floats, every
tail paired, no head left open at the end of the level -/
def wfLevel (pkgs : List RawPkg) : Bool :=
  pkgs.all (fun p => decide (p.channel ≠ 0)) && pkgs.all allFinite &&
    closedB (pkgs.flatMap specSlots) &&
    (match pairFrom [] (pkgs.flatMap specSlots) with | .ok _ => true | .error _ => false)

/-- **the specification of `O2JMapSet.read`** : header attributes at the declared offsets, then one level per
package-count entry (a count of 0 gives a level with no notes and the header tempo only) -/
def specSet (bs : List Nat) : Except Err FileOut := do
  let hdr ← specMeta bs
  match frameLevels (packageCounts hdr) (bs.drop headerSize), headerTempo hdr with
  | some lvls, some q => do
    let outs ← mapE (specLevel q) lvls
    .ok ⟨hdr, outs⟩
  | _, _ => .error .index

/-- well-formed .ojn in the sense of the property's quantifier (as far as the theorems need it): at least 300 bytes,
the package counts can be framed, header tempo finite and non-zero, every level `wfLevel` -/
def wellFormed (bs : List Nat) : Bool :=
  match specMeta bs with
  | .error _ => false
  | .ok hdr =>
    match frameLevels (packageCounts hdr) (bs.drop headerSize), headerTempo hdr with
    | some lvls, some q => decide (q ≠ 0) && lvls.all wfLevel
    | _, _ => false

/-- well-formedness of a level in the sense of the property's quantifier: no measure-fraction package, finite
positive tempos, non-negative measures, every long note closed inside the level -/
structure LevelDom where
  noMeasureFraction : Bool
  temposPositive : Bool
  measuresNonneg : Bool
  closed : Bool
  paired : Bool

def levelDom (pkgs : List RawPkg) : LevelDom :=
  let slots := pkgs.flatMap specSlots
  { noMeasureFraction := pkgs.all (fun p => p.channel ≠ 0)
    temposPositive := pkgs.all allFinite && (pkgs.flatMap specBpms).all (fun e => decide (0 < e.2))
    measuresNonneg := pkgs.all (fun p => decide (0 ≤ p.measure))
    closed := closedB slots
    paired := match pairFrom [] slots with | .ok _ => true | .error _ => false }

end Reamber.O2J.Spec
