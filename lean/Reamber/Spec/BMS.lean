/-
BMS by the book: what a BMS/BME/PMS text *denotes* for a given channel layout, stated independently of the
reader's machinery (no stacks, no sweep, no re-snapping):

* a data line `#mmmcc:x1x2…xn` (n two-character objects) puts object `xi ≠ 00` at measure `mmm`, position
  `i/n` of the measure, i.e. beat `4·i/n` in 4/4;
* channel 03 objects set the tempo to their hexadecimal value, channel 08 objects to the `#BPMxx` entry of their id;
  the `#BPM` header is the tempo at measure 0 (a tempo object at measure 0, position 0 replaces it);
* the time of a position is the piecewise-linear integration of beat length (`Spec.Timing.timeAt`, time 0 at
  measure 0);
* in each lane, walking the objects *in time order*: an object whose id is the `#LNOBJ` id closes the object
  right before it (the pair is a hold, head = the preceding object, carrying its sample); every other object is a
  hit carrying the `#WAVxx` sample of its id (`""` if the id is not defined).

`denote` is silent (`none`) where the format gives no meaning: odd-length data, channel-02 lines (outside C04/C05),
an undefined `#BPMxx` id, two tempo objects or two objects of one lane at the same position, an `#LNOBJ` object
with no open object before it, missing or non-positive `#BPM`.

Two entry points into the same semantics (`denoteBody`):
* `denoteText` (C04) — the specification's OWN text layer, written independently of the reader: `fileLines` (a file's
  bytes into lines), `trimBlank`, `bookLine` (one line: comment / `#NAME value` / `#mmmcc:data` / ignored word),
  `bookTable` (first definition fixes the place, last gives the value), `bookDoc`, `bookHeader` (the header record).
  `Props/C04.lean` proves it equal to the reader's lexer wherever it gives a meaning and states where they part.
* `denote` (C05, and the semantic core of C04) — the same semantics over the model's lexer (`classify`, `parseDoc`,
  `readHeader`); `denoteText_eq_denote` relates the two.
Shared by both and by the model: the number parsers `parseFloat`, `parseNat`, `parseHex2`.
-/
import Reamber.Model.BMS
import Reamber.Spec.Timing

namespace Reamber.BMS

open Reamber.Timing


/-! ### the layouts by the book

Hand-written: lane channel → column for the five layouts the property names (channels 1x/2x are the 1P/2P
key channels of the BMS command memo; the column numbering is reamberPy's documented one).  `Props/C04.lean`
proves that the tables generated from the source (`Generated/BMSTables.lean`) are exactly these. -/

def bookLanes : List (String × List (String × Nat)) := [
  ("BMS", [("11", 0), ("12", 1), ("13", 2), ("14", 3), ("15", 4), ("16", 5), ("17", 6),
           ("21", 7), ("22", 8), ("23", 9), ("24", 10), ("25", 11), ("26", 12), ("27", 13)]),
  ("BME", [("16", 0), ("11", 1), ("12", 2), ("13", 3), ("14", 4), ("15", 5), ("18", 6), ("19", 7),
           ("21", 8), ("22", 9), ("23", 10), ("24", 11), ("25", 12), ("28", 13), ("29", 14), ("26", 15)]),
  ("PMS", [("11", 0), ("12", 1), ("13", 2), ("14", 3), ("15", 4), ("22", 5), ("23", 6), ("24", 7), ("25", 8)]),
  ("PMS_BME", [("11", 0), ("12", 1), ("13", 2), ("14", 3), ("15", 4), ("18", 5), ("19", 6), ("16", 7), ("17", 8),
               ("21", 9), ("22", 10), ("23", 11), ("24", 12), ("25", 13), ("28", 14), ("29", 15), ("26", 16), ("27", 17)]),
  ("PMS_5B", [("13", 0), ("14", 1), ("15", 2), ("22", 3), ("23", 4)])]

/-- channel 02 = measure length, 03 = tempo (hexadecimal), 08 = tempo (`#BPMxx` id) -/
def bookLayout (name : String) : Option Layout :=
  (bookLanes.find? (fun p => p.1 = name)).map fun p =>
    ⟨"02".toList, "03".toList, "08".toList, p.2.map (fun q => (q.1.toList, q.2))⟩

/-- an object of a data line: position and two-character id -/
structure Obj where
  snap : Snap
  id : Bytes
deriving Repr, DecidableEq, Inhabited

def evenPairs : Bytes → Option (List Bytes)
  | [] => some []
  | [_] => none
  | a :: b :: t => (evenPairs t).map (fun r => [a, b] :: r)

/-- the objects of one data line: object `i` of `n` sits at beat `4·i/n` of its measure (a bare position: no
metronome attached; tempo objects get the 4/4 metronome in `tempoOfObj`) -/
def lineObjs (m : Nat) (seq : Bytes) : Option (List Obj) :=
  (evenPairs seq).map fun ps =>
    let n := ps.length
    (zipIdxFrom 0 ps).filterMap fun p =>
      if p.2 = ['0', '0'] then none
      else some ⟨⟨(m : Int), 4 * ((p.1 : Nat) : Rat) / ((n : Nat) : Rat), none⟩, p.2⟩

def allSome {α} : List (Option α) → Option (List α)
  | [] => some []
  | none :: _ => none
  | some a :: t => (allSome t).map (a :: ·)

/-- all objects of one channel, file order -/
def channelObjs (notes : List (Bytes × Bytes × Bytes)) (ch : Bytes) : Option (List Obj) :=
  (allSome ((notes.filter (fun d => d.2.1 = ch)).map (fun d => (parseNat d.1).bind (fun m => lineObjs m d.2.2)))).map List.flatten

def sortObjs (l : List Obj) : List Obj := isort (fun a b => !(b.snap.lt a.snap)) l

/-- positions strictly increasing -/
def strictAsc : List Obj → Bool
  | [] => true
  | [_] => true
  | a :: b :: t => a.snap.lt b.snap && strictAsc (b :: t)

structure SHit where
  col : Nat
  sample : Bytes
  snap : Snap
deriving Repr, DecidableEq

structure SHold where
  col : Nat
  sample : Bytes
  head : Snap
  tail : Snap
deriving Repr, DecidableEq

/-- one lane, objects in time order; `prev` = the open object (not yet known to be a hit or a head) -/
def pairLane (lnobj : Option Bytes) (sampleOf : Bytes → Bytes) (col : Nat) :
    Option Obj → List Obj → Option (List SHit × List SHold)
  | none, [] => some ([], [])
  | some p, [] => some ([⟨col, sampleOf p.id, p.snap⟩], [])
  | prev, o :: rest =>
    if some o.id = lnobj then
      match prev with
      | none => none                       -- nothing to close
      | some p => (pairLane lnobj sampleOf col none rest).map (fun r => (r.1, ⟨col, sampleOf p.id, p.snap, o.snap⟩ :: r.2))
    else
      match prev with
      | none => pairLane lnobj sampleOf col (some o) rest
      | some p => (pairLane lnobj sampleOf col (some o) rest).map (fun r => (⟨col, sampleOf p.id, p.snap⟩ :: r.1, r.2))

structure DHit where
  col : Nat
  sample : Bytes
  offset : Rat
deriving Repr, DecidableEq

structure DHold where
  col : Nat
  sample : Bytes
  offset : Rat
  length : Rat
deriving Repr, DecidableEq

structure Denotation where
  header : Header
  tempo : List BcSnap          -- tempo at measure 0 first, then the tempo objects in time order
  shits : List SHit
  sholds : List SHold
  hits : List DHit
  holds : List DHold
deriving Repr

def tempoOfObj (exbpms : Dict Rat) (ex : Bool) (o : Obj) : Option BcSnap :=
  let bpm? : Option Rat := if ex then dictGet? exbpms o.id else (parseHex2 o.id).map (fun v => ((v : Nat) : Rat))
  bpm?.bind fun bpm => if bpm ≤ 0 then none else some ⟨bpm, 4, { o.snap with met := some 4 }⟩

/-- tempo positions strictly increasing: `Reamber.Timing.strictSnaps` -/
abbrev strictAscBc : List BcSnap → Bool := strictSnaps

/-- the text is inside the format: positive `#BPM`, no channel-02 line, every data line has a measure number and
an even number of characters -/
def guardsOk (lay : Layout) (doc : Doc) (hdr : Header) : Bool :=
  !(decide (hdr.bpm0 ≤ 0)) && !(doc.notes.any (fun d => d.2.1 = lay.timeSig)) &&
  !(doc.notes.any (fun d => (parseNat d.1).isNone || (evenPairs d.2.2).isNone))

/-- the tempo list: the `#BPM` header at measure 0, then the tempo objects of channels 03 and 08 in position
order (pairwise different positions) -/
def denoteTempo (lay : Layout) (notes : List (Bytes × Bytes × Bytes)) (exbpms : Dict Rat) (bpm0 : Rat) : Option (List BcSnap) :=
  match channelObjs notes lay.bpmCh, channelObjs notes lay.exbpmCh with
  | some o3, some o8 =>
    match allSome (o3.map (tempoOfObj exbpms false)), allSome (o8.map (tempoOfObj exbpms true)) with
    | some t3, some t8 =>
      if strictAscBc (sortBcSnap (t3 ++ t8)) then some (⟨bpm0, 4, ⟨0, 0, some 4⟩⟩ :: sortBcSnap (t3 ++ t8)) else none
    | _, _ => none
  | _, _ => none

/-- one lane: its objects in position order (pairwise different positions), paired by the book -/
def denoteLane (lnobj : Option Bytes) (sampleOf : Bytes → Bytes) (notes : List (Bytes × Bytes × Bytes))
    (lane : Bytes × Nat) : Option (List SHit × List SHold) :=
  match channelObjs notes lane.1 with
  | some os => if strictAsc (sortObjs os) then pairLane lnobj sampleOf lane.2 none (sortObjs os) else none
  | none => none

/-- everything but the header record: tempo list, positioned hits and holds -/
def denoteBody (lay : Layout) (doc : Doc) (hdr : Header) : Option (List BcSnap × List SHit × List SHold) :=
  if guardsOk lay doc hdr then
    match denoteTempo lay doc.notes hdr.exbpms hdr.bpm0 with
    | none => none
    | some cs =>
      match allSome (lay.lanes.map (denoteLane (dictGet? doc.header "LNOBJ".toList)
          (fun id => (dictGet? hdr.samples id).getD []) doc.notes)) with
      | none => none
      | some perLane => some (cs, perLane.flatMap (·.1), perLane.flatMap (·.2))
  else none

def denote (lay : Layout) (lines : List Bytes) : Option Denotation :=
  match parseDoc lines with
  | .error _ => none
  | .ok doc =>
    match readHeader doc.header with
    | .error _ => none
    | .ok hdr =>
      match denoteBody lay doc hdr with
      | none => none
      | some (cs, shits, sholds) =>
        let T := timeAt 0 cs
        some { header := hdr, tempo := cs, shits := shits, sholds := sholds,
               hits := shits.map (fun h => ⟨h.col, h.sample, T h.snap⟩),
               holds := sholds.map (fun h => ⟨h.col, h.sample, T h.head, T h.tail - T h.head⟩) }


/-! ### the text layer by the book — written independently of the reader's lexer

`Props/C04.lean` proves (`bookLine_classify`, `bookTable_eq_fold`, `bookDoc_parseDoc`) that on every byte string on
which this lexer gives a line a meaning the reader's classifier (`classify`: `strip`, `split(b" ", 1)`,
`split(b":")`, slices) gives the same, and that the header table built by "first definition fixes the place, last
definition gives the value" is the reader's insertion-ordered dict.  Where this lexer is silent and the reader is
not (a command longer than `#mmmcc`, a channel that is not alphanumeric, `#m:…`) the reader is more liberal than
the format: dialect facts, listed in `lexer_dialect_facts`. -/

/-- ASCII white space: the space, and HT LF VT FF CR (9 … 13) -/
def isBlank (c : Char) : Bool := c.toNat = 32 || (decide (9 ≤ c.toNat) && decide (c.toNat ≤ 13))

/-- a line without the white space at its two ends -/
def trimBlank (s : Bytes) : Bytes := ((s.dropWhile isBlank).reverse.dropWhile isBlank).reverse

def isAlnum (c : Char) : Bool :=
  isDigit c || (decide ('A' ≤ c) && decide (c ≤ 'Z')) || (decide ('a' ≤ c) && decide (c ≤ 'z'))

/-- One line of a BMS text.  White space at the ends is insignificant.  A line that does not begin with `#` is a
comment.  `#NAME value`: a header command — the name ends at the first space, the value is everything behind it
(values may contain spaces).  `#mmmcc:data` (no space; three decimal digits, two alphanumeric channel characters,
data without a colon): a channel message.  Any other `#…` word that does not start with a digit (`#ENDIF`, an
unfilled header) is ignored.  Silent (`none`): a lone `#`, and a word starting with a digit that is not of the
form `#mmmcc:data`. -/
def bookLine (raw : Bytes) : Option Line :=
  match trimBlank raw with
  | '#' :: body =>
    if body.contains ' ' then
      some (.header (body.takeWhile (fun c => c != ' ')) ((body.dropWhile (fun c => c != ' ')).drop 1))
    else
      match body with
      | [] => none
      | c :: _ =>
        if isDigit c then
          match body with
          | m1 :: m2 :: m3 :: c1 :: c2 :: ':' :: data =>
            if isDigit m2 && isDigit m3 && isAlnum c1 && isAlnum c2 && !(data.contains ':')
            then some (.note [m1, m2, m3] [c1, c2] data) else none
          | _ => none
        else some .skip
  | _ => some .skip

/-- the last definition of a name -/
def lastValue {α} (k : Bytes) : List (Bytes × α) → Option α
  | [] => none
  | kv :: rest =>
    match lastValue k rest with
    | some w => some w
    | none => if kv.1 = k then some kv.2 else none

/-- a table given by definitions in file order: a name defined more than once keeps the place of its first
definition and has the value of its last -/
def bookTable {α} : List (Bytes × α) → Dict α
  | [] => []
  | kv :: rest => (kv.1, (lastValue kv.1 rest).getD kv.2) :: (bookTable rest).filter (fun p => p.1 ≠ kv.1)

def Line.headerOf : Line → Option (Bytes × Bytes)
  | .header k v => some (k, v)
  | _ => none

def Line.messageOf : Line → Option (Bytes × Bytes × Bytes)
  | .note m c s => some (m, c, s)
  | _ => none

/-- a text: every line has a meaning; the header table, and the channel messages in file order (duplicated
message lines are all kept — their objects add up) -/
def bookDoc (lines : List Bytes) : Option Doc :=
  (allSome (lines.map bookLine)).map fun ls => ⟨bookTable (ls.filterMap Line.headerOf), ls.filterMap Line.messageOf⟩

/-- the meaning of a lexed text (the same semantics as `denote`) -/
def denoteDoc (lay : Layout) (doc : Doc) : Option Denotation :=
  match readHeader doc.header with
  | .error _ => none
  | .ok hdr =>
    match denoteBody lay doc hdr with
    | none => none
    | some (cs, shits, sholds) =>
      let T := timeAt 0 cs
      some { header := hdr, tempo := cs, shits := shits, sholds := sholds,
             hits := shits.map (fun h => ⟨h.col, h.sample, T h.snap⟩),
             holds := sholds.map (fun h => ⟨h.col, h.sample, T h.head, T h.tail - T h.head⟩) }


/-! ### the header record by the book (independent of `readHeader`'s loops) -/

/-- `#BPMxx`: the letters BPM (either case) followed by exactly two characters — the id -/
def exbpmId (k : Bytes) : Option Bytes :=
  match k with
  | [b, p, m, x, y] => if upper b = 'B' ∧ upper p = 'P' ∧ upper m = 'M' then some [x, y] else none
  | _ => none

/-- `#WAVxx` likewise -/
def wavId (k : Bytes) : Option Bytes :=
  match k with
  | [w, a, v, x, y] => if upper w = 'W' ∧ upper a = 'A' ∧ upper v = 'V' then some [x, y] else none
  | _ => none

/-- a name that begins with WAV (either case) -/
def wavLike (k : Bytes) : Bool :=
  match k with
  | w :: a :: v :: _ => decide (upper w = 'W') && decide (upper a = 'A') && decide (upper v = 'V')
  | _ => false

/-- The header record of a header table: `#TITLE`, `#ARTIST`, `#PLAYLEVEL`, `#LNOBJ` (empty when absent), the
`#BPMxx` and `#WAVxx` tables keyed by id (an id defined twice — also through another spelling of BPM/WAV — keeps
its first place and has its last value), the `#BPM` tempo, and every other header in table order.  Silent: no
`#BPM`, a tempo that is not a decimal number, a `#WAV…` name that is not `#WAVxx` (the reader files it under its
last two characters: dialect). -/
def bookHeader (tbl : Dict Bytes) : Option Header :=
  if tbl.any (fun kv => wavLike kv.1 && (wavId kv.1).isNone) then none else
  match allSome ((tbl.filterMap (fun kv => (exbpmId kv.1).map (fun id => (id, kv.2)))).map
      (fun p => (parseFloat p.2).map (fun v => (p.1, v)))) with
  | none => none
  | some ex =>
    match (dictGet? tbl "BPM".toList).bind parseFloat with
    | none => none
    | some bpm0 =>
      some { title := (dictGet? tbl "TITLE".toList).getD [],
             artist := (dictGet? tbl "ARTIST".toList).getD [],
             version := (dictGet? tbl "PLAYLEVEL".toList).getD [],
             lnEnd := (dictGet? tbl "LNOBJ".toList).getD [],
             exbpms := bookTable ex,
             samples := bookTable (tbl.filterMap (fun kv => (wavId kv.1).map (fun id => (id, kv.2)))),
             bpm0 := bpm0,
             misc := tbl.filter (fun kv => (exbpmId kv.1).isNone && (wavId kv.1).isNone && decide (kv.1 ≠ "BPM".toList)) }

/-- the meaning of a lexed text, header record by the book -/
def denoteDocBook (lay : Layout) (doc : Doc) : Option Denotation :=
  match bookHeader doc.header with
  | none => none
  | some hdr =>
    match denoteBody lay doc hdr with
    | none => none
    | some (cs, shits, sholds) =>
      let T := timeAt 0 cs
      some { header := hdr, tempo := cs, shits := shits, sholds := sholds,
             hits := shits.map (fun h => ⟨h.col, h.sample, T h.snap⟩),
             holds := sholds.map (fun h => ⟨h.col, h.sample, T h.head, T h.tail - T h.head⟩) }

/-- **BMS by the book, text to meaning, with the specification's own lexer** -/
def denoteText (lay : Layout) (lines : List Bytes) : Option Denotation :=
  match bookDoc lines with
  | none => none
  | some doc => denoteDocBook lay doc

/-- `read_file`: the file's bytes split into lines at LF (10), CRLF or a bare CR (13) — the three line-end
conventions of text files; a trailing line end does not start another line -/
def fileLinesAux : Bytes → Bytes → List Bytes
  | cur, [] => if cur.isEmpty then [] else [cur.reverse]
  | cur, [c] => if c.toNat = 13 || c.toNat = 10 then [cur.reverse] else [(c :: cur).reverse]
  | cur, c :: d :: t =>
    if c.toNat = 13 then
      (if d.toNat = 10 then cur.reverse :: fileLinesAux [] t else cur.reverse :: fileLinesAux [] (d :: t))
    else if c.toNat = 10 then cur.reverse :: fileLinesAux [] (d :: t)
    else fileLinesAux (c :: cur) (d :: t)

def fileLines (b : Bytes) : List Bytes := fileLinesAux [] b

/-! ### syntax of a data line (C05: "every line is syntactically valid") -/

def isB36 (c : Char) : Bool := isDigit c || (decide ('A' ≤ c) && decide (c ≤ 'Z'))

/-- `#mmmcc:` followed by a non-empty even number of base-36 characters -/
def lineValid (l : Bytes) : Bool :=
  match l with
  | '#' :: m1 :: m2 :: m3 :: c1 :: c2 :: ':' :: data =>
    isDigit m1 && isDigit m2 && isDigit m3 && isB36 c1 && isB36 c2 &&
    !data.isEmpty && data.length % 2 = 0 && data.all isB36
  | _ => false

/-- is this line of a written file a data line (as opposed to a header / empty line)? -/
def isDataLine (l : Bytes) : Bool :=
  match l with
  | '#' :: c :: _ => isDigit c && !(l.contains ' ')
  | _ => false

end Reamber.BMS
