/-
C18 — what "copying hitsounds" must guarantee, stated on (source, target, result) without reference to the
algorithm.  Every clause has a `Prop` form (used by the theorems) and a `Bool` form (evaluated by the driver
on the *implementation's* output); `Lemmas/Hitsound.lean` proves the two equivalent.

Only the data types and the primitive "this note carries the clap/finish/whistle bit" (`hasBit`) are shared
with the model.
-/
import Reamber.Model.Hitsound

namespace Reamber.Hitsound

/-- all notes of a chart -/
def notesOf (c : Chart) : List Note := c.hits ++ c.holds

/-- (time, column, length, is-hold) -/
abbrev NoteKey := Rat × Int × Option Rat × Bool

def hitKey (n : Note) : NoteKey := (n.offset, n.column, none, false)
def holdKey (n : Note) : NoteKey := (n.offset, n.column, n.length, true)
def noteKeys (c : Chart) : List NoteKey := c.hits.map hitKey ++ c.holds.map holdKey

/-- **the result has exactly the target's notes** (time, column, length, kind), as a multiset -/
def NotesPreserved (tgt out : Chart) : Prop := (noteKeys out).Perm (noteKeys tgt)
def notesPreservedB (tgt out : Chart) : Bool := (noteKeys out).isPerm (noteKeys tgt)

/-- number of notes at time `t` that satisfy `p` -/
def cnt (p : Note → Bool) (t : Rat) (c : Chart) : Nat := (notesOf c).countP (fun n => n.offset == t && p n)

def isClap (n : Note) : Bool := hasBit n.hs hsClap
def isFinish (n : Note) : Bool := hasBit n.hs hsFinish
def isWhistle (n : Note) : Bool := hasBit n.hs hsWhistle

def countsLeAt (src out : Chart) (t : Rat) : Bool :=
  decide (cnt isClap t out ≤ cnt isClap t src) && decide (cnt isFinish t out ≤ cnt isFinish t src)
    && decide (cnt isWhistle t out ≤ cnt isWhistle t src)

/-- **no more claps, finishes or whistles per time than the source had** -/
def CountsLe (src out : Chart) : Prop := ∀ t : Rat, countsLeAt src out t = true
def countsLeB (src out : Chart) : Bool := (notesOf out).all (fun n => countsLeAt src out n.offset)

/-- some source note at time `t` satisfies `p` -/
def srcHas (src : Chart) (t : Rat) (p : Note → Bool) : Bool := (notesOf src).any (fun s => s.offset == t && p s)

/-- one result note carries nothing that the source does not have at that time -/
def noteFromSrc (src : Chart) (n : Note) : Bool :=
  (!isClap n || srcHas src n.offset isClap) &&
  (!isFinish n || srcHas src n.offset isFinish) &&
  (!isWhistle n || srcHas src n.offset isWhistle) &&
  (n.file == [] || srcHas src n.offset (fun s => s.file == n.file)) &&
  (n.sampleSet == 0 || srcHas src n.offset (fun s => s.sampleSet == n.sampleSet)) &&
  (n.additionSet == 0 || srcHas src n.offset (fun s => s.additionSet == n.additionSet)) &&
  (n.customSet == 0 || srcHas src n.offset (fun s => s.customSet == n.customSet))

def evFromSrc (src : Chart) (e : Ev) : Bool := srcHas src e.offset (fun s => s.file == e.file)

/-- **every hitsound the result carries was present in the source at the same time** (notes and event samples) -/
def NoInvention (src out : Chart) : Prop :=
  (∀ n ∈ notesOf out, noteFromSrc src n = true) ∧ (∀ e ∈ out.samples, evFromSrc src e = true)
def noInventionB (src out : Chart) : Bool :=
  (notesOf out).all (noteFromSrc src) && out.samples.all (evFromSrc src)

def fileCntNotes (c : Chart) (t : Rat) (f : File) : Nat := (notesOf c).countP (fun n => n.offset == t && n.file == f)
def fileCntEvs (c : Chart) (t : Rat) (f : File) : Nat := c.samples.countP (fun e => e.offset == t && e.file == f)

/-- **every named sample of the source ends up on a result note at that time or as an event sample at that
time** — with multiplicity -/
def SamplesConserved (src out : Chart) : Prop :=
  ∀ (t : Rat) (f : File), f ≠ [] → fileCntNotes src t f ≤ fileCntNotes out t f + fileCntEvs out t f
def samplesConservedB (src out : Chart) : Bool :=
  (notesOf src).all (fun s => s.file == [] ||
    decide (fileCntNotes src s.offset s.file ≤ fileCntNotes out s.offset s.file + fileCntEvs out s.offset s.file))

/-- a note that carries no copied sound -/
def unused (n : Note) : Bool := n.hs == 0 && n.file == []

/-- nothing of time `t` was dropped or pushed to the event samples -/
def allPlacedAt (src out : Chart) (t : Rat) : Bool :=
  decide (cnt isClap t src ≤ cnt isClap t out) && decide (cnt isFinish t src ≤ cnt isFinish t out)
    && decide (cnt isWhistle t src ≤ cnt isWhistle t out) && out.samples.all (fun e => e.offset != t)

/-- **as many as the target's notes at that time can hold**: as long as a note of time `t` is left without a
sound, every clap, finish and whistle of that time was placed and no named sample of that time overflowed -/
def AllPlacedIfRoom (src out : Chart) : Prop :=
  ∀ n ∈ notesOf out, unused n = true → allPlacedAt src out n.offset = true
def allPlacedIfRoomB (src out : Chart) : Bool :=
  (notesOf out).all (fun n => !unused n || allPlacedAt src out n.offset)

/-! ### hypotheses (`dom`) -/

/-- no file name of the source contains the separator `;` (else `";".join` / `.split(";")` cuts it: D19c) -/
def noSep (src : Chart) : Bool := (notesOf src).all (fun n => !n.file.contains sep)
/-- every hold has a length — a domain hypothesis: the property quantifies over charts with "hits and holds on
either side", and a hold is a note with a length (zero and negative lengths included). A row of the hold list
whose length is NaN is not such a chart; the tail of `hitsound_copy` files it under hits (`nan_hold_counterexample`). -/
def holdsHaveLength (c : Chart) : Bool := c.holds.all (fun n => n.length.isSome)

end Reamber.Hitsound
