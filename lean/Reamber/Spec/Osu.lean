/-
C01 — what the osu! v14 mania text format says, independent of how reamberPy reads it, and what the
property demands of a write/read cycle.

* column of an x position: the unique `c` with `512·c ≤ x·K < 512·(c+1)` (`IsColumn`), found by search;
* a hit-object line `x,y,time,type,hitSound,extras` is classified by its **type bits** (bit 0 hit circle,
  bit 7 mania hold whose end time is the first field of `extras`) — not by counting separators;
* a timing line `time,beatLength,meter,sampleSet,sampleIndex,volume,uninherited,effects`: `uninherited = 1`
  ⇒ bpm = 60000 / beatLength, `0` ⇒ SV = −100 / beatLength; kiai = effects bit 0;
* the file is a sequence of `[Section]`s; `Key:Value` pairs split at the **first** colon, value trimmed;
  `//` comment lines carry no content except as the two event markers of the dialect;
* `quantize`: what a chart becomes when it is written (millisecond resolution: Python `int()` on note, hold-end
  and sample times; text attributes trimmed; tags re-tokenised at blanks).
-/
import Reamber.Model.Osu

namespace Reamber.Osu

/-! ### columns -/

/-- `c` is the column of horizontal position `x` with `k` keys (osu!mania: the playfield 0..512 is cut into
`k` equal parts) -/
def IsColumn (x k c : Int) : Prop := 512 * c ≤ x * k ∧ x * k < 512 * (c + 1)

instance (x k c : Int) : Decidable (IsColumn x k c) := by unfold IsColumn; infer_instance

/-- the column by search over `0 … k-1`; positions outside the playfield are clamped to the nearest column -/
def specCol (x k : Int) : Int :=
  match (List.range k.toNat).find? (fun (c : Nat) => decide (IsColumn x k (c : Int))) with
  | some c => (c : Int)
  | none => if x * k < 0 then 0 else k - 1

/-! ### lines, by the book -/

def bit (n : Int) (i : Nat) : Bool := (n / (2 ^ i : Nat)) % 2 = 1

/-- a mania hit-object line denotes a hit, a hold, or nothing (`none`: no mania object, e.g. a slider) -/
def denoteObj (k : Int) (line : Str) : Except Err (Option Obj) :=
  match splitOn ',' line with
  | [fx, _fy, ft, fty, fhs, fex] => do
    let ty ← readInt fty
    let t ← readFloat ft
    let x ← readInt fx
    let hs ← readInt fhs
    if bit ty 0 then
      match splitOn ':' fex with
      | [a, b, c, d, f] =>
        return some (.hit { offset := t, column := specCol x k, hitsoundSet := hs, sampleSet := ← readInt a,
                            additionSet := ← readInt b, customSet := ← readInt c, volume := ← readInt d, file := f })
      | _ => throw .value
    else if bit ty 7 then
      match splitOn ':' fex with
      | [e, a, b, c, d, f] =>
        let te ← readFloat e
        return some (.hold { offset := t, column := specCol x k, length := te - t, hitsoundSet := hs,
                             sampleSet := ← readInt a, additionSet := ← readInt b, customSet := ← readInt c,
                             volume := ← readInt d, file := f })
      | _ => throw .value
    else return none
  | _ => .ok none

/-- a timing line denotes a tempo point or a scroll-velocity point -/
inductive TPoint where
  | bpm (b : Bpm)
  | sv (s : Sv)
deriving Repr, DecidableEq

def denoteTiming (line : Str) : Except Err (Option TPoint) :=
  match splitOn ',' line with
  | [ft, fb, fm, fss, fsi, fv, fu, ffx] => do
    let u ← readInt fu
    let t ← readFloat ft
    let bl ← readFloat fb
    if bl = 0 then throw .zeroDiv
    let ss ← readInt fss
    let si ← readInt fsi
    let v ← readInt fv
    let fx ← readInt ffx
    if u = 1 then
      let m ← readInt fm
      return some (.bpm { offset := t, bpm := 60000 / bl, metronome := (m : Rat), sampleSet := ss, sampleSetIndex := si,
                          volume := v, kiai := bit fx 0 })
    else if u = 0 then
      return some (.sv { offset := t, multiplier := -100 / bl, sampleSet := ss, sampleSetIndex := si, volume := v,
                         kiai := bit fx 0 })
    else return none
  | _ => .ok none

/-- `Sample,time,layer,file,volume` -/
def denoteSample (line : Str) : Except Err (Option Sample) :=
  match splitOn ',' line with
  | [ty, ft, _layer, f, fv] =>
    if ty = "Sample".toList then do
      return some { offset := ← readFloat ft, file := f, volume := ← readInt fv }
    else .ok none
  | _ => .ok none

/-! ### the whole text, by sections -/

def isHeader (l : Str) : Bool := l.head? = some '[' && l.getLast? = some ']'
def isComment (l : Str) : Bool := startsWith ['/', '/'] l

/-- (lines before the first header, [(header, body)]) -/
def sections : List Str → List Str × List (Str × List Str)
  | [] => ([], [])
  | l :: ls =>
    let r := sections ls
    if isHeader l then ([], (l, r.1) :: r.2) else (l :: r.1, r.2)

def body (name : String) (secs : List (Str × List Str)) : List Str :=
  ((secs.filter (fun s => s.1 = name.toList)).map (·.2)).flatten

/-- `Key:Value` lines of a section: split at the first colon, assign by the key table -/
def denoteKv (m : Meta) : List Str → Except Err Meta
  | [] => .ok m
  | l :: ls =>
    if l = [] ∨ isComment l then denoteKv m ls else
    match split1 ':' l with
    | (k, some v) =>
      match metaAssign m k (some v) with
      | .error e => .error e
      | .ok m' => denoteKv m' ls
    | (_, none) => denoteKv m ls

def filterMapE {α β} (f : α → Except Err (Option β)) : List α → Except Err (List β)
  | [] => .ok []
  | a :: t =>
    match f a with
    | .error e => .error e
    | .ok o =>
      match filterMapE f t with
      | .error e => .error e
      | .ok r => .ok (match o with | some b => b :: r | none => r)

/-- first background event `0,0,"file",x,y` (quotes of the dialect removed) -/
def denoteBackground : List Str → Option Str
  | [] => none
  | l :: ls =>
    match splitOn ',' l with
    | ty :: _ :: f :: _ =>
      if ty = ['0'] then
        some (if f.head? = some '"' ∧ f.getLast? = some '"' ∧ 2 ≤ f.length then (f.drop 1).dropLast else f)
      else denoteBackground ls
    | _ => denoteBackground ls

def tpBpm : TPoint → Option Bpm | .bpm b => some b | _ => none
def tpSv : TPoint → Option Sv | .sv s => some s | _ => none
def objHit : Obj → Option Hit | .hit h => some h | _ => none
def objHold : Obj → Option Hold | .hold h => some h | _ => none

/-- the chart a .osu text denotes (lines trimmed, blank and comment lines dropped, sections by header) -/
def denote (lines0 : List Str) : Except Err Chart :=
  let lines := (lines0.map strip).filter (fun l => l ≠ [])
  let secs := (sections lines).2
  let kv := body "[General]" secs ++ body "[Editor]" secs ++ body "[Metadata]" secs ++ body "[Difficulty]" secs
  match denoteKv {} kv with
  | .error e => .error e
  | .ok m0 =>
    let ev := (body "[Events]" secs).filter (fun l => !isComment l)
    match filterMapE denoteSample ev with
    | .error e => .error e
    | .ok samples =>
      let m : Meta := { m0 with samples := samples, backgroundFileName := (denoteBackground ev).getD [] }
      match filterMapE denoteTiming ((body "[TimingPoints]" secs).filter (fun l => !isComment l)) with
      | .error e => .error e
      | .ok tps =>
        let k := pyTrunc m.circleSize
        match filterMapE (denoteObj k) ((body "[HitObjects]" secs).filter (fun l => !isComment l)) with
        | .error e => .error e
        | .ok objs =>
          .ok { md := m, bpms := tps.filterMap tpBpm, svs := tps.filterMap tpSv, hits := objs.filterMap objHit,
                holds := objs.filterMap objHold }

def denoteText (t : Str) : Except Err Chart := denote (splitOn '\n' t)

/-! ### well-formedness of lines (the hypotheses under which counting separators = type bits) -/

/-- a mania object line of the dialect: six comma fields, no ':' outside the extras, type bits and the number
of extras fields consistent, exactly one of the bits 0 / 7 set -/
def wfObjLine (line : Str) : Bool :=
  match splitOn ',' line with
  | [fx, fy, ft, fty, fhs, fex] =>
    countC ':' fx = 0 && countC ':' fy = 0 && countC ':' ft = 0 && countC ':' fty = 0 && countC ':' fhs = 0 &&
    (match readInt fty with
     | .ok ty => (bit ty 0 && !bit ty 7 && (splitOn ':' fex).length = 5) ||
                 (!bit ty 0 && bit ty 7 && (splitOn ':' fex).length = 6)
     | .error _ => false)
  | _ => false

/-- a timing line of the dialect: eight fields, `uninherited` literally `0` or `1`, `effects` 0 or 1 -/
def wfTimingLine (line : Str) : Bool :=
  match splitOn ',' line with
  | [_, _, _, _, _, _, fu, ffx] => (fu = ['0'] || fu = ['1']) && (ffx = ['0'] || ffx = ['1'])
  | _ => false

/-! ### the file skeleton of the dialect (`dialect_ok` of the harness, formalised)

A v14 mania file as osu! writes it, seen after the line-level `strip`: some lines before the first header; the
key/value sections `[General]`, optionally `[Editor]`, `[Metadata]`, `[Difficulty]` in this order; `[Events]` with the
marker `//Background and Video events` directly followed by the quoted background line, later the marker
`//Storyboard Sound Samples` followed by nothing but `Sample,…` lines; `[TimingPoints]` with timing lines;
`[HitObjects]` with object lines.  Blank lines may stand anywhere except between the background marker and its line. -/

def hGeneral : Str := "[General]".toList
def hEditor : Str := "[Editor]".toList
def hMetadata : Str := "[Metadata]".toList
def hDifficulty : Str := "[Difficulty]".toList
def hEvents : Str := "[Events]".toList

/-- the keys of the metadata table -/
def metaKeys : List Str :=
  ["AudioFilename", "AudioLeadIn", "PreviewTime", "Countdown", "SampleSet", "StackLeniency", "Mode", "LetterboxInBreaks",
   "SpecialStyle", "WidescreenStoryboard", "DistanceSpacing", "BeatDivisor", "GridSize", "TimelineZoom", "Title",
   "TitleUnicode", "Artist", "ArtistUnicode", "Creator", "Version", "Source", "Tags", "BeatmapID", "BeatmapSetID",
   "HPDrainRate", "CircleSize", "OverallDifficulty", "ApproachRate", "SliderMultiplier", "SliderTickRate"].map String.toList

/-- the text before the first colon (the whole line if there is none) -/
def keyOf (l : Str) : Str := (split1 ':' l).1

/-- a line that carries no metadata: its key part is no key of the table and none of the two event markers -/
def Inert (l : Str) : Prop := keyOf l ∉ metaKeys ∧ keyOf l ≠ kBackground ∧ keyOf l ≠ kSamples

/-- a line of a key/value section: no header, no event marker; a comment or a line without colon is no key -/
def KvOk (l : Str) : Prop :=
  isHeader l = false ∧ keyOf l ≠ kBackground ∧ keyOf l ≠ kSamples ∧
  ((isComment l = true ∨ (split1 ':' l).2 = none) → keyOf l ∉ metaKeys)

/-- a line of `[Events]` other than the markers, the background line and the sample events: carries no metadata, is
no header, is no sample event and no background event for the by-the-book reading either -/
def EvInert (l : Str) : Prop :=
  Inert l ∧ isHeader l = false ∧
  (isComment l = false → denoteSample l = .ok none ∧ ∀ ty a f r, splitOn ',' l = ty :: a :: f :: r → ty ≠ ['0'])

/-- the background event `0,0,"name"tail`: name free of quotes and commas, tail (`,x,y`) free of quotes -/
def BgOk (bgl name : Str) : Prop :=
  ∃ tail, bgl = "0,0,\"".toList ++ name ++ '"' :: tail ∧ '"' ∉ name ∧ ',' ∉ name ∧ '"' ∉ tail ∧
    (tail = [] ∨ tail.head? = some ',')

/-- a sample event of the dialect: exactly `Sample,time,layer,file,volume` -/
def SampleOk (l : Str) : Prop := ∃ ft fl f fv, splitOn ',' l = ["Sample".toList, ft, fl, f, fv]

/-- the pieces of a dialect file -/
structure Skeleton where
  pre : List Str
  G : List Str
  hasEditor : Bool
  E : List Str
  M : List Str
  D : List Str
  A : List Str
  bgl : Str
  bgName : Str
  B : List Str
  S : List Str
  T : List Str
  O : List Str

def Skeleton.events (s : Skeleton) : List Str := s.A ++ kBackground :: s.bgl :: (s.B ++ kSamples :: s.S)

def Skeleton.head (s : Skeleton) : List Str :=
  s.pre ++ hGeneral :: (s.G ++ ((if s.hasEditor then hEditor :: s.E else []) ++
    hMetadata :: (s.M ++ hDifficulty :: (s.D ++ hEvents :: s.events))))

/-- the trimmed lines of the file -/
def Skeleton.lines (s : Skeleton) : List Str := s.head ++ hTiming :: (s.T ++ hObjects :: s.O)

structure Skeleton.WF (s : Skeleton) : Prop where
  pre : ∀ l ∈ s.pre, Inert l ∧ isHeader l = false
  G : ∀ l ∈ s.G, KvOk l
  E : ∀ l ∈ s.E, KvOk l
  noE : s.hasEditor = false → s.E = []
  M : ∀ l ∈ s.M, KvOk l
  D : ∀ l ∈ s.D, KvOk l
  A : ∀ l ∈ s.A, EvInert l
  bg : BgOk s.bgl s.bgName
  B : ∀ l ∈ s.B, EvInert l
  S : ∀ l ∈ s.S, l = [] ∨ SampleOk l
  T : ∀ l ∈ s.T, l = [] ∨ (wfTimingLine l = true ∧ isHeader l = false ∧ isComment l = false)
  O : ∀ l ∈ s.O, l = [] ∨ (wfObjLine l = true ∧ isHeader l = false ∧ isComment l = false)

/-! ### quantisation: what writing does to a chart -/

def qHit (h : Hit) : Hit := { h with offset := (pyTrunc h.offset : Rat) }

/-- both end points are truncated separately (each moves by less than 1 ms) -/
def qHold (h : Hold) : Hold :=
  { h with offset := (pyTrunc h.offset : Rat),
           length := (pyTrunc (h.offset + h.length) : Rat) - (pyTrunc h.offset : Rat) }

def qBpm (b : Bpm) : Bpm := { b with metronome := (pyTrunc b.metronome : Rat) }
def qSample (s : Sample) : Sample := { s with offset := (pyTrunc s.offset : Rat) }

/-- tags as they come back: joined with blanks, the line's trailing blanks gone, split at blanks, empty pieces
dropped, trimmed -/
def qTags (ts : List Str) : List Str :=
  ((splitOn ' ' (rstrip (joinWith ' ' ts))).filter (fun i => i ≠ [])).map strip

def qMeta (uni : Str → Str) (m : Meta) : Meta :=
  { m with audioFileName := strip m.audioFileName, previewTime := (pyTrunc m.previewTime : Rat),
           sampleSet := sampleSetFromString (sampleSetToString m.sampleSet),
           title := strip (uni m.title), titleUnicode := strip m.titleUnicode, artist := strip (uni m.artist),
           artistUnicode := strip m.artistUnicode, creator := strip m.creator, version := strip m.version,
           source := strip m.source, tags := qTags m.tags, samples := m.samples.map qSample }

/-- the chart that `write` puts on disk (rows in file order: objects sorted by time, stable) -/
def quantize (uni : Str → Str) (c : Chart) : Chart :=
  { md := qMeta uni c.md, bpms := c.bpms.map qBpm, svs := c.svs,
    hits := ((sortedObjs c).filterMap objHit).map qHit, holds := ((sortedObjs c).filterMap objHold).map qHold }

/-! ### "the same chart with times moved by less than 1 ms" — stated about whole charts, without `quantize` -/

/-- element-wise relation between two lists of the same length -/
def AllRel {α} (r : α → α → Prop) : List α → List α → Prop
  | [], [] => True
  | a :: as, b :: bs => r a b ∧ AllRel r as bs
  | _, _ => False

/-- `b` is the hit `a` at a time less than 1 ms away; column, hitsound fields and file untouched -/
def HitMoved (a b : Hit) : Prop :=
  -1 < b.offset - a.offset ∧ b.offset - a.offset < 1 ∧ b = { a with offset := b.offset }

/-- `b` is the hold `a` with head and tail each less than 1 ms away; everything else untouched -/
def HoldMoved (a b : Hold) : Prop :=
  -1 < b.offset - a.offset ∧ b.offset - a.offset < 1 ∧
  -1 < (b.offset + b.length) - (a.offset + a.length) ∧ (b.offset + b.length) - (a.offset + a.length) < 1 ∧
  b = { a with offset := b.offset, length := b.length }

def SampleMoved (a b : Sample) : Prop :=
  -1 < b.offset - a.offset ∧ b.offset - a.offset < 1 ∧ b = { a with offset := b.offset }

/-- `c'` denotes the same chart as `c` at millisecond resolution: its hits / holds are those of `c` in some order
(`List.Perm`: nothing lost, nothing invented, nothing duplicated), each at a time less than 1 ms away with all other
fields equal; tempo points are the same points in the same order (time and bpm exactly; the meter as `int()`); scroll
velocities are identical; the sample events are the same events in the same order, each less than 1 ms away; the
metadata is `qMeta` (text trimmed, tags re-tokenised, numbers identical). -/
structure SameChart1ms (uni : Str → Str) (c c' : Chart) : Prop where
  hits : ∃ p, p.Perm c.hits ∧ AllRel HitMoved p c'.hits
  holds : ∃ p, p.Perm c.holds ∧ AllRel HoldMoved p c'.holds
  bpms : c'.bpms = c.bpms.map qBpm
  bpmTimes : c'.bpms.map (fun b => (b.offset, b.bpm)) = c.bpms.map (fun b => (b.offset, b.bpm))
  svs : c'.svs = c.svs
  samples : AllRel SampleMoved c.md.samples c'.md.samples
  md : c'.md = { qMeta uni c.md with samples := c'.md.samples }

/-- the objects of a chart are in time order when the hits and holds, merged, are -/
def TimeOrdered (os : List Obj) : Prop := os.Pairwise (fun a b => a.offset ≤ b.offset)

end Reamber.Osu
