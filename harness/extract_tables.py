"""Translator: regenerates lean/Reamber/Generated/*.lean from the source tree on every run.

Each module in harness/translators/ exports `generate(repo) -> {filename: lean_text}`; it may import
reamber modules (from REAMBER_REPO's working tree, asserted) and/or `ast`-parse source files.
Files are only rewritten when their text changes, so an unchanged source costs a no-op build.
"""
import importlib
import os
import pkgutil
import sys

HERE = os.path.dirname(os.path.abspath(__file__))
if HERE not in sys.path:
    sys.path.insert(0, HERE)


def assert_repo(repo):
    if repo not in sys.path:
        sys.path.insert(0, repo)
    import reamber
    f = os.path.realpath(reamber.__file__)
    if not f.startswith(os.path.realpath(repo) + os.sep):
        raise RuntimeError(f"reamber imported from {f}, not from {repo}")


def files_of(modname):
    """names of the Generated files a translator module writes (read from its source: `return {"X.lean": ...}`)"""
    import re
    import translators
    src = open(os.path.join(translators.__path__[0], modname + ".py"), encoding="utf-8").read()
    return sorted(set(re.findall(r'return \{\s*"(\w+\.lean)"', src)))


def generate_all(repo, errors=None):
    """runs every translator; a translator that cannot read the source any more is recorded in `errors`
    ({module: (message, [files it writes])}) and leaves its Generated file as it is - it must not take the other
    properties' translators down with it"""
    assert_repo(repo)
    import translators
    out = {}
    for m in sorted(pkgutil.iter_modules(translators.__path__), key=lambda m: m.name):
        try:
            mod = importlib.import_module(f"translators.{m.name}")
            for fn, text in mod.generate(repo).items():
                out[fn] = text
        except Exception as e:  # noqa: BLE001
            if errors is None:
                raise
            errors[m.name] = (f"{type(e).__name__}: {e}", files_of(m.name))
    return out


def write_generated(repo, outdir, errors=None):
    os.makedirs(outdir, exist_ok=True)
    changed = []
    for fn, text in generate_all(repo, errors).items():
        p = os.path.join(outdir, fn)
        old = open(p, encoding="utf-8").read() if os.path.exists(p) else None
        if old != text:
            with open(p, "w", encoding="utf-8") as f:
                f.write(text)
            changed.append(fn)
    return changed


if __name__ == "__main__":
    repo = os.path.abspath(os.environ.get("REAMBER_REPO", "/repo"))
    ch = write_generated(repo, os.path.join(os.path.dirname(HERE), "lean", "Reamber", "Generated"))
    print("rewritten:", ch)
