#!/venv/bin/python
"""vcheck.py Cnn [--tier quick|thorough] [--replay FILE]   — the command registered in MANIFEST.json.

exit 0: property held on everything explored;  exit 1: a `VIOLATION property=<id> replay=<path>` line was printed;
exit 2: infrastructure failure (never a verdict).
"""
import os
import sys

HERE = os.path.dirname(os.path.abspath(__file__))
sys.path.insert(0, HERE)

from lib import core  # noqa: E402

if __name__ == "__main__":
    try:
        rc = core.main()
    except SystemExit:
        raise
    except Exception:
        import traceback
        traceback.print_exc()
        print("INFRA: unhandled exception in the harness")
        rc = 2
    sys.exit(rc)
