#!/venv/bin/python
"""known_findings.json := merge of known_findings.d/*.json fragments (by finding id: `properties` united,
`witness` dicts united, other fields from the first fragment that sets them). Run at edit time only —
no check ever writes the file."""
import glob
import json
import os

VERIF = os.path.dirname(os.path.dirname(os.path.abspath(__file__)))
merged = {}
for f in sorted(glob.glob(os.path.join(VERIF, "known_findings.d", "*.json"))):
    for e in json.load(open(f))["findings"]:
        m = merged.setdefault(e["id"], dict(id=e["id"], properties=[], status=e.get("status", "open"), what="", witness={}))
        for p in e.get("properties", []):
            if p not in m["properties"]:
                m["properties"].append(p)
        m["witness"].update(e.get("witness") or {})
        for k, v in e.items():
            if k not in ("id", "properties", "witness") and v and not m.get(k):
                m[k] = v
        if e.get("status") == "fixed":
            m["status"] = "fixed"
out = dict(comment="Committed list of genuine defects of reamberPy found by these checks (assembled by harness/kf_merge.py from "
                   "known_findings.d/). `open` findings print KNOWN-FINDING lines and do not fail a check; `fixed` findings suppress "
                   "nothing: 'fixed: property=<id> <commit> <what failed>' — their witnesses stay in the corpus. Never written at run time.",
           findings=sorted(merged.values(), key=lambda e: e["id"]))
for e in out["findings"]:
    if e["status"] == "fixed":
        e["fixed_line"] = f"fixed: property={','.join(e['properties'])} {e.get('commit', '?')} {e['what']}"
json.dump(out, open(os.path.join(VERIF, "known_findings.json"), "w"), indent=1)
print(len(out["findings"]), "findings:", [(e["id"], e["status"]) for e in out["findings"]])
