"""C18 — hitsound copy moves sounds, never notes, and loses nothing it promises to keep.

Correspondence: reamber.algorithms.osu.hitsound_copy.hitsound_copy(src, tgt) (+ OsuMap.reset_samples) against
Model/Hitsound.lean `copyWith σs σt` — σs/σt are the sorting permutations pandas' `sort_values("offset")` chose
(numpy quicksort is not stable beyond 16 rows; the theorems hold for every permutation).
Specification: Spec/Hitsound.lean (`notesPreservedB`, `countsLeB`, `noInventionB`, `samplesConservedB`,
`allPlacedIfRoomB`) evaluated by the driver on the implementation's output; plus "neither input is modified"
(frames and event samples of both inputs compared before/after in-process).
All numbers are on the exact stream (integers / dyadic times): equality, no tolerance.
"""
import copy as _copy
import math
from fractions import Fraction as Fr

from lib.rat import R, F

ID = "C18"
QUICK_N = 700
THOROUGH_N = 20000
QUICK_BUDGET_S = 80
THOROUGH_BUDGET_S = 900
RULE = ("pairs of osu charts over a shared pool of 1-6 times (integers and dyadic fractions, both signs): source with 0-7 "
        "sounding notes per time (hitsound bits 0-15 and beyond, 1-4 volumes incl. 0 and negative, named samples with "
        "repeats and empty names, sample/addition/custom sets), target with 0-5 notes per time (own sounds, own event "
        "samples), hits and holds on both sides (hold lengths positive, zero and negative), occasionally > 16 rows per side "
        "(unstable sort ties), note lists built by one constructor call or by appending item after item, rarely a ';' in a "
        "name (known finding D19c) or a hold without a length (outside the property's domain: correspondence only); "
        "non-trivial = some source sound shares its time with a target note or overflows into the event samples")
ASSUMPTIONS = [
    "pandas sort_values('offset') on the note frames depends only on the offset column (the permutation is re-derived "
    "from it and handed to the model); groupby sorts distinct keys ascending and keeps row order inside a group",
    "'neither input is modified' is observed (frames compared before/after), not proved: the Lean model is a pure function",
    "a hold whose length is NaN is not a chart the property quantifies over (\"hits and holds on either side\"): on such a "
    "target the clause notes_preserved is not evaluated (the model mirrors what the code does there and is still compared)",
    "the `else` branch of the tail (`'length' not in df`) is unreachable through OsuMap (the hold frame always has the column) and is not modelled",
]

TIMES = [Fr(0), Fr(1), Fr(2), Fr(100), Fr(250), Fr(1000), Fr(-50), Fr(1, 2), Fr(1001, 4), Fr(3, 8), Fr(-7, 2), Fr(123456),
         Fr(99999, 1024)]
VOLS = [0, 0, 10, 20, 20, 30, 50, 70, 100, -5, -1, 1]
NAMES = ["a.wav", "b.wav", "c.wav", "d.ogg", "x", "kick.wav", "a.wav", "b.wav", "é.wav", " ", "s p.wav"]
SEMI = ["a;b.wav", ";", "x;", ";y", "p;q;r", "a.wav;a.wav"]


def _imports():
    from reamber.osu.OsuMap import OsuMap
    from reamber.osu.lists.notes.OsuHitList import OsuHitList
    from reamber.osu.lists.notes.OsuHoldList import OsuHoldList
    from reamber.osu.lists.OsuSampleList import OsuSampleList
    from reamber.osu.OsuHit import OsuHit
    from reamber.osu.OsuHold import OsuHold
    from reamber.osu.OsuSample import OsuSample
    from reamber.algorithms.osu.hitsound_copy import hitsound_copy
    return OsuMap, OsuHitList, OsuHoldList, OsuSampleList, OsuHit, OsuHold, OsuSample, hitsound_copy


# ------------------------------------------------------------------------------------------ generators

def note(t, c, hs=0, ss=0, ad=0, cs=0, v=0, f="", l=False):
    d = dict(t=R(t), c=c, hs=hs, ss=ss, ad=ad, cs=cs, v=v, f=f)
    if l is not False:
        d["l"] = None if l is None else R(l)
    return d


def gen_len(rng):
    # zero and negative lengths are legal hold objects (head == tail, tail before head) and must keep their kind
    return rng.choice([Fr(0), Fr(0), Fr(1), Fr(50), Fr(100), Fr(250), Fr(1, 2), Fr(333, 8), Fr(10000), Fr(-20), Fr(-1, 2), Fr(-1)])


def gen_sound(rng, names, vols, rich):
    """(hs, ss, ad, cs, v, f) of one source note"""
    r = rng.random()
    hs = 0
    f = ""
    if r < 0.55:
        hs = rng.choice([2, 4, 8, 6, 10, 12, 14, 2, 2, 8, 3, 7, 15, 1])
    elif r < 0.8:
        f = rng.choice(names)
    elif r < 0.92:
        hs = rng.choice([2, 4, 8, 14, 6, 1])
        f = rng.choice(names)
    if rich and rng.random() < 0.1:
        hs = rng.choice([16, 18, 32, 255, 130, 64 + 4])
    ss = rng.choice([0, 0, 0, 0, 1, 2, 3])
    ad = rng.choice([0, 0, 0, 0, 1, 2, 3])
    cs = rng.choice([0, 0, 0, 0, 0, 1, 5])
    return hs, ss, ad, cs, rng.choice(vols), f


def gen(rng, tier, i):
    big = rng.random() < 0.12
    ntimes = rng.choice([1, 1, 2, 2, 3, 3, 4, 6]) if not big else rng.choice([1, 2, 3])
    times = rng.sample(TIMES, ntimes)
    names = rng.sample(NAMES, rng.choice([1, 2, 3, 5]))
    vols = rng.sample(VOLS, rng.choice([1, 1, 2, 3, 4]))
    special = rng.random()
    semi = special < 0.04
    nanhold = 0.04 <= special < 0.07
    if semi:
        names = names + rng.sample(SEMI, rng.choice([1, 2]))
    keys = rng.choice([4, 4, 7, 10])
    src_h, src_l, tgt_h, tgt_l, tgt_s = [], [], [], [], []
    for t in times:
        # source
        k = rng.choice([0, 1, 1, 2, 3, 4, 5, 7]) if not big else rng.choice([6, 10, 14, 20])
        for _ in range(k):
            hs, ss, ad, cs, v, f = gen_sound(rng, names, vols, True)
            if rng.random() < 0.25:
                src_l.append(note(t, rng.randrange(keys), hs, ss, ad, cs, v, f, l=gen_len(rng)))
            else:
                src_h.append(note(t, rng.randrange(keys), hs, ss, ad, cs, v, f))
        # target
        k = rng.choice([0, 1, 1, 2, 2, 3, 4, 5]) if not big else rng.choice([0, 3, 8, 12, 18])
        cols = list(range(keys))
        rng.shuffle(cols)
        for j in range(k):
            c = cols[j % keys]
            own = rng.random() < 0.3
            hs, ss, ad, cs, v, f = gen_sound(rng, names + ["own.wav"], VOLS, False) if own else (0, 0, 0, 0, rng.choice([0, 0, 40]), "")
            if rng.random() < 0.3:
                tgt_l.append(note(t, c, hs, ss, ad, cs, v, f, l=gen_len(rng)))
            else:
                tgt_h.append(note(t, c, hs, ss, ad, cs, v, f))
    # notes away from the shared times
    for _ in range(rng.choice([0, 0, 1, 2])):
        t = rng.choice(TIMES) + rng.choice([0, 7, Fr(1, 16)])
        hs, ss, ad, cs, v, f = gen_sound(rng, names, vols, False)
        src_h.append(note(t, rng.randrange(keys), hs, ss, ad, cs, v, f))
    for _ in range(rng.choice([0, 0, 1, 3])):
        t = rng.choice(TIMES) + rng.choice([0, 5, Fr(3, 16)])
        n = note(t, rng.randrange(keys), rng.choice([0, 0, 2, 12]), 0, 0, 0, rng.choice(VOLS), rng.choice(["", "", "own.wav"]))
        if rng.random() < 0.3:
            n["l"] = R(gen_len(rng))
            tgt_l.append(n)
        else:
            tgt_h.append(n)
    for _ in range(rng.choice([0, 0, 1, 2])):
        tgt_s.append(dict(t=R(rng.choice(TIMES)), f=rng.choice(["old.wav", "a.wav"]), v=rng.choice([10, 70])))
    if nanhold and tgt_l:
        rng.choice(tgt_l)["l"] = None
    for l in (src_h, src_l, tgt_h, tgt_l):
        rng.shuffle(l)
    case = dict(claim="copy", src=dict(hits=src_h, holds=src_l, samples=[]), tgt=dict(hits=tgt_h, holds=tgt_l, samples=tgt_s))
    if not big and rng.random() < 0.3:
        # note lists built by appending one item at a time (`lst = lst.append(OsuHit(...))`), source / target
        case["_build"] = rng.choice(["aa", "ac", "ca"])
    return case


def corpus():
    c = []
    # D19a witness: the target's own clap/file must not survive
    c.append(dict(claim="copy",
                  src=dict(hits=[note(0, 0, hs=4, v=20)], holds=[], samples=[]),
                  tgt=dict(hits=[note(0, 0, hs=8, v=77, f="own.wav"), note(0, 1), note(5, 1, hs=2)], holds=[], samples=[])))
    # D19b witness: three named samples, one note: two overflow
    c.append(dict(claim="copy",
                  src=dict(hits=[note(0, 0, f="a.wav", v=20), note(0, 1, f="b.wav", v=20), note(0, 2, f="c.wav", v=20)], holds=[], samples=[]),
                  tgt=dict(hits=[note(0, 0)], holds=[], samples=[])))
    # the docstring's example shape: several volumes, defaults + named, holds on both sides, more sounds than notes
    c.append(dict(claim="copy",
                  src=dict(hits=[note(0, 0, hs=2, v=20), note(0, 1, hs=4, v=20, f="a.wav"), note(0, 2, hs=8, v=30, f="b.wav")],
                           holds=[note(0, 3, hs=14, v=20, f="c.wav", l=100)], samples=[]),
                  tgt=dict(hits=[note(0, 0, hs=8, v=77, f="own.wav"), note(0, 1), note(5, 1, hs=2)],
                           holds=[note(0, 3, l=50)], samples=[dict(t=R(3), f="old.wav", v=10)])))
    # empty sides
    c.append(dict(claim="copy", src=dict(hits=[], holds=[], samples=[]), tgt=dict(hits=[note(0, 0, hs=2)], holds=[note(1, 1, l=5)], samples=[])))
    c.append(dict(claim="copy", src=dict(hits=[note(0, 0, hs=2, f="a")], holds=[], samples=[]), tgt=dict(hits=[], holds=[], samples=[])))
    c.append(dict(claim="copy", src=dict(hits=[], holds=[note(0, 3, hs=2, l=50)], samples=[]), tgt=dict(hits=[note(0, 0)], holds=[], samples=[])))
    c.append(dict(claim="copy", src=dict(hits=[note(0, 0, hs=2)], holds=[], samples=[]), tgt=dict(hits=[], holds=[note(0, 3, l=50)], samples=[])))
    # negative and zero volume groups come first; the clamp on notes, the raw volume on event samples
    c.append(dict(claim="copy",
                  src=dict(hits=[note(0, 0, hs=2, v=-5, f="x"), note(0, 0, hs=3, v=0, f="y")], holds=[], samples=[]),
                  tgt=dict(hits=[note(0, 0, v=9)], holds=[], samples=[])))
    # room left: everything must be placed
    c.append(dict(claim="copy",
                  src=dict(hits=[note(1, 0, hs=6, v=10), note(1, 1, hs=2, v=10), note(1, 2, f="a.wav", v=10)], holds=[], samples=[]),
                  tgt=dict(hits=[note(1, c) for c in range(4)], holds=[], samples=[])))
    # > 16 tied rows on both sides (numpy's quicksort is not stable there)
    c.append(dict(claim="copy",
                  src=dict(hits=[note(i % 2, i % 4, f=f"f{i}", v=1) for i in range(40)], holds=[], samples=[]),
                  tgt=dict(hits=[note(i % 2, i % 7, v=i) for i in range(24)], holds=[note(0, 3, l=9)], samples=[])))
    # zero-length and negative-length target holds keep their kind (with and without hits beside them)
    c.append(dict(claim="copy",
                  src=dict(hits=[note(0, 0, hs=2, v=20), note(100, 1, f="a.wav", v=20)], holds=[], samples=[]),
                  tgt=dict(hits=[note(0, 1), note(100, 2)],
                           holds=[note(0, 0, l=0), note(100, 0, l=0), note(200, 0, l=-20), note(300, 3, l=Fr(-1, 2))], samples=[])))
    c.append(dict(claim="copy", src=dict(hits=[], holds=[note(0, 0, hs=8, l=0)], samples=[]),
                  tgt=dict(hits=[], holds=[note(0, 0, l=0), note(100, 0, l=0)], samples=[])))
    # the same chart built item by item (object-dtype columns before D40: every clap/finish/whistle was lost)
    c.append(dict(claim="copy", _build="aa",
                  src=dict(hits=[note(0, 0, hs=2, v=20), note(0, 1, hs=12, v=20, f="a.wav")],
                           holds=[note(0, 3, hs=14, v=30, f="c.wav", l=100)], samples=[]),
                  tgt=dict(hits=[note(0, c) for c in range(3)], holds=[note(0, 3, l=-20), note(0, 2, l=0)], samples=[])))
    return c


def _has_semi(case):
    return any(";" in n["f"] for n in case["src"]["hits"] + case["src"]["holds"])


def _has_nan_hold(case):
    return any(n.get("l") is None for n in case["tgt"]["holds"])


def valid(case):
    try:
        if case.get("claim") != "copy" or case.get("_build", "cc") not in ("cc", "aa", "ac", "ca"):
            return False
        for side in ("src", "tgt"):
            ch = case[side]
            for kind in ("hits", "holds"):
                for n in ch[kind]:
                    if F(n["t"]) is None or not isinstance(n["c"], int) or n["c"] < 0:
                        return False
                    if not isinstance(n["f"], str) or ":" in n["f"]:
                        return False
                    if n["hs"] < 0 or not all(isinstance(n[k], int) for k in ("hs", "ss", "ad", "cs", "v")):
                        return False
                    if len(n["t"]) != 2 or n["t"][1] <= 0 or (n["t"][1] & (n["t"][1] - 1)):
                        return False
                    if kind == "holds":
                        if "l" not in n:
                            return False
                        if n["l"] is not None and (len(n["l"]) != 2 or n["l"][1] <= 0 or (n["l"][1] & (n["l"][1] - 1))):
                            return False
                        if n["l"] is None and side == "src":
                            return False
                    elif "l" in n:
                        return False
            for s in ch["samples"]:
                if len(s["t"]) != 2 or s["t"][1] <= 0 or not isinstance(s["f"], str) or not isinstance(s["v"], int):
                    return False
        if _has_semi(case) and _has_nan_hold(case):
            return False
        return True
    except Exception:
        return False


# ------------------------------------------------------------------------------------------ adapters

def _by_append(cls, items):
    lst = cls([])
    for it in items:
        lst = lst.append(it)
    return lst


def build_map(ch, by_append=False):
    OsuMap, OsuHitList, OsuHoldList, OsuSampleList, OsuHit, OsuHold, OsuSample, _ = _imports()
    m = OsuMap()
    mk_hits = (lambda items: _by_append(OsuHitList, items)) if by_append else OsuHitList
    mk_holds = (lambda items: _by_append(OsuHoldList, items)) if by_append else OsuHoldList
    m.hits = mk_hits([OsuHit(offset=float(F(n["t"])), column=n["c"], hitsound_set=n["hs"], sample_set=n["ss"],
                                addition_set=n["ad"], custom_set=n["cs"], volume=n["v"], hitsound_file=n["f"])
                         for n in ch["hits"]])
    m.holds = mk_holds([OsuHold(offset=float(F(n["t"])), column=n["c"],
                                   length=float("nan") if n["l"] is None else float(F(n["l"])),
                                   hitsound_set=n["hs"], sample_set=n["ss"], addition_set=n["ad"], custom_set=n["cs"],
                                   volume=n["v"], hitsound_file=n["f"]) for n in ch["holds"]])
    m.samples = OsuSampleList([OsuSample(offset=float(F(s["t"])), sample_file=s["f"], volume=s["v"]) for s in ch["samples"]])
    return m


def file_cp(s):
    return [ord(ch) for ch in s]


def j_note(n, hold):
    return [n["t"], n["c"], (n.get("l") if hold else None), n["hs"], n["ss"], n["ad"], n["cs"], n["v"], file_cp(n["f"])]


def j_chart(ch):
    return dict(hits=[j_note(n, False) for n in ch["hits"]], holds=[j_note(n, True) for n in ch["holds"]],
                samples=[[s["t"], file_cp(s["f"]), s["v"]] for s in ch["samples"]])


def _rows(df, hold):
    out = []
    cols = set(df.columns)
    for _, r in df.iterrows():
        l = None
        if hold and "length" in cols:
            x = float(r["length"])
            l = None if math.isnan(x) else R(x)
        out.append([R(float(r["offset"])), int(r["column"]), l, int(r["hitsound_set"]), int(r["sample_set"]),
                    int(r["addition_set"]), int(r["custom_set"]), int(r["volume"]), file_cp(str(r["hitsound_file"]))])
    return out


def chart_of_map(m):
    sm = []
    for _, r in m.samples.df.iterrows():
        sm.append([R(float(r["offset"])), file_cp(str(r["sample_file"])), int(r["volume"])])
    return dict(hits=_rows(m.hits.df, False), holds=_rows(m.holds.df, True), samples=sm)


def snapshot(m):
    return (m.hits.df.copy(deep=True), m.holds.df.copy(deep=True), m.samples.df.copy(deep=True),
            m.bpms.df.copy(deep=True), m.svs.df.copy(deep=True))


def same_snapshot(a, b):
    for x, y in zip(a, b):
        if list(x.columns) != list(y.columns) or list(x.index) != list(y.index) or not x.equals(y):
            return False
        if list(x.dtypes) != list(y.dtypes):
            return False
    return True


def sort_perm(offs):
    """the permutation pandas' DataFrame.sort_values('offset') applies to a frame with this offset column"""
    import pandas as pd
    if not offs:
        return []
    return [int(i) for i in pd.DataFrame({"offset": offs}).sort_values("offset").index]


def _active(n):
    return n["ad"] != 0 or n["cs"] != 0 or n["hs"] != 0 or n["ss"] != 0 or n["f"] != ""


def perms(case):
    src, tgt = case["src"], case["tgt"]
    s_offs = [float(F(n["t"])) for n in src["hits"] + src["holds"] if _active(n)]
    t_offs = [float(F(n["t"])) for n in tgt["hits"] + tgt["holds"]]
    return sort_perm(s_offs), sort_perm(t_offs)


def canon_exact(ch):
    notes = sorted([tuple(map(_k, n)) + (0,) for n in ch["hits"]] + [tuple(map(_k, n)) + (1,) for n in ch["holds"]])
    evs = sorted(tuple(map(_k, e)) for e in ch["samples"])
    return notes, evs


def _k(x):
    if x is None:
        return (0,)
    if isinstance(x, list) and len(x) == 2 and all(isinstance(v, int) for v in x) and not isinstance(x[0], bool):
        # a rational [num, den] or a 2-code-point file name: keep a total order either way
        return (1, Fr(x[0], x[1]) if x[1] != 0 else Fr(0), tuple(x))
    if isinstance(x, list):
        return (2, tuple(x))
    return (3, x)


def canon_weak(ch):
    """what does not depend on the order of tied rows: the notes; per time the slotted default values with their
    volumes, the number of notes carrying a name, the names (notes and event samples together), the event count"""
    keys = sorted([(Fr(*n[0]), n[1], None, 0) for n in ch["hits"]] +
                  [(Fr(*n[0]), n[1], None if n[2] is None else Fr(*n[2]), 1) for n in ch["holds"]],
                  key=lambda k: (k[0], k[1], k[2] is None, k[2] or 0, k[3]))
    per = {}
    for n in ch["hits"] + ch["holds"]:
        d = per.setdefault(Fr(*n[0]), dict(vals=[], named=0, names=[], evs=0, sets=[]))
        if n[3] != 0:
            d["vals"].append((n[3], n[7]))
        if n[8]:
            d["named"] += 1
            d["names"].append(tuple(n[8]))
        d["sets"].append((n[4], n[5], n[6]))
    for e in ch["samples"]:
        d = per.setdefault(Fr(*e[0]), dict(vals=[], named=0, names=[], evs=0, sets=[]))
        d["evs"] += 1
        d["names"].append(tuple(e[1]))
    for d in per.values():
        d["vals"].sort()
        d["names"].sort()
        d["sets"].sort()
    return keys, sorted(per.items())


def run(case, drv):
    OsuMap, OsuHitList, OsuHoldList, OsuSampleList, OsuHit, OsuHold, OsuSample, hitsound_copy = _imports()
    src_c, tgt_c = case["src"], case["tgt"]
    tags = []
    jsrc, jtgt = j_chart(src_c), j_chart(tgt_c)
    # --- implementation
    bmode = case.get("_build", "cc")
    src_m, tgt_m = build_map(src_c, bmode[0] == "a"), build_map(tgt_c, bmode[1] == "a")
    if bmode != "cc":
        tags.append("built-by-append")
    snap_s, snap_t = snapshot(src_m), snapshot(tgt_m)
    impl_err = None
    try:
        import warnings
        with warnings.catch_warnings():
            warnings.simplefilter("ignore")
            res = hitsound_copy(src_m, tgt_m)
        impl = chart_of_map(res)
    except Exception as e:  # the property promises a result for every pair of charts
        impl_err = f"{type(e).__name__}: {e}"[:300]
        impl = None
    unmodified = same_snapshot(snap_s, snapshot(src_m)) and same_snapshot(snap_t, snapshot(tgt_m))
    # --- model
    ss, st = perms(case)
    model = drv.call("c18.copy", src=jsrc, tgt=jtgt, sigma_s=ss, sigma_t=st)["ok"]
    dom = drv.call("c18.dom", src=jsrc, tgt=jtgt)["ok"]
    in_dom = dom["no_sep"] and dom["holds_have_length"]
    detail = {}
    if impl is None:
        return dict(claim="copy", ok=False, agree=False, dom=in_dom, kf=None, tags=["impl-raises"], nontrivial=True,
                    detail=dict(error=impl_err, model=model))
    # --- specification on the implementation's output
    spec = drv.call("c18.spec", src=jsrc, tgt=jtgt, out=impl)["ok"]
    failed = sorted(k for k, v in spec.items() if not v)
    if not dom["holds_have_length"] and "notes_preserved" in failed:
        # a hold without a length is outside the charts the property speaks about: the clause is silent there
        failed.remove("notes_preserved")
        tags.append("notes-clause-silent")
    if not unmodified:
        failed.append("inputs_unmodified")
    ok = not failed
    # --- correspondence
    exact = canon_exact(impl) == canon_exact(model)
    agree = exact or canon_weak(impl) == canon_weak(model)
    if not exact and agree:
        tags.append("tie-order-only")
    kf = None
    if not ok:
        if (not dom["no_sep"]) and set(failed) <= {"no_invention", "samples_conserved"}:
            kf = "D19c"
    # --- bookkeeping
    n_src = len(src_c["hits"]) + len(src_c["holds"])
    n_tgt = len(tgt_c["hits"]) + len(tgt_c["holds"])
    t_times = {tuple(n["t"]) for n in tgt_c["hits"] + tgt_c["holds"]}
    shared = any(_active(n) and tuple(n["t"]) in t_times for n in src_c["hits"] + src_c["holds"])
    if impl["samples"]:
        tags.append("overflow")
    if shared:
        tags.append("shared-time")
    if max(n_src, n_tgt) > 16:
        tags.append("big")
    if not dom["no_sep"]:
        tags.append("semicolon")
    if not dom["holds_have_length"]:
        tags.append("nan-hold")
    if any(n["hs"] or n["f"] or n["ss"] or n["ad"] or n["cs"] for n in tgt_c["hits"] + tgt_c["holds"]):
        tags.append("target-own-sounds")
    if src_c["holds"] or tgt_c["holds"]:
        tags.append("holds")
    if not (ok and agree):
        detail = dict(failed=failed, spec=spec, impl=impl, model=model, sigma_s=ss, sigma_t=st, exact=exact)
    return dict(claim="copy", ok=ok, agree=agree, dom=in_dom, kf=kf, tags=tags,
                nontrivial=bool(shared or impl["samples"]), maxdev=0.0, detail=detail)
