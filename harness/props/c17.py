"""C17 — full-LN generation keeps every note and fills gaps by the stated rule.

Correspondence: `reamber.algorithms.generate.full_ln(m, gap, ln_as_hit_thres)` on charts of every game
(base Map, osu, Quaver, BMS, O2Jam, StepMania) against `Model/FullLN.lean` (`fullLn`); specification:
`Spec/FullLN.lean` (`specB`, proved sound for `Spec`) evaluated by the driver on the implementation's output.
Two number streams: `E` (integers / dyadic rationals: every double operation of the code is exact, results are
compared for equality, including at the `>=` boundary and for stacked notes) and `T` (arbitrary decimals:
lengths compared within a tolerance relative to the operands' magnitude).
"""
import math
from fractions import Fraction as Fr

from lib.rat import R, F

ID = "C17"
QUICK_N = 2000
THOROUGH_N = 25000
QUICK_BUDGET_S = 70
THOROUGH_BUDGET_S = 900
RULE = ("input charts from three kinds of source: (1) ~72% built through the list API — 6 map classes (base/osu/qua/bms/o2j/sm), "
        "1-10 keys, 0-120 notes (thorough: up to 400) by per-column walks whose steps sit on / next to the threshold boundary "
        "(gap+thr, +-1, +-1/1024), chords, stacked duplicates of different kind/length (also at the end of a column), single-note "
        "and empty columns, empty hit or hold lists, gap/threshold >= 0 incl. 0, rows shuffled, StepMania mines/fakes/lifts/"
        "keysounds/rolls between / on the notes, every list built in one of five ways (float64 / int64 frames, from_dict of column "
        "lists / row dicts with Python ints, item objects) with int-typed lists next to fractional gaps and times, hit lists that "
        "carry undeclared columns (`index`, `foo`, a stray all-NaN `length`; at a low rate a stray `length` with values — outside the domain, correspondence only); (2) ~28% read by the REAL readers from "
        "generated osu texts, .qua documents (incl. explicit `EndTime: 0` and omitted keys), .sm texts, BMS lines and OJN bytes "
        "(the text/byte generators of harness/props/c01, c06, c02, c04, c07 are reused); (3) ~22% of all charts additionally go "
        "through `rate` or one of the 16 converters before full_ln.  The kind of a note is the list it lives in; the input rows are "
        "taken from the chart that full_ln receives; (4) ~30% of all cases are SESSIONS: 2-4 full_ln calls (own gap/threshold each) on one lineage "
        "of chart objects — the chart, earlier results, deepcopies and rated copies of them — with in-place edits before each call "
        "through every editing route of the library (list property column assignment on offset/length/column, Stacker over all "
        "lists / over (type(hits), type(holds)) / base classes / NoteList / one list, Stacker.loc with a column or time condition, "
        "a list replaced through the map property / in objs / by swapping or copying its .df, filter + append that moves notes "
        "between hits and holds or re-times them keeping the row total, single cells through the list's loc / iloc); every call is judged on its own against the content the "
        "chart has at that moment, read through the plain list API (never through stack()).  "
        "non-trivial = some column holds at least two notes (sessions: and at least two calls were judged)")
ASSUMPTIONS = [
    "pandas concat/sort_values/groupby/diff/shift/itertuples and DataFrame.from_dict are modelled as list operations "
    "(any sorting permutation is accepted for equal offsets)",
    "a chart the source does not yield (unreadable text, converter refuses, NaN/inf cell in the input) is skipped and counted "
    "(`skipped` tag, outside the domain); charts read / converted / rated are judged on the exact stream when every value is a "
    "small dyadic, else on the tolerance stream",
    "stream T: lengths are compared within 2^-46 * (1 + largest operand magnitude); a threshold comparison closer than "
    "that to its boundary is counted as float-boundary and only conservation is judged; a result length within the tolerance both "
    "of the rule's value and of the length the note was given is read as either",
    "sessions: the edits between the calls are applied to the real chart through the library's own routes and the chart is read "
    "back through the list API before every call (the edits themselves are not modelled; an edit route that refuses a chart ends "
    "the session, the calls judged so far count)",
    "negative gap / threshold and hold rows with NaN length built by the test are outside the property's range / the domain: "
    "code and model are compared, the specification is not evaluated",
]
TRUSTED_EXTRA = ["chart builders and edit routes of harness/props/c17.py (frames are built column by column with the declared defaults)"]

GAMES = ["base", "osu", "qua", "bms", "o2j", "sm"]
SM_HIT_EXTRAS = ["fakes", "lifts", "keysounds", "mines"]
SM_HOLD_EXTRAS = ["rolls"]
UNITS = [Fr(1), Fr(1), Fr(1, 4), Fr(1, 1024)]


# ------------------------------------------------------------------------------------------ implementation side

def _map_class(game):
    if game == "base":
        from reamber.base.Map import Map
        return Map
    if game == "osu":
        from reamber.osu.OsuMap import OsuMap
        return OsuMap
    if game == "qua":
        from reamber.quaver.QuaMap import QuaMap
        return QuaMap
    if game == "bms":
        from reamber.bms.BMSMap import BMSMap
        return BMSMap
    if game == "o2j":
        from reamber.o2jam.O2JMap import O2JMap
        return O2JMap
    if game == "sm":
        from reamber.sm.SMMap import SMMap
        return SMMap
    raise ValueError(game)


BUILDS = ["frame", "frame_int", "dict", "ldict", "items"]


def _pynum(x):
    """a Python int when the value is an integer, else the (exact) float — what a user types"""
    f = F(x)
    return int(f) if f.denominator == 1 else float(f)


def make_list(cls, rows, build="frame"):
    """a list of class `cls` holding `rows` ([offset, column(, length)]), every other column at its declared default.
    build: how the list is constructed, which decides the column dtypes —
      frame      pd.DataFrame with float64 offset/length
      frame_int  pd.DataFrame with int64 offset/length where every value of the column is an integer
      dict       cls.from_dict({column: [values]}) with Python ints where the value is an integer
      ldict      cls.from_dict([{...}, ...]) likewise
      items      cls([Item(...), ...]) likewise"""
    import copy
    import numpy as np
    import pandas as pd
    tl = cls([])
    n = len(rows)
    if n == 0:
        return tl
    props = cls._item_class()._props
    has_len = "length" in tl.df.columns
    if build in ("dict", "ldict", "items"):
        d = dict(offset=[_pynum(r[0]) for r in rows], column=[int(r[1]) for r in rows])
        if has_len:
            d["length"] = [_pynum(r[2]) for r in rows]
        if build == "dict":
            return cls.from_dict(d)
        if build == "ldict":
            return cls.from_dict([{k: v[i] for k, v in d.items()} for i in range(n)])
        items = []
        for i in range(n):
            kw = {k: copy.deepcopy(v[1]) for k, v in props.items()}
            kw.update({k: v[i] for k, v in d.items()})
            items.append(cls._item_class()(**kw))
        return cls(items)

    def numcol(vals):
        fs = [F(v) for v in vals]
        if build == "frame_int" and all(f.denominator == 1 for f in fs):
            return np.array([int(f) for f in fs], dtype="int64")
        return np.array([float(f) for f in fs], dtype=float)
    data = {}
    for c in tl.df.columns:
        if c == "offset":
            data[c] = numcol([r[0] for r in rows])
        elif c == "column":
            data[c] = np.array([int(r[1]) for r in rows], dtype=int)
        elif c == "length":
            data[c] = numcol([r[2] for r in rows])
        else:
            dtype, default = props[c]
            if isinstance(default, (list, dict, set)):
                data[c] = pd.Series([copy.deepcopy(default) for _ in range(n)], dtype="object")
            else:
                data[c] = pd.Series([default] * n, dtype=dtype)
    return cls(pd.DataFrame(data, columns=list(tl.df.columns)))


def build_map(case):
    m = _map_class(case["game"])()
    bd = case.get("build") or {}
    m.hits = make_list(type(m.hits), case["hits"], bd.get("hits", "frame"))
    nanh = [r[2] is None for r in case["holds"]]
    m.holds = make_list(type(m.holds), [[r[0], r[1], r[2] if r[2] is not None else [0, 1]] for r in case["holds"]],
                        bd.get("holds", "frame"))
    if any(nanh):
        # outside the domain (correspondence only): hold rows whose length is NaN
        import numpy as _np
        cur = m.holds.df["length"].tolist()
        m.holds.df = m.holds.df.assign(length=_np.array([float("nan") if n else float(v) for n, v in zip(nanh, cur)], dtype=float))
    for k, rows in (case.get("extras") or {}).items():
        setattr(m, k, make_list(type(m.objs[k]), rows, bd.get("extras", "frame")))
    # legal but unusual inputs: lists that carry columns nobody declared (a stray `length` on hits, `index`, ...)
    import numpy as np
    if any(len(r) > 2 for r in case["hits"]):
        m.hits.df = m.hits.df.assign(length=np.array(
            [float("nan") if (len(r) < 3 or r[2] is None) else float(F(r[2])) for r in case["hits"]], dtype=float))
    for which, cols in (case.get("xcols") or {}).items():
        lst = m.objs[which]
        if len(lst) == 0:
            continue
        df = lst.df
        for c in cols:
            if c == "index":
                df = df.assign(index=np.arange(len(df))[::-1])
                df = df[["index"] + [x for x in df.columns if x != "index"]]
            else:
                df = df.assign(**{c: [f"{c}{i}" for i in range(len(df))]})
        lst.df = df
    bp = case.get("bpms") or []
    if bp:
        import pandas as pd
        B = type(m.bpms)
        df = B.from_dict(dict(offset=[float(F(b[0])) for b in bp], bpm=[float(F(b[1])) for b in bp])).df
        m.bpms = B(df)
    return m


class Skip(Exception):
    """the case does not yield a chart inside the domain (unreadable text, conversion refused, NaN in the input)"""


def _props_mod(name):
    import importlib
    return importlib.import_module("props." + name)


def read_chart(fmt, payload, pick):
    """a chart through the REAL reader of the format; payload = a case of the format's own property module"""
    import logging
    import warnings
    logging.disable(logging.CRITICAL)
    try:
        with warnings.catch_warnings():
            warnings.simplefilter("ignore")
            if fmt == "osu":
                from reamber.osu.OsuMap import OsuMap
                return OsuMap.read(list(payload["lines"]))
            if fmt == "qua":
                from reamber.quaver.QuaMap import QuaMap
                return QuaMap.read(_props_mod("c06").render(payload))
            if fmt == "sm":
                from reamber.sm.SMMapSet import SMMapSet
                maps = SMMapSet.read(_props_mod("c02").render(payload)).maps
            elif fmt == "bms":
                from reamber.bms.BMSMap import BMSMap
                from reamber.bms.BMSChannel import BMSChannel
                return BMSMap.read(list(payload["lines"]), getattr(BMSChannel, payload["layout"]))
            elif fmt == "o2j":
                from reamber.o2jam.O2JMapSet import O2JMapSet
                maps = O2JMapSet.read(_props_mod("c07").build(payload)).maps
            else:
                raise Skip("unknown format")
            if not maps:
                raise Skip("no chart in the set")
            return maps[pick % len(maps)]
    except Skip:
        raise
    except Exception as e:
        raise Skip("unreadable:" + type(e).__name__)
    finally:
        logging.disable(logging.NOTSET)


SRC_PREFIX = {"OsuMap": "Osu", "QuaMap": "Qua", "BMSMap": "BMS", "SMMap": "SM", "O2JMap": "O2J"}
CONVS = ["BMSToOsu", "BMSToQua", "BMSToSM", "O2JToBMS", "O2JToOsu", "O2JToQua", "O2JToSM", "OsuToBMS", "OsuToQua", "OsuToSM",
         "QuaToBMS", "QuaToOsu", "QuaToSM", "SMToBMS", "SMToOsu", "SMToQua"]
SM_TYPES = {3: "dance-threepanel", 4: "dance-single", 6: "dance-solo", 7: "kb7-single", 8: "dance-double"}


def apply_post(m, step):
    """a further library operation on the chart before full_ln: rate, or one of the converters"""
    import logging
    import warnings
    logging.disable(logging.CRITICAL)
    try:
        with warnings.catch_warnings():
            warnings.simplefilter("ignore")
            if step["op"] == "rate":
                return m.rate(float(F(step["by"])))
            if step["op"] != "convert":
                raise Skip("unknown post step")
            import reamber.algorithms.convert as C
            conv = step["conv"]
            src = SRC_PREFIX.get(type(m).__name__)
            if src is None or not conv.startswith(src + "To"):
                raise Skip("converter does not take this chart")
            if len(m.bpms) == 0:
                raise Skip("converter needs a tempo point")
            keys = int(max([0] + [int(c) for l in m.notes for c in l.column.tolist()])) + 1
            if src == "Osu":
                m.circle_size = keys
            if src == "SM":
                from reamber.sm.SMMapSet import SMMapSet
                if keys in SM_TYPES:
                    m.chart_type = SM_TYPES[keys]
                arg = SMMapSet()
                arg.maps = [m]
            elif src == "O2J":
                from reamber.o2jam.O2JMapSet import O2JMapSet
                arg = O2JMapSet()
                arg.maps = [m]
                arg.level = [1, 1, 1, 0]
            else:
                arg = m
            out = getattr(C, conv).convert(arg)
            outs = out if isinstance(out, list) else (out.maps if hasattr(out, "maps") else [out])
            if not outs:
                raise Skip("converter returned nothing")
            o = outs[0]
            if not hasattr(o, "objs") and hasattr(o, "maps"):      # a list of map sets (…ToSM)
                if not o.maps:
                    raise Skip("converter returned an empty set")
                o = o.maps[0]
            return o
    except Skip:
        raise
    except Exception as e:
        raise Skip(f"post-{step.get('op')}-refused:" + type(e).__name__)
    finally:
        logging.disable(logging.NOTSET)


def load_chart(case):
    if case.get("via", "api") == "read":
        m = read_chart(case["fmt"], case["payload"], int(case.get("pick", 0)))
    else:
        m = build_map(case)
    for step in case.get("post") or []:
        m = apply_post(m, step)
    return m


def chart_rows(m, nan_holds=False):
    """(rows of the further note lists, hits, holds) of a chart; kind of a note = the list it lives in.
    A hit row is (offset, column, stray) where stray = the value of a `length` column the hit list may carry
    (None when absent / NaN) — the property does not look at it, the code does (domain hypothesis of the theorems)."""
    import numpy as np
    try:
        hd = m.hits.df
        stray = hd["length"].tolist() if "length" in hd.columns else [float("nan")] * len(hd)
        hits = []
        for o, c, l in zip(hd["offset"].tolist(), hd["column"].tolist(), stray):
            l = float(l) if l is not None else float("nan")
            if math.isinf(l):
                raise BadNumber("inf")
            hits.append((fin(o), _intcol(c), None if math.isnan(l) else Fr(l)))
        holds = rows_of(m.holds, nan_ok=nan_holds)
        if "length" not in m.holds.df.columns:
            raise BadNumber("hold list without length column")
        extras = []
        for k in note_lists(m):
            if k not in ("hits", "holds"):
                extras += rows_of(m.objs[k])
    except (BadNumber, TypeError, ValueError) as e:
        raise Skip("input outside the domain (non-finite or non-numeric cell): " + str(e)[:60])
    return extras, hits, holds


def frames_same(a, b):
    """same columns, same cells row by row (NaN = NaN); dtypes and row labels are not content"""
    if list(a.columns) != list(b.columns) or len(a) != len(b):
        return False
    for c in a.columns:
        for x, y in zip(a[c].tolist(), b[c].tolist()):
            if x is y:
                continue
            try:
                if x != x and y != y:
                    continue
            except Exception:
                pass
            try:
                eq = x == y
                if hasattr(eq, "all"):
                    eq = eq.all()
                if not eq:
                    return False
            except Exception:
                return False
    return True


def _intcol(c):
    try:
        c = float(c)
    except (TypeError, ValueError):
        raise BadNumber(repr(c)[:30])
    if not math.isfinite(c) or c != int(c):
        raise BadNumber(f"column {c!r}")
    return int(c)


def e_exact(x):
    d = x.denominator
    return d & (d - 1) == 0 and d <= 1024 and abs(x) < 2 ** 31


def note_lists(m):
    """names of the objs that are note lists in the sense of full_ln's stack filter"""
    from reamber.base.lists.notes.HitList import HitList
    from reamber.base.lists.notes.HoldList import HoldList
    return [k for k, v in m.objs.items() if isinstance(v, (HitList, HoldList))]


class BadNumber(Exception):
    pass


def fin(x):
    try:
        x = float(x)
    except (TypeError, ValueError):
        raise BadNumber(repr(x)[:30])
    if not math.isfinite(x):
        raise BadNumber(repr(x))
    return Fr(x)


def rows_of(lst, nan_ok=False):
    """[(offset, column, length|None)] as exact rationals (nan_ok: a NaN length reads as None instead of refusing)"""
    df = lst.df
    has_len = "length" in df.columns
    offs, cols = df["offset"].tolist(), df["column"].tolist()
    lens = df["length"].tolist() if has_len else [None] * len(offs)

    def ln(l):
        if nan_ok and isinstance(l, float) and math.isnan(l):
            return None
        return fin(l)
    return [(fin(o), _intcol(c), ln(l) if has_len else None) for o, c, l in zip(offs, cols, lens)]


def err_class(e):
    if isinstance(e, ValueError):
        return "value"
    if isinstance(e, IndexError):
        return "index"
    if isinstance(e, KeyError):
        return "key"
    if isinstance(e, TypeError):
        return "type"
    return "other:" + type(e).__name__


# ------------------------------------------------------------------------------------------ wire helpers

def jrow(r):
    return [R(r[0]), int(r[1]), None if r[2] is None else R(r[2])]


def prow(j):
    return (F(j[0]), int(j[1]), None if len(j) < 3 or j[2] is None else F(j[2]))


def case_extras_rows(case):
    """extras in objs order, NaN length for the hit-typed lists"""
    ex = case.get("extras") or {}
    out = []
    for k in SM_HIT_EXTRAS + SM_HOLD_EXTRAS:       # = SMMap.objs order (checked against the model's table in run)
        for r in ex.get(k, []):
            out.append((F(r[0]), int(r[1]), F(r[2]) if k in SM_HOLD_EXTRAS else None))
    return out


def case_rows(case):
    """(rows of the further note lists, hits, holds) — only hits and holds are the subject of full_ln"""
    hits = [(F(r[0]), int(r[1]), None) for r in case["hits"]]
    holds = [(F(r[0]), int(r[1]), None if r[2] is None else F(r[2])) for r in case["holds"]]
    return case_extras_rows(case), hits, holds


def sort_key(r):
    return (r[1], r[0], 0 if r[2] is None else 1, r[2] if r[2] is not None else Fr(0))


def rows_match(a, b, tol):
    """multiset equality of two row lists (lengths within tol)"""
    if len(a) != len(b):
        return False
    for x, y in zip(sorted(a, key=sort_key), sorted(b, key=sort_key)):
        if x[0] != y[0] or x[1] != y[1] or (x[2] is None) != (y[2] is None):
            return False
        if x[2] is not None and abs(x[2] - y[2]) > tol:
            return False
    return True


def by_column(rows):
    d = {}
    for r in rows:
        d.setdefault(r[1], []).append(r)
    return d


def tolerance(case, rows):
    if case["mode"] == "E":
        return Fr(0)
    mag = max([abs(r[0]) for r in rows] + [abs(F(case["gap"])), abs(F(case["thr"])), Fr(1)])
    return Fr(1, 2 ** 46) * (1 + mag)


def snap_lengths(impl_rows, inp_rows, gap, tol, prefer="rule"):
    """stream T: replace each implementation length by the exact value it rounds (a difference of two offsets of
    its column minus gap, or an input length at that place) when within tol — candidates come from the input only.
    When a value of BOTH families lies within tol (a hold whose given length already is, up to rounding, what the rule
    yields: the second call of a session) the two are indistinguishable on this stream; `prefer` says which is taken."""
    cols = by_column(inp_rows)
    out = []
    for (off, c, ln) in impl_rows:
        if ln is None:
            out.append((off, c, ln))
            continue
        fam = dict(rule=[t[0] - off - gap for t in cols.get(c, []) if t[0] >= off],      # the next note is never an earlier one
                   given=[t[2] for t in cols.get(c, []) if t[0] == off and t[2] is not None])
        pick = ln
        for name in ([prefer] + [k for k in ("rule", "given") if k != prefer]):
            cands = fam[name]
            best = min(cands, key=lambda v: abs(v - ln)) if cands else None
            if best is not None and abs(best - ln) <= tol:
                pick = best
                break
        out.append((off, c, pick))
    return out


# ------------------------------------------------------------------------------------------ run

def run(case, drv):
    gap, thr = F(case["gap"]), F(case["thr"])
    via = case.get("via", "api")
    tags = ["via:" + via + (":" + case["fmt"] if via == "read" else "")]
    for step in case.get("post") or []:
        tags.append("post:" + step["op"])
    bd = case.get("build") or {}
    if via == "api":
        tags += sorted({"build:" + v for v in bd.values()} or {"build:frame"})
    # ---- the input chart: built through the list API, read by a real reader, converted, rated
    try:
        m = load_chart(case)
    except Skip as e:
        return _skipped(tags, e)
    if case.get("session") is not None:
        return run_session(case, m, drv, tags)
    fixed_mode = case["mode"] if (via == "api" and not case.get("post")) else None
    r, _res = judge_call(m, gap, thr, drv, case, tags, fixed_mode)
    return r


def _skipped(tags, e):
    return dict(claim="full_ln", ok=True, agree=True, dom=False, kf=None, tags=tags + ["skipped", "skip:" + str(e).split(":")[0][:40]],
                nontrivial=False, detail={})


def judge_call(m, gap, thr, drv, case, tags, fixed_mode=None):
    """ONE call `full_ln(m, gap, thr)` judged against the chart's CURRENT content, which is read here, right before the
    call, through the plain list API (`m.hits.df`, `m.holds.df`, `m.objs[k].df` — never through `stack()`).
    Returns (result dict, the chart full_ln returned | None)."""
    import warnings
    from reamber.algorithms.generate.full_ln import full_ln
    via = case.get("via", "api")
    # hold rows with NaN length: only when the test itself built them (outside the domain, correspondence only);
    # from any other source such a chart is refused as before (non-finite cell)
    built_nan = via == "api" and any(h[2] is None for h in case["holds"])
    try:
        extras, hits_s, holds = chart_rows(m, nan_holds=built_nan)
    except Skip as e:
        return _skipped(tags, e), None
    nan_hold = any(l is None for (_o, _c, l) in holds)
    tags.append(type(m).__name__)
    hits = [(o, c, None) for (o, c, _l) in hits_s]          # kind of a note = the list it lives in
    stray = any(l is not None for (_o, _c, l) in hits_s)
    inp = hits + holds
    if fixed_mode is not None:
        mode = fixed_mode
    else:
        mode = "E" if all(e_exact(v) for r in inp for v in (r[0], r[2] if r[2] is not None else Fr(0))) and e_exact(gap) and e_exact(thr) else "T"
    tags.append(mode)
    mcase = dict(case, mode=mode, gap=R(gap), thr=R(thr))
    snapshot = {k: v.df.copy(deep=True) for k, v in m.objs.items() if k not in ("hits", "holds")}
    impl_err = None
    res = None
    with warnings.catch_warnings():
        warnings.simplefilter("ignore")
        try:
            res = full_ln(m, float(gap), float(thr))
        except Exception as e:       # mapped to an enum, never raised
            impl_err = err_class(e)
    # ---- model (the hit rows go in as the code sees them, stray length included)
    mo = drv.call("c17.model", gap=R(gap), thr=R(thr), extras=[jrow(r) for r in extras],
                  hits=[jrow(r) for r in hits_s], holds=[jrow(r) for r in holds])
    nontrivial = any(len(v) >= 2 for v in by_column(inp).values())
    if extras:
        tags.append("extras")
    if stray:
        tags.append("stray-length")
    if not inp:
        tags.append("empty")
    if nan_hold:
        tags.append("nan-hold")
    dom = not stray and not nan_hold          # the theorems' domain hypotheses (`WellKinded`)
    if impl_err is not None:
        tags.append("impl-raises")
        # the property promises a result for every chart, and the model never raises
        return dict(claim="full_ln", ok=False, agree=False, dom=dom, kf=None, tags=tags, nontrivial=nontrivial,
                    detail=dict(impl_error=impl_err, model=mo)), None
    # ---- result of the implementation
    bad = None
    try:
        r_hits = [(o, c, None) for (o, c, _l) in rows_of(res.hits)]
        r_holds = rows_of(res.holds)       # a NaN length in the RESULT's hold list is refused (`fullLnWith_holds_have_length`)
        if any(l is None for (_o, _c, l) in r_holds):
            raise BadNumber("hold list without length")
        r_extras = []
        for k in note_lists(res):
            if k not in ("hits", "holds"):
                r_extras += rows_of(res.objs[k])
    except BadNumber as e:
        bad = str(e)
        r_hits, r_holds, r_extras = [], [], []
    # tempo and other lists (the further note lists among them) unchanged
    others_ok = (type(res) is type(m)) and set(res.objs.keys()) == set(m.objs.keys()) and all(
        frames_same(res.objs[k].df, snapshot[k]) for k in snapshot)
    # a "hit" that carries a length is not a hit: the hit list of the RESULT must be a list of plain hits
    if bad is None and "length" in res.hits.df.columns:
        bad = "hits list has a length column (its members are holds)"
    allrows = inp + [(o, c, l) for (o, c, l) in hits_s if l is not None]
    tol = tolerance(mcase, allrows)
    out_new = r_hits + r_holds              # what full_ln produced
    boundary = False
    seen = [(o, c, l) for (o, c, l) in hits_s] + holds       # the stacked frame as the loop sees it
    if mode == "T":
        mg = drv.call("c17.margins", gap=R(gap), thr=R(thr), rows=[jrow(r) for r in seen])["ok"]
        boundary = any(abs(F(x)) <= tol for x in mg)
        out_new_s = snap_lengths(out_new, seen, gap, tol)
    else:
        out_new_s = out_new
    # ---- (S) specification on the implementation's output: hits+holds of the result against hits+holds of the input
    sp = drv.call("c17.spec", gap=R(gap), thr=R(thr), inp=[jrow(r) for r in inp], out=[jrow(r) for r in out_new_s])["ok"]
    if mode == "T" and not (sp["spec"] and sp["no_overlap"]):
        # lengths that are within tol of a value of both families: the other reading, column by column
        alt = snap_lengths(out_new, seen, gap, tol, prefer="given")
        if alt != out_new_s:
            ic, a1, a2 = by_column(inp), by_column(out_new_s), by_column(alt)
            mixed = []
            for c in set(a1) | set(a2):
                r1, r2 = a1.get(c, []), a2.get(c, [])
                if r1 != r2:
                    s1 = drv.call("c17.spec", gap=R(gap), thr=R(thr), inp=[jrow(r) for r in ic.get(c, [])], out=[jrow(r) for r in r1])["ok"]
                    if not (s1["spec"] and s1["no_overlap"]):
                        r1 = r2
                mixed += r1
            sp2 = drv.call("c17.spec", gap=R(gap), thr=R(thr), inp=[jrow(r) for r in inp], out=[jrow(r) for r in mixed])["ok"]
            if sp2["spec"] and sp2["no_overlap"]:
                sp = sp2
    if boundary:
        ok = sp["conservation"] and others_ok and bad is None
        tags.append("float-boundary")
    else:
        ok = sp["spec"] and sp["conservation"] and sp["no_overlap"] and others_ok and bad is None
    # DOMAIN hypothesis of the theorems (∀ r ∈ hits, r.length = none): a hit list that the test itself built with a non-NaN
    # stray `length` column is not a chart the property quantifies over (the library's constructors, readers and converters
    # never produce one) — such a case is a correspondence-only case: the specification is not evaluated.
    # A hit list with a length that comes out of a READER is not excused: it is judged like any other chart.
    built_stray = via == "api" and any(len(h) > 2 and h[2] is not None for h in case["hits"])
    if stray and built_stray:
        ok = others_ok and bad is None
        tags.append("corr-only")
    # the property quantifies over gap >= 0 and threshold >= 0; the code accepts negative ones and the model follows it
    # (`fullLn_spec` holds for every gap/threshold; `neg_gap_reaches`, `neg_thr_negative_length` show what is lost):
    # such a call is outside the property's range — correspondence only, nothing is demanded of it.
    if nan_hold:
        ok = others_ok and bad is None
        if "corr-only" not in tags:
            tags.append("corr-only")
    if gap < 0 or thr < 0:
        ok = True
        dom = False
        tags.append("neg-params")
        if "corr-only" not in tags:
            tags.append("corr-only")
    # ---- (C) correspondence with the model
    agree = "ok" in mo
    maxdev = 0.0
    if agree:
        m_new = [prow(j) for j in mo["ok"]["hits"]] + [prow(j) for j in mo["ok"]["holds"]]
        agree = rows_match(r_extras, [prow(j) for j in mo["ok"]["extras"]], Fr(0)) if bad is None else False
        if not agree:
            pass
        elif boundary:
            agree = rows_match([(o, c, None) for (o, c, _l) in out_new], [(o, c, None) for (o, c, _l) in m_new], Fr(0))
        elif rows_match(out_new, m_new, tol):
            if mode == "T":
                for x, y in zip(sorted(out_new, key=sort_key), sorted(m_new, key=sort_key)):
                    if x[2] is not None and y[2] is not None:
                        maxdev = max(maxdev, float(abs(x[2] - y[2])))
        else:
            # stacked notes at the end of a column: the sort may put any of them last
            ic, mc, sc = by_column(out_new), by_column(m_new), by_column(seen)
            agree = set(ic) == set(mc)
            if agree:
                for c in ic:
                    if rows_match(ic[c], mc[c], tol):
                        continue
                    vs = drv.call("c17.variants", gap=R(gap), thr=R(thr), rows=[jrow(r) for r in sc.get(c, [])])["ok"]
                    if any(rows_match(ic[c], [prow(j) for j in v], tol) for v in vs):
                        tags.append("tie-variant")
                    else:
                        agree = False
                        break
    detail = {}
    if not (ok and agree):
        detail = dict(spec=sp, others_unchanged=others_ok, bad_number=bad,
                      input_hits=[str(x) for x in hits_s[:30]], input_holds=[str(x) for x in holds[:30]],
                      impl_hits=[str(x) for x in r_hits[:40]], impl_holds=[str(x) for x in r_holds[:40]],
                      impl_extras=[str(x) for x in r_extras[:20]], model=mo)
    return dict(claim="full_ln", ok=ok, agree=agree, dom=dom, kf=None, tags=tags, nontrivial=nontrivial, maxdev=maxdev,
                boundary=boundary, detail=detail), res


# ------------------------------------------------------------------------------------------ sessions
#
# A session is a HISTORY on one lineage of chart objects: the chart of the case (m0), then per step
#     pick an object of the lineage (m0, an earlier result, an earlier derived copy) — optionally derive a new object from it
#     (deepcopy / rate) — edit it IN PLACE through the routes the library offers — call full_ln on it.
# Every call is judged on its own (judge_call): the specification and the model get the content the chart has at the
# moment of the call, read through the plain list API.  A result may depend on nothing but that content.

STACK_TYPES = ["all", "hh", "hh_base", "notes", "holds", "hits"]
EDIT_KINDS = ["col", "stack", "loc", "rebuild", "swapkind", "retime", "cell"]
MAX_STEPS = 4
MAX_EDITS = 4


def _stack_of(m, types):
    from reamber.base.lists.notes.HitList import HitList
    from reamber.base.lists.notes.HoldList import HoldList
    from reamber.base.lists.notes.NoteList import NoteList
    if types == "all":
        return m.stack()
    if types == "hh":
        return m.stack((type(m.hits), type(m.holds)))       # the very key full_ln uses
    if types == "hh_base":
        return m.stack((HitList, HoldList))
    if types == "notes":
        return m.stack((NoteList,))
    if types == "holds":
        return m.stack((type(m.holds),))
    if types == "hits":
        return m.stack((type(m.hits),))
    raise Skip("unknown stack types")


def _arith(cur, op, v):
    return cur + v if op == "add" else cur * v


def _cur_rows(lst):
    """rows of a list as exact wire rows, through the list API"""
    df = lst.df
    has_len = "length" in type(lst)([]).df.columns          # the list class declares a length (an undeclared one is dropped)
    offs, cols = df["offset"].tolist(), df["column"].tolist()
    lens = df["length"].tolist() if has_len else [None] * len(offs)
    out = []
    for o, c, l in zip(offs, cols, lens):
        row = [R(fin(o)), _intcol(c)]
        if has_len:
            row.append(R(fin(l)))
        out.append(row)
    return out


def apply_edit(m, ed):
    """one in-place edit of chart `m`; raises Skip when the route does not apply to this chart"""
    import numpy as np
    k = ed["k"]
    if k == "col":                                   # column assignment through a list property
        lst = m.objs[ed["list"]]
        f, v = ed["field"], F(ed["v"])
        if f == "length" and "length" not in lst.df.columns:
            raise Skip("no length column")
        if f == "column":
            setattr(lst, f, (getattr(lst, f) + int(v)) % int(ed.get("keys", 4)))
        else:
            setattr(lst, f, _arith(getattr(lst, f), ed["op"], float(v)))
        return
    if k == "stack":                                 # m.stack(types).<field> op= v
        st = _stack_of(m, ed["types"])
        f, v = ed["field"], float(F(ed["v"]))
        setattr(st, f, _arith(getattr(st, f), ed["op"], v))
        return
    if k == "loc":                                   # st.loc[condition, field] op= v
        st = _stack_of(m, ed["types"])
        cf, cmp_, cv = ed["cond"]["f"], ed["cond"]["cmp"], float(F(ed["cond"]["v"]))
        colv = getattr(st, cf)
        mask = (colv < cv) if cmp_ == "<" else (colv >= cv) if cmp_ == ">=" else (colv == cv)
        f, v = ed["field"], float(F(ed["v"]))
        if ed.get("aslist"):
            st.loc[mask, [f]] = _arith(st.loc[mask, [f]], ed["op"], v)
        else:
            st.loc[mask, f] = _arith(st.loc[mask, f], ed["op"], v)
        return
    if k == "rebuild":                               # a NEW list with the same number of rows replaces the old content
        which = ed["list"]
        lst = m.objs[which]
        rows = _cur_rows(lst)
        d = F(ed["shift"])
        rows = [[R(F(r[0]) + d)] + r[1:] for r in rows]
        if ed["perm"] == "reverse":
            rows = rows[::-1]
        elif ed["perm"] == "rotate" and rows:
            rows = rows[1:] + rows[:1]
        elif ed["perm"] == "mirror":                 # every note to another time of the same span
            if rows:
                lo, hi = min(F(r[0]) for r in rows), max(F(r[0]) for r in rows)
                rows = [[R(lo + hi - F(r[0]))] + r[1:] for r in rows]
        new = make_list(type(lst), rows, ed.get("build", "frame"))
        how = ed["how"]
        if how == "prop":
            setattr(m, which, new)                   # map property setter: swaps .df on the same list object
        elif how == "objs":
            m.objs[which] = new                      # another list object
        elif how == "df":
            lst.df = new.df                          # the frame is replaced on the same list object
        elif how == "dfcopy":
            lst.df = new.df.copy()
        else:
            raise Skip("unknown rebuild route")
        return
    if k == "swapkind":                              # filter one list, append to the other: the row total stays
        src, dst = ("hits", "holds") if ed["dir"] == "h2l" else ("holds", "hits")
        a, b = m.objs[src], m.objs[dst]
        rows = _cur_rows(a)
        n = len(rows)
        if n == 0:
            return
        sel = sorted({i % n for i in ed["sel"]})
        mask = np.ones(n, dtype=bool)
        mask[sel] = False
        moved = [rows[i] for i in sel]
        if dst == "holds":
            moved = [[r[0], r[1], ed["len"]] for r in moved]
        else:
            moved = [[r[0], r[1]] for r in moved]
        setattr(m, src, a[mask])
        setattr(m, dst, b.append(make_list(type(b), moved, ed.get("build", "frame"))))
        return
    if k == "retime":                                # filter some rows out and append as many at other times
        which = ed["list"]
        a = m.objs[which]
        rows = _cur_rows(a)
        n = len(rows)
        if n == 0:
            return
        sel = sorted({i % n for i in ed["sel"]})
        mask = np.ones(n, dtype=bool)
        mask[sel] = False
        d = F(ed["shift"])
        moved = [[R(F(rows[i][0]) + d)] + rows[i][1:] for i in sel]
        new = a[mask].append(make_list(type(a), moved, ed.get("build", "frame")), sort=bool(ed.get("sort")))
        setattr(m, which, new)
        return
    if k == "cell":                                  # single cells through the list's loc / iloc shorthands
        lst = m.objs[ed["list"]]
        n = len(lst)
        if n == 0:
            return
        f, v = ed["field"], float(F(ed["v"]))
        if f not in lst.df.columns:
            raise Skip("no such column")
        for i in sorted({i % n for i in ed["sel"]}):
            if ed["route"] == "loc":
                lab = lst.df.index[i]
                if list(lst.df.index).count(lab) != 1:
                    raise Skip("row labels are not unique")
                lst.loc[lab, f] = lst.loc[lab, f] + v
            else:
                j = list(lst.df.columns).index(f)
                lst.iloc[i, j] = lst.iloc[i, j] + v
        return
    raise Skip("unknown edit")


def run_session(case, m0, drv, tags):
    import logging
    import warnings
    lineage = [m0]
    results = []
    stopped = None
    for si, st in enumerate(case["session"]):
        try:
            logging.disable(logging.CRITICAL)
            with warnings.catch_warnings():
                warnings.simplefilter("ignore")
                try:
                    obj = lineage[int(st.get("src", -1)) % len(lineage)]
                    dv = st.get("derive")
                    if dv is not None:
                        if dv["op"] == "deepcopy":
                            obj = obj.deepcopy()
                        elif dv["op"] == "rate":
                            obj = obj.rate(float(F(dv["by"])))
                        else:
                            raise Skip("unknown derivation")
                        lineage.append(obj)
                        tags.append("derive:" + dv["op"])
                    for ed in st.get("edits") or []:
                        apply_edit(obj, ed)
                        tags.append("edit:" + ed["k"] + (":" + ed["how"] if ed["k"] == "rebuild" else "")
                                    + (":" + ed["types"] if ed["k"] in ("stack", "loc") else ""))
                except Skip:
                    raise
                except Exception as e:
                    raise Skip("edit-refused:" + type(e).__name__)
                finally:
                    logging.disable(logging.NOTSET)
        except Skip as e:
            stopped = str(e).split(":")[0][:40] + ":" + str(e).split(":")[-1][:30]
            break
        t = []
        r, res = judge_call(obj, F(st["gap"]), F(st["thr"]), drv, case, t)
        for x in t:
            if x not in tags:
                tags.append(x)
        if "skipped" in r["tags"]:
            stopped = "call-skipped"
            break
        results.append((si, r))
        if res is None or not (r["ok"] and r["agree"]):
            break
        lineage.append(res)
    tags.append("session")
    tags.append(f"calls:{len(results)}")
    if stopped:
        tags.append("session-stopped:" + stopped)
    if not results:
        return dict(claim="full_ln", ok=True, agree=True, dom=False, kf=None, tags=tags + ["skipped"], nontrivial=False, detail={})
    bad = [(si, r) for si, r in results if not (r["ok"] and r["agree"])]
    detail = {}
    if bad:
        si, r = bad[0]
        detail = dict(step=si, calls_before=len(results) - 1, **r["detail"])
    return dict(claim="full_ln", ok=all(r["ok"] for _, r in results), agree=all(r["agree"] for _, r in results),
                dom=(bad[0][1]["dom"] if bad else all(r["dom"] for _, r in results)), kf=None, tags=tags,
                nontrivial=len(results) >= 2 and any(r["nontrivial"] for _, r in results),
                maxdev=max(r.get("maxdev", 0.0) for _, r in results), boundary=any(r.get("boundary") for _, r in results),
                detail=detail)


def gen_edit(rng, exact):
    def num(choices_e, lo, hi):
        if exact:
            return Fr(rng.choice(choices_e))
        return Fr(round(rng.uniform(lo, hi), rng.choice([0, 1, 3])))
    shift = lambda: num([1500, 33, 1, 250, -100, 1000, Fr(1, 2), Fr(7, 4), -1500, 64, 100000], -2000, 5000)
    k = rng.choice(["col", "col", "stack", "stack", "stack", "loc", "loc", "rebuild", "rebuild", "swapkind", "retime", "cell"])
    build = rng.choice(BUILDS)
    if k == "cell":
        lst = rng.choice(["hits", "holds", "holds"])
        f = rng.choice(["offset", "length"]) if lst == "holds" else "offset"
        v = num([33, 1, 100, 500, Fr(1, 4)], 0, 500) if f == "length" else shift()
        return dict(k=k, list=lst, field=f, route=rng.choice(["loc", "iloc"]), v=R(v),
                    sel=[rng.randrange(0, 1000) for _ in range(rng.choice([1, 1, 2, 4]))])
    if k == "col":
        lst = rng.choice(["hits", "holds", "holds"])
        f = rng.choice(["offset", "offset", "length", "column"]) if lst == "holds" else rng.choice(["offset", "offset", "column"])
        if f == "column":
            return dict(k=k, list=lst, field=f, op="add", v=R(Fr(rng.choice([1, 2, 3]))), keys=rng.choice([2, 3, 4, 7]))
        if f == "length":
            op = rng.choice(["add", "add", "mul"])
            v = num([33, 1, 100, 500, Fr(1, 4)], 0, 500) if op == "add" else Fr(rng.choice([2, 4, Fr(1, 2), 3]))
            return dict(k=k, list=lst, field=f, op=op, v=R(v))
        op = rng.choice(["add", "add", "add", "mul"])
        v = shift() if op == "add" else Fr(rng.choice([2, Fr(1, 2), 4, 3]))
        return dict(k=k, list=lst, field=f, op=op, v=R(v))
    if k in ("stack", "loc"):
        types = rng.choice(["all", "all", "hh", "hh_base", "notes", "holds", "hits"])
        f = "offset" if types == "hits" else rng.choice(["offset", "offset", "offset", "length"])
        if f == "length":
            op = rng.choice(["add", "mul"])
            v = num([33, 1, 100, 500, Fr(1, 4)], 0, 500) if op == "add" else Fr(rng.choice([2, 4, Fr(1, 2), 3]))
        else:
            op = rng.choice(["add", "add", "add", "mul"])
            v = shift() if op == "add" else Fr(rng.choice([2, Fr(1, 2), 4, 3]))
        ed = dict(k=k, types=types, field=f, op=op, v=R(v))
        if k == "loc":
            cf = rng.choice(["column", "column", "offset"]) if types != "all" else "offset"
            if cf == "column":
                cond = dict(f=cf, cmp=rng.choice(["<", ">=", "=="]), v=R(Fr(rng.choice([0, 1, 1, 2, 3]))))
            else:
                cond = dict(f=cf, cmp=rng.choice(["<", ">="]), v=R(num([0, 250, 1000, 5000, 50000], -2000, 100000)))
            ed["cond"] = cond
            if rng.random() < 0.3:
                ed["aslist"] = True
        return ed
    if k == "rebuild":
        return dict(k=k, list=rng.choice(["hits", "holds"]), how=rng.choice(["prop", "prop", "objs", "df", "dfcopy"]),
                    perm=rng.choice(["same", "reverse", "rotate", "mirror", "mirror"]), shift=R(shift() if rng.random() < 0.7 else Fr(0)),
                    build=build)
    if k == "swapkind":
        return dict(k=k, dir=rng.choice(["h2l", "l2h"]), sel=[rng.randrange(0, 1000) for _ in range(rng.choice([1, 1, 2, 3, 8]))],
                    len=R(num([0, 1, 40, 100, 700], 0, 900)), build=build)
    return dict(k="retime", list=rng.choice(["hits", "holds"]), sel=[rng.randrange(0, 1000) for _ in range(rng.choice([1, 2, 3, 8]))],
                shift=R(shift()), sort=rng.random() < 0.3, build=build)


def gen_session(rng, case):
    """2-4 full_ln calls on one lineage of chart objects with edits in between"""
    exact = case.get("mode", "E") == "E"
    steps = []
    n = rng.choice([2, 2, 2, 3, 3, 4])
    for i in range(n):
        gap, thr = gen_params(rng, "E" if exact or rng.random() < 0.5 else "T")
        st = dict(gap=R(gap), thr=R(thr))
        r = rng.random()
        if i == 0:
            st["src"] = 0
        else:
            # mostly the latest result (the object a user keeps working with), else anything of the lineage
            st["src"] = -1 if r < 0.65 else rng.randrange(0, 8)
        r = rng.random()
        if r < 0.15:
            st["derive"] = dict(op="deepcopy")
        elif r < 0.25:
            st["derive"] = dict(op="rate", by=R(Fr(rng.choice([2.0, 0.5, 4.0, 0.25, 1.5, 1.1]))))
        ne = rng.choice([0, 1, 1, 1, 2, 3]) if i > 0 else rng.choice([0, 0, 0, 1, 2])
        st["edits"] = [gen_edit(rng, exact) for _ in range(ne)]
        steps.append(st)
    return steps


# ------------------------------------------------------------------------------------------ generators

def _num(rng, mode, lo, hi, unit):
    if mode == "E":
        return Fr(rng.randrange(int(lo / unit), int(hi / unit) + 1)) * unit
    return Fr(round(rng.uniform(float(lo), float(hi)), rng.choice([0, 1, 2, 3, 6])))


def gen_params(rng, mode):
    if mode == "E":
        gap = rng.choice([Fr(0), Fr(0), Fr(150), Fr(150), Fr(50), Fr(1), Fr(1, 2), Fr(100), Fr(1000), Fr(rng.randrange(0, 500)),
                          Fr(rng.randrange(0, 4096), 1024)])
        thr = rng.choice([Fr(0), Fr(0), Fr(100), Fr(100), Fr(1), Fr(50), Fr(1, 4), Fr(rng.randrange(0, 400)),
                          Fr(rng.randrange(0, 4096), 1024)])
    else:
        gap = Fr(rng.choice([0.0, 150.0, 0.1, 33.3, round(rng.uniform(0, 400), 3)]))
        thr = Fr(rng.choice([0.0, 100.0, 0.7, 12.345, round(rng.uniform(0, 300), 3)]))
    return gap, thr


def gen_notes(rng, mode, n, keys, gap, thr):
    """per-column walks; returns [(offset, column, length|None)]"""
    notes = []
    if n == 0:
        return notes
    cols = [c for c in range(keys) if rng.random() < 0.8] or [rng.randrange(keys)]
    unit = rng.choice(UNITS)
    per = {c: 0 for c in cols}
    for _ in range(n):
        per[rng.choice(cols)] += 1
    base = _num(rng, mode, -2000, 100000, unit)
    for c, k in per.items():
        if k == 0:
            continue
        t = base if rng.random() < 0.5 else _num(rng, mode, -2000, 100000, unit)   # shared start -> chords
        for i in range(k):
            kind = rng.random()
            if kind < 0.5:
                ln = None
            elif mode == "E":
                ln = rng.choice([Fr(0), unit, Fr(100), Fr(rng.randrange(1, 2000)) * unit, gap + thr, Fr(rng.randrange(1, 5000))])
            else:
                ln = Fr(round(rng.uniform(0, 3000), rng.choice([0, 1, 3])))
            notes.append((t, c, ln))
            r = rng.random()
            b = gap + thr
            if r < 0.16:
                step = Fr(0)                                   # stacked duplicate
            elif r < 0.30:
                step = b                                       # exactly on the boundary
            elif r < 0.40:
                step = b + unit
            elif r < 0.50:
                step = max(Fr(0), b - unit)
            elif r < 0.56:
                step = gap
            elif r < 0.62:
                step = max(Fr(0), gap - unit)
            elif r < 0.68:
                step = unit
            elif r < 0.74 and mode == "E":
                step = b + Fr(1, 1024) * rng.choice([1, -1]) if b >= Fr(1, 1024) else b + Fr(1, 1024)
            else:
                step = _num(rng, mode, 0, 3000, unit)
            if mode == "T" and step != 0 and rng.random() < 0.85:
                step = Fr(round(float(step) + rng.uniform(-1, 1) * 0.3, 3))
                if step < 0:
                    step = Fr(0)
            t = t + step
            if mode == "T":
                t = Fr(float(t))
    # chords across columns at an existing time
    if notes and rng.random() < 0.3:
        t = rng.choice(notes)[0]
        for c in range(keys):
            if rng.random() < 0.5:
                notes.append((t, c, None if rng.random() < 0.5 else Fr(rng.randrange(0, 500))))
    rng.shuffle(notes)
    return notes


def gen_api(rng, tier, i):
    mode = "T" if rng.random() < 0.15 else "E"
    game = rng.choice(["base", "base", "osu", "osu", "bms", "o2j", "sm", "sm", "sm", "qua", "qua"])
    keys = rng.choice([1, 2, 4, 4, 5, 7, 8, 10])
    r = rng.random()
    if r < 0.03:
        n = 0
    elif r < 0.75:
        n = rng.choice([1, 2, 2, 3, 3, 4, 5, 6, 8, 10, 12, 16])
    elif r < 0.95:
        n = rng.randrange(17, 60)
    else:
        n = rng.randrange(60, 400 if tier == "thorough" else 120)
    gap, thr = gen_params(rng, mode)
    notes = gen_notes(rng, mode, n, keys, gap, thr)
    kind_bias = rng.random()
    if kind_bias < 0.08:
        notes = [(t, c, None) for (t, c, _l) in notes]                  # no holds at all
    elif kind_bias < 0.16:
        notes = [(t, c, l if l is not None else Fr(10)) for (t, c, l) in notes]     # no hits at all
    extras = {}
    if game == "sm" and notes and rng.random() < 0.45:
        keep = []
        for nt in notes:
            if rng.random() < 0.15:                 # a mine / roll exactly on a note that stays
                keep.append(nt)
            if rng.random() < 0.3:
                if nt[2] is None:
                    extras.setdefault(rng.choice(SM_HIT_EXTRAS), []).append([R(nt[0]), nt[1]])
                else:
                    extras.setdefault("rolls", []).append([R(nt[0]), nt[1], R(nt[2])])
            else:
                keep.append(nt)
        notes = keep
    # how the lists are built decides their column dtypes (float64 / int64); the result's VALUES must not depend on it
    build = {}
    if mode == "E" and rng.random() < 0.3:
        # integer-valued (hence int-typed) list(s) together with fractional gap / threshold / times of the other list
        which = rng.choice(["holds", "hits", "both", "holds"])
        half = Fr(1, 2) if rng.random() < 0.6 else Fr(0)
        nn = []
        for (t, c, l) in notes:
            is_hold = l is not None
            if which == "both" or (which == "holds") == is_hold:
                nn.append((Fr(math.floor(t)), c, None if l is None else Fr(math.floor(l))))
            else:
                nn.append((t + half, c, l))
        notes = nn
        gap = rng.choice([Fr(21, 2), Fr(1, 2), Fr(601, 4), Fr(135, 4), Fr(0), gap])
        thr = rng.choice([Fr(0), Fr(100), Fr(1, 4), Fr(199, 2), thr])
        ints = ["frame_int", "dict", "ldict", "items"]
        build["hits"] = rng.choice(ints if which in ("hits", "both") else BUILDS)
        build["holds"] = rng.choice(ints if which in ("holds", "both") else BUILDS)
    elif rng.random() < 0.5:
        build["hits"] = rng.choice(BUILDS)
        build["holds"] = rng.choice(BUILDS)
        if rng.random() < 0.3:
            build["extras"] = rng.choice(BUILDS)
    hits = [[R(t), c] for (t, c, l) in notes if l is None]
    holds = [[R(t), c, R(l)] for (t, c, l) in notes if l is not None]
    bpms = [[R(Fr(rng.randrange(0, 5000))), R(Fr(rng.choice([60, 120, 150, 200])))] for _ in range(rng.choice([0, 1, 1, 2]))]
    case = dict(claim="full_ln", game=game, mode=mode, gap=R(gap), thr=R(thr), hits=hits, holds=holds, bpms=bpms)
    if extras:
        case["extras"] = extras
    if build:
        case["build"] = build
    return case


GAME_PREFIX = dict(osu="Osu", qua="Qua", bms="BMS", sm="SM", o2j="O2J")


def tweak_qua(rng, doc):
    """a c06 document made denser for full_ln: few lanes, times/lanes mostly present, explicit `EndTime: 0` on plain notes"""
    hos = doc.get("HitObjects") or []
    lanes = rng.choice([1, 2, 2, 3, 4])
    fill = rng.random() < 0.8
    zero = rng.choice([0.0, 0.0, 0.3, 0.6])
    for i, rec in enumerate(hos):
        if fill and "StartTime" not in rec:
            rec["StartTime"] = rng.choice([0, 100, 250, 1000, rng.randrange(0, 5000)])
            if "EndTime" in rec:
                rec["EndTime"] = rec["StartTime"] + rng.choice([0, 50, 400])
        if fill or "Lane" in rec:
            rec["Lane"] = 1 + (int(rec.get("Lane", i)) % lanes)
        if "EndTime" not in rec and rng.random() < zero:
            rec["EndTime"] = rng.choice([0, 0, 0.0])
    for _ in range(rng.choice([0, 0, 2, 4])):          # a few more plain notes
        rec = dict(StartTime=rng.choice([0, 150, 400, 1000, rng.randrange(0, 5000)]), Lane=rng.randint(1, lanes))
        if rng.random() < zero:
            rec["EndTime"] = 0
        hos.insert(rng.randint(0, len(hos)), rec)
    doc["HitObjects"] = hos
    return doc


def gen_read(rng, tier):
    """a chart through a real reader: the text / byte generators of the format properties are reused"""
    fmt = rng.choice(["qua", "qua", "qua", "osu", "osu", "sm", "sm", "bms", "o2j"])
    if fmt == "osu":
        payload = dict(lines=_props_mod("c01").gen_text(rng, tier))
    elif fmt == "qua":
        payload = dict(doc=tweak_qua(rng, _props_mod("c06").gen_doc(rng)), style=rng.choice(["block", "block", "mixed", "flow"]),
                       sort_keys=rng.random() < 0.3)
    elif fmt == "sm":
        mod = _props_mod("c02")
        for _ in range(8):
            payload = mod.gen(rng, tier, 1000)
            if payload.get("stream") in ("main", "nostops", "comments", "offgrid"):
                break
    elif fmt == "bms":
        payload = _props_mod("c04").gen(rng, tier, 1000)
    else:
        mod = _props_mod("c07")
        for _ in range(8):
            payload = mod.gen(rng, tier, 1000)
            if payload.get("claim") == "read":
                break
    gap, thr = gen_params(rng, "E" if rng.random() < 0.8 else "T")
    return dict(claim="full_ln", via="read", fmt=fmt, payload=payload, pick=rng.randrange(4), gap=R(gap), thr=R(thr))


def gen_post(rng, case):
    src = GAME_PREFIX.get(case.get("fmt") if case.get("via") == "read" else case.get("game"))
    if src is None or rng.random() < 0.4:
        return dict(op="rate", by=R(Fr(rng.choice([0.5, 2.0, 4.0, 0.25, 1.5, 1.1, 0.75]))))
    return dict(op="convert", conv=rng.choice([c for c in CONVS if c.startswith(src + "To")]))


def gen(rng, tier, i):
    r = rng.random()
    if r < 0.28:
        case = gen_read(rng, tier)
    else:
        case = gen_api(rng, tier, i)
        rs = rng.random()
        if rs < 0.10 and case["hits"]:
            # a hit list that carries an undeclared `length` column full of NaN: inside the domain
            case["hits"] = [h + [None] for h in case["hits"]]
        elif rs < 0.125 and case["hits"]:
            # outside the domain (correspondence only): non-NaN values in that column
            allrows = rng.random() < 0.5
            val = lambda: R(Fr(rng.choice([0, 0, 1, 50, 1000])))
            case["hits"] = [h + [val() if (allrows or rng.random() < 0.5) else None] for h in case["hits"]]
        if rng.random() < 0.02 and case["holds"]:
            # outside the domain (correspondence only): hold rows with NaN length
            allrows = rng.random() < 0.3
            case["holds"] = [[h[0], h[1], None if (allrows or rng.random() < 0.4) else h[2]] for h in case["holds"]]
        if rng.random() < 0.15:
            case["xcols"] = {k: rng.choice([["index"], ["foo"], ["index", "foo"]]) for k in rng.choice([["hits"], ["holds"], ["hits", "holds"]])}
    if rng.random() < 0.22:
        if case.get("via") != "read" and not case.get("bpms"):
            case["bpms"] = [[R(Fr(0)), R(Fr(120))]]
        case["post"] = [gen_post(rng, case)]
    if rng.random() < 0.3:
        case["session"] = gen_session(rng, case)
    if rng.random() < 0.04:
        # outside the property's range (correspondence only): a negative gap and / or threshold
        neg = lambda: R(-Fr(rng.choice([1, 50, 150, 1000, Fr(1, 2), rng.randrange(1, 400)])))
        w = rng.choice(["gap", "thr", "both"])
        tgt = rng.choice(case["session"]) if case.get("session") else case
        if w in ("gap", "both"):
            tgt["gap"] = neg()
        if w in ("thr", "both"):
            tgt["thr"] = neg()
    return case


def _c(game, gap, thr, hits, holds, mode="E", extras=None, bpms=None, **kw):
    d = dict(claim="full_ln", game=game, mode=mode, gap=R(Fr(gap)), thr=R(Fr(thr)),
             hits=[[R(Fr(h[0])), h[1]] + ([None if h[2] is None else R(Fr(h[2]))] if len(h) > 2 else []) for h in hits], holds=[[R(Fr(t)), c, None if l is None else R(Fr(l))] for t, c, l in holds],
             bpms=[[R(Fr(a)), R(Fr(b))] for a, b in (bpms or [])])
    if extras:
        d["extras"] = {k: [[R(Fr(x[0])), x[1]] + ([R(Fr(x[2]))] if len(x) > 2 else []) for x in v] for k, v in extras.items()}
    d.update(kw)
    return d


def corpus():
    c = []
    G, T = 150, 100
    # the six examples of the repo's test, on every game that can run them
    for g in ["base", "osu", "bms", "o2j", "sm"]:
        c.append(_c(g, G, T, [(0, 0), (250, 0)], []))
        c.append(_c(g, G, T, [(0, 0), (249, 0)], []))
        c.append(_c(g, G, T, [], [(0, 0, 100), (250, 0, 100)]))
        c.append(_c(g, G, T, [], [(0, 0, 100), (249, 0, 100)]))
        c.append(_c(g, G, T, [(0, 0)], [(250, 0, 100)]))
        c.append(_c(g, G, T, [(250, 0)], [(0, 0, 100)], bpms=[(0, 120)]))
    c.append(_c("base", G, T, [], []))                                        # empty chart
    c.append(_c("qua", G, T, [], []))                                         # empty Quaver chart: no raise
    c.append(_c("osu", G, T, [(5, 3)], []))                                   # single note
    c.append(_c("base", 0, 0, [(10, 0), (10, 0), (10, 0)], [(10, 0, 7)]))     # stack at the end, gap = thr = 0
    c.append(_c("base", 0, 0, [(10, 1), (10, 1)], [(10, 1, 7), (10, 1, 9), (20, 1, 3)]))
    c.append(_c("bms", 10, 5, [(0, 0), (15, 0), (30, 0), (44, 0)], [(0, 1, 500), (15, 1, 1)]))   # boundary: 15-10 = 5
    c.append(_c("o2j", 10, 5, [(0, 0), (Fr(15) + Fr(1, 1024), 0), (Fr(30), 0)], []))
    c.append(_c("sm", 0, 1, [(3, 2), (1, 2), (2, 2)], [(0, 2, 100)]))         # unsorted rows; long hold is shortened
    c.append(_c("base", 150, 100, [(float(0.1 + 0.2), 0), (250.3, 0), (1000.7, 0)], [(500.55, 1, 20.25)], mode="T"))
    # many stacked notes in one column: numpy's quicksort is not stable beyond 16 elements
    c.append(_c("base", 1, 1, [(0, 0)] * 20 + [(100, 0)] * 20, [(100, 0, k) for k in range(1, 21)] + [(0, 0, 5)] * 3))
    # int-typed input lists (Python ints, as the repo's own tests build them) with a fractional gap / fractional times:
    # the VALUES of the result must be the exact ones (seeded change C17-C: the df setter cast the result to the old dtypes)
    for b in ["dict", "ldict", "items", "frame_int"]:
        c.append(_c("base", 10.5, 100, [(0, 0), (500, 0)], [], build=dict(hits=b, holds=b)))                 # -> hold 489.5
        c.append(_c("osu", 10.5, 100, [(0.5, 0), (700.5, 0)], [(300, 0, 50), (2000, 0, 10)], build=dict(hits="frame", holds=b)))
        c.append(_c("sm", 0.25, 0, [(0, 1), (100, 1), (250, 1)], [(50, 1, 7), (400, 1, 9)], build=dict(hits=b, holds=b)))
    # undeclared columns that must not matter; a stray `length` column (NaN: in the domain; values: correspondence only)
    c.append(_c("base", G, T, [(0, 0), (500, 0)], [], xcols=dict(hits=["index", "foo"])))
    c.append(_c("osu", G, T, [(0, 0), (500, 0)], [(100, 1, 5)], xcols=dict(hits=["foo"], holds=["index"])))
    c.append(_c("base", G, T, [(0, 0, 0), (500, 0, 0)], []))                          # outside the domain: correspondence only
    c.append(_c("osu", G, T, [(0, 0, None), (500, 0, None), (100, 1, None)], [(700, 0, 20)]))      # all-NaN stray column: in the domain
    c.append(_c("sm", 0, 0, [(0, 0, None), (500, 0, 7), (900, 0, None)], [(100, 0, 20)], xcols=dict(hits=["index"])))
    # a Quaver document whose plain notes carry an explicit `EndTime: 0` / omit keys, through QuaMap.read
    qdoc = dict(AudioFile="a.mp3", Mode="Keys4",
                HitObjects=[dict(StartTime=100, Lane=1, EndTime=0), dict(StartTime=600, Lane=1), dict(StartTime=900, Lane=1, EndTime=0),
                            dict(StartTime=50, Lane=2), dict(StartTime=700, Lane=2, EndTime=900), dict(StartTime=1200, Lane=2, EndTime=0)],
                TimingPoints=[dict(StartTime=0, Bpm=120)], SliderVelocities=[])
    for g, t in [(G, T), (0, 0), (10.5, 0)]:
        c.append(dict(claim="full_ln", via="read", fmt="qua", payload=dict(doc=qdoc, style="block", sort_keys=False), pick=0,
                      gap=R(Fr(g)), thr=R(Fr(t))))
    c.append(dict(claim="full_ln", via="read", fmt="qua", payload=dict(doc=qdoc, style="block", sort_keys=False), pick=0,
                  gap=R(Fr(G)), thr=R(Fr(T)), post=[dict(op="convert", conv="QuaToOsu")]))
    # rate and converters in front of full_ln
    c.append(_c("osu", G, T, [(0, 0), (500, 0), (100, 1)], [(1000, 0, 30)], bpms=[(0, 120)], post=[dict(op="rate", by=R(Fr(2)))]))
    c.append(_c("osu", G, T, [(0, 0), (500, 0), (100, 1)], [(1000, 0, 30)], bpms=[(0, 120)], post=[dict(op="convert", conv="OsuToQua")]))
    c.append(_c("sm", G, T, [(0, 0), (500, 0), (100, 1)], [(1000, 0, 30)], bpms=[(0, 120)], extras=dict(mines=[(250, 0)]),
                post=[dict(op="convert", conv="SMToOsu")]))
    c.append(_c("bms", G, T, [(0, 0), (500, 0)], [(1000, 0, 30)], bpms=[(0, 120)], post=[dict(op="convert", conv="BMSToSM")]))
    # D23 (repaired) witness shape: a StepMania mine between two hits; rolls / fakes elsewhere
    c.append(_c("sm", G, T, [(0, 0), (1000, 0)], [], extras=dict(mines=[(500, 0)])))
    c.append(_c("sm", G, T, [(0, 0)], [(1000, 0, 50)], extras=dict(rolls=[(2000, 0, 100)], fakes=[(0, 1)])))
    c.append(_c("sm", 0, 0, [], [], extras=dict(mines=[(0, 0)], lifts=[(5, 1)], keysounds=[(5, 1)])))
    # D24 (repaired) witness shape: Quaver charts with notes
    c.append(_c("qua", G, T, [(0, 0)], []))
    c.append(_c("qua", G, T, [(0, 0), (250, 0), (249, 1)], [(100, 1, 30), (900, 0, 10)]))
    # outside the property's range: negative gap / threshold (correspondence only)
    c.append(_c("base", -50, 0, [(0, 0), (100, 0)], []))
    c.append(_c("osu", 150, -1000, [(0, 0), (100, 0), (100, 0)], [(400, 0, 10)]))
    c.append(_c("sm", -10.5, -3, [(0, 0), (100, 0), (5, 1)], [(400, 0, 10), (7, 1, 2)], build=dict(hits="dict", holds="items")))
    # outside the domain: hold rows with NaN length (`nan_hold_counterexample`), correspondence only
    c.append(_c("base", G, T, [], [(0, 0, 10), (500, 0, None)]))
    c.append(_c("osu", 0, 0, [(0, 0), (100, 1)], [(50, 0, None), (50, 0, 7), (300, 1, None), (300, 1, None)]))
    # sessions: repeated calls on one lineage of chart objects with in-place edits in between; every call is judged against
    # the content the chart has when it is called (seeded change C17-G: Map.stack() handed out a cached, stale Stacker)
    S = lambda gap, thr, edits=(), src=-1, derive=None: dict(gap=R(Fr(gap)), thr=R(Fr(thr)), src=src, edits=list(edits),
                                                             **({"derive": derive} if derive else {}))
    for g in ["base", "osu", "sm", "qua"]:
        chart = lambda **kw: _c(g, G, T, [(0, 0), (400, 0), (1000, 0), (1000, 2), (1300, 2)], [(100, 1, 50), (900, 1, 700), (2000, 0, 250)],
                                bpms=[(0, 120)], **kw)
        c.append(chart(session=[S(G, T, src=0), S(40, 60, [dict(k="stack", types="all", field="offset", op="add", v=R(Fr(1500)))])]))
        c.append(chart(session=[S(G, T, src=0), S(G, T, [dict(k="col", list="holds", field="length", op="add", v=R(Fr(33)))])]))
        c.append(chart(session=[S(G, T, src=0), S(0, 0, [dict(k="col", list="hits", field="offset", op="mul", v=R(Fr(2))),
                                                          dict(k="col", list="holds", field="offset", op="mul", v=R(Fr(2)))])]))
        c.append(chart(session=[S(G, T, [dict(k="stack", types="hh", field="offset", op="add", v=R(Fr(0)))], src=0),
                                S(G, T, [dict(k="rebuild", list="holds", how="prop", perm="mirror", shift=R(Fr(64)), build="dict")], src=0)]))
        c.append(chart(session=[S(G, T, src=0), S(10, 5, [dict(k="swapkind", dir="l2h", sel=[0, 1], len=R(Fr(40)), build="items")]),
                                S(G, T, [dict(k="loc", types="notes", field="offset", op="add", v=R(Fr(250)),
                                              cond=dict(f="column", cmp="==", v=R(Fr(0))))], derive=dict(op="deepcopy")),
                                S(0, 0, [dict(k="retime", list="hits", sel=[0, 5], shift=R(Fr(-100)), build="frame_int")], src=0)]))
        c.append(chart(session=[S(G, T, src=0), S(G, T, [dict(k="rebuild", list="hits", how="df", perm="rotate", shift=R(Fr(7, 4)), build="ldict")],
                                                  derive=dict(op="rate", by=R(Fr(2))))]))
    return c


def _is_rat(x, mode):
    if not (isinstance(x, list) and len(x) == 2 and all(isinstance(v, int) and not isinstance(v, bool) for v in x)):
        return False
    if x[1] <= 0:
        return False
    if mode == "E":
        d = x[1]
        if d & (d - 1) or d > 1024 or abs(x[0]) > (2 ** 31) * d:
            return False
    else:
        if abs(x[0]) > (2 ** 31) * x[1]:
            return False
        f = Fr(x[0], x[1])
        if Fr(float(f)) != f:
            return False
    return True


def _post_ok(case):
    post = case.get("post")
    if post is None:
        return True
    if not isinstance(post, list) or len(post) > 2:
        return False
    for st in post:
        if not isinstance(st, dict):
            return False
        if st.get("op") == "rate":
            if not (_is_rat(st.get("by"), "T") and st["by"][0] > 0):
                return False
        elif st.get("op") == "convert":
            if st.get("conv") not in CONVS:
                return False
        else:
            return False
    return True


def _edit_ok(ed):
    if not isinstance(ed, dict) or ed.get("k") not in EDIT_KINDS:
        return False
    k = ed["k"]
    rat = lambda x: _is_rat(x, "T")
    if ed.get("build", "frame") not in BUILDS:
        return False
    if k == "col":
        if ed.get("list") not in ("hits", "holds") or ed.get("field") not in ("offset", "length", "column") or not rat(ed.get("v")):
            return False
        if ed["field"] == "length" and ed["list"] != "holds":
            return False
        if ed["field"] == "column":
            return ed["v"][1] == 1 and 0 <= ed["v"][0] <= 17 and isinstance(ed.get("keys", 4), int) and 1 <= ed.get("keys", 4) <= 18
        if ed.get("op") not in ("add", "mul"):
            return False
        if ed["op"] == "mul" and ed["v"][0] <= 0:
            return False
        return not (ed["field"] == "length" and ed["v"][0] < 0)
    if k in ("stack", "loc"):
        if ed.get("types") not in STACK_TYPES or ed.get("field") not in ("offset", "length") or ed.get("op") not in ("add", "mul"):
            return False
        if not rat(ed.get("v")) or (ed["op"] == "mul" and ed["v"][0] <= 0) or (ed["field"] == "length" and ed["v"][0] < 0):
            return False
        if ed["field"] == "length" and ed["types"] == "hits":
            return False
        if k == "loc":
            c = ed.get("cond")
            if not (isinstance(c, dict) and c.get("f") in ("column", "offset") and c.get("cmp") in ("<", ">=", "==") and rat(c.get("v"))):
                return False
            if c["f"] == "column" and ed["types"] == "all":
                return False
        return True
    if k == "rebuild":
        return (ed.get("list") in ("hits", "holds") and ed.get("how") in ("prop", "objs", "df", "dfcopy")
                and ed.get("perm") in ("same", "reverse", "rotate", "mirror") and rat(ed.get("shift")))
    if k == "swapkind":
        return (ed.get("dir") in ("h2l", "l2h") and isinstance(ed.get("sel"), list) and 1 <= len(ed["sel"]) <= 8
                and all(isinstance(i, int) and not isinstance(i, bool) and i >= 0 for i in ed["sel"])
                and rat(ed.get("len")) and ed["len"][0] >= 0)
    if k == "cell":
        return (ed.get("list") in ("hits", "holds") and ed.get("field") in ("offset", "length") and ed.get("route") in ("loc", "iloc")
                and not (ed["field"] == "length" and ed["list"] != "holds") and rat(ed.get("v"))
                and not (ed["field"] == "length" and ed["v"][0] < 0)
                and isinstance(ed.get("sel"), list) and 1 <= len(ed["sel"]) <= 8
                and all(isinstance(i, int) and not isinstance(i, bool) and i >= 0 for i in ed["sel"]))
    if k == "retime":
        return (ed.get("list") in ("hits", "holds") and isinstance(ed.get("sel"), list) and 1 <= len(ed["sel"]) <= 8
                and all(isinstance(i, int) and not isinstance(i, bool) and i >= 0 for i in ed["sel"]) and rat(ed.get("shift")))
    return False


def _session_ok(case):
    ss = case.get("session")
    if ss is None:
        return True
    if not isinstance(ss, list) or not (1 <= len(ss) <= MAX_STEPS):
        return False
    for st in ss:
        if not isinstance(st, dict) or not (_is_rat(st.get("gap"), "T") and _is_rat(st.get("thr"), "T")):
            return False
        if not isinstance(st.get("src", -1), int) or isinstance(st.get("src", -1), bool):
            return False
        dv = st.get("derive")
        if dv is not None:
            if not isinstance(dv, dict) or dv.get("op") not in ("deepcopy", "rate"):
                return False
            if dv["op"] == "rate" and not (_is_rat(dv.get("by"), "T") and dv["by"][0] > 0):
                return False
        eds = st.get("edits", [])
        if not isinstance(eds, list) or len(eds) > MAX_EDITS or not all(_edit_ok(e) for e in eds):
            return False
    return True


def valid(case):
    try:
        if not _session_ok(case):
            return False
        if case.get("via") == "read":
            return (case.get("claim") == "full_ln" and case.get("fmt") in ("osu", "qua", "sm", "bms", "o2j")
                    and isinstance(case.get("payload"), dict) and isinstance(case.get("pick", 0), int)
                    and _is_rat(case["gap"], "T") and _is_rat(case["thr"], "T")
                    and _post_ok(case))
        return _valid_api(case) and _post_ok(case)
    except Exception:
        return False


def _valid_api(case):
    try:
        mode = case["mode"]
        if case["game"] not in GAMES or mode not in ("E", "T") or case.get("claim") != "full_ln":
            return False
        if not (_is_rat(case["gap"], mode) and _is_rat(case["thr"], mode)):
            return False

        def col_ok(c):
            return isinstance(c, int) and not isinstance(c, bool) and 0 <= c <= 17
        for r in case["hits"]:
            if not (isinstance(r, list) and len(r) in (2, 3) and _is_rat(r[0], mode) and col_ok(r[1])):
                return False
            if len(r) == 3 and not (r[2] is None or (_is_rat(r[2], mode) and r[2][0] >= 0)):
                return False
        xc = case.get("xcols")
        if xc is not None:
            if not isinstance(xc, dict) or any(k not in ("hits", "holds") or not isinstance(v, list) or
                                               any(c not in ("index", "foo") for c in v) or len(set(v)) != len(v)
                                               for k, v in xc.items()):
                return False
        for r in case["holds"]:
            if not (isinstance(r, list) and len(r) == 3 and _is_rat(r[0], mode) and col_ok(r[1])
                    and (r[2] is None or (_is_rat(r[2], mode) and r[2][0] >= 0))):
                return False
        ex = case.get("extras") or {}
        if ex and case["game"] != "sm":
            return False
        for k, rows in ex.items():
            if k in SM_HIT_EXTRAS:
                w = 2
            elif k in SM_HOLD_EXTRAS:
                w = 3
            else:
                return False
            for r in rows:
                if not (isinstance(r, list) and len(r) == w and _is_rat(r[0], mode) and col_ok(r[1])):
                    return False
                if w == 3 and not (_is_rat(r[2], mode) and r[2][0] >= 0):
                    return False
        bd = case.get("build")
        if bd is not None:
            if not isinstance(bd, dict) or any(k not in ("hits", "holds", "extras") or v not in BUILDS for k, v in bd.items()):
                return False
        for b in case.get("bpms") or []:
            if not (isinstance(b, list) and len(b) == 2 and _is_rat(b[0], mode) and _is_rat(b[1], mode) and b[1][0] > 0):
                return False
        return True
    except Exception:
        return False
