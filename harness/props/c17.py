"""C17 — full-LN generation keeps every note and fills gaps by the stated rule.

Correspondence: `reamber.algorithms.generate.full_ln(m, gap, ln_as_hit_thres)` on charts of every game
(base Map, osu, Quaver, BMS, O2Jam, StepMania) against `Model/FullLN.lean` (`fullLn`); specification:
`Spec/FullLN.lean` (`specB`, proved sound for `Spec`) evaluated by the driver on the implementation's output.
Two number streams: `E` (integers / dyadic rationals: every double operation of the code is exact, results are
compared for equality, including at the `>=` boundary and for stacked notes) and `T` (arbitrary decimals:
lengths compared within a tolerance relative to the operands' magnitude).
"""
import math
from fractions import Fraction as Fr

from lib.rat import R, F

ID = "C17"
QUICK_N = 2000
THOROUGH_N = 25000
QUICK_BUDGET_S = 70
THOROUGH_BUDGET_S = 900
RULE = ("charts of 6 games (base/osu/qua/bms/o2j/sm), 1-10 keys, 0-120 notes (thorough: up to 400) built by per-column walks "
        "whose steps sit on / next to the threshold boundary (gap+thr, +-1, +-1/1024), with chords, stacked duplicates of "
        "different kind/length (also at the end of a column), single-note and empty columns, empty hit or hold lists, "
        "gap/threshold >= 0 incl. 0, rows shuffled; StepMania charts may carry mines/fakes/lifts/keysounds/rolls placed "
        "between / on the hits and holds (they must come back untouched and must not influence the result); "
        "every list is built in one of five ways (float64 frame, int64 frame, from_dict of column lists / of row dicts with Python ints, "
        "item objects with Python ints), int-typed lists combined with fractional gap/threshold and fractional times of the other list; "
        "non-trivial = some column holds at least two notes")
ASSUMPTIONS = [
    "pandas concat/sort_values/groupby/diff/shift/itertuples and DataFrame.from_dict are modelled as list operations "
    "(any sorting permutation is accepted for equal offsets)",
    "stream T: lengths are compared within 2^-46 * (1 + largest operand magnitude); a threshold comparison closer than "
    "that to its boundary is counted as float-boundary and only conservation is judged",
]
TRUSTED_EXTRA = ["chart builders of harness/props/c17.py (frames are built column by column with the declared defaults)"]

GAMES = ["base", "osu", "qua", "bms", "o2j", "sm"]
SM_HIT_EXTRAS = ["fakes", "lifts", "keysounds", "mines"]
SM_HOLD_EXTRAS = ["rolls"]
UNITS = [Fr(1), Fr(1), Fr(1, 4), Fr(1, 1024)]


# ------------------------------------------------------------------------------------------ implementation side

def _map_class(game):
    if game == "base":
        from reamber.base.Map import Map
        return Map
    if game == "osu":
        from reamber.osu.OsuMap import OsuMap
        return OsuMap
    if game == "qua":
        from reamber.quaver.QuaMap import QuaMap
        return QuaMap
    if game == "bms":
        from reamber.bms.BMSMap import BMSMap
        return BMSMap
    if game == "o2j":
        from reamber.o2jam.O2JMap import O2JMap
        return O2JMap
    if game == "sm":
        from reamber.sm.SMMap import SMMap
        return SMMap
    raise ValueError(game)


BUILDS = ["frame", "frame_int", "dict", "ldict", "items"]


def _pynum(x):
    """a Python int when the value is an integer, else the (exact) float — what a user types"""
    f = F(x)
    return int(f) if f.denominator == 1 else float(f)


def make_list(cls, rows, build="frame"):
    """a list of class `cls` holding `rows` ([offset, column(, length)]), every other column at its declared default.
    build: how the list is constructed, which decides the column dtypes —
      frame      pd.DataFrame with float64 offset/length
      frame_int  pd.DataFrame with int64 offset/length where every value of the column is an integer
      dict       cls.from_dict({column: [values]}) with Python ints where the value is an integer
      ldict      cls.from_dict([{...}, ...]) likewise
      items      cls([Item(...), ...]) likewise"""
    import copy
    import numpy as np
    import pandas as pd
    tl = cls([])
    n = len(rows)
    if n == 0:
        return tl
    props = cls._item_class()._props
    has_len = "length" in tl.df.columns
    if build in ("dict", "ldict", "items"):
        d = dict(offset=[_pynum(r[0]) for r in rows], column=[int(r[1]) for r in rows])
        if has_len:
            d["length"] = [_pynum(r[2]) for r in rows]
        if build == "dict":
            return cls.from_dict(d)
        if build == "ldict":
            return cls.from_dict([{k: v[i] for k, v in d.items()} for i in range(n)])
        items = []
        for i in range(n):
            kw = {k: copy.deepcopy(v[1]) for k, v in props.items()}
            kw.update({k: v[i] for k, v in d.items()})
            items.append(cls._item_class()(**kw))
        return cls(items)

    def numcol(vals):
        fs = [F(v) for v in vals]
        if build == "frame_int" and all(f.denominator == 1 for f in fs):
            return np.array([int(f) for f in fs], dtype="int64")
        return np.array([float(f) for f in fs], dtype=float)
    data = {}
    for c in tl.df.columns:
        if c == "offset":
            data[c] = numcol([r[0] for r in rows])
        elif c == "column":
            data[c] = np.array([int(r[1]) for r in rows], dtype=int)
        elif c == "length":
            data[c] = numcol([r[2] for r in rows])
        else:
            dtype, default = props[c]
            if isinstance(default, (list, dict, set)):
                data[c] = pd.Series([copy.deepcopy(default) for _ in range(n)], dtype="object")
            else:
                data[c] = pd.Series([default] * n, dtype=dtype)
    return cls(pd.DataFrame(data, columns=list(tl.df.columns)))


def build_map(case):
    m = _map_class(case["game"])()
    bd = case.get("build") or {}
    m.hits = make_list(type(m.hits), case["hits"], bd.get("hits", "frame"))
    m.holds = make_list(type(m.holds), case["holds"], bd.get("holds", "frame"))
    for k, rows in (case.get("extras") or {}).items():
        setattr(m, k, make_list(type(m.objs[k]), rows, bd.get("extras", "frame")))
    bp = case.get("bpms") or []
    if bp:
        import pandas as pd
        B = type(m.bpms)
        df = B.from_dict(dict(offset=[float(F(b[0])) for b in bp], bpm=[float(F(b[1])) for b in bp])).df
        m.bpms = B(df)
    return m


def note_lists(m):
    """names of the objs that are note lists in the sense of full_ln's stack filter"""
    from reamber.base.lists.notes.HitList import HitList
    from reamber.base.lists.notes.HoldList import HoldList
    return [k for k, v in m.objs.items() if isinstance(v, (HitList, HoldList))]


class BadNumber(Exception):
    pass


def fin(x):
    x = float(x)
    if not math.isfinite(x):
        raise BadNumber(repr(x))
    return Fr(x)


def rows_of(lst):
    """[(offset, column, length|None)] as exact rationals"""
    df = lst.df
    has_len = "length" in df.columns
    out = []
    for i in range(len(df)):
        off = fin(df["offset"].iloc[i])
        colv = float(df["column"].iloc[i])
        if not math.isfinite(colv) or colv != int(colv):
            raise BadNumber(f"column {colv!r}")
        ln = fin(df["length"].iloc[i]) if has_len else None
        out.append((off, int(colv), ln))
    return out


def err_class(e):
    if isinstance(e, ValueError):
        return "value"
    if isinstance(e, IndexError):
        return "index"
    if isinstance(e, KeyError):
        return "key"
    if isinstance(e, TypeError):
        return "type"
    return "other:" + type(e).__name__


# ------------------------------------------------------------------------------------------ wire helpers

def jrow(r):
    return [R(r[0]), int(r[1]), None if r[2] is None else R(r[2])]


def prow(j):
    return (F(j[0]), int(j[1]), None if len(j) < 3 or j[2] is None else F(j[2]))


def case_extras_rows(case):
    """extras in objs order, NaN length for the hit-typed lists"""
    ex = case.get("extras") or {}
    out = []
    for k in SM_HIT_EXTRAS + SM_HOLD_EXTRAS:       # = SMMap.objs order (checked against the model's table in run)
        for r in ex.get(k, []):
            out.append((F(r[0]), int(r[1]), F(r[2]) if k in SM_HOLD_EXTRAS else None))
    return out


def case_rows(case):
    """(rows of the further note lists, hits, holds) — only hits and holds are the subject of full_ln"""
    hits = [(F(r[0]), int(r[1]), None) for r in case["hits"]]
    holds = [(F(r[0]), int(r[1]), F(r[2])) for r in case["holds"]]
    return case_extras_rows(case), hits, holds


def sort_key(r):
    return (r[1], r[0], 0 if r[2] is None else 1, r[2] if r[2] is not None else Fr(0))


def rows_match(a, b, tol):
    """multiset equality of two row lists (lengths within tol)"""
    if len(a) != len(b):
        return False
    for x, y in zip(sorted(a, key=sort_key), sorted(b, key=sort_key)):
        if x[0] != y[0] or x[1] != y[1] or (x[2] is None) != (y[2] is None):
            return False
        if x[2] is not None and abs(x[2] - y[2]) > tol:
            return False
    return True


def by_column(rows):
    d = {}
    for r in rows:
        d.setdefault(r[1], []).append(r)
    return d


def tolerance(case, rows):
    if case["mode"] == "E":
        return Fr(0)
    mag = max([abs(r[0]) for r in rows] + [abs(F(case["gap"])), abs(F(case["thr"])), Fr(1)])
    return Fr(1, 2 ** 46) * (1 + mag)


def snap_lengths(impl_rows, inp_rows, gap, tol):
    """stream T: replace each implementation length by the exact value it rounds (a difference of two offsets of
    its column minus gap, or an input length at that place) when within tol — candidates come from the input only"""
    cols = by_column(inp_rows)
    out = []
    for (off, c, ln) in impl_rows:
        if ln is None:
            out.append((off, c, ln))
            continue
        cands = [t[0] - off - gap for t in cols.get(c, [])] + [t[2] for t in cols.get(c, []) if t[0] == off and t[2] is not None]
        best = min(cands, key=lambda v: abs(v - ln)) if cands else None
        out.append((off, c, best if best is not None and abs(best - ln) <= tol else ln))
    return out


# ------------------------------------------------------------------------------------------ run

def run(case, drv):
    import warnings
    from reamber.algorithms.generate.full_ln import full_ln
    game = case["game"]
    gap, thr = F(case["gap"]), F(case["thr"])
    extras, hits, holds = case_rows(case)
    inp = hits + holds
    tags = [game, case["mode"]]
    bd = case.get("build") or {}
    tags += sorted({"build:" + v for v in bd.values()} or {"build:frame"})
    # ---- implementation
    m = build_map(case)
    snapshot = {k: v.df.copy(deep=True) for k, v in m.objs.items() if k not in ("hits", "holds")}
    impl_err = None
    res = None
    with warnings.catch_warnings():
        warnings.simplefilter("ignore")
        try:
            res = full_ln(m, float(gap), float(thr))
        except Exception as e:       # mapped to an enum, never raised
            impl_err = err_class(e)
    # ---- model
    mo = drv.call("c17.model", gap=R(gap), thr=R(thr), extras=[jrow(r) for r in extras],
                  hits=[jrow(r) for r in hits], holds=[jrow(r) for r in holds])
    nontrivial = any(len(v) >= 2 for v in by_column(inp).values())
    if extras:
        tags.append("sm-extras")
    if not inp:
        tags.append("empty")
    if impl_err is not None:
        tags.append("impl-raises")
        # the property promises a result for every chart, and the model never raises
        return dict(claim="full_ln", ok=False, agree=False, dom=True, kf=None, tags=tags, nontrivial=nontrivial,
                    detail=dict(impl_error=impl_err, model=mo))
    # ---- result of the implementation
    bad = None
    try:
        r_hits = [(o, c, None) for (o, c, _l) in rows_of(res.hits)]
        r_holds = rows_of(res.holds)
        if any(l is None for (_o, _c, l) in r_holds):
            raise BadNumber("hold list without length")
        r_extras = []
        for k in note_lists(res):
            if k not in ("hits", "holds"):
                r_extras += rows_of(res.objs[k])
    except BadNumber as e:
        bad = str(e)
        r_hits, r_holds, r_extras = [], [], []
    # tempo and other lists (the further note lists among them) unchanged
    others_ok = (type(res) is type(m)) and set(res.objs.keys()) == set(m.objs.keys()) and all(
        res.objs[k].df.equals(snapshot[k]) for k in snapshot)
    # a "hit" that carries a length is not a hit: the hit list must still be a list of hits
    if bad is None and "length" in res.hits.df.columns:
        bad = "hits list has a length column (its members are holds)"
    tol = tolerance(case, inp)
    out_new = r_hits + r_holds              # what full_ln produced
    boundary = False
    if case["mode"] == "T":
        mg = drv.call("c17.margins", gap=R(gap), thr=R(thr), rows=[jrow(r) for r in inp])["ok"]
        boundary = any(abs(F(x)) <= tol for x in mg)
        out_new_s = snap_lengths(out_new, inp, gap, tol)
    else:
        out_new_s = out_new
    # ---- (S) specification on the implementation's output: hits+holds of the result against hits+holds of the input
    sp = drv.call("c17.spec", gap=R(gap), thr=R(thr), inp=[jrow(r) for r in inp], out=[jrow(r) for r in out_new_s])["ok"]
    if boundary:
        ok = sp["conservation"] and others_ok and bad is None
        tags.append("float-boundary")
    else:
        ok = sp["spec"] and sp["conservation"] and sp["no_overlap"] and others_ok and bad is None
    # ---- (C) correspondence with the model
    agree = "ok" in mo
    maxdev = 0.0
    if agree:
        m_new = [prow(j) for j in mo["ok"]["hits"]] + [prow(j) for j in mo["ok"]["holds"]]
        agree = rows_match(r_extras, [prow(j) for j in mo["ok"]["extras"]], Fr(0)) if bad is None else False
        if not agree:
            pass
        elif boundary:
            agree = rows_match([(o, c, None) for (o, c, _l) in out_new], [(o, c, None) for (o, c, _l) in m_new], Fr(0))
        elif rows_match(out_new, m_new, tol):
            if case["mode"] == "T":
                for x, y in zip(sorted(out_new, key=sort_key), sorted(m_new, key=sort_key)):
                    if x[2] is not None and y[2] is not None:
                        maxdev = max(maxdev, float(abs(x[2] - y[2])))
        else:
            # stacked notes at the end of a column: the sort may put any of them last
            ic, mc, sc = by_column(out_new), by_column(m_new), by_column(inp)
            agree = set(ic) == set(mc)
            if agree:
                for c in ic:
                    if rows_match(ic[c], mc[c], tol):
                        continue
                    vs = drv.call("c17.variants", gap=R(gap), thr=R(thr), rows=[jrow(r) for r in sc.get(c, [])])["ok"]
                    if any(rows_match(ic[c], [prow(j) for j in v], tol) for v in vs):
                        tags.append("tie-variant")
                    else:
                        agree = False
                        break
    detail = {}
    if not (ok and agree):
        detail = dict(spec=sp, others_unchanged=others_ok, bad_number=bad,
                      impl_hits=[str(x) for x in r_hits[:40]], impl_holds=[str(x) for x in r_holds[:40]],
                      impl_extras=[str(x) for x in r_extras[:20]], model=mo)
    return dict(claim="full_ln", ok=ok, agree=agree, dom=True, kf=None, tags=tags, nontrivial=nontrivial, maxdev=maxdev,
                boundary=boundary, detail=detail)


# ------------------------------------------------------------------------------------------ generators

def _num(rng, mode, lo, hi, unit):
    if mode == "E":
        return Fr(rng.randrange(int(lo / unit), int(hi / unit) + 1)) * unit
    return Fr(round(rng.uniform(float(lo), float(hi)), rng.choice([0, 1, 2, 3, 6])))


def gen_params(rng, mode):
    if mode == "E":
        gap = rng.choice([Fr(0), Fr(0), Fr(150), Fr(150), Fr(50), Fr(1), Fr(1, 2), Fr(100), Fr(1000), Fr(rng.randrange(0, 500)),
                          Fr(rng.randrange(0, 4096), 1024)])
        thr = rng.choice([Fr(0), Fr(0), Fr(100), Fr(100), Fr(1), Fr(50), Fr(1, 4), Fr(rng.randrange(0, 400)),
                          Fr(rng.randrange(0, 4096), 1024)])
    else:
        gap = Fr(rng.choice([0.0, 150.0, 0.1, 33.3, round(rng.uniform(0, 400), 3)]))
        thr = Fr(rng.choice([0.0, 100.0, 0.7, 12.345, round(rng.uniform(0, 300), 3)]))
    return gap, thr


def gen_notes(rng, mode, n, keys, gap, thr):
    """per-column walks; returns [(offset, column, length|None)]"""
    notes = []
    if n == 0:
        return notes
    cols = [c for c in range(keys) if rng.random() < 0.8] or [rng.randrange(keys)]
    unit = rng.choice(UNITS)
    per = {c: 0 for c in cols}
    for _ in range(n):
        per[rng.choice(cols)] += 1
    base = _num(rng, mode, -2000, 100000, unit)
    for c, k in per.items():
        if k == 0:
            continue
        t = base if rng.random() < 0.5 else _num(rng, mode, -2000, 100000, unit)   # shared start -> chords
        for i in range(k):
            kind = rng.random()
            if kind < 0.5:
                ln = None
            elif mode == "E":
                ln = rng.choice([Fr(0), unit, Fr(100), Fr(rng.randrange(1, 2000)) * unit, gap + thr, Fr(rng.randrange(1, 5000))])
            else:
                ln = Fr(round(rng.uniform(0, 3000), rng.choice([0, 1, 3])))
            notes.append((t, c, ln))
            r = rng.random()
            b = gap + thr
            if r < 0.16:
                step = Fr(0)                                   # stacked duplicate
            elif r < 0.30:
                step = b                                       # exactly on the boundary
            elif r < 0.40:
                step = b + unit
            elif r < 0.50:
                step = max(Fr(0), b - unit)
            elif r < 0.56:
                step = gap
            elif r < 0.62:
                step = max(Fr(0), gap - unit)
            elif r < 0.68:
                step = unit
            elif r < 0.74 and mode == "E":
                step = b + Fr(1, 1024) * rng.choice([1, -1]) if b >= Fr(1, 1024) else b + Fr(1, 1024)
            else:
                step = _num(rng, mode, 0, 3000, unit)
            if mode == "T" and step != 0 and rng.random() < 0.85:
                step = Fr(round(float(step) + rng.uniform(-1, 1) * 0.3, 3))
                if step < 0:
                    step = Fr(0)
            t = t + step
            if mode == "T":
                t = Fr(float(t))
    # chords across columns at an existing time
    if notes and rng.random() < 0.3:
        t = rng.choice(notes)[0]
        for c in range(keys):
            if rng.random() < 0.5:
                notes.append((t, c, None if rng.random() < 0.5 else Fr(rng.randrange(0, 500))))
    rng.shuffle(notes)
    return notes


def gen(rng, tier, i):
    mode = "T" if rng.random() < 0.15 else "E"
    game = rng.choice(["base", "base", "osu", "osu", "bms", "o2j", "sm", "sm", "sm", "qua", "qua"])
    keys = rng.choice([1, 2, 4, 4, 5, 7, 8, 10])
    r = rng.random()
    if r < 0.03:
        n = 0
    elif r < 0.75:
        n = rng.choice([1, 2, 2, 3, 3, 4, 5, 6, 8, 10, 12, 16])
    elif r < 0.95:
        n = rng.randrange(17, 60)
    else:
        n = rng.randrange(60, 400 if tier == "thorough" else 120)
    gap, thr = gen_params(rng, mode)
    notes = gen_notes(rng, mode, n, keys, gap, thr)
    kind_bias = rng.random()
    if kind_bias < 0.08:
        notes = [(t, c, None) for (t, c, _l) in notes]                  # no holds at all
    elif kind_bias < 0.16:
        notes = [(t, c, l if l is not None else Fr(10)) for (t, c, l) in notes]     # no hits at all
    extras = {}
    if game == "sm" and notes and rng.random() < 0.45:
        keep = []
        for nt in notes:
            if rng.random() < 0.15:                 # a mine / roll exactly on a note that stays
                keep.append(nt)
            if rng.random() < 0.3:
                if nt[2] is None:
                    extras.setdefault(rng.choice(SM_HIT_EXTRAS), []).append([R(nt[0]), nt[1]])
                else:
                    extras.setdefault("rolls", []).append([R(nt[0]), nt[1], R(nt[2])])
            else:
                keep.append(nt)
        notes = keep
    # how the lists are built decides their column dtypes (float64 / int64); the result's VALUES must not depend on it
    build = {}
    if mode == "E" and rng.random() < 0.3:
        # integer-valued (hence int-typed) list(s) together with fractional gap / threshold / times of the other list
        which = rng.choice(["holds", "hits", "both", "holds"])
        half = Fr(1, 2) if rng.random() < 0.6 else Fr(0)
        nn = []
        for (t, c, l) in notes:
            is_hold = l is not None
            if which == "both" or (which == "holds") == is_hold:
                nn.append((Fr(math.floor(t)), c, None if l is None else Fr(math.floor(l))))
            else:
                nn.append((t + half, c, l))
        notes = nn
        gap = rng.choice([Fr(21, 2), Fr(1, 2), Fr(601, 4), Fr(135, 4), Fr(0), gap])
        thr = rng.choice([Fr(0), Fr(100), Fr(1, 4), Fr(199, 2), thr])
        ints = ["frame_int", "dict", "ldict", "items"]
        build["hits"] = rng.choice(ints if which in ("hits", "both") else BUILDS)
        build["holds"] = rng.choice(ints if which in ("holds", "both") else BUILDS)
    elif rng.random() < 0.5:
        build["hits"] = rng.choice(BUILDS)
        build["holds"] = rng.choice(BUILDS)
        if rng.random() < 0.3:
            build["extras"] = rng.choice(BUILDS)
    hits = [[R(t), c] for (t, c, l) in notes if l is None]
    holds = [[R(t), c, R(l)] for (t, c, l) in notes if l is not None]
    bpms = [[R(Fr(rng.randrange(0, 5000))), R(Fr(rng.choice([60, 120, 150, 200])))] for _ in range(rng.choice([0, 1, 1, 2]))]
    case = dict(claim="full_ln", game=game, mode=mode, gap=R(gap), thr=R(thr), hits=hits, holds=holds, bpms=bpms)
    if extras:
        case["extras"] = extras
    if build:
        case["build"] = build
    return case


def _c(game, gap, thr, hits, holds, mode="E", extras=None, bpms=None, **kw):
    d = dict(claim="full_ln", game=game, mode=mode, gap=R(Fr(gap)), thr=R(Fr(thr)),
             hits=[[R(Fr(t)), c] for t, c in hits], holds=[[R(Fr(t)), c, R(Fr(l))] for t, c, l in holds],
             bpms=[[R(Fr(a)), R(Fr(b))] for a, b in (bpms or [])])
    if extras:
        d["extras"] = {k: [[R(Fr(x[0])), x[1]] + ([R(Fr(x[2]))] if len(x) > 2 else []) for x in v] for k, v in extras.items()}
    d.update(kw)
    return d


def corpus():
    c = []
    G, T = 150, 100
    # the six examples of the repo's test, on every game that can run them
    for g in ["base", "osu", "bms", "o2j", "sm"]:
        c.append(_c(g, G, T, [(0, 0), (250, 0)], []))
        c.append(_c(g, G, T, [(0, 0), (249, 0)], []))
        c.append(_c(g, G, T, [], [(0, 0, 100), (250, 0, 100)]))
        c.append(_c(g, G, T, [], [(0, 0, 100), (249, 0, 100)]))
        c.append(_c(g, G, T, [(0, 0)], [(250, 0, 100)]))
        c.append(_c(g, G, T, [(250, 0)], [(0, 0, 100)], bpms=[(0, 120)]))
    c.append(_c("base", G, T, [], []))                                        # empty chart
    c.append(_c("qua", G, T, [], []))                                         # empty Quaver chart: no raise
    c.append(_c("osu", G, T, [(5, 3)], []))                                   # single note
    c.append(_c("base", 0, 0, [(10, 0), (10, 0), (10, 0)], [(10, 0, 7)]))     # stack at the end, gap = thr = 0
    c.append(_c("base", 0, 0, [(10, 1), (10, 1)], [(10, 1, 7), (10, 1, 9), (20, 1, 3)]))
    c.append(_c("bms", 10, 5, [(0, 0), (15, 0), (30, 0), (44, 0)], [(0, 1, 500), (15, 1, 1)]))   # boundary: 15-10 = 5
    c.append(_c("o2j", 10, 5, [(0, 0), (Fr(15) + Fr(1, 1024), 0), (Fr(30), 0)], []))
    c.append(_c("sm", 0, 1, [(3, 2), (1, 2), (2, 2)], [(0, 2, 100)]))         # unsorted rows; long hold is shortened
    c.append(_c("base", 150, 100, [(float(0.1 + 0.2), 0), (250.3, 0), (1000.7, 0)], [(500.55, 1, 20.25)], mode="T"))
    # many stacked notes in one column: numpy's quicksort is not stable beyond 16 elements
    c.append(_c("base", 1, 1, [(0, 0)] * 20 + [(100, 0)] * 20, [(100, 0, k) for k in range(1, 21)] + [(0, 0, 5)] * 3))
    # int-typed input lists (Python ints, as the repo's own tests build them) with a fractional gap / fractional times:
    # the VALUES of the result must be the exact ones (seeded change C17-C: the df setter cast the result to the old dtypes)
    for b in ["dict", "ldict", "items", "frame_int"]:
        c.append(_c("base", 10.5, 100, [(0, 0), (500, 0)], [], build=dict(hits=b, holds=b)))                 # -> hold 489.5
        c.append(_c("osu", 10.5, 100, [(0.5, 0), (700.5, 0)], [(300, 0, 50), (2000, 0, 10)], build=dict(hits="frame", holds=b)))
        c.append(_c("sm", 0.25, 0, [(0, 1), (100, 1), (250, 1)], [(50, 1, 7), (400, 1, 9)], build=dict(hits=b, holds=b)))
    # D23 (repaired) witness shape: a StepMania mine between two hits; rolls / fakes elsewhere
    c.append(_c("sm", G, T, [(0, 0), (1000, 0)], [], extras=dict(mines=[(500, 0)])))
    c.append(_c("sm", G, T, [(0, 0)], [(1000, 0, 50)], extras=dict(rolls=[(2000, 0, 100)], fakes=[(0, 1)])))
    c.append(_c("sm", 0, 0, [], [], extras=dict(mines=[(0, 0)], lifts=[(5, 1)], keysounds=[(5, 1)])))
    # D24 (repaired) witness shape: Quaver charts with notes
    c.append(_c("qua", G, T, [(0, 0)], []))
    c.append(_c("qua", G, T, [(0, 0), (250, 0), (249, 1)], [(100, 1, 30), (900, 0, 10)]))
    return c


def _is_rat(x, mode):
    if not (isinstance(x, list) and len(x) == 2 and all(isinstance(v, int) and not isinstance(v, bool) for v in x)):
        return False
    if x[1] <= 0:
        return False
    if mode == "E":
        d = x[1]
        if d & (d - 1) or d > 1024 or abs(x[0]) > (2 ** 31) * d:
            return False
    else:
        if abs(x[0]) > (2 ** 31) * x[1]:
            return False
        f = Fr(x[0], x[1])
        if Fr(float(f)) != f:
            return False
    return True


def valid(case):
    try:
        mode = case["mode"]
        if case["game"] not in GAMES or mode not in ("E", "T") or case.get("claim") != "full_ln":
            return False
        if not (_is_rat(case["gap"], mode) and _is_rat(case["thr"], mode)) or case["gap"][0] < 0 or case["thr"][0] < 0:
            return False

        def col_ok(c):
            return isinstance(c, int) and not isinstance(c, bool) and 0 <= c <= 17
        for r in case["hits"]:
            if not (isinstance(r, list) and len(r) == 2 and _is_rat(r[0], mode) and col_ok(r[1])):
                return False
        for r in case["holds"]:
            if not (isinstance(r, list) and len(r) == 3 and _is_rat(r[0], mode) and col_ok(r[1]) and _is_rat(r[2], mode)
                    and r[2][0] >= 0):
                return False
        ex = case.get("extras") or {}
        if ex and case["game"] != "sm":
            return False
        for k, rows in ex.items():
            if k in SM_HIT_EXTRAS:
                w = 2
            elif k in SM_HOLD_EXTRAS:
                w = 3
            else:
                return False
            for r in rows:
                if not (isinstance(r, list) and len(r) == w and _is_rat(r[0], mode) and col_ok(r[1])):
                    return False
                if w == 3 and not (_is_rat(r[2], mode) and r[2][0] >= 0):
                    return False
        bd = case.get("build")
        if bd is not None:
            if not isinstance(bd, dict) or any(k not in ("hits", "holds", "extras") or v not in BUILDS for k, v in bd.items()):
                return False
        for b in case.get("bpms") or []:
            if not (isinstance(b, list) and len(b) == 2 and _is_rat(b[0], mode) and _is_rat(b[1], mode) and b[1][0] > 0):
                return False
        return True
    except Exception:
        return False
