"""C04 — BMS reading.

Correspondence: `BMSMap.read(lines, layout)` against `Reamber.BMS.read` (Model/BMS.lean, layouts from the generated
tables); specification: `Reamber.BMS.denoteText` (Spec/BMS.lean, BMS by the book with the specification's OWN lexer
`bookLine`/`bookTable`/`bookDoc`, over the hand-written book layouts) evaluated by the driver on the same text; for
the FILE entry point the specification splits the file's bytes itself (`fileLines`).  On every case the driver also
reports whether the two lexers agree where the by-the-book one is defined (the proved `bookDoc_parseDoc`).  Byte strings travel as hex.  The implementation computes in doubles,
the model in rationals: continuous outputs are compared within the DESIGN §3 tolerance; the only discontinuity
on the path to hit/hold times is the re-snapping of tempo positions (reported by the model as `resnap_margins`).
The reseated tempo list is compared structurally and, if that fails, through the measure lines it generates
(float noise may pick another branch of `reseat_bpm_changes_snap` — tagged `bpms-by-measure-lines`).
"""
import math
import re
from fractions import Fraction as Fr

from lib.rat import R, F, close, dev

ID = "C04"
QUICK_N = 6000
THOROUGH_N = 60000
QUICK_BUDGET_S = 75
THOROUGH_BUDGET_S = 900
RULE = ("BMS texts over the five layouts: header (title/artist/level/#BPM/#LNOBJ/#WAVxx/#BPMxx/other keys, mixed case), "
        "0-6 measures, per lane 0-6 objects on divisions 1-192 split over 1-3 lines per (measure, channel), LNOBJ "
        "pairs, channel-03/08 tempo objects on measure lines / grid-compatible / grid-incompatible positions, a "
        "measure-0 override, ignored channels, odd/empty data, malformed lines, error cases; lines in file order or "
        "shuffled; 30 % of the cases go through the FILE entry point BMSMap.read_file on a temporary shift_jis file (LF / CRLF / "
        "bare CR line ends, trailing blank lines), 20 % read one or two other texts first in the same process (state kept "
        "between calls); non-trivial = a tempo object followed by a note, or a long note, or shuffled lines")
ASSUMPTIONS = [
    "read_file: Python's codecs line splitting (str.splitlines on the decoded text) is modelled in Lean (pyLines: LF, CR, CRLF, "
    "VT, FF, FS, GS, RS) and compared with the real BMSMap.read_file on every file case; the shift_jis codec is not modelled",
    "shift_jis codec, str.strip and float()/int() text parsing are modelled on plain decimal / hex text only",
    "channel-02 lines (time signatures) are outside the property's quantifier and are not generated",
]
TRUSTED_EXTRA = ["header record (selection of the #BPMxx/#WAVxx tables out of the header table, decimal parser) is shared by model "
                 "and specification; the line lexer and the header table are NOT shared (bookLine/bookTable, proved equal to the "
                 "reader's on every text the specification gives a meaning)"]

LAYOUTS = {
    "BMS": ["11", "12", "13", "14", "15", "16", "17", "21", "22", "23", "24", "25", "26", "27"],
    "BME": ["16", "11", "12", "13", "14", "15", "18", "19", "21", "22", "23", "24", "25", "28", "29", "26"],
    "PMS": ["11", "12", "13", "14", "15", "22", "23", "24", "25"],
    "PMS_BME": ["11", "12", "13", "14", "15", "18", "19", "16", "17", "21", "22", "23", "24", "25", "28", "29", "26", "27"],
    "PMS_5B": ["13", "14", "15", "22", "23"],
}
E_BPMS = [50, 60, 75, 100, 120, 125, 128, 150, 160, 200, 240, 250]
B36 = "0123456789ABCDEFGHIJKLMNOPQRSTUVWXYZ"
DIV_COMPAT = [1, 2, 3, 4, 6, 8, 12, 16, 24, 48]
DIV_ANY = [1, 2, 3, 4, 5, 6, 7, 8, 9, 12, 16, 24, 32, 48, 64, 96, 192]
DIV_INCOMPAT = [28, 64, 20, 44, 100, 128, 384, 36, 768]
TOL_MARGIN = Fr(1, 10 ** 9)


def _imports():
    from reamber.bms.BMSMap import BMSMap
    from reamber.bms.BMSChannel import BMSChannel
    return BMSMap, BMSChannel


# ------------------------------------------------------------------------------------------ generator

def rid(rng, avoid=()):
    """two-character object id; sometimes with lower-case letters (always used consistently in header and data)"""
    while True:
        s = rng.choice(B36) + rng.choice(B36)
        if rng.random() < 0.15:
            s = s.lower()
        if s != "00" and s not in avoid and s.upper() not in [a.upper() for a in avoid if a]:
            return s


def dec_text(rng):
    r = rng.random()
    if r < 0.5:
        return str(rng.choice(E_BPMS))
    if r < 0.6:
        return str(rng.choice([37.5, 62.5, 93.75, 187.5, 120.0]))
    if r < 0.9:
        return f"{rng.uniform(30, 400):.{rng.choice([0, 1, 2, 3, 6])}f}"
    return rng.choice(["1.5e2", "120.", "090", "+150", " 140", "1E2", "99.999999"])


def seq_of(n, placed):
    """n slots, placed: {slot: id}"""
    s = ["00"] * n
    for i, v in placed.items():
        s[i] = v
    return "".join(s)


def lcm(a, b):
    return a * b // math.gcd(a, b)


def lines_for(rng, measure, channel, objs, ordered):
    """objs: list of (pos Fraction in [0,1), id) of one (measure, channel), time order. Returns data lines."""
    if not objs:
        return []
    k = 1 if rng.random() < 0.75 else rng.choice([2, 2, 3])
    k = min(k, len(objs))
    if ordered:
        cuts = sorted(rng.sample(range(1, len(objs)), k - 1)) if k > 1 else []
        groups = [objs[a:b] for a, b in zip([0] + cuts, cuts + [len(objs)])]
    else:
        groups = [[] for _ in range(k)]
        for o in objs:
            rng.choice(groups).append(o)
        groups = [g for g in groups if g]
        rng.shuffle(groups)
    out = []
    for g in groups:
        n = 1
        for p, _ in g:
            n = lcm(n, p.denominator)
        if n < 48 and rng.random() < 0.4:
            n *= rng.choice([2, 3, 4])
        placed = {}
        for p, v in g:
            placed[int(p * n)] = v        # a later object on the same slot of the same line replaces the earlier one
        out.append(f"#{measure:03d}{channel}:{seq_of(n, placed)}")
    return out


def gen_text(rng, tier, i):
    layout = rng.choice(list(LAYOUTS))
    chans = LAYOUTS[layout]
    M = rng.choice([1, 2, 2, 3, 4, 6])
    unordered = rng.random() < 0.3
    # ---- header
    lnobj = rid(rng) if rng.random() < 0.65 else None
    wav = {}
    for _ in range(rng.choice([0, 1, 3, 6])):
        wav[rid(rng, avoid=(lnobj,))] = rng.choice(["k.wav", "snare 01.ogg", "a", "bgm_1.wav", "x.y.z"])
    exb = {}
    for _ in range(rng.choice([0, 0, 1, 2, 4])):
        exb[rid(rng)] = dec_text(rng).strip()
    hdr = []
    if rng.random() < 0.85:
        hdr.append("#TITLE " + rng.choice(["song", "a b  c", "Title [ANOTHER]", "テスト", "x:y #1", "ｱｲ"]))
    if rng.random() < 0.8:
        hdr.append("#ARTIST " + rng.choice(["me", "A feat. B", "obj: C", "作者"]))
    if rng.random() < 0.7:
        hdr.append("#PLAYLEVEL " + rng.choice(["3", "12", "0", "??"]))
    bpm_key = "#BPM"
    hdr.append(f"{bpm_key} {dec_text(rng)}")
    if lnobj:
        hdr.append(f"#LNOBJ {lnobj}")
    for k, v in wav.items():
        hdr.append(f"#{rng.choice(['WAV', 'WAV', 'wav'])}{k} {v}")
    for k, v in exb.items():
        hdr.append(f"#{rng.choice(['BPM', 'BPM', 'bpm'])}{k} {v}")
    if exb and rng.random() < 0.08:        # a table entry defined twice: the later line is the one in force
        k = rng.choice(list(exb))
        v = dec_text(rng).strip()
        hdr.append(f"#BPM{k} {v}")
        exb[k] = v
    if wav and rng.random() < 0.08:
        k = rng.choice(list(wav))
        hdr.append(f"#WAV{k} again.wav")
    for _ in range(rng.choice([0, 1, 2])):
        hdr.append(rng.choice(["#GENRE test", "#PLAYER 1", "#RANK 2", "#TOTAL 300", "#STAGEFILE a.bmp", "#DIFFICULTY 4",
                               "#TITLE again", "#SUBTITLE [x]", "#BMP01 a.bmp", "#LNTYPE 1"]))
    if rng.random() < 0.3:
        rng.shuffle(hdr)
    # ---- tempo objects
    tempo_mode = rng.choice(["none", "measure", "measure", "compat", "compat", "incompat"])
    tempo = []      # (measure, pos, channel, id)
    if tempo_mode != "none":
        seen = set()
        for _ in range(rng.choice([2, 3, 5]) if tempo_mode == "incompat" else rng.choice([1, 1, 2, 3, 5])):
            m = rng.randrange(0, M + 1)
            if tempo_mode == "measure":
                p = Fr(0)
            elif tempo_mode == "compat":
                d = rng.choice(DIV_COMPAT)
                p = Fr(rng.randrange(d), d)
            else:
                d = rng.choice(DIV_INCOMPAT)
                p = Fr(rng.randrange(d), d)
            if (m, p) in seen and rng.random() < 0.9:
                continue
            seen.add((m, p))
            if exb and rng.random() < 0.5:
                tempo.append((m, p, "08", rng.choice(list(exb))))
            else:
                v = rng.choice(E_BPMS) if rng.random() < 0.6 else rng.randrange(30, 256)
                tempo.append((m, p, "03", f"{v:02X}" if rng.random() < 0.85 else f"{v:02x}"))
        if rng.random() < 0.12:
            tempo.append((0, Fr(0), "03", f"{rng.choice(E_BPMS):02X}"))
    # ---- lanes
    note_lines = []
    n_lanes = rng.choice([1, 2, 3, len(chans)])
    long_notes = 0
    for ch in rng.sample(chans, min(n_lanes, len(chans))):
        objs = []
        seen = set()
        for _ in range(rng.choice([0, 1, 2, 3, 4, 6])):
            m = rng.randrange(0, M + 1)
            d = rng.choice(DIV_ANY)
            p = Fr(rng.randrange(d), d)
            if (m, p) in seen and rng.random() < 0.93:
                continue
            seen.add((m, p))
            idv = rng.choice(list(wav)) if (wav and rng.random() < 0.6) else rid(rng, avoid=(lnobj,))
            objs.append([m, p, idv])
        objs.sort(key=lambda o: (o[0], o[1]))
        if lnobj:
            j = 1
            while j < len(objs):
                if rng.random() < 0.4:
                    objs[j][2] = lnobj          # closes objs[j-1]
                    long_notes += 1
                    j += 2
                else:
                    j += 1
            if objs and rng.random() < 0.03:
                objs[0][2] = lnobj              # nothing to close
        for m in sorted({o[0] for o in objs}):
            note_lines += lines_for(rng, m, ch, [(o[1], o[2]) for o in objs if o[0] == m], ordered=not unordered)
    for m in sorted({t[0] for t in tempo}):
        for ch in ("03", "08"):
            note_lines += lines_for(rng, m, ch, sorted((t[1], t[3]) for t in tempo if t[0] == m and t[2] == ch),
                                    ordered=not unordered)
    # ---- ignored channels, odd data, noise
    for _ in range(rng.choice([0, 0, 1, 2])):
        note_lines.append(f"#{rng.randrange(0, M + 1):03d}{rng.choice(['01', '04', '06', '07', 'A1', '51', '1A'])}:"
                          + "".join(rid(rng) if rng.random() < 0.5 else "00" for _ in range(rng.choice([1, 2, 4, 8]))))
    r = rng.random()
    if r < 0.04:
        ch = rng.choice(chans)
        note_lines.append(f"#{rng.randrange(0, M + 1):03d}{ch}:" + rng.choice(["011", "0", "1", "", "0100A", "000"]))
    elif r < 0.07:
        note_lines.append(rng.choice(["#", "#0", "#00111", "#001 11:01", "#001:11:01", "#00103:0G", "#00103:ZZ", "#00108:Q1",
                                      "#0A111:01", "#1"]))
    elif r < 0.09:
        hdr = [h for h in hdr if not h.startswith("#BPM ")]       # no #BPM header
    elif r < 0.11:
        hdr.append(rng.choice(["#BPM abc", "#BPMQQ 12x", "#BPM 1.2.3", "#BPM -"]))
    if unordered:
        rng.shuffle(note_lines)
    else:
        note_lines.sort(key=lambda l: l[1:4]) if rng.random() < 0.8 else None
    noise = rng.choice([[], [], ["", "*---------------------- HEADER FIELD"], ["#ENDIF", "; comment"], ["  "]])
    lines = hdr + noise + note_lines
    if rng.random() < 0.1:
        # headers anywhere in the file
        lines = note_lines[: len(note_lines) // 2] + hdr + note_lines[len(note_lines) // 2:]
    if rng.random() < 0.15:
        lines = [rng.choice(["", " ", "\t"]) + l + rng.choice(["", " ", "\r\n", "\n"]) for l in lines]
    return dict(claim="read", layout=layout, lines=lines)


def gen(rng, tier, i):
    case = gen_text(rng, tier, i)
    if rng.random() < 0.3:
        # through the FILE entry point: the lines must survive a trip through the file (no line ends inside a line)
        case["lines"] = [l.strip("\r\n") for l in case["lines"]]
        case["via"] = dict(mode="file", eol=rng.choice(["lf", "crlf", "crlf", "cr"]), trail=rng.random() < 0.3)
    if rng.random() < 0.2:
        # one or two other texts read first in the same process
        case["before"] = []
        for k in range(rng.choice([1, 1, 2])):
            b = gen_text(rng, tier, i)
            bb = dict(layout=b["layout"], lines=[l.strip("\r\n") for l in b["lines"]])
            if rng.random() < 0.4:
                bb["via"] = dict(mode="file", eol=rng.choice(["lf", "crlf", "cr"]), trail=False)
            case["before"].append(bb)
    return case


def corpus():
    c = []
    # D05: tail line before head line
    c.append(dict(claim="read", layout="BME", lines=["#BPM 120", "#LNOBJ ZZ", "#00211:ZZ", "#00111:01"], _expect="D05"))
    # D05 without raising: mispairing
    c.append(dict(claim="read", layout="BME", lines=["#BPM 120", "#LNOBJ ZZ", "#00311:01", "#00211:ZZ", "#00111:02"], _expect="D05"))
    # D22: tempo objects at slot 1/64 of measure 1 and slot 1/28 of measure 2
    c.append(dict(claim="read", layout="BME", lines=["#BPM 120", "#00103:" + "00" + "3C" + "00" * 62, "#00203:" + "00" + "78" + "00" * 26,
                                                     "#00311:01"], _expect="D22"))
    c.append(dict(claim="read", layout="BME",
                  lines=["#TITLE a b", "#ARTIST x", "#BPM 120", "#PLAYLEVEL 3", "#LNOBJ ZZ", "#WAV01 k.wav", "#BPM01 133.33", "#GENRE q",
                         "#00111:01000100", "#00211:0001", "#00212:01ZZ", "#00203:0040", "#00308:0100", "#00411:01"]))
    # measure-0 override first / not first in the file
    c.append(dict(claim="read", layout="BMS", lines=["#BPM 120", "#00003:3C", "#00111:01", "#00211:01"]))
    c.append(dict(claim="read", layout="BMS", lines=["#BPM 120", "#00103:F0", "#00003:3C", "#00111:01", "#00211:01"]))
    for lay in LAYOUTS:
        ch = LAYOUTS[lay]
        c.append(dict(claim="read", layout=lay, lines=["#BPM 150", "#LNOBJ AA"] + [f"#00{k % 3}{x}:00{B36[1 + k]}1" for k, x in enumerate(ch)]))
    c.append(dict(claim="read", layout="PMS", lines=["#BPM 120", "#00111:011"]))
    c.append(dict(claim="read", layout="PMS", lines=["#BPM 120", "#00111:1"]))
    c.append(dict(claim="read", layout="PMS", lines=["#BPM 120", "#"]))
    c.append(dict(claim="read", layout="PMS", lines=["#bpm 120"]))
    # where the reader's lexer is more liberal than the format (theorem lexer_dialect_facts): the model side of each
    # clause is replayed on the real code here
    for odd in ["#001111:01", "#1:01", "#0011*:01", "#001:11:01", "#00111", "#"]:
        c.append(dict(claim="read", layout="BME", lines=["#BPM 120", odd, "#00211:01"]))
    # a header defined twice keeps the place of its first definition and the value of its last (bookTable)
    c.append(dict(claim="read", layout="BME", lines=["#GENRE a", "#BPM 100", "#SUBTITLE s", "#GENRE b", "#BPM 120", "#GENRE c",
                                                     "#00111:0101", "#00111:00000001"]))
    # D43 (fixed): no #TITLE / #ARTIST / #PLAYLEVEL -> empty bytes, not str
    c.append(dict(claim="read", layout="BMS", lines=["#BPM 150", "#GENRE x", "#00111:0101"]))
    c.append(dict(claim="read", layout="BMS", lines=["#TITLE only title", "#BPM 150", "#00111:0101"]))
    c.append(dict(claim="read", layout="PMS", lines=["#BPM 120", "#BPM 150", "#00111:01", "#00211:01"]))
    c.append(dict(claim="read", layout="BME", lines=["#BPM 120", "#LNOBJ ZZ", "#00111:01ZZ02ZZ", "#00112:ZZ"]))
    # the FILE entry point: LF / CRLF / bare CR line ends, trailing blanks, a shift_jis header, another layout
    txt = ["#TITLE テスト ｱｲ", "#ARTIST 作者", "#BPM 150", "#LNOBJ ZZ", "#WAV01 k.wav", "#BPM01 75", "#00113:0100ZZ00", "#00108:0001",
           "#00222:01010101"]
    for eol in ("lf", "crlf", "cr"):
        c.append(dict(claim="read", layout="PMS", lines=txt, via=dict(mode="file", eol=eol, trail=(eol != "lf"))))
    # a form feed inside a header value: Python's line splitter cuts there, the format does not (theorem
    # read_file_splits_at_control_bytes); outside read_file_eq_denote, the model must still follow the code
    c.append(dict(claim="read", layout="BME", lines=["#TITLE a\x0cb", "#BPM 120", "#00111:01"], via=dict(mode="file", eol="lf", trail=False)))
    c.append(dict(claim="read", layout="BME", lines=["#BPM 120", "#00111:01\x1c#00112:01", "#00211:01"], via=dict(mode="file", eol="crlf", trail=True)))
    # state kept between reads: a table of the first text must not be visible to the second
    c.append(dict(claim="read", layout="BME", lines=["#BPM 120", "#00108:01", "#00111:0A"],
                  before=[dict(layout="BME", lines=["#BPM 100", "#BPM01 200", "#WAV0A k.wav", "#LNOBJ 0A", "#00108:01", "#00111:0A"])]))
    return c


NOTE_RE = re.compile(r"^#\d")
FLOATY = re.compile(r"^[0-9eE+\-. ]*$")


def valid(case):
    try:
        if case.get("claim") != "read" or case.get("layout") not in LAYOUTS:
            return False
        via = case.get("via")
        if via is not None:
            if not isinstance(via, dict) or via.get("mode") not in ("file", "lines", None) or via.get("eol", "lf") not in EOLS:
                return False
            if via.get("mode") == "file" and any(("\n" in l or "\r" in l) for l in case["lines"]):
                return False
        for b in case.get("before") or []:
            if not valid(dict(claim="read", layout=b.get("layout"), lines=b.get("lines"), via=b.get("via"))):
                return False
        for l in case["lines"]:
            if not isinstance(l, str):
                return False
            l.encode("shift_jis")
            s = l.strip()
            if s != l.strip(" \t\r\n"):
                return False                      # only ASCII white space at the ends
            if any(ord(ch) < 32 and ch not in "\t" for ch in s):
                return False
            if not s.startswith("#"):
                continue
            if " " in s:
                k, v = s.split(" ", 1)
                ku = k[1:].upper()
                if ku == "BPM" or (ku.startswith("BPM") and len(ku) == 5):
                    if not FLOATY.match(v) or "_" in v:
                        # letters: only texts float() certainly rejects
                        if re.search(r"(?i)inf|nan|_", v):
                            return False
                    try:
                        if float(v) <= 0:
                            return False          # non-positive tempo: outside the model
                    except ValueError:
                        pass
            elif NOTE_RE.match(s):
                if re.search(r"[_+\-\s]", s):
                    return False
                if s[4:6] == "02" and ":" in s:
                    return False                  # time signatures: outside C04
        return True
    except Exception:
        return False


# ------------------------------------------------------------------------------------------ adapter

def err_class(e):
    if isinstance(e, KeyError):
        return "key"
    if isinstance(e, IndexError):
        return "index"
    if isinstance(e, ZeroDivisionError):
        return "zerodiv"
    if isinstance(e, ValueError):
        return "value"
    if type(e) is Exception and "LN Tail" in str(e):
        return "lntail"
    return "other:" + type(e).__name__


def hx(b):
    """bytes -> hex; a `str` where bytes are expected is kept visible (D43: the converters call .decode)"""
    if b is None:
        return None
    if isinstance(b, str):
        return "str:" + b
    return bytes(b).hex()


EOLS = {"lf": "\n", "crlf": "\r\n", "cr": "\r"}
POISON = ["#TITLE earlier text", "#ARTIST earlier", "#PLAYLEVEL 9", "#BPM 99", "#LNOBJ QQ", "#BPMQ1 333", "#WAVQ2 earlier.wav",
          "#GENRE earlier", "#00008:Q1", "#00108:00Q1", "#00116:Q2QQ", "#00211:Q2"]


def file_bytes(lines, eol, trail):
    """the bytes of a BMS file holding `lines` (shift_jis, no BOM), line ends `eol`, optionally trailing blanks"""
    e = EOLS[eol]
    txt = e.join(lines)
    if trail:
        txt += e + "  " + e + e
    return txt.encode("shift_jis")


def lines_seen(case):
    """the lines the reader is handed: the list itself, or what `codecs` line splitting makes of the file
    (Python's `str.splitlines`: modelled, not verified)"""
    via = case.get("via") or {}
    if via.get("mode") == "file":
        return file_bytes(case["lines"], via.get("eol", "lf"), via.get("trail", False)).decode("shift_jis").splitlines()
    return list(case["lines"])


def read_one(BMSMap, BMSChannel, lines, layout, via):
    import os
    import tempfile
    cfg = getattr(BMSChannel, layout)
    if (via or {}).get("mode") == "file":
        fd, path = tempfile.mkstemp(prefix="c04-", suffix=".bms")
        try:
            with os.fdopen(fd, "wb") as f:
                f.write(file_bytes(lines, via.get("eol", "lf"), via.get("trail", False)))
            return BMSMap.read_file(path, cfg)
        finally:
            try:
                os.remove(path)
            except OSError:
                pass
    return BMSMap.read(list(lines), cfg)


def run_impl(case):
    import logging
    import warnings
    BMSMap, BMSChannel = _imports()
    logging.disable(logging.CRITICAL)
    try:
        with warnings.catch_warnings():
            warnings.simplefilter("ignore")
            # a fixed text is read first in EVERY run (so that state leaking between reads shows in a replay as well),
            # then the case's own earlier texts
            try:
                read_one(BMSMap, BMSChannel, POISON, "BME", None)
            except Exception:
                pass
            for b in case.get("before") or []:
                try:
                    read_one(BMSMap, BMSChannel, b["lines"], b["layout"], b.get("via"))
                except Exception:
                    pass
            m = read_one(BMSMap, BMSChannel, case["lines"], case["layout"], case.get("via"))
            out = dict(
                title=hx(m.title), artist=hx(m.artist), version=hx(m.version), ln_end=hx(m.ln_end_channel),
                exbpms={hx(k): Fr(float(v)) for k, v in m.exbpms.items()},
                samples={hx(k): hx(v) for k, v in m.samples.items()},
                misc={hx(k): hx(v) for k, v in m.misc.items()},
                hits=[(int(c), hx(s), Fr(float(o))) for c, s, o in zip(m.hits.column, m.hits.sample, m.hits.offset)],
                holds=[(int(c), hx(s), Fr(float(o)), Fr(float(ln))) for c, s, o, ln in
                       zip(m.holds.column, m.holds.sample, m.holds.offset, m.holds.length)],
                bpms=[(Fr(float(o)), Fr(float(b)), Fr(float(mt))) for o, b, mt in zip(m.bpms.offset, m.bpms.bpm, m.bpms.metronome)],
            )
            return ("ok", out)
    except Exception as e:
        return ("err", err_class(e))
    finally:
        logging.disable(logging.NOTSET)


def match_rows(a, b, key_n, tol=close):
    """multisets of rows equal: discrete prefix of length key_n equal, remaining numbers close"""
    if len(a) != len(b):
        return False
    ga, gb = {}, {}
    for r in a:
        ga.setdefault(tuple(r[:key_n]), []).append(tuple(r[key_n:]))
    for r in b:
        gb.setdefault(tuple(r[:key_n]), []).append(tuple(r[key_n:]))
    if set(ga) != set(gb):
        return False
    for k in ga:
        x, y = sorted(ga[k]), sorted(gb[k])
        if len(x) != len(y):
            return False
        for u, v in zip(x, y):
            if not all(tol(p, q) for p, q in zip(u, v)):
                return False
    return True


def max_dev(a, b, key_n):
    try:
        x = sorted(a, key=lambda r: (r[:key_n], r[key_n:]))
        y = sorted(b, key=lambda r: (r[:key_n], r[key_n:]))
        return max([dev(p, q) for u, v in zip(x, y) for p, q in zip(u[key_n:], v[key_n:])] or [0.0])
    except Exception:
        return 0.0


def measure_lines(bpms, horizon_extra=2):
    """measure lines generated by a reseated tempo list [(offset, bpm, met)] up to its last point (+ a few)"""
    out = []
    for i, (o, b, mt) in enumerate(bpms):
        ml = Fr(60000) / b * mt
        if ml <= 0:
            return None
        end = bpms[i + 1][0] if i + 1 < len(bpms) else o + horizon_extra * ml
        t = o
        n = 0
        while t < end - ml * Fr(1, 10 ** 6) and n < 5000:
            out.append(t)
            t += ml
            n += 1
    return out


def loose(a, b):
    return close(a, b, rel=Fr(1, 10 ** 9), abs_=Fr(1, 10 ** 7))


def bpms_agree(impl, model):
    """structural comparison, else comparison of the measure lines"""
    if len(impl) == len(model) and all(close(a[0], b[0]) and close(a[1], b[1]) and a[2] == b[2] for a, b in zip(impl, model)):
        return True, False
    la, lb = measure_lines(impl), measure_lines(model)
    if la is None or lb is None:
        return False, False
    # drop (near-)duplicates produced by zero-length segments
    def dedup(l):
        r = []
        for t in sorted(l):
            if not r or not loose(r[-1], t):
                r.append(t)
        return r
    la, lb = dedup(la), dedup(lb)
    last_ok = loose(impl[-1][0], model[-1][0]) and loose(impl[-1][1] / impl[-1][2], model[-1][1] / model[-1][2]) if impl and model else False
    n = min(len(la), len(lb))
    same = abs(len(la) - len(lb)) <= 2 and all(loose(x, y) for x, y in zip(la[:n - 2], lb[:n - 2]))
    return bool(same and last_ok), True


def none_empty(x):
    return "" if x is None else x


def header_equal(impl, h):
    """impl dict vs a Lean `Header` json"""
    ok = (impl["title"] == h["title"] and impl["artist"] == h["artist"]
          and impl["version"] == h["version"] and impl["ln_end"] == h["ln_end"])
    ok = ok and impl["samples"] == {k: v for k, v in h["samples"]}
    ok = ok and impl["misc"] == {k: v for k, v in h["misc"]}
    ex = {k: F(v) for k, v in h["exbpms"]}
    ok = ok and set(ex) == set(impl["exbpms"]) and all(close(impl["exbpms"][k], ex[k]) for k in ex)
    return ok


def run(case, drv):
    lines_hex = [l.encode("shift_jis").hex() for l in lines_seen(case)]
    layout = case["layout"]
    impl = run_impl(case)
    tags = [layout]
    spec_hex = lines_hex
    file_lines_differ = False
    if (case.get("via") or {}).get("mode") == "file":
        tags.append("via:read_file:" + (case["via"].get("eol") or "lf"))
        # the model reads the FILE (`readFile`: Python's line splitting `pyLines` is part of the model); the
        # specification splits the file itself (`fileLines`: LF / CRLF / bare CR).  Python's splitter knows more
        # separators (VT, FF, FS, GS, RS): a file holding one of those is outside read_file_eq_denote
        fb = file_bytes(case["lines"], case["via"].get("eol", "lf"), case["via"].get("trail", False))
        m = drv.call("c04.read_file", layout=layout, bytes=fb.hex())
        spec_hex = drv.call("c04.file_lines", bytes=fb.hex())["ok"]
        if spec_hex != lines_hex:
            file_lines_differ = True
            tags.append("file-lines-differ")
            spec_hex = lines_hex
    else:
        m = drv.call("c04.read", layout=layout, lines=lines_hex)
    den = drv.call("c04.denote", layout=layout, lines=spec_hex)["ok"]
    flags = den["flags"]
    d = den["den"]
    if not flags["book_lexed"] and flags["shared_defined"]:
        tags.append("dialect:reader-more-liberal")
    if case.get("before"):
        tags.append("after-other-reads")
    detail = {}
    agree, ok, boundary, maxdev = True, True, False, 0.0
    if "err" in m and m["err"] == "unsupported":
        return dict(claim="read", ok=True, agree=True, dom=False, kf=None, tags=tags + ["unsupported"], nontrivial=False)
    lex_gap = not flags["lex_agree"]
    if lex_gap:
        # the proved agreement of the two lexers (bookDoc_parseDoc / denoteText_eq_denote) failed on this text
        tags.append("lexer-gap")
        detail["lexer"] = "specification's lexer and the reader model's classifier disagree on a text the former gives a meaning"
    margins = list(flags["resnap_margins"]) + (m["ok"]["resnap_margins"] if "ok" in m else [])
    near_tie = any(F(x) < TOL_MARGIN for x in margins)
    # ---------------- (C) implementation vs model
    if impl[0] == "err" or "err" in m:
        agree = impl[0] == "err" and "err" in m and impl[1] == m["err"]
        tags.append("raises:" + (impl[1] if impl[0] == "err" else "model-only"))
        if not agree:
            detail["corr"] = dict(impl=impl if impl[0] == "err" else "ok", model=m if "err" in m else "ok")
    else:
        o, mo = impl[1], m["ok"]
        mh = [(h[0], h[1], F(h[2])) for h in mo["hits"]]
        ml = [(h[0], h[1], F(h[2]), F(h[3])) for h in mo["holds"]]
        mb = [(F(b[2]), F(b[0]), F(b[1])) for b in mo["bpms"]]
        a_h = match_rows(o["hits"], mh, 2)
        a_l = match_rows(o["holds"], ml, 2)
        a_b, by_lines = bpms_agree(o["bpms"], mb)
        a_hd = header_equal(o, mo["header"])
        maxdev = max(max_dev(o["hits"], mh, 2), max_dev(o["holds"], ml, 2)) if (a_h and a_l) else 0.0
        if by_lines and a_b:
            tags.append("bpms-by-measure-lines")
        if not (a_h and a_l and a_b) and near_tie and a_hd and len(o["hits"]) == len(mh) and len(o["holds"]) == len(ml):
            boundary = True          # a tempo position sits on a snapping tie: either side is accepted
            tags.append("float-boundary")
        else:
            agree = a_h and a_l and a_b and a_hd
        if not agree:
            detail["corr"] = dict(hits=a_h, holds=a_l, bpms=a_b, header=a_hd,
                                  impl=dict(hits=[(c, s, float(t)) for c, s, t in o["hits"]][:20],
                                            holds=[(c, s, float(t), float(g)) for c, s, t, g in o["holds"]][:20],
                                            bpms=[(float(a), float(b), float(c)) for a, b, c in o["bpms"]][:20]),
                                  model=dict(hits=[(c, s, float(t)) for c, s, t in mh][:20],
                                             holds=[(c, s, float(t), float(g)) for c, s, t, g in ml][:20],
                                             bpms=[(float(a), float(b), float(c)) for a, b, c in mb][:20]))
    # ---------------- (S) specification on the implementation's output
    kf = None
    if d is None:
        tags.append("spec-silent")
        in_dom = False
    else:
        in_dom = flags["grid_compatible"] and flags["lanes_ordered"] and not file_lines_differ
        if in_dom and "err" in m:
            # read_eq_denote: inside its hypotheses the reader model SUCCEEDS (final reseat included)
            agree = False
            tags.append("theorem-gap")
            detail["theorem"] = dict(model=m, note="model raises inside the hypotheses of read_eq_denote")
        if "ok" in m:
            # hypothesis `hst` of bms_times_partial, evaluated by the model; K1's claim "grid-compatible => stable"
            # is checked on every case
            in_dom = in_dom and m["ok"]["resnap_stable"]
            if m["ok"]["grid_compatible"] and not m["ok"]["resnap_stable"]:
                agree = False
                tags.append("k1-gap")
                detail["k1"] = "grid-compatible tempo list is not re-snap stable"
        sh = [(h[0], h[1], F(h[2])) for h in d["hits"]]
        sl = [(h[0], h[1], F(h[2]), F(h[3])) for h in d["holds"]]
        if impl[0] == "err":
            ok = False                      # the text has a meaning: the reader must read it
            detail["spec"] = dict(impl=impl, denotation="defined")
        else:
            o = impl[1]
            s_h = match_rows(o["hits"], sh, 2)
            s_l = match_rows(o["holds"], sl, 2)
            s_hd = header_equal(o, d["header"])
            # initial tempo: the tempo in force at time 0 (skipped when a tempo object sits inside measure 0, which
            # the reseated list represents by a rescaled first measure)
            s_t0 = True
            tempo = d["tempo"]
            inside0 = any(t[2][0] == 0 and F(t[2][1]) > 0 for t in tempo)
            if not inside0 and o["bpms"]:
                init = [F(t[0]) for t in tempo if t[2][0] == 0 and F(t[2][1]) == 0][-1]
                at0 = [b for b in o["bpms"] if abs(b[0]) <= Fr(1, 10 ** 6)]
                s_t0 = bool(at0) and loose(at0[-1][1], init) and o["bpms"][0][0] == 0
            elif not o["bpms"]:
                s_t0 = False
            ok = s_h and s_l and s_hd and s_t0
            if not (s_h and s_l) and near_tie and s_hd and s_t0 and not flags["grid_compatible"]:
                pass                        # still D22 territory: judged below
            if not ok:
                detail["spec"] = dict(hits=s_h, holds=s_l, header=s_hd, initial_tempo=s_t0,
                                      impl=dict(hits=[(c, s, float(t)) for c, s, t in o["hits"]][:20],
                                                holds=[(c, s, float(t), float(g)) for c, s, t, g in o["holds"]][:20],
                                                bpms=[(float(a), float(b), float(c)) for a, b, c in o["bpms"]][:8]),
                                      denotation=dict(hits=[(c, s, float(t)) for c, s, t in sh][:20],
                                                      holds=[(c, s, float(t), float(g)) for c, s, t, g in sl][:20]))
        if not ok:
            if flags["d05"]:
                kf = "D05"
            elif not flags["grid_compatible"]:
                kf = "D22"
    if flags["d05"]:
        tags.append("d05-pred")
    if not flags["grid_compatible"]:
        tags.append("grid-incompatible")
    if not flags["lanes_ordered"]:
        tags.append("lanes-unordered")
    n_tempo = max(0, len(d["tempo"]) - 1) if d else 0
    n_holds = len(d["holds"]) if d else 0
    if n_holds:
        tags.append("long-notes")
    if n_tempo:
        tags.append("tempo-objects")
    nontrivial = bool(d) and (n_holds > 0 or (n_tempo > 0 and len(d["hits"]) > 0) or not flags["lanes_ordered"])
    return dict(claim="read", ok=ok, agree=bool(agree and not lex_gap), dom=bool(in_dom), kf=kf, tags=tags, nontrivial=nontrivial, maxdev=maxdev,
                boundary=boundary, detail=detail)
