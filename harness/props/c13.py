"""C13 — rate change scales time uniformly, composes, and survives a write.

Correspondence: Map.rate / OsuMap.rate / MapSet.rate / SMMapSet.rate (all five games' map classes, the base
classes, SMMapSet, O2JMapSet) against Model/Rate.lean (the stacker: concat, column assignment, `_update`);
specification: Spec/Rate.lean (`setScalesB`, `closeSet`) evaluated by the driver on the implementation's output.
Claims: scale (one rate; also: original untouched, result shares nothing with it), one (rate 1 = identity),
comp (rate a then b = rate a*b), writeread (write the rated chart, read it back: the rated timeline; implementation
side only — the writers/readers are other properties' models).
Two number streams (DESIGN §3): E = values on which every double operation of the code is exact (equality
required), T = arbitrary doubles (2^-40 tolerance).
"""
import copy as _copy
import dataclasses
import math
from fractions import Fraction as Fr

from lib.rat import R, F, close

ID = "C13"
QUICK_N = 1200
THOROUGH_N = 20000
QUICK_BUDGET_S = 80
THOROUGH_BUDGET_S = 900
RULE = ("maps / map sets of all five games and the base classes (0-3 maps, every list 0-6 rows incl. all-empty lists, "
        "shuffled row labels and column order, file-level fields; lists built float-typed or integer-typed: int64 frames, items from "
        "Python ints, from_dict with ints, Quaver charts re-read from a .qua document; 60 % of the charts reach the final rate through "
        "a history on the same object: m.stack() / an earlier rate, then list-property edits (`m.hits.offset += d`, `m.bpms.bpm = ...`) or "
        "replacement by a list with as many rows; the chart is snapshotted right before the final rate), rate r > 0 from the exact stream (p/2^k with all times "
        "multiples of p: every double operation exact, equality required) or arbitrary positive doubles (2^-40 tolerance); "
        "claims scale / one / comp / writeread; writeread (osu, StepMania, Quaver, BMS; also half of the search stream) in two modes: grid = chart "
        "and rate arranged so that the rated chart is on the format's grid, free = only the un-rated chart is on the grid and the rate is any of "
        "3, 3/2, 3/4, 11/10, 1/3, 2/3, 9/10, 147/160, n/100 ... so that the rated offsets, header times, sample windows, preview points, tempos "
        "and lengths are non-terminating / sub-millisecond values; non-trivial = r != 1 and at least one non-empty list with a time in it")
ASSUMPTIONS = [
    "row labels and dtypes are not compared (stacking renumbers labels and floats int columns; the property does not name them)",
    "writeread is checked on the implementation side only: read(write(rate r c)) against the Lean specification "
    "scaleSet r applied to read(write(c)); the writers/readers themselves are the subject of C01/C03/C05/C06",
    "writeread: the UN-rated chart is generated on each format's grid (integer milliseconds for osu / Quaver, beats on the 1/48 grid "
    "for StepMania and BMS); the rated chart is on the grid in `grid` mode and off it in `free` mode, where a time the format stores in "
    "whole ms (osu / Quaver: `int(...)` in the writers, C01 / C06) may come back as a whole number < 1 ms away and nothing else may move",
    "BMS rates whose rated tempo is not a three-decimal number are the open finding D06 (C05), reported as KNOWN-FINDING",
]
TRUSTED_EXTRA = ["copy.deepcopy (modelled as purity of the model; aliasing is observed: before/after snapshot, np.shares_memory)"]

EPS_T = Fr(1, 2 ** 40)
EPS_WR = Fr(1, 2 ** 30)

# ------------------------------------------------------------------------------------------ schema (mirrors the source;
# the translator harness/translators/rate_schema.py regenerates the Lean copy and `schema_tie` re-checks it)

# list name -> (module, class, [(column, kind)]) ; kinds: t time, d duration, b bpm, f float, i int, B bool, s str, k keysound list
_BASE_BPM = [("bpm", "b"), ("metronome", "f"), ("offset", "t")]
_OSU_NOTE = [("hitsound_set", "i"), ("sample_set", "i"), ("addition_set", "i"), ("custom_set", "i"), ("volume", "i"),
             ("hitsound_file", "s")]
_OSU_TP = [("sample_set", "i"), ("sample_set_index", "i"), ("volume", "i"), ("kiai", "B")]
SCHEMA = {
    "base": ("reamber.base.Map", "Map", [
        ("hits", "reamber.base.lists.notes.HitList", "HitList", [("column", "i"), ("offset", "t")]),
        ("holds", "reamber.base.lists.notes.HoldList", "HoldList", [("length", "d"), ("column", "i"), ("offset", "t")]),
        ("bpms", "reamber.base.lists.BpmList", "BpmList", _BASE_BPM)]),
    "osu": ("reamber.osu.OsuMap", "OsuMap", [
        ("svs", "reamber.osu.lists.OsuSvList", "OsuSvList", [("multiplier", "f")] + _OSU_TP + [("offset", "t")]),
        ("hits", "reamber.osu.lists.notes.OsuHitList", "OsuHitList", [("column", "i"), ("offset", "t")] + _OSU_NOTE),
        ("holds", "reamber.osu.lists.notes.OsuHoldList", "OsuHoldList",
         [("length", "d"), ("column", "i"), ("offset", "t")] + _OSU_NOTE),
        ("bpms", "reamber.osu.lists.OsuBpmList", "OsuBpmList", _OSU_TP + _BASE_BPM)]),
    "qua": ("reamber.quaver.QuaMap", "QuaMap", [
        ("svs", "reamber.quaver.lists.QuaSvList", "QuaSvList", [("multiplier", "f"), ("offset", "t")]),
        ("hits", "reamber.quaver.lists.notes.QuaHitList", "QuaHitList", [("column", "i"), ("offset", "t"), ("keysounds", "k")]),
        ("holds", "reamber.quaver.lists.notes.QuaHoldList", "QuaHoldList",
         [("keysounds", "k"), ("length", "d"), ("column", "i"), ("offset", "t")]),
        ("bpms", "reamber.quaver.lists.QuaBpmList", "QuaBpmList", _BASE_BPM)]),
    "sm": ("reamber.sm.SMMap", "SMMap", [
        ("fakes", "reamber.sm.lists.notes", "SMFakeList", [("column", "i"), ("offset", "t")]),
        ("lifts", "reamber.sm.lists.notes", "SMLiftList", [("column", "i"), ("offset", "t")]),
        ("keysounds", "reamber.sm.lists.notes", "SMKeySoundList", [("column", "i"), ("offset", "t")]),
        ("mines", "reamber.sm.lists.notes", "SMMineList", [("column", "i"), ("offset", "t")]),
        ("rolls", "reamber.sm.lists.notes", "SMRollList", [("length", "d"), ("column", "i"), ("offset", "t")]),
        ("stops", "reamber.sm.lists.SMStopList", "SMStopList", [("length", "d"), ("offset", "t")]),
        ("hits", "reamber.sm.lists.notes", "SMHitList", [("column", "i"), ("offset", "t")]),
        ("holds", "reamber.sm.lists.notes", "SMHoldList", [("length", "d"), ("column", "i"), ("offset", "t")]),
        ("bpms", "reamber.sm.lists.SMBpmList", "SMBpmList", _BASE_BPM)]),
    "bms": ("reamber.bms.BMSMap", "BMSMap", [
        ("hits", "reamber.bms.lists.notes.BMSHitList", "BMSHitList", [("column", "i"), ("offset", "t"), ("sample", "i")]),
        ("holds", "reamber.bms.lists.notes.BMSHoldList", "BMSHoldList",
         [("length", "d"), ("column", "i"), ("offset", "t"), ("sample", "i")]),
        ("bpms", "reamber.bms.lists.BMSBpmList", "BMSBpmList", _BASE_BPM)]),
    "o2j": ("reamber.o2jam.O2JMap", "O2JMap", [
        ("hits", "reamber.o2jam.lists.notes.O2JHitList", "O2JHitList",
         [("column", "i"), ("offset", "t"), ("volume", "i"), ("pan", "i")]),
        ("holds", "reamber.o2jam.lists.notes.O2JHoldList", "O2JHoldList",
         [("length", "d"), ("column", "i"), ("offset", "t"), ("volume", "i"), ("pan", "i")]),
        ("bpms", "reamber.o2jam.lists.O2JBpmList", "O2JBpmList", _BASE_BPM)]),
}
OSU_SAMPLE_COLS = [("offset", "t"), ("sample_file", "s"), ("volume", "i")]
GAMES = ["base", "osu", "qua", "sm", "bms", "o2j"]
E_BPMS = [50, 60, 75, 100, 120, 125, 128, 150, 160, 200, 240, 250, 300, 375, 37.5, 62.5, 93.75, 187.5, 480, 600]

# fields the model carries by name (everything else of a dataclass goes into `meta`, expected unchanged)
MAP_MODELLED = {"osu": {"objs", "samples", "preview_time"}}
SET_MODELLED = {"sm": {"maps", "offset", "sample_start", "sample_length"}}


def _cls(mod, name):
    import importlib
    return getattr(importlib.import_module(mod), name)


# ------------------------------------------------------------------------------------------ generators

def gen_rate(rng, stream):
    """-> (Fraction r, int p) : on the E stream r = p / 2^k and every time is generated as a multiple of p"""
    if stream == "E":
        p = rng.choice([1, 1, 3, 5, 7, 9, 15])
        k = rng.randint(-2, 3)
        return Fr(p) / (Fr(2) ** k), p
    c = rng.random()
    if c < 0.4:
        r = round(rng.uniform(0.25, 3.0), rng.choice([1, 2, 2, 3]))
    elif c < 0.8:
        r = rng.uniform(0.1, 4.0)
    else:
        r = rng.choice([1 / 3, 2 / 3, 1.1, 0.9, 1.5, 1.05, 1e-3, 1e3, 44100 / 48000, 3.0, 0.7, 1.5, 1 / 3])
    if r <= 0:
        r = 1.5
    return Fr(float(r)), 1


def gen_time(rng, stream, mult, lo=-2000, hi=400000):
    if stream == "E":
        c = rng.random()
        if c < 0.7:
            return Fr(mult * rng.randint(lo // 8, hi // 8))
        return Fr(mult * rng.randint(lo, hi), 2 ** rng.randint(1, 6))
    c = rng.random()
    if c < 0.5:
        return Fr(float(rng.randint(lo, hi)))
    if c < 0.8:
        return Fr(round(rng.uniform(lo, hi), rng.choice([1, 2, 3])))
    return Fr(rng.uniform(lo, hi))


def gen_dur(rng, stream, mult):
    if stream == "E":
        return Fr(mult * rng.randint(0, 4000), 2 ** rng.randint(0, 3))
    return Fr(rng.choice([0.0, float(rng.randint(1, 5000)), rng.uniform(0, 5000)]))


def gen_bpm(rng, stream):
    if stream == "E" or rng.random() < 0.5:
        return Fr(rng.choice(E_BPMS))
    return Fr(round(rng.uniform(30, 400), rng.choice([0, 1, 2, 6])))


def gen_cell(rng, stream, mult, kind, col):
    if kind == "t":
        return R(gen_time(rng, stream, mult))
    if kind == "d":
        return R(gen_dur(rng, stream, mult))
    if kind == "b":
        return R(gen_bpm(rng, stream))
    if kind == "f":
        if col == "metronome":
            return R(rng.choice([4, 4, 3, 5, 7, 1]))
        return R(Fr(rng.choice([1.0, 0.5, 2.0, 0.25, 1.25, 10.0, 0.01])))
    if kind == "i":
        if col == "column":
            return R(rng.randint(0, 7))
        return R(rng.randint(0, 100))
    if kind == "B":
        return rng.random() < 0.3
    if kind == "s":
        return rng.choice(["", "", "a.wav", "hit 1.ogg", "ス.wav"])
    if kind == "k":
        return dict(o=rng.choice(["[]", "[]", "[{'Sample': 1, 'Volume': 50}]", "[{'Sample': 2}, {'Sample': 3, 'Volume': 10}]"]))
    raise ValueError(kind)


def gen_frame(rng, stream, mult, cols, max_rows=6, force_empty=False):
    n = 0 if force_empty else rng.choice([0, 0, 1, 1, 2, 3, 4, max_rows])
    names = [c for c, _ in cols]
    order = list(range(len(cols)))
    if rng.random() < 0.3:
        rng.shuffle(order)
    cols_o = [cols[i] for i in order]
    rows = [[gen_cell(rng, stream, mult, k, c) for c, k in cols_o] for _ in range(n)]
    if n >= 2 and rng.random() < 0.25:      # duplicate times / rows
        rows[1] = list(rows[0])
    labels = None
    if n and rng.random() < 0.3:
        labels = rng.sample(range(0, 50), n)
        if rng.random() < 0.3:
            labels = [labels[0]] * n          # duplicate labels
    fr = dict(cols=[c for c, _ in cols_o], rows=rows)
    if labels is not None:
        fr["labels"] = labels
    # how the list is built: float-typed frame (default), or integer-typed time / duration / tempo columns
    # (an int64 frame, items made from Python ints, from_dict with ints) — then every such value is a whole number
    if rng.random() < 0.4:
        fr["typing"] = rng.choice(["int64", "items", "from_dict"])
        for row in rows:
            for j, (c, k) in enumerate(cols_o):
                if k in ("t", "d"):
                    q = F(row[j])
                    row[j] = R(Fr(mult * round(q / mult)))
                elif k == "b":
                    row[j] = R(Fr(max(1, round(F(row[j])))))
    return fr


def gen_chart(rng, stream, mult, game, empties="some"):
    lists = []
    for name, _, _, cols in SCHEMA[game][2]:
        force_empty = empties == "all" or (empties == "some" and rng.random() < 0.25)
        fr = gen_frame(rng, stream, mult, cols, force_empty=force_empty)
        if name == "bpms" and empties != "all" and not fr["rows"] and rng.random() < 0.8:
            fr = gen_frame(rng, stream, mult, cols)
        lists.append([name, fr])
    ch = dict(lists=lists, samples=None, preview=None, meta_set={})
    if game == "osu":
        ch["samples"] = gen_frame(rng, stream, mult, OSU_SAMPLE_COLS, force_empty=(empties == "all" or rng.random() < 0.4))
        c = rng.random()
        if c < 0.25 and (stream == "T" or mult == 1):
            ch["preview"] = R(-1)
            ch["preview_int"] = True
        else:
            ch["preview"] = R(gen_time(rng, stream, mult, 0, 200000))
            ch["preview_int"] = rng.random() < 0.5 and F(ch["preview"]).denominator == 1
        ch["meta_set"] = dict(title=rng.choice(["t", "a:b", ""]), circle_size=rng.choice([4.0, 7.0]), audio_lead_in=rng.choice([0, 1000]))
    elif game == "qua":
        ch["meta_set"] = dict(title=rng.choice(["q", ""]), song_preview_time=rng.choice([0, 1234]))
    elif game == "sm":
        ch["meta_set"] = dict(difficulty=rng.choice(["Hard", "Edit"]), difficulty_val=rng.randint(1, 20))
    elif game == "bms":
        ch["meta_set"] = dict(title=rng.choice(["b", "x"]).encode().decode())
    return ch


def gen_set(rng, stream, mult, game, level):
    if level == "map":
        maps = [gen_chart(rng, stream, mult, game, empties=rng.choice(["some", "some", "some", "none", "none", "none", "all"]))]
    else:
        k = rng.choice([0, 1, 1, 2, 3])
        maps = [gen_chart(rng, stream, mult, game, empties=rng.choice(["some", "some", "some", "none", "none", "none", "all"])) for _ in range(k)]
    s = dict(maps=maps, offset=None, sample_start=None, sample_length=None, meta_set={})
    if game == "qua" and rng.random() < 0.3:
        s["via_file"] = True
    if level == "set" and game == "sm":
        c = rng.random()
        # None = a set built from objects whose file offset was never set (rates without raising since the D04 follow-up)
        s["offset"] = None if c < 0.1 else (R(0) if c < 0.22 else R(gen_time(rng, stream, mult, -3000, 3000)))
        s["sample_start"] = R(gen_time(rng, stream, mult, 0, 100000))
        s["sample_length"] = R(gen_dur(rng, stream, mult)) if rng.random() < 0.8 else R(10)
        s["meta_set"] = dict(title=rng.choice(["s", "a;b"]), music="m.ogg", selectable=rng.random() < 0.7)
    elif level == "set" and game == "o2j":
        s["meta_set"] = dict(title="o", bpm=rng.choice([120.0, 150.5]))
    return s


def gen_history(rng, stream, mult, game, level, s):
    """what happened to the chart before it is rated: a stacker was taken (`m.stack()`), the chart is itself the result
    of an earlier `rate`, and — after that — lists were edited through their properties or replaced by lists with as
    many rows.  The chart is snapshotted after the history, right before the final `rate`."""
    h = []
    if not s["maps"]:
        return h
    c = rng.random()
    if c < 0.45:
        return h
    if c < 0.8:
        h.append(dict(op="stack", read=rng.random() < 0.5))
    else:
        r0, _ = gen_rate(rng, stream)
        h.append(dict(op="rate", r=R(r0)))
    names = [n for n, _, _, _ in SCHEMA[game][2]]
    for _ in range(rng.choice([1, 1, 2, 3])):
        mi = rng.randrange(len(s["maps"]))
        name = rng.choice(names + ["hits", "bpms", "holds"])
        k = rng.random()
        if k < 0.4:
            h.append(dict(op="shift", map=mi, list=name, col="offset", by=R(Fr(mult * rng.choice([160, -40, 1000, 7])))))
        elif k < 0.6:
            h.append(dict(op="mul", map=mi, list=name, col=rng.choice(["bpm", "length", "offset"]), by=R(Fr(rng.choice([2, 3, 1]) , rng.choice([1, 2])))))
        else:
            h.append(dict(op="replace", map=mi, list=name, by=R(Fr(mult * rng.choice([160, 16, -8])))))
    if rng.random() < 0.2:
        h.append(dict(op="stack", read=True))
    return h


def gen(rng, tier, i):
    case = _gen(rng, tier, i)
    if case["claim"] != "writeread" and rng.random() < 0.6:
        case["history"] = gen_history(rng, case["stream"], 1, case["game"], case["level"], case["set"])
    if case.get("stream") == "E":
        rs = [case["r"]] if case["claim"] in ("scale", "one") else [case["a"], case["b"]]
        if not _on_e_stream(case, rs):
            case["stream"] = "T"        # some value left the exact domain: compare within the tolerance instead
    return case


def _gen(rng, tier, i):
    c = rng.random()
    if c < 0.12:
        return gen_writeread(rng)
    game = rng.choice(GAMES)
    level = rng.choice(["map", "set"])
    stream = "E" if rng.random() < 0.5 else "T"
    claim = "scale" if c < 0.62 else ("comp" if c < 0.9 else "one")
    if claim == "comp":
        a, pa = gen_rate(rng, stream)
        b, pb = gen_rate(rng, stream)
        mult = pa * pb
        return dict(claim="comp", game=game, level=level, stream=stream, a=R(a), b=R(b),
                    set=gen_set(rng, stream, mult, game, level))
    if claim == "one":
        return dict(claim="one", game=game, level=level, stream=stream, r=R(1), set=gen_set(rng, stream, 1, game, level))
    r, p = gen_rate(rng, stream)
    return dict(claim="scale", game=game, level=level, stream=stream, r=R(r), set=gen_set(rng, stream, p, game, level))


# ---- write -> read

WR_GAMES = ["osu", "sm", "qua", "bms"]


def gen_writeread(rng):
    """a chart on the format's grid, in musical terms: tempo points at whole beats, notes on the 1/48 grid;
    built into the game's objects by `build_wr` (times = t0 + beats * 60000 / bpm with dyadic beat lengths)"""
    game = rng.choice(WR_GAMES)
    if rng.random() < 0.5:
        return gen_writeread_free(rng, game)
    # rate: r = p / q small; beat lengths 60000/bpm are chosen so that everything stays on the integer-ms grid for osu
    p, q = rng.choice([(1, 1), (2, 1), (1, 2), (3, 2), (2, 3), (3, 4), (4, 3), (5, 4), (4, 5), (3, 1), (1, 4)])
    if game in ("osu", "qua"):
        # these writers truncate times to whole milliseconds (`int(...)`): keep r an exact double so that no rated
        # time lands one ulp below an integer (a float boundary of the *writer*, DESIGN §3 — C01/C06's business)
        p, q = rng.choice([(1, 1), (2, 1), (1, 2), (3, 2), (3, 4), (5, 4), (3, 1), (1, 4), (5, 2), (7, 4)])
    if game == "bms":
        # #BPMxx is written with 3 decimals (D06, C05's business): keep 60000/bl and its rated image on that grid
        p, q = rng.choice([(1, 1), (2, 1), (1, 2), (5, 4), (4, 5), (1, 4), (5, 2), (2, 5)])
    n_bpm = rng.choice([1, 1, 2, 3])
    keys = rng.choice([4, 7]) if game != "sm" else 4
    # beat lengths (ms) divisible by 48 * p so that every note time and its rated image are whole ms:
    bl_choices = [48 * p * k for k in ((2, 3, 4, 5, 6, 8, 10) if game != "bms" else (2, 4, 5, 10))]
    bpms = []
    beat = 0
    for j in range(n_bpm):
        bpms.append(dict(beat=beat, bl=rng.choice(bl_choices)))
        beat += rng.choice([4, 8, 12])
    n_hits = rng.choice([0, 1, 3, 6])
    n_holds = rng.choice([0, 0, 1, 3])
    total = beat + 8
    hits, holds = [], []
    spans = []                      # (column, first beat, last beat) occupied
    for _ in range(n_holds):
        b = Fr(rng.randrange(0, total * 4), 4)
        ln = Fr(rng.randrange(1, 32), 4)
        col = rng.randrange(keys)
        if any(c2 == col and not (b + ln < lo or hi < b) for c2, lo, hi in spans):
            continue
        spans.append((col, b, b + ln))
        holds.append(dict(beat=R(b), len=R(ln), col=col))
    for _ in range(n_hits):
        b = Fr(rng.randrange(0, total * 48), 48) if rng.random() < 0.5 else Fr(rng.randrange(0, total * 4), 4)
        col = rng.randrange(keys)
        if any(c2 == col and lo <= b <= hi for c2, lo, hi in spans):
            continue
        spans.append((col, b, b))
        hits.append(dict(beat=R(b), col=col))
    t0 = rng.choice([0, 0, 1, -1, 5, -7, 20, 33]) * 48 * p
    if game == "bms":
        t0 = 0          # the format has no file offset: the first tempo point is at 0
    case = dict(claim="writeread", game=game, r=R(Fr(p, q)), keys=keys, t0=t0, bpms=bpms, hits=hits, holds=holds)
    if game == "osu":
        case["preview"] = rng.choice([0, 48 * p * rng.randint(1, 500), 48 * p * rng.randint(1, 500), -1])
        case["samples"] = [dict(t=48 * p * rng.randint(0, 900), vol=rng.randint(1, 100)) for _ in range(rng.choice([0, 0, 1, 3]))]
        case["svs"] = [dict(t=48 * p * rng.randint(0, 900), m=rng.choice([0.5, 2.0, 1.25])) for _ in range(rng.choice([0, 0, 2]))]
    if game == "sm":
        case["sample_start"] = 48 * p * rng.randint(0, 500)
        case["sample_length"] = 48 * p * rng.randint(1, 300)
    if game == "qua":
        case["svs"] = [dict(t=48 * p * rng.randint(0, 900), m=rng.choice([0.5, 2.0, 1.25])) for _ in range(rng.choice([0, 0, 2]))]
    return case


# rates whose results are not representable at a writer's apparent resolution (whole ms, three decimals, ...):
# x / r is non-terminating or sub-millisecond for ordinary whole-ms x, bpm * r has a long expansion
FREE_RATES = [(3, 1), (3, 2), (3, 4), (11, 10), (1, 3), (2, 3), (9, 10), (21, 20), (147, 160), (7, 10), (4, 3), (6, 5), (7, 1),
              (13, 10), (8, 7), (1, 7), (17, 16), (1001, 1000), (999, 1000)]


def gen_writeread_free(rng, game):
    """as gen_writeread, but only the UN-rated chart sits on the format's grid (whole-ms times for osu / Quaver, beats on
    the 1/48 grid everywhere): nothing is arranged to be divisible by the rate, so the rated offsets, header times,
    sample windows, preview points, tempos and lengths are non-terminating / sub-millisecond values.  The judgement
    (run_writeread) allows exactly the quantisation the format itself applies to a time (whole ms in osu / Quaver)."""
    if game == "bms":
        # #BPMxx carries three decimals (open D06, C05's business): rates n/100 keep 60000/bl * r on that grid for the
        # beat lengths below, while the rated times leave the millisecond grid
        n = rng.choice([110, 90, 105, 75, 150, 300, 70, 120, 220, 33, 95, 125, 260, 99, 101, rng.randint(25, 300)])
        r = Fr(n, 100)
        if rng.random() < 0.25:
            r = Fr(*rng.choice(FREE_RATES))         # any rate: where the rated tempo leaves the three decimals it is D06
    elif rng.random() < 0.75:
        r = Fr(*rng.choice(FREE_RATES))
    else:
        r = Fr(rng.randint(25, 300), 100)
    n_bpm = rng.choice([1, 1, 2, 3])
    keys = rng.choice([4, 7]) if game != "sm" else 4
    if game == "sm" and rng.random() < 0.5:
        # any tempo: StepMania stores beats and full-precision floats
        bl_choices = [461, 345, 500, 333, 250, 1000, 413, 96 * 7]
    elif game == "bms":
        bl_choices = [48 * k for k in (2, 4, 5, 10)]
    else:
        bl_choices = [48 * k for k in (2, 3, 4, 5, 6, 7, 8, 10, 11, 13)]
    bpms = []
    beat = 0
    for j in range(n_bpm):
        bpms.append(dict(beat=beat, bl=rng.choice(bl_choices)))
        beat += rng.choice([4, 8, 12])
    n_hits = rng.choice([0, 1, 3, 6])
    n_holds = rng.choice([0, 0, 1, 3])
    total = beat + 8
    hits, holds = [], []
    spans = []
    for _ in range(n_holds):
        b = Fr(rng.randrange(0, total * 4), 4)
        ln = Fr(rng.randrange(1, 32), 4)
        col = rng.randrange(keys)
        if any(c2 == col and not (b + ln < lo or hi < b) for c2, lo, hi in spans):
            continue
        spans.append((col, b, b + ln))
        holds.append(dict(beat=R(b), len=R(ln), col=col))
    for _ in range(n_hits):
        b = Fr(rng.randrange(0, total * 48), 48) if rng.random() < 0.5 else Fr(rng.randrange(0, total * 4), 4)
        col = rng.randrange(keys)
        if any(c2 == col and lo <= b <= hi for c2, lo, hi in spans):
            continue
        spans.append((col, b, b))
        hits.append(dict(beat=R(b), col=col))
    t0 = 0 if game == "bms" else rng.choice([0, 1000, 1, -1, 250, -700, 2000, 1234, 37, rng.randint(-3000, 3000)])
    case = dict(claim="writeread", mode="free", game=game, r=R(r), keys=keys, t0=t0, bpms=bpms, hits=hits, holds=holds)
    if game == "osu":
        case["preview"] = rng.choice([0, 1000, rng.randint(1, 90000), rng.randint(1, 90000), -1])
        case["samples"] = [dict(t=rng.randint(0, 90000), vol=rng.randint(1, 100)) for _ in range(rng.choice([0, 0, 1, 3]))]
        case["svs"] = [dict(t=rng.randint(0, 90000), m=rng.choice([0.5, 2.0, 1.25])) for _ in range(rng.choice([0, 0, 2]))]
    if game == "sm":
        case["sample_start"] = rng.choice([10000, 1000, rng.randint(0, 90000)])
        case["sample_length"] = rng.choice([5000, 10000, rng.randint(1, 30000)])
    if game == "qua":
        case["svs"] = [dict(t=rng.randint(0, 90000), m=rng.choice([0.5, 2.0, 1.25])) for _ in range(rng.choice([0, 0, 2]))]
    return case


def gen_search(rng, tier, i):
    """the stream used when the correspondence / a proof obligation is broken and a failing input is searched for:
    the main stream, with the file-level claim (rate -> write -> read) drawn as often as the in-memory ones"""
    if rng.random() < 0.5:
        game = rng.choice(WR_GAMES)
        return gen_writeread_free(rng, game) if rng.random() < 0.7 else gen_writeread(rng)
    return gen(rng, tier, i)


# ------------------------------------------------------------------------------------------ corpus

def _fr(cols, rows):
    return dict(cols=cols, rows=rows)


def _sm_chart(off_rows, bpm_rows, hold_rows=()):
    lists = []
    for name, _, _, cols in SCHEMA["sm"][2]:
        names = [c for c, _ in cols]
        rows = []
        if name == "hits":
            rows = [[R(c), R(o)] for c, o in off_rows]
        elif name == "bpms":
            rows = [[R(b), R(4), R(o)] for o, b in bpm_rows]
        elif name == "holds":
            rows = [[R(l), R(c), R(o)] for o, c, l in hold_rows]
        lists.append([name, _fr(names, rows)])
    return dict(lists=lists, samples=None, preview=None, meta_set={})


def corpus():
    c = []
    # D04 witness: StepMania file offset must scale with the rest
    sm_set = dict(maps=[_sm_chart([(0, 1000), (1, 1500)], [(1000, 120)])], offset=R(1000), sample_start=R(20000),
                  sample_length=R(10000), meta_set=dict(title="d04"))
    c.append(dict(claim="scale", game="sm", level="set", stream="E", r=R(2), set=sm_set))
    c.append(dict(claim="writeread", game="sm", r=R(2), keys=4, t0=960, bpms=[dict(beat=0, bl=480)],
                  hits=[dict(beat=R(0), col=0), dict(beat=R(Fr(5, 2)), col=2)], holds=[dict(beat=R(4), len=R(2), col=1)],
                  sample_start=9600, sample_length=4800))
    # every list empty, all games
    rng = __import__("random").Random(13)
    for g in GAMES:
        c.append(dict(claim="scale", game=g, level="map", stream="T", r=R(Fr(3, 2)),
                      set=dict(maps=[gen_chart(rng, "T", 1, g, empties="all")], offset=None, sample_start=None,
                               sample_length=None, meta_set={})))
    # empty map set
    c.append(dict(claim="scale", game="base", level="set", stream="E", r=R(2),
                  set=dict(maps=[], offset=None, sample_start=None, sample_length=None, meta_set={})))
    c.append(dict(claim="scale", game="sm", level="set", stream="E", r=R(2),
                  set=dict(maps=[], offset=R(100), sample_start=R(0), sample_length=R(10), meta_set={})))
    # osu: the test-suite case (rate 0.5) with samples and preview
    c.append(dict(claim="comp", game="osu", level="map", stream="E", a=R(Fr(1, 2)), b=R(3),
                  set=dict(maps=[gen_chart(rng, "E", 3, "osu", empties="none")], offset=None, sample_start=None,
                           sample_length=None, meta_set={})))
    # StepMania set built from objects, file offset never set (None): rates without raising, the offset stays None
    c.append(dict(claim="scale", game="sm", level="set", stream="E", r=R(2),
                  set=dict(maps=[_sm_chart([(0, 1000)], [(0, 120)])], offset=None, sample_start=R(0), sample_length=R(10),
                           meta_set={})))
    c.append(dict(claim="writeread", game="osu", r=R(Fr(3, 2)), keys=4, t0=144, bpms=[dict(beat=0, bl=288), dict(beat=8, bl=576)],
                  hits=[dict(beat=R(Fr(1, 48)), col=0), dict(beat=R(9), col=3)], holds=[dict(beat=R(2), len=R(Fr(3, 4)), col=1)],
                  preview=1440, samples=[dict(t=288, vol=40)], svs=[dict(t=144, m=0.5)]))
    # BMS: 156.25 bpm at rate 5/4 stays on `#BPMxx`'s three decimals (195.3125 would not: see the witness of D06) ...
    c.append(dict(claim="writeread", game="bms", r=R(Fr(2, 5)), keys=7, t0=0, bpms=[dict(beat=0, bl=384)],
                  hits=[dict(beat=R(8), col=0), dict(beat=R(Fr(33, 2)), col=3)], holds=[], ))
    # C13-H class: header times / sample window that are whole ms before and not after the rate change
    c.append(dict(claim="writeread", mode="free", game="sm", r=R(3), keys=4, t0=1000, bpms=[dict(beat=0, bl=500)],
                  hits=[dict(beat=R(0), col=0), dict(beat=R(Fr(5, 2)), col=2)], holds=[dict(beat=R(4), len=R(2), col=1)],
                  sample_start=10000, sample_length=5000))
    c.append(dict(claim="writeread", mode="free", game="osu", r=R(Fr(11, 10)), keys=4, t0=1000, bpms=[dict(beat=0, bl=480)],
                  hits=[dict(beat=R(Fr(1, 48)), col=0), dict(beat=R(9), col=3)], holds=[dict(beat=R(2), len=R(Fr(3, 4)), col=1)],
                  preview=10000, samples=[dict(t=1000, vol=40), dict(t=1001, vol=20)], svs=[dict(t=1234, m=0.5)]))
    c.append(dict(claim="writeread", mode="free", game="qua", r=R(Fr(1, 3)), keys=7, t0=-700, bpms=[dict(beat=0, bl=336), dict(beat=4, bl=480)],
                  hits=[dict(beat=R(Fr(7, 48)), col=6)], holds=[dict(beat=R(1), len=R(Fr(5, 4)), col=2)], svs=[dict(t=777, m=2.0)]))
    return c


def valid(case):
    try:
        cl = case["claim"]
        if cl == "writeread":
            if case["game"] not in WR_GAMES or F(case["r"]) <= 0 or not case["bpms"]:
                return False
            if case["bpms"][0]["beat"] != 0 or any(b["bl"] <= 0 for b in case["bpms"]):
                return False
            beats = [b["beat"] for b in case["bpms"]]
            if any(x >= y for x, y in zip(beats[:-1], beats[1:])):
                return False
            p, q = F(case["r"]).numerator, F(case["r"]).denominator
            free = case.get("mode") == "free"
            if case.get("mode") not in (None, "free"):
                return False
            if free:
                # only the un-rated chart is on the format's grid; nothing is divisible by the rate
                p = 1
                if not isinstance(case["t0"], int) or any(not isinstance(b["bl"], int) for b in case["bpms"]):
                    return False
                if case["game"] == "sm":
                    if any(b["bl"] < 48 for b in case["bpms"]):
                        return False
                elif any(b["bl"] % 48 for b in case["bpms"]):
                    return False
            elif any(b["bl"] % (48 * p) for b in case["bpms"]) or case["t0"] % (48 * p):
                return False
            if case["keys"] not in (4, 7) or (case["game"] == "sm" and case["keys"] != 4):
                return False
            if not free and case["game"] in ("osu", "qua") and q & (q - 1):
                return False
            if case["game"] == "bms" and (case["t0"] != 0 or any(f not in (1, 2, 4, 5, 8, 10, 16, 20, 25, 40, 50) for f in ([] if free else [q]) + [b["bl"] // (48 * p) for b in case["bpms"]])):
                return False
            spans = []
            for h in case["holds"]:
                b, ln = F(h["beat"]), F(h["len"])
                if b < 0 or ln <= 0 or (b * 48).denominator != 1 or (ln * 48).denominator != 1 or not (0 <= h["col"] < case["keys"]):
                    return False
                if any(c2 == h["col"] and not (b + ln < lo or hi < b) for c2, lo, hi in spans):
                    return False
                spans.append((h["col"], b, b + ln))
            for h in case["hits"]:
                b = F(h["beat"])
                if b < 0 or (b * 48).denominator != 1 or not (0 <= h["col"] < case["keys"]):
                    return False
                if any(c2 == h["col"] and lo <= b <= hi for c2, lo, hi in spans):
                    return False
                spans.append((h["col"], b, b))
            g = 1 if free else 48 * p
            for k in ("samples", "svs"):
                for s in case.get(k, []):
                    if not isinstance(s["t"], int) or s["t"] % g:
                        return False
            for k in ("preview", "sample_start", "sample_length"):
                if k in case and not (k == "preview" and case[k] == -1) and (not isinstance(case[k], int) or case[k] < 0 or case[k] % g):
                    return False
            return True
        rs = [case["r"]] if cl in ("scale", "one") else [case["a"], case["b"]]
        if any(F(r) <= 0 for r in rs):
            return False
        if cl == "one" and F(case["r"]) != 1:
            return False
        if case["game"] not in GAMES or case["level"] not in ("map", "set"):
            return False
        s = case["set"]
        if case["level"] == "map" and len(s["maps"]) != 1:
            return False
        names = [n for n, _, _, _ in SCHEMA[case["game"]][2]]
        for m in s["maps"]:
            if [n for n, _ in m["lists"]] != names:
                return False
            frames = [f for _, f in m["lists"]] + ([m["samples"]] if m.get("samples") else [])
            if (case["game"] == "osu") != (m.get("samples") is not None and m.get("preview") is not None):
                return False
            for (n, f), (_, _, _, cols) in zip(m["lists"], SCHEMA[case["game"]][2]):
                if sorted(f["cols"]) != sorted(c for c, _ in cols):
                    return False
            for f in frames:
                if any(len(r) != len(f["cols"]) for r in f["rows"]):
                    return False
                if "labels" in f and len(f["labels"]) != len(f["rows"]):
                    return False
                for r in f["rows"]:
                    for col, v in zip(f["cols"], r):
                        if col in ("offset", "length", "bpm", "column", "metronome", "multiplier") and not (isinstance(v, list) and len(v) == 2):
                            return False
                        if isinstance(v, list) and (len(v) != 2 or Fr(float(F(v))) != F(v)):
                            return False
                        if col == "column" and F(v).denominator != 1:
                            return False
        if case["stream"] == "E" and not _on_e_stream(case, rs):
            return False
        return True
    except Exception:
        return False


def _on_e_stream(case, rs):
    """every double operation of the code is exact on this case (so equality may be demanded)"""
    def exact_div(q, r):
        return Fr(float(q) / float(r)) == q / r

    def exact_mul(q, r):
        return Fr(float(q) * float(r)) == q * r
    s = case["set"]
    chain = [F(r) for r in rs]
    if len(chain) == 2 and not exact_mul(chain[0], chain[1]):
        return False
    routes = [chain] + ([[chain[0] * chain[1]]] if len(chain) == 2 else [])

    def okq(q, kind):
        for route in routes:
            x = q
            for r in route:
                if kind == "b":
                    if not exact_mul(x, r):
                        return False
                    x = x * r
                else:
                    if not exact_div(x, r):
                        return False
                    x = x / r
        return True
    for m in s["maps"]:
        frames = [f for _, f in m["lists"]] + ([m["samples"]] if m.get("samples") else [])
        for f in frames:
            for r in f["rows"]:
                for col, v in zip(f["cols"], r):
                    if col in ("offset", "length") and not okq(F(v), "t"):
                        return False
                    if col == "bpm" and not okq(F(v), "b"):
                        return False
        if m.get("preview") is not None and not okq(F(m["preview"]), "t"):
            return False
    for k in ("offset", "sample_start", "sample_length"):
        if s.get(k) is not None and not okq(F(s[k]), "t"):
            return False
    return True


# ------------------------------------------------------------------------------------------ adapters

def _dtype_of(kind, col):
    return dict(t="float", d="float", b="float", f="float", i="int", B="bool", s="object", k="object")[kind]


def _py(kind, v):
    if kind in ("t", "d", "b", "f"):
        return float(F(v))
    if kind == "i":
        return int(F(v))
    if kind == "k":
        return eval(v["o"], {}, {})
    return v


def build_list(cls, cols_kinds, fr):
    import pandas as pd
    kinds = dict(cols_kinds)
    typing = fr.get("typing")
    whole = all(F(row[j]).denominator == 1 for row in fr["rows"] for j, col in enumerate(fr["cols"])
                if kinds[col] in ("t", "d", "b"))
    if not fr["rows"]:
        # an empty list as the library makes it (keeps the declared dtypes), in the case's column order
        df = cls([]).df[fr["cols"]]
        return cls(df)
    if typing in ("items", "from_dict") and whole:
        # Python ints for the time / duration / tempo fields, as in `Hit(1000, 0)`, `OsuBpm(0, 120)`
        recs = []
        for row in fr["rows"]:
            rec = {}
            for j, col in enumerate(fr["cols"]):
                k = kinds[col]
                rec[col] = int(F(row[j])) if k in ("t", "d", "b") else _py(k, row[j])
            recs.append(rec)
        if typing == "items":
            item = cls._item_class()
            lst = cls([item(**rec) for rec in recs])
        else:
            lst = cls.from_dict(recs)
        lst.df = lst.df[fr["cols"]]
        if fr.get("labels") is not None:
            lst.df.index = fr["labels"]
        return lst
    data = {}
    for j, col in enumerate(fr["cols"]):
        kind = kinds[col]
        vals = [_py(kind, row[j]) for row in fr["rows"]]
        dt = _dtype_of(kind, col)
        if typing == "int64" and whole and kind in ("t", "d", "b"):
            vals, dt = [int(v) for v in vals], "int64"
        data[col] = pd.Series(vals, dtype=dt)
    df = pd.DataFrame(data, columns=fr["cols"])
    if fr.get("labels") is not None:
        df.index = fr["labels"]
    return cls(df)


def build_map(game, ch):
    mod, name, lists = SCHEMA[game]
    m = _cls(mod, name)()
    for (lname, lmod, lcls, cols), (n2, fr) in zip(lists, ch["lists"]):
        lst = build_list(_cls(lmod, lcls), cols, fr)
        m.objs[lname] = lst
    if game == "osu":
        from reamber.osu.lists.OsuSampleList import OsuSampleList
        m.samples = build_list(OsuSampleList, OSU_SAMPLE_COLS, ch["samples"])
        pv = F(ch["preview"])
        m.preview_time = int(pv) if ch.get("preview_int") and pv.denominator == 1 else float(pv)
    for k, v in ch.get("meta_set", {}).items():
        if game == "bms" and isinstance(v, str):
            v = v.encode()
        setattr(m, k, v)
    return m


def build_set(game, level, s):
    maps = [build_map(game, ch) for ch in s["maps"]]
    if game == "qua" and s.get("via_file"):
        # the charts as read from a .qua document: integer-typed times (the snapshots are taken from what was read)
        import warnings
        from reamber.quaver.QuaMap import QuaMap
        redo = []
        for m in maps:
            try:
                with warnings.catch_warnings():
                    warnings.simplefilter("ignore")
                    redo.append(QuaMap.read(m.write().split("\n")))
            except Exception:
                redo.append(m)
        maps = redo
    if level == "map":
        return maps[0]
    if game == "sm":
        from reamber.sm.SMMapSet import SMMapSet
        ms = SMMapSet()
        ms.maps = maps
        ms.offset = None if s["offset"] is None else float(F(s["offset"]))
        ms.sample_start = float(F(s["sample_start"]))
        ms.sample_length = float(F(s["sample_length"]))
    elif game == "o2j":
        from reamber.o2jam.O2JMapSet import O2JMapSet
        ms = O2JMapSet()
        ms.maps = maps
    else:
        from reamber.base.MapSet import MapSet
        ms = MapSet(maps)
    for k, v in s.get("meta_set", {}).items():
        setattr(ms, k, v)
    return ms


def cell_of(v):
    import numpy as np
    if v is None:
        return None
    if isinstance(v, (bool, np.bool_)):
        return bool(v)
    if isinstance(v, (int, np.integer)):
        return R(int(v))
    if isinstance(v, (float, np.floating)):
        v = float(v)
        if math.isnan(v):
            return None
        if math.isinf(v):
            return dict(o=repr(v))
        return R(v)
    if isinstance(v, str):
        return v
    return dict(o=repr(v))


def snap_frame(tl):
    df = tl.df
    cols = [str(c) for c in df.columns]
    arrs = [df[c].tolist() for c in df.columns]
    rows = [[cell_of(a[i]) for a in arrs] for i in range(len(df))]
    return dict(cols=cols, rows=rows)


def snap_meta(obj, skip):
    out = []
    if dataclasses.is_dataclass(obj):
        for f in dataclasses.fields(obj):
            if f.name in skip:
                continue
            out.append([f.name, cell_of(getattr(obj, f.name))])
    return out


def snap_map(game, m):
    ch = dict(lists=[[k, snap_frame(v)] for k, v in m.objs.items()], samples=None, preview=None)
    skip = {"objs"}
    if game == "osu":
        ch["samples"] = snap_frame(m.samples)
        ch["preview"] = R(m.preview_time)
        skip = MAP_MODELLED["osu"]
    ch["meta"] = snap_meta(m, skip)
    return ch


def snap_set(game, level, obj):
    if level == "map":
        return dict(maps=[snap_map(game, obj)], offset=None, sample_start=None, sample_length=None, meta=[])
    s = dict(maps=[snap_map(game, m) for m in obj.maps], offset=None, sample_start=None, sample_length=None)
    skip = {"maps"}
    if game == "sm":
        s["offset"] = None if obj.offset is None else R(obj.offset)
        s["sample_start"] = R(obj.sample_start)
        s["sample_length"] = R(obj.sample_length)
        skip = SET_MODELLED["sm"]
    s["meta"] = snap_meta(obj, skip)
    return s


def err_class(e):
    if isinstance(e, TypeError):
        return "type"
    if isinstance(e, KeyError):
        return "key"
    if isinstance(e, ZeroDivisionError):
        return "nonfinite"
    return "other:" + type(e).__name__


def frames_of(game, level, obj):
    maps = [obj] if level == "map" else list(obj.maps)
    out = []
    for m in maps:
        out += [v.df for v in m.objs.values()]
        if game == "osu":
            out.append(m.samples.df)
    return out


def shares_nothing(game, level, a, b):
    """the result is a new chart: no object or buffer in common with the original"""
    import numpy as np
    if a is b:
        return False
    ma = [a] if level == "map" else list(a.maps)
    mb = [b] if level == "map" else list(b.maps)
    if level == "set" and a.maps is b.maps and ma:
        return False
    for x, y in zip(ma, mb):
        if x is y or x.objs is y.objs:
            return False
    for x, y in zip(frames_of(game, level, a), frames_of(game, level, b)):
        if x is y:
            return False
        for c in x.columns:
            if c in y.columns and len(x) and x[c].dtype != object and y[c].dtype != object:
                if np.shares_memory(x[c].to_numpy(), y[c].to_numpy()):
                    return False
    return True


def apply_history(game, level, obj, history):
    """runs the steps on the real objects; returns the object to be rated"""
    import warnings
    with warnings.catch_warnings():
        warnings.simplefilter("ignore")
        for st in history or []:
            maps = [obj] if level == "map" else list(obj.maps)
            if st["op"] == "stack":
                for m in maps:
                    stk = m.stack()
                    if st.get("read") and len(stk._stacked):
                        stk.offset.min()
                if level == "set":
                    obj.stack()
            elif st["op"] == "rate":
                obj = obj.rate(float(F(st["r"])))
            else:
                if st["map"] >= len(maps):
                    continue
                m = maps[st["map"]]
                lst = m.objs.get(st["list"])
                if lst is None:
                    continue
                by = float(F(st["by"]))
                if st["op"] == "shift":
                    lst.offset += by                    # `m.hits.offset += 160`
                elif st["op"] == "mul":
                    if st["col"] in lst.df.columns:
                        setattr(lst, st["col"], getattr(lst, st["col"]) * by)      # `m.bpms.bpm = ...`
                elif st["op"] == "replace":
                    df = lst.df.copy()
                    df["offset"] = df["offset"] + by
                    setattr(m, st["list"], type(lst)(df))   # `m.hits = <list with as many rows>`
    return obj


def impl_rate(game, level, obj, rates):
    """-> ("ok", result object) | ("err", class)"""
    import warnings
    try:
        with warnings.catch_warnings():
            warnings.simplefilter("ignore")
            cur = obj
            for r in rates:
                cur = cur.rate(float(r))
        return ("ok", cur)
    except Exception as e:
        return ("err", err_class(e))


def max_dev(a, b):
    """largest absolute difference between corresponding numbers of two snapshots of the same shape"""
    if isinstance(a, list) and len(a) == 2 and all(isinstance(x, int) and not isinstance(x, bool) for x in a) \
            and isinstance(b, list) and len(b) == 2 and all(isinstance(x, int) and not isinstance(x, bool) for x in b):
        return float(abs(F(a) - F(b)))
    if isinstance(a, list) and isinstance(b, list):
        return max([max_dev(x, y) for x, y in zip(a, b)] or [0.0])
    if isinstance(a, dict) and isinstance(b, dict):
        return max([max_dev(a[k], b[k]) for k in a if k in b and k != "cols"] or [0.0])
    return 0.0


def spec_verdict(drv, game, kind, r, eps, before, out):
    """-> (dom, "ok" | "fail"): the specification evaluated on `out`"""
    sp = drv.call("c13.set_scales", game=game, kind=kind, r=R(r), eps=eps, set=before, out=out)["ok"]
    return sp["dom"], ("ok" if sp["holds"] else "fail")


def kind_of(game, level):
    return "sm" if (game == "sm" and level == "set") else "base"


def model_in(case_set):
    """the case's set as the model sees it: what the built objects contain before the call"""
    return case_set


def _eps(case):
    return R(0) if case["stream"] == "E" else R(EPS_T)


def run(case, drv):
    if case["claim"] == "writeread":
        return run_writeread(case, drv)
    return run_rate(case, drv)


def run_rate(case, drv):
    claim, game, level, stream = case["claim"], case["game"], case["level"], case["stream"]
    kind = kind_of(game, level)
    obj = build_set(game, level, case["set"])
    obj = apply_history(game, level, obj, case.get("history"))
    before = snap_set(game, level, obj)          # the chart right before the final rate: what everything is judged against
    if claim == "comp":
        a, b = F(case["a"]), F(case["b"])
        ab = Fr(float(a) * float(b))           # the double the one-step call receives
        routes = dict(two=[a, b], one=[ab])
    else:
        routes = dict(one=[F(case["r"])])
    impl = {k: impl_rate(game, level, obj, v) for k, v in routes.items()}
    after = snap_set(game, level, obj)
    if stream == "E" and (case["set"].get("via_file") or case.get("history")):
        # the chart was re-read from a file / went through a history: judge exactness on what is really in memory
        rs_ = [case["r"]] if claim in ("scale", "one") else [case["a"], case["b"]]
        if not _on_e_stream(dict(set=before), rs_):
            stream = "T"
    tags = [game, level, stream, kind]
    if case["set"].get("via_file"):
        tags.append("via-file")
    for st in case.get("history") or []:
        t = "hist-" + st["op"]
        if t not in tags:
            tags.append(t)
    if any(f.get("typing") for m in case["set"]["maps"] for _, f in m["lists"]):
        tags.append("int-typed")
    eps = R(0) if stream == "E" else R(EPS_T)
    ok, agree, detail = True, True, {}
    # original untouched (exact, observation)
    if after != before:
        ok = False
        detail["original_changed"] = dict(before=before, after=after)
    # model
    model = {}
    for k, v in routes.items():
        if len(v) == 1:
            model[k] = drv.call("c13.rate_set", game=game, kind=kind, r=R(v[0]), set=before)
        else:
            model[k] = drv.call("c13.rate_set2", game=game, kind=kind, a=R(v[0]), b=R(v[1]), set=before)
    outs = {}
    dom = True
    maxdev = 0.0
    for k in routes:
        st, val = impl[k]
        if st == "err":
            tags.append("impl-raises:" + val)
            if not ("err" in model[k] and model[k]["err"] == val):
                agree = False
                detail[f"corr_{k}"] = dict(impl=impl[k], model=model[k])
            continue
        outs[k] = snap_set(game, level, val)
        if "ok" in model[k]:
            try:
                maxdev = max(maxdev, max_dev(model[k]["ok"], outs[k]))
            except Exception:
                pass
        if "ok" not in model[k] or not drv.call("c13.close_set", eps=eps, want=model[k]["ok"], got=outs[k])["ok"]:
            agree = False
            detail[f"corr_{k}"] = dict(impl=outs[k], model=model[k])
        if not shares_nothing(game, level, obj, val):
            ok = False
            detail[f"aliased_{k}"] = True
    # specification on the implementation's output
    r_one = routes["one"][0]
    if "one" in outs:
        dom, v = spec_verdict(drv, game, kind, r_one, eps, before, outs["one"])
        if v != "ok":
            ok = False
            detail["spec"] = dict(r=str(r_one), inp=before, out=outs["one"],
                                  want=drv.call("c13.scale_set", game=game, kind=kind, r=R(r_one), set=before)["ok"])
    else:
        # the implementation raised: inside the domain of the theorems that is a violation
        d = drv.call("c13.set_scales", game=game, kind=kind, r=R(r_one), eps=eps, set=before, out=before)["ok"]
        dom = d["dom"]
        if dom:
            ok = False
            detail["raises_in_domain"] = impl["one"]
    if claim == "one" and "one" in outs:
        # rate 1 is the identity (exactly: x / 1.0 and x * 1.0 are exact in doubles)
        if not drv.call("c13.close_set", eps=R(0), want=before, got=outs["one"])["ok"]:
            ok = False
            detail["identity"] = dict(inp=before, out=outs["one"])
    if claim == "comp" and "one" in outs:
        if "two" not in outs:
            ok = False
            detail["comp"] = dict(two=impl["two"])
        else:
            # rate a then b = rate a*b
            if not drv.call("c13.close_set", eps=eps, want=outs["one"], got=outs["two"])["ok"]:
                ok = False
                detail["comp"] = dict(one=outs["one"], two=outs["two"])
            _, v2 = spec_verdict(drv, game, kind, F(case["a"]) * F(case["b"]), (eps if stream == "E" else R(2 * EPS_T)),
                                 before, outs["two"])
            if v2 != "ok":
                ok = False
                detail["comp_spec"] = dict(out=outs["two"])
    has_time = any(f["rows"] for m in before["maps"] for _, f in m["lists"])
    nontrivial = has_time and any(r != 1 for v in routes.values() for r in v)
    if not has_time:
        tags.append("all-empty")
    if any(not f["rows"] for m in before["maps"] for _, f in m["lists"]):
        tags.append("some-empty-list")
    kf = None
    if game == "osu" and any(m.get("preview") is not None and F(m["preview"]) < 0 for m in before["maps"]):
        tags.append("preview-marker")
    res = dict(claim=claim, ok=ok, agree=agree, dom=bool(dom), kf=kf, tags=tags, nontrivial=nontrivial, maxdev=maxdev)
    if not (ok and agree):
        res["detail"] = detail
    return res


# ------------------------------------------------------------------------------------------ write -> read

def wr_times(case):
    """ms position of a beat (exact; integer by construction)"""
    t0 = Fr(case["t0"])
    pts = []
    t = t0
    for j, b in enumerate(case["bpms"]):
        if j > 0:
            prev = case["bpms"][j - 1]
            t = t + Fr(b["beat"] - prev["beat"]) * prev["bl"]
        pts.append((Fr(b["beat"]), t, Fr(b["bl"])))

    def at(beat):
        beat = Fr(beat)
        cur = pts[0]
        for p in pts:
            if p[0] <= beat:
                cur = p
        return cur[1] + (beat - cur[0]) * cur[2]
    return pts, at


def build_wr(case):
    game = case["game"]
    pts, at = wr_times(case)
    hits = [(float(at(F(h["beat"]))), h["col"]) for h in case["hits"]]
    holds = [(float(at(F(h["beat"]))), h["col"], float(at(F(h["beat"]) + F(h["len"])) - at(F(h["beat"])))) for h in case["holds"]]
    bpms = [(float(t), float(Fr(60000) / bl)) for _, t, bl in pts]
    if game == "osu":
        from reamber.osu.OsuMap import OsuMap
        from reamber.osu.lists import OsuBpmList, OsuSvList, OsuSampleList
        from reamber.osu.lists.notes import OsuHitList, OsuHoldList
        m = OsuMap()
        m.circle_size = float(case["keys"])
        m.hits = OsuHitList.from_dict([dict(offset=o, column=c) for o, c in hits])
        m.holds = OsuHoldList.from_dict([dict(offset=o, column=c, length=l) for o, c, l in holds])
        m.bpms = OsuBpmList.from_dict([dict(offset=o, bpm=b) for o, b in bpms])
        m.svs = OsuSvList.from_dict([dict(offset=float(s["t"]), multiplier=s["m"]) for s in case.get("svs", [])])
        m.samples = OsuSampleList.from_dict([dict(offset=float(s["t"]), sample_file="s.wav", volume=s["vol"]) for s in case.get("samples", [])])
        m.preview_time = case.get("preview", -1)
        return m
    if game == "qua":
        from reamber.quaver.QuaMap import QuaMap
        from reamber.quaver.QuaMapMeta import QuaMapMode
        from reamber.quaver.lists import QuaBpmList, QuaSvList
        from reamber.quaver.lists.notes import QuaHitList, QuaHoldList
        m = QuaMap()
        m.mode = QuaMapMode.get_mode(case["keys"])
        m.hits = QuaHitList.from_dict([dict(offset=o, column=c, keysounds=[]) for o, c in hits])
        m.holds = QuaHoldList.from_dict([dict(offset=o, column=c, length=l, keysounds=[]) for o, c, l in holds])
        m.bpms = QuaBpmList.from_dict([dict(offset=o, bpm=b) for o, b in bpms])
        m.svs = QuaSvList.from_dict([dict(offset=float(s["t"]), multiplier=s["m"]) for s in case.get("svs", [])])
        return m
    if game == "bms":
        from reamber.bms.BMSMap import BMSMap
        from reamber.bms.lists import BMSBpmList
        from reamber.bms.lists.notes import BMSHitList, BMSHoldList
        m = BMSMap()
        m.hits = BMSHitList.from_dict([dict(offset=o, column=c) for o, c in hits])
        m.holds = BMSHoldList.from_dict([dict(offset=o, column=c, length=l) for o, c, l in holds])
        m.bpms = BMSBpmList.from_dict([dict(offset=o, bpm=b) for o, b in bpms])
        return m
    if game == "sm":
        from reamber.sm.SMMap import SMMap
        from reamber.sm.SMMapSet import SMMapSet
        from reamber.sm.lists import SMBpmList
        from reamber.sm.lists.notes import SMHitList, SMHoldList
        m = SMMap()
        m.hits = SMHitList.from_dict([dict(offset=o, column=c) for o, c in hits])
        m.holds = SMHoldList.from_dict([dict(offset=o, column=c, length=l) for o, c, l in holds])
        m.bpms = SMBpmList.from_dict([dict(offset=o, bpm=b) for o, b in bpms])
        ms = SMMapSet()
        ms.maps = [m]
        ms.offset = float(case["t0"])
        ms.sample_start = float(case["sample_start"])
        ms.sample_length = float(case["sample_length"])
        return ms
    raise ValueError(game)


def wr_roundtrip(game, obj, keys):
    """write, then read what was written"""
    if game == "osu":
        from reamber.osu.OsuMap import OsuMap
        return OsuMap.read(obj.write())
    if game == "qua":
        from reamber.quaver.QuaMap import QuaMap
        return QuaMap.read(obj.write().split("\n"))
    if game == "sm":
        from reamber.sm.SMMapSet import SMMapSet
        return SMMapSet.read(obj.write())
    if game == "bms":
        from reamber.bms.BMSMap import BMSMap
        from reamber.bms.BMSChannel import BMSChannel
        return BMSMap.read(obj.write(BMSChannel.BME).decode("shift_jis").splitlines(), BMSChannel.BME)
    raise ValueError(game)


WR_COLS = dict(offset=1, length=1, bpm=1, column=1, multiplier=1, metronome=1)


def timeline(game, obj):
    """the part of a chart the file formats carry: per list the time/tempo/lane columns, rows in (offset, column)
    order (files do not keep the order of rows); file-level time fields"""
    def tl_frame(tl, cols=None):
        fr = snap_frame(tl)
        keep = [c for c in fr["cols"] if c in WR_COLS]
        keep.sort()
        ix = [fr["cols"].index(c) for c in keep]
        rows = [[r[i] for i in ix] for r in fr["rows"]]
        oi = keep.index("offset")
        rows.sort(key=lambda r: [F(r[oi])] + [Fr(-10 ** 9) if v is None else F(v) for v in r])
        return dict(cols=keep, rows=rows)
    maps = list(obj.maps) if game == "sm" else [obj]
    out = dict(maps=[], offset=None, sample_start=None, sample_length=None, meta=[])
    for m in maps:
        ch = dict(lists=[[k, tl_frame(v)] for k, v in m.objs.items()], samples=None, preview=None, meta=[])
        if game == "osu":
            fr = snap_frame(m.samples)
            ix = fr["cols"].index("offset")
            vi = fr["cols"].index("volume")
            rows = sorted(([r[ix], r[vi]] for r in fr["rows"]), key=lambda r: (F(r[0]), F(r[1])))
            ch["samples"] = dict(cols=["offset", "volume"], rows=rows)
            ch["preview"] = R(m.preview_time)
        out["maps"].append(ch)
    if game == "sm":
        out["offset"] = R(obj.offset)
        out["sample_start"] = R(obj.sample_start)
        out["sample_length"] = R(obj.sample_length)
    return out


def d05_predicate(case):
    """known finding D05 (BMS reading, open): a long-note tail pairs with the last object of its lane *in file order*;
    it can only bite when a lane that holds a long note holds another object as well"""
    if case["game"] != "bms" or not case["holds"]:
        return False
    lanes = [h["col"] for h in case["holds"]] + [h["col"] for h in case["hits"]]
    return any(lanes.count(h["col"]) >= 2 for h in case["holds"])


# the times a format stores as whole milliseconds (the writers apply `int(...)`; C01's / C06's theorems: truncated
# to whole ms, everything else exactly): list name -> quantised; osu also: sample events, PreviewTime
WR_QUANT = dict(osu=dict(lists={"hits", "holds"}, samples=True, preview=True),
                qua=dict(lists={"hits", "holds", "bpms", "svs"}, samples=False, preview=False))


def _close_q(eps, a, b):
    d = abs(a - b)
    return d <= eps + eps * max(abs(a), abs(b))


def _cell_ok(eps, w, g):
    if isinstance(w, list) and isinstance(g, list) and len(w) == 2 and len(g) == 2:
        return _close_q(eps, F(w), F(g))
    return w == g


def _time_ok(eps, w, g, whole):
    """a time the format stores in whole ms: where the rated value is a whole number it must come back as it is,
    otherwise as a whole number less than 1 ms away (the format's own quantisation; the property cannot ask for more)"""
    if whole:
        return _close_q(eps, w, g)
    return g.denominator == 1 and abs(g - w) < 1 + eps


def _row_ok(eps, cols, w, g, quant):
    if not quant:
        return all(_cell_ok(eps, x, y) for x, y in zip(w, g))
    d = dict(zip(cols, w))
    wo = F(d["offset"])
    for c, x, y in zip(cols, w, g):
        if c == "offset":
            if not (isinstance(y, list) and _time_ok(eps, wo, F(y), wo.denominator == 1)):
                return False
        elif c == "length":
            if x is None or y is None:
                if x != y:
                    return False
                continue
            # the file stores the tail (start + length) as a whole-ms time, not the length
            go = dict(zip(cols, g))["offset"]
            if not isinstance(go, list):
                return False
            we, ge = wo + F(x), F(go) + F(y)
            if not _time_ok(eps, we, ge, wo.denominator == 1 and we.denominator == 1):
                return False
        elif not _cell_ok(eps, x, y):
            return False
    return True


def _match_rows(eps, cols, want, got, quant):
    """a perfect matching between the wanted and the read rows (files do not keep the order of rows, and truncation can
    tie two times that were distinct)"""
    if len(want) != len(got):
        return False
    n = len(want)
    adj = [[j for j in range(n) if _row_ok(eps, cols, want[i], got[j], quant)] for i in range(n)]
    owner = [-1] * n

    def aug(i, seen):
        for j in adj[i]:
            if j in seen:
                continue
            seen.add(j)
            if owner[j] < 0 or aug(owner[j], seen):
                owner[j] = i
                return True
        return False
    return all(aug(i, set()) for i in range(n))


def wr_quantised_ok(game, eps, want, got):
    """`got` is `want` (the specification's rated timeline, exact) as the format carries it: times the format stores in
    whole ms come back within the format's quantum, every other number within eps"""
    q = WR_QUANT.get(game, dict(lists=set(), samples=False, preview=False))

    def frame_ok(w, g, quant):
        if (w is None) != (g is None):
            return False
        if w is None:
            return True
        return w["cols"] == g["cols"] and _match_rows(eps, w["cols"], w["rows"], g["rows"], quant)
    if len(want["maps"]) != len(got["maps"]):
        return False
    for wm, gm in zip(want["maps"], got["maps"]):
        if [n for n, _ in wm["lists"]] != [n for n, _ in gm["lists"]]:
            return False
        for (n, wf), (_, gf) in zip(wm["lists"], gm["lists"]):
            if not frame_ok(wf, gf, n in q["lists"]):
                return False
        if not frame_ok(wm.get("samples"), gm.get("samples"), q["samples"]):
            return False
        wp, gp = wm.get("preview"), gm.get("preview")
        if (wp is None) != (gp is None):
            return False
        if wp is not None:
            wp, gp = F(wp), F(gp)
            if wp < 0 or not q["preview"]:
                if not _close_q(eps, wp, gp):
                    return False
            elif not _time_ok(eps, wp, gp, wp.denominator == 1):
                return False
    for k in ("offset", "sample_start", "sample_length"):
        w, g = want.get(k), got.get(k)
        if (w is None) != (g is None) or (w is not None and not _close_q(eps, F(w), F(g))):
            return False
    return True


def d06_predicate(case):
    """known finding D06 (BMS writing, open): `#BPMxx` carries three decimals.  Reached through `rate` exactly when some
    rated tempo 60000/bl * r is not a three-decimal number (Lean: `hdec_rate_iff`, `bms_rate_hdec_necessary`): the written
    tempo is rounded and the file drifts away from the rated chart"""
    if case["game"] != "bms":
        return False
    r = F(case["r"])
    return any((Fr(60000, b["bl"]) * r * 1000).denominator != 1 for b in case["bpms"])


def run_writeread(case, drv):
    import warnings
    game = case["game"]
    r = Fr(float(F(case["r"])))          # the double the implementation receives
    kind = "sm" if game == "sm" else "base"
    tags = [game, "writeread"]
    detail = {}
    with warnings.catch_warnings():
        warnings.simplefilter("ignore")
        obj = build_wr(case)
        try:
            base = wr_roundtrip(game, obj, case["keys"])          # the chart as the format carries it
            c0 = timeline(game, base)
        except Exception as e:
            # the un-rated chart does not survive its own format: not this property's business
            return dict(claim="writeread", ok=True, agree=True, dom=False, kf=None, tags=tags + ["base-unwritable:" + type(e).__name__],
                        nontrivial=False)
        try:
            c0_again = timeline(game, wr_roundtrip(game, base, case["keys"]))
        except Exception:
            c0_again = None
        try:
            rated = base.rate(float(r))
            mem = timeline(game, rated)
        except Exception as e:
            return dict(claim="writeread", ok=False, agree=True, dom=True, kf=None, tags=tags + ["rate-raises"], nontrivial=True,
                        detail=dict(exc=f"{type(e).__name__}: {e}"))
        try:
            back = wr_roundtrip(game, rated, case["keys"])
            got = timeline(game, back)
        except Exception as e:
            base_ok = c0_again is not None and drv.call("c13.close_set", eps=R(EPS_WR), want=c0, got=c0_again)["ok"]
            if base_ok:
                # the un-rated chart survives its format, the rated one cannot even be written / read back
                return dict(claim="writeread", ok=False, agree=True, dom=True, kf=None, tags=tags + ["rated-unwritable"], nontrivial=True,
                            detail=dict(exc=f"{type(e).__name__}: {e}"))
            if d05_predicate(case):
                return dict(claim="writeread", ok=False, agree=True, dom=False, kf="D05", tags=tags + ["base-unstable", "rated-unwritable"],
                            nontrivial=False, detail=dict(exc=f"{type(e).__name__}: {e}"))
            return dict(claim="writeread", ok=True, agree=True, dom=False, kf=None, tags=tags + ["base-unstable", "rated-unwritable"],
                        nontrivial=False)
    # the case must really be representable in the format (otherwise the generator is off the grid: no verdict)
    want0 = timeline(game, obj)
    representable = drv.call("c13.close_set", eps=R(EPS_WR), want=want0, got=c0)["ok"]
    if not representable:
        return dict(claim="writeread", ok=True, agree=True, dom=False, kf=None, tags=tags + ["off-grid"], nontrivial=False)
    # ... and the un-rated chart, as read from its file, must survive the format's own round trip
    stable = drv.call("c13.close_set", eps=R(EPS_WR), want=c0, got=c0_again)["ok"] if c0_again is not None else False
    # in-memory result against the specification (as in claim `scale`, on the format's fields)
    _, v_mem = spec_verdict(drv, game, kind, r, R(EPS_T), c0, mem)
    # read-back of the written rated chart against the specification: the rated timeline
    d_wr, v_wr = spec_verdict(drv, game, kind, r, R(EPS_WR), c0, got)
    if v_wr == "fail" and game in WR_QUANT:
        # the rated times are not whole ms and this format stores whole ms: the rated timeline as the format carries it
        # (same judgement wherever the rated value is a whole number)
        want_q = drv.call("c13.scale_set", game=game, kind=kind, r=R(r), set=c0)["ok"]
        if wr_quantised_ok(game, EPS_WR, want_q, got):
            v_wr = "ok"
            tags.append("format-quantum")
    sp_mem = dict(holds=v_mem != "fail")
    sp = dict(holds=v_wr != "fail", dom=d_wr)
    ok = sp["holds"] and sp_mem["holds"]
    kf = None
    dom = bool(sp["dom"])
    if not stable:
        dom = False
        tags.append("base-unstable")
        if sp_mem["holds"] and not sp["holds"] and d05_predicate(case):
            kf = "D05"          # BMS long-note tails are paired in file order: not caused by the rate change
        else:
            ok = bool(sp_mem["holds"])   # no verdict on the file level: the format does not carry this chart
    if not ok and kf is None and sp_mem["holds"] and d06_predicate(case):
        kf = "D06"              # the rated tempo does not fit `#BPMxx`'s three decimals: C05's open finding, reached through rate
        dom = False
    if d06_predicate(case):
        tags.append("bpm-off-3-decimals")
    if not ok:
        detail = dict(r=str(r), base=c0, rated_in_memory=mem, read_back=got, base_again=c0_again,
                      want=drv.call("c13.scale_set", game=game, kind=kind, r=R(r), set=c0)["ok"])
    n_obj = len(case["hits"]) + len(case["holds"])
    if case.get("mode") == "free":
        tags.append("free-rate")
    res = dict(claim="writeread", ok=bool(ok), agree=True, dom=dom, kf=kf, tags=tags,
               nontrivial=(r != 1 and n_obj > 0 and stable))
    if detail:
        res["detail"] = detail
    return res
