"""C20 — pattern grouping partitions the notes; combinations are exactly the allowed ones.

Correspondence: Pattern(...) / Pattern.from_note_lists / Pattern.group / PtnCombo.combinations /
template_chord_stream / template_jacks / PtnFilter{Combo,Chord,Type}.create + .filter against
Model/Pattern.lean; specification: Spec/Pattern.lean (`patternSpec`, `groupSpec`, `combosSpec`, `foldedSpec`,
`rowSetSpec` over the declarative option sets, membership reading of the filters) evaluated by the driver on the
implementation's output.  All numbers are on the exactly-representable stream (DESIGN §3 (E)): integer columns,
dyadic offsets/windows — outputs are compared for equality, window boundaries and ties included.
"""
import json
from fractions import Fraction as Fr

from lib.rat import R, F

ID = "C20"
QUICK_N = 4000
THOROUGH_N = 60000
QUICK_BUDGET_S = 70
THOROUGH_BUDGET_S = 900
RULE = ("note sets of 0-60 notes (4-8 keys, offsets on a coarse dyadic grid so that ties, repeated columns and notes "
        "exactly on the window edge are frequent; classes Hit/Hold/HoldTail/OsuHit/OsuHold; direct construction or "
        "from_note_lists with/without tails), windows v>=0 (incl. 0 and exact edge hits), h in {None,0,1,2,keys}, both "
        "jack settings; combination sizes 1-5 (mostly 2-4), folded or not, each of the three filters absent or created "
        "through `create` with every option mask and both exclude settings; filter rows drawn from the actual "
        "groups/sequences half of the time; claims group/combos/create/template; non-trivial = a group with >=2 notes "
        "among >=2 groups, or a combination result that keeps some and rejects some candidates, or an option mask != 0")
ASSUMPTIONS = [
    "`keys` passed to a column filter is the key count of the map (all columns in [0, keys)) - the positional hash "
    "of PtnFilterCombo.filter is injective only there (hypothesis `inRange` of combo_filter_is_membership)",
    "filter rows have the combination's size (numpy raises / prefix-matches otherwise; outside the property)",
    "rows are identified by value (column, offset, class): groups/combinations are compared as lists / multisets of rows",
]
TRUSTED_EXTRA = [
    "modelled, not verified: bisect on the sorted frame (as counts of leading elements), set()/list.index "
    "(as first occurrence per column), np.meshgrid/reshape (as cartesian product), np.unique (as duplicate removal), "
    "itertools.permutations, pandas sort_values (any sorted arrangement), sliding_window_view (as adjacent pairs)",
]

TY_NAMES = ["object", "Note", "Hit", "Hold", "HoldTail", "OsuHit", "OsuHold"]
NOTE_TYS = ["Hit", "Hold", "HoldTail", "OsuHit", "OsuHold"]
LIST_TYS = ["Hit", "Hold", "OsuHit", "OsuHold"]


def _classes():
    from reamber.base.Note import Note
    from reamber.base.Hit import Hit
    from reamber.base.Hold import Hold, HoldTail
    from reamber.osu.OsuHit import OsuHit
    from reamber.osu.OsuHold import OsuHold
    return {"object": object, "Note": Note, "Hit": Hit, "Hold": Hold, "HoldTail": HoldTail, "OsuHit": OsuHit,
            "OsuHold": OsuHold}


def _ty_name(cls):
    for k, v in _classes().items():
        if v is cls:
            return k
    return "?" + getattr(cls, "__name__", str(cls))


def _num(x):
    """exact wire value -> the number handed to the implementation (int when integral, else float)"""
    f = F(x)
    return int(f) if f.denominator == 1 else float(f)


# ------------------------------------------------------------------------------------------ generators

def gen_notes(rng, big=False):
    keys = rng.choice([4, 4, 5, 6, 7, 8])
    n = rng.choice([0, 1, 2, 3, 4, 5, 6, 8, 10, 12, 16, 20] + ([30, 45, 60] if big else []))
    step = rng.choice([Fr(25), Fr(50), Fr(1, 2), Fr(1), Fr(100), Fr(125, 4)])
    span = rng.choice([2, 4, 8, 16])
    t0 = rng.choice([Fr(0), Fr(0), Fr(-500), Fr(1000), Fr(12345, 8)])
    cols, offs, tys = [], [], []
    narrow = rng.random() < 0.3          # few columns: many repeats
    for _ in range(n):
        cols.append(rng.randrange(0, 2 if narrow else keys))
        offs.append(R(t0 + step * rng.randrange(0, span)))
        tys.append(rng.choice(NOTE_TYS if rng.random() < 0.7 else ["Hit", "Hold"]))
    return keys, step, cols, offs, tys


def gen_nls(rng):
    keys = rng.choice([4, 5, 7])
    step = rng.choice([Fr(25), Fr(1, 2), Fr(100)])
    nls = []
    for _ in range(rng.choice([0, 1, 2, 2, 3, 4])):
        cls = rng.choice(LIST_TYS)
        k = rng.choice([0, 1, 2, 3, 5, 8])
        items = [[rng.randrange(0, keys), R(step * rng.randrange(0, 12)), R(step * rng.randrange(0, 5))] for _ in range(k)]
        nls.append(dict(cls=cls, items=items))
    return keys, step, nls


def gen_group_args(rng, keys, step):
    v = rng.choice([Fr(0), step, 2 * step, 3 * step, step / 2, step * 5 / 4, 50 * step, Fr(50)])
    h = rng.choice([None, None, 0, 1, 2, keys])
    aj = rng.random() < 0.5
    return R(v), h, aj


def gen_src(rng, big=False):
    if rng.random() < 0.25:
        keys, step, nls = gen_nls(rng)
        return keys, step, dict(kind="nl", nls=nls, tails=rng.random() < 0.6)
    keys, step, cols, offs, tys = gen_notes(rng, big)
    return keys, step, dict(kind="direct", cols=cols, offs=offs, tys=tys)


def gen_filter_specs(rng, keys, size, hint_sizes=None, hint_cols=None):
    """descriptions of the three optional filters (rows have the combination's size)"""
    def chord():
        if rng.random() < 0.35:
            return None
        rows = []
        for _ in range(rng.choice([1, 1, 2, 3])):
            if hint_sizes and rng.random() < 0.6:
                rows.append(list(rng.choice(hint_sizes)))
            else:
                rows.append([rng.randint(1, min(keys, 3)) for _ in range(size)])
        opts = rng.choice([0, 0, 1, 2, 3, 4, 5, 6, 7])
        if not _chord_cost_ok(keys, size, opts):
            opts &= 1                    # keep the expansion (keys^size rows, times size! orders) small
        return dict(rows=rows, keys=keys, opts=opts, exclude=rng.random() < 0.25)

    def combo():
        if rng.random() < 0.4:
            return None
        rows = []
        for _ in range(rng.choice([1, 1, 2, 3])):
            if hint_cols and rng.random() < 0.6:
                rows.append(list(rng.choice(hint_cols)))
            else:
                rows.append([rng.randrange(0, keys) for _ in range(size)])
        return dict(rows=rows, keys=keys, opts=rng.choice([0, 0, 1, 1, 2, 3, 4, 5, 6, 7]), exclude=rng.random() < 0.3)

    def typ():
        if rng.random() < 0.4:
            return None
        rows = [[rng.choice(TY_NAMES) for _ in range(size)] for _ in range(rng.choice([1, 1, 2]))]
        if rng.random() < 0.4:
            rows[0] = ["HoldTail"] + ["object"] * (size - 1)
        return dict(rows=rows, opts=rng.choice([0, 0, 1, 2, 3]), exclude=rng.random() < 0.5)

    return dict(chord=chord(), combo=combo(), type=typ())


def _chord_cost_ok(keys, w, opts):
    """bound on the size of an AND_LOWER/AND_HIGHER box (rows), times the orders ANY_ORDER adds"""
    if not (opts & 6):
        return True
    fact = 1
    for k in range(2, w + 1):
        fact *= k
    return keys ** w * (fact if opts & 1 else 1) <= 2000


def _max_notes(size):
    return {1: 20, 2: 20, 3: 14}.get(size, 10)


def gen(rng, tier, i):
    r = rng.random()
    big = tier == "thorough" or rng.random() < 0.25
    if r < 0.34:
        keys, step, src = gen_src(rng, big)
        v, h, aj = gen_group_args(rng, keys, step)
        if rng.random() < 0.03:
            v = R(-step)
        if rng.random() < 0.03:
            h = -1
        return dict(claim="group", src=src, v=v, h=h, aj=aj)
    if r < 0.70:
        size = rng.choice([2, 2, 2, 3, 3, 4, 1, 5])
        keys, step, src = gen_src(rng, False)
        while _n_notes(src) > _max_notes(size):
            keys, step, src = gen_src(rng, False)
        v, h, aj = gen_group_args(rng, keys, step)
        hints = _hints(src, size, rng)
        return dict(claim="combos", src=src, v=v, h=h, aj=aj, size=size, fold=size > 1 and rng.random() < 0.4,
                    filters=gen_filter_specs(rng, keys, size, *hints))
    if r < 0.88:
        return gen_create(rng)
    keys, step, src = gen_src(rng, False)
    while _n_notes(src) > 10:
        keys, step, src = gen_src(rng, False)
    v, h, aj = gen_group_args(rng, keys, step)
    if rng.random() < 0.6:
        return dict(claim="template", src=src, v=v, h=h, aj=aj, kind="chord_stream", primary=rng.randint(1, 3),
                    secondary=rng.randint(1, 3), keys=keys, and_lower=rng.random() < 0.5, include_jack=rng.random() < 0.4)
    return dict(claim="template", src=src, v=v, h=h, aj=aj, kind="jacks", min_len=rng.choice([2, 2, 3, 4, 1]), keys=keys)


def _n_notes(src):
    if src["kind"] == "direct":
        return len(src["cols"])
    return sum(len(nl["items"]) * (2 if src["tails"] and "Hold" in nl["cls"] else 1) for nl in src["nls"])


def _hints(src, size, rng):
    """plausible chord-size rows and column rows, so that filters accept something"""
    if src["kind"] != "direct" or not src["cols"]:
        return None, None
    cols = src["cols"]
    hs = [[rng.randint(1, 3) for _ in range(size)] for _ in range(3)]
    hc = [[rng.choice(cols) for _ in range(size)] for _ in range(4)]
    return hs, hc


def gen_create(rng):
    kind = rng.choice(["combo", "chord", "type"])
    keys = rng.choice([2, 3, 4, 5, 7])
    w = rng.choice([1, 2, 2, 3, 3, 4])
    nrows = rng.choice([1, 1, 2, 3])
    if kind == "combo":
        rows = [[rng.randrange(0, keys) for _ in range(w)] for _ in range(nrows)]
        data = [[rng.randrange(0, keys) for _ in range(w)] for _ in range(rng.choice([0, 3, 8]))]
        data += [list(r) for r in rows[:1]]
        return dict(claim="create", kind=kind, rows=rows, keys=keys, opts=rng.randrange(0, 8), exclude=rng.random() < 0.4,
                    data=data)
    if kind == "chord":
        opts = rng.randrange(0, 8)
        if not _chord_cost_ok(keys, w, opts):
            opts &= 1
        rows = [[rng.randint(1, keys) for _ in range(w)] for _ in range(nrows)]
        data = [[rng.randint(1, keys) for _ in range(w)] for _ in range(rng.choice([0, 3, 8]))]
        data += [list(r) for r in rows[:1]]
        if w > 1:
            data.append([rows[0][0]] * w)           # shares single entries with a listed row (the D20 shape)
            data.append(list(reversed(rows[0])))
        return dict(claim="create", kind=kind, rows=rows, keys=keys, opts=opts, exclude=rng.random() < 0.4,
                    data=data)
    rows = [[rng.choice(TY_NAMES) for _ in range(w)] for _ in range(nrows)]
    data = [[rng.choice(NOTE_TYS) for _ in range(w)] for _ in range(rng.choice([0, 3, 8]))]
    return dict(claim="create", kind=kind, rows=rows, keys=0, opts=rng.randrange(0, 4), exclude=rng.random() < 0.4, data=data)


def corpus():
    c = []
    # the suite's eight-note pattern
    cols, offs, tys = [0, 1, 1, 2, 2, 3, 2], [0, 0, 100, 100, 200, 200, 300], ["Hit", "Hit", "Hit", "Hold", "HoldTail", "Hit", "Hit"]
    src = dict(kind="direct", cols=cols, offs=[R(o) for o in offs], tys=tys)
    for v, aj in [(0, True), (100, False), (100, True), (200, True)]:
        c.append(dict(claim="group", src=src, v=R(v), h=None, aj=aj))
    c.append(dict(claim="group", src=src, v=R(100), h=1, aj=True))
    c.append(dict(claim="group", src=dict(kind="direct", cols=[], offs=[], tys=[]), v=R(50), h=None, aj=True))
    c.append(dict(claim="group", src=src, v=R(-1), h=None, aj=True))
    c.append(dict(claim="group", src=src, v=R(1), h=-1, aj=True))
    c.append(dict(claim="group", src=dict(kind="nl", tails=True, nls=[
        dict(cls="Hit", items=[[0, R(0), R(0)], [1, R(0), R(0)], [1, R(100), R(0)]]),
        dict(cls="OsuHold", items=[[2, R(100), R(100)], [3, R(Fr(101, 2)), R(Fr(101, 4))]]), dict(cls="Hold", items=[])]),
        v=R(50), h=None, aj=True))
    # D20 witness shape: chord filter {[1,2],[2,1]} must not accept chunks of sizes [2,2] / [1,1]
    c.append(dict(claim="create", kind="chord", rows=[[1, 2]], keys=4, opts=1, exclude=False,
                  data=[[2, 2], [1, 1], [2, 3], [3, 1], [1, 2], [2, 1]]))
    c.append(dict(claim="combos", src=src, v=R(0), h=None, aj=True, size=2, fold=False,
                  filters=dict(chord=dict(rows=[[1, 2]], keys=4, opts=1, exclude=False), combo=None, type=None)))
    c.append(dict(claim="combos", src=src, v=R(0), h=None, aj=True, size=3, fold=True,
                  filters=dict(chord=None, combo=dict(rows=[[1, 2, 2]], keys=4, opts=1, exclude=False),
                               type=dict(rows=[["HoldTail", "object", "object"]], opts=1, exclude=True))))
    c.append(dict(claim="create", kind="combo", rows=[[0, 2, 2]], keys=4, opts=7, exclude=False, data=[[1, 3, 3], [3, 3, 3]]))
    c.append(dict(claim="create", kind="combo", rows=[[0, 2]], keys=3, opts=1, exclude=False, data=[[0, 0], [0, 2]]))
    c.append(dict(claim="create", kind="chord", rows=[[3, 1], [1, 2]], keys=4, opts=6, exclude=True, data=[[4, 4], [1, 1]]))
    c.append(dict(claim="create", kind="type", rows=[["HoldTail", "object"]], keys=0, opts=1, exclude=True,
                  data=[["Hit", "HoldTail"], ["OsuHold", "Hit"]]))
    c.append(dict(claim="template", src=src, v=R(0), h=None, aj=True, kind="chord_stream", primary=2, secondary=1, keys=4,
                  and_lower=False, include_jack=False))
    c.append(dict(claim="template", src=src, v=R(0), h=None, aj=True, kind="chord_stream", primary=2, secondary=2, keys=4,
                  and_lower=True, include_jack=True))
    c.append(dict(claim="template", src=src, v=R(0), h=None, aj=True, kind="jacks", min_len=2, keys=4))
    c.append(dict(claim="template", src=src, v=R(0), h=None, aj=True, kind="jacks", min_len=1, keys=4))
    return c


def _rows_ok(rows, w=None, lo=None, hi=None, names=None):
    if not isinstance(rows, list) or not rows:
        return False
    w = len(rows[0]) if w is None else w
    if w < 1:
        return False
    for r in rows:
        if not isinstance(r, list) or len(r) != w:
            return False
        for x in r:
            if names is not None:
                if x not in names:
                    return False
            elif not isinstance(x, int) or isinstance(x, bool) or (lo is not None and x < lo) or (hi is not None and x > hi):
                return False
    return True


def _src_ok(src):
    if src["kind"] == "direct":
        n = len(src["cols"])
        if len(src["offs"]) != n or len(src["tys"]) != n:
            return False
        return all(isinstance(c, int) and 0 <= c < 64 for c in src["cols"]) and all(t in NOTE_TYS for t in src["tys"]) \
            and all(F(o).denominator in (1, 2, 4, 8, 16) for o in src["offs"])
    for nl in src["nls"]:
        if nl["cls"] not in LIST_TYS:
            return False
        for it in nl["items"]:
            if len(it) != 3 or not (isinstance(it[0], int) and 0 <= it[0] < 64) or F(it[2]) < 0:
                return False
            if F(it[1]).denominator not in (1, 2, 4, 8, 16) or F(it[2]).denominator not in (1, 2, 4, 8, 16):
                return False
    return isinstance(src["tails"], bool)


def valid(case):
    try:
        cl = case["claim"]
        if cl == "create":
            k = case["kind"]
            if k == "type":
                return _rows_ok(case["rows"], names=TY_NAMES) and 0 <= case["opts"] < 4 and \
                    (not case["data"] or _rows_ok(case["data"], w=len(case["rows"][0]), names=NOTE_TYS + ["object", "Note"]))
            keys = case["keys"]
            if not (1 <= keys <= 12) or not (0 <= case["opts"] < 8):
                return False
            if k == "combo":
                return _rows_ok(case["rows"], lo=0, hi=keys - 1) and \
                    (not case["data"] or _rows_ok(case["data"], w=len(case["rows"][0]), lo=0, hi=keys - 1))
            return _rows_ok(case["rows"], lo=1, hi=keys) and _chord_cost_ok(keys, len(case["rows"][0]), case["opts"]) and \
                (not case["data"] or _rows_ok(case["data"], w=len(case["rows"][0]), lo=0, hi=64))
        if not _src_ok(case["src"]):
            return False
        if F(case["v"]).denominator not in (1, 2, 4, 8, 16) or not (case["h"] is None or isinstance(case["h"], int)):
            return False
        if cl == "combos":
            size = case["size"]
            if not (1 <= size <= 5) or (size == 1 and case["fold"]):      # numpy cannot fold sequences of one note
                return False
            f = case["filters"]
            if _n_notes(case["src"]) > _max_notes(size):
                return False
            if f["chord"] and not _chord_cost_ok(f["chord"]["keys"], size, f["chord"]["opts"]):
                return False
            if f["chord"] and not (1 <= f["chord"]["keys"] <= 12 and _rows_ok(f["chord"]["rows"], w=size, lo=1, hi=f["chord"]["keys"])):
                return False
            if f["combo"]:
                keys = f["combo"]["keys"]
                if not (1 <= keys <= 12 and _rows_ok(f["combo"]["rows"], w=size, lo=0, hi=keys - 1)):
                    return False
                cols = case["src"]["cols"] if case["src"]["kind"] == "direct" else [it[0] for nl in case["src"]["nls"] for it in nl["items"]]
                if any(c >= keys for c in cols):
                    return False
            if f["type"] and not _rows_ok(f["type"]["rows"], w=size, names=TY_NAMES):
                return False
        if cl == "template":
            keys = case["keys"]
            cols = case["src"]["cols"] if case["src"]["kind"] == "direct" else [it[0] for nl in case["src"]["nls"] for it in nl["items"]]
            if not (1 <= keys <= 12) or any(c >= keys for c in cols):
                return False
            if _n_notes(case["src"]) > 20:
                return False
            if case["kind"] == "jacks":
                return 0 <= case["min_len"] <= 5 and _n_notes(case["src"]) <= _max_notes(max(case["min_len"], 1))
            return 1 <= case["primary"] <= 12 and 1 <= case["secondary"] <= 12
        return True
    except Exception:
        return False


# ------------------------------------------------------------------------------------------ adapters

def err_class(e):
    if isinstance(e, ValueError):
        return "value"
    if isinstance(e, IndexError):
        return "index"
    return "other:" + type(e).__name__


def j_row(col, off, cls):
    c = float(col)
    if c != int(c):
        raise ValueError(f"non-integral column {col!r}")
    return [int(c), R(off if not hasattr(off, "item") else off.item()), _ty_name(cls)]


def rec_rows(ar):
    """numpy record array / structured array (1-D) -> wire rows"""
    return [j_row(r["column"], r["offset"], r["type"]) for r in ar]


def build_pattern(src):
    """-> (Pattern, input rows on the wire or None for the nl route)"""
    from reamber.algorithms.pattern import Pattern
    cls = _classes()
    if src["kind"] == "direct":
        offs = [_num(o) for o in src["offs"]]
        p = Pattern(list(src["cols"]), offs, [cls[t] for t in src["tys"]])
        return p, [[c, o, t] for c, o, t in zip(src["cols"], src["offs"], src["tys"])]
    from reamber.base.lists.notes.HitList import HitList
    from reamber.base.lists.notes.HoldList import HoldList
    from reamber.osu.lists.notes import OsuHitList, OsuHoldList
    mk = dict(Hit=(HitList, False), Hold=(HoldList, True), OsuHit=(OsuHitList, False), OsuHold=(OsuHoldList, True))
    nls = []
    for nl in src["nls"]:
        L, hold = mk[nl["cls"]]
        C = cls[nl["cls"]]
        if hold:
            nls.append(L([C(float(F(it[1])), it[0], float(F(it[2]))) for it in nl["items"]]))
        else:
            nls.append(L([C(float(F(it[1])), it[0]) for it in nl["items"]]))
    return Pattern.from_note_lists(nls, include_tails=src["tails"]), None


def df_rows(p):
    return [j_row(c, o, t) for c, o, t in zip(p.df["column"].tolist(), p.df["offset"].tolist(), p.df["type"].tolist())]


def check_pattern(src, p, drv):
    """(S)+(C) for the frame itself; returns (rows, ok, agree, detail)"""
    rows = df_rows(p)
    if src["kind"] == "direct":
        sp = drv.call("c20.pattern_spec", rows=[[c, o, t] for c, o, t in zip(src["cols"], src["offs"], src["tys"])], df=rows)["ok"]
        ok = sp["all"]
        m = drv.call("c20.pattern", rows=[[c, o, t] for c, o, t in zip(src["cols"], src["offs"], src["tys"])])["ok"]
    else:
        nls = [dict(ty=nl["cls"], items=nl["items"]) for nl in src["nls"]]
        ok = drv.call("c20.from_nl_spec", nls=nls, tails=src["tails"], df=rows)["ok"]
        m = drv.call("c20.from_nl", nls=nls, tails=src["tails"])["ok"]
    # ties may be ordered differently by pandas' quicksort: compare as multisets + offsets sequence
    agree = sorted(map(json.dumps, m)) == sorted(map(json.dumps, rows)) and [r[1] for r in m] == [r[1] for r in rows]
    det = {} if (ok and agree) else dict(df=rows, model=m)
    return rows, ok, agree, det


def group_args(case):
    return dict(v=case["v"], h=case["h"], aj=case["aj"])


def impl_group(p, case):
    return p.group(_num(case["v"]), case["h"], case["aj"])


def run(case, drv):
    return dict(group=run_group, combos=run_combos, create=run_create, template=run_template)[case["claim"]](case, drv)


def run_group(case, drv):
    p, _ = build_pattern(case["src"])
    rows, ok0, agree0, det0 = check_pattern(case["src"], p, drv)
    tags = [case["src"]["kind"], "aj" if case["aj"] else "jack", "h" if case["h"] is not None else "hnone"]
    try:
        gs = impl_group(p, case)
        impl = ("ok", [rec_rows(g) for g in gs])
    except Exception as e:
        impl = ("err", err_class(e))
    m = drv.call("c20.group", rows=rows, **group_args(case))
    detail = dict(det0)
    if impl[0] == "err":
        agree = "err" in m and m["err"] == impl[1]
        # the only failure the property allows is the guard on negative windows
        ok = F(case["v"]) < 0 or (case["h"] is not None and case["h"] < 0)
        tags.append("raises")
        nontrivial = False
        if not (ok and agree):
            detail.update(impl=impl, model=m)
    else:
        g = impl[1]
        agree = "ok" in m and m["ok"] == g
        sp = drv.call("c20.group_spec", rows=rows, groups=g, **group_args(case))["ok"]
        ok = sp["all"] and not (F(case["v"]) < 0 or (case["h"] is not None and case["h"] < 0))
        nontrivial = len(g) >= 2 and any(len(x) >= 2 for x in g)
        if len(rows) > 16:
            tags.append("n>16")
        if not (ok and agree):
            detail.update(impl=g, model=m, spec=sp)
    return dict(claim="group", ok=ok and ok0, agree=agree and agree0, dom=True, kf=None, tags=tags, nontrivial=nontrivial,
                detail=detail)


def make_filters(fspec, size):
    """build the implementation's filter objects; -> (objs, wire descriptions with the implementation's `ar`)"""
    from reamber.algorithms.pattern.filters import PtnFilterCombo, PtnFilterChord, PtnFilterType
    cls = _classes()
    objs, wire = {}, {}
    ch, co, ty = fspec["chord"], fspec["combo"], fspec["type"]
    if ch:
        f = PtnFilterChord.create([list(r) for r in ch["rows"]], keys=ch["keys"], options=ch["opts"], exclude=ch["exclude"])
        objs["chord"] = f
        wire["chord"] = dict(ar=int_rows(f.ar), invert=bool(f.invert_filter))
    else:
        objs["chord"], wire["chord"] = None, None
    if co:
        f = PtnFilterCombo.create([list(r) for r in co["rows"]], keys=co["keys"], options=co["opts"], exclude=co["exclude"])
        objs["combo"] = f
        wire["combo"] = dict(ar=int_rows(f.ar), keys=int(f.keys), invert=bool(f.invert_filter))
    else:
        objs["combo"], wire["combo"] = None, None
    if ty:
        f = PtnFilterType.create([[cls[t] for t in r] for r in ty["rows"]], options=ty["opts"], exclude=ty["exclude"])
        objs["type"] = f
        wire["type"] = dict(ar=[[_ty_name(t) for t in r] for r in f.ar.tolist()], invert=bool(f.invert_filter))
    else:
        objs["type"], wire["type"] = None, None
    return objs, wire


def int_rows(ar):
    out = []
    for r in ar.tolist():
        row = []
        for x in r:
            if float(x) != int(x):
                raise ValueError("non-integral filter entry")
            row.append(int(x))
        out.append(row)
    return out


def set_eq(a, b):
    return sorted(set(map(json.dumps, a))) == sorted(set(map(json.dumps, b)))


def check_creates(fspec, wire, drv):
    """(S)+(C) for every created filter's row set"""
    ok, agree, det = True, True, {}
    for kind in ("chord", "combo", "type"):
        s = fspec[kind]
        if not s:
            continue
        kw = dict(rows=s["rows"], opts=s["opts"])
        if kind != "type":
            kw["keys"] = s["keys"]
        m = drv.call(f"c20.create_{kind}", **kw)["ok"]
        sp = drv.call(f"c20.create_{kind}_spec", reported=wire[kind]["ar"], **kw)["ok"]
        a = set_eq(m, wire[kind]["ar"]) and wire[kind]["invert"] == s["exclude"]
        if not (a and sp):
            det[f"create_{kind}"] = dict(impl=wire[kind], model=m, spec=sp)
        ok, agree = ok and sp and wire[kind]["invert"] == s["exclude"], agree and a
    return ok, agree, det


def combos_rows(cs):
    """list of (m, size) structured arrays -> list of chunks of sequences of wire rows"""
    out = []
    for ar in cs:
        out.append([[j_row(x["column"], x["offset"], x["type"]) for x in seq] for seq in ar])
    return out


def flat_sorted(chunks):
    return sorted(json.dumps(s) for c in chunks for s in c)


def run_combos(case, drv):
    from reamber.algorithms.pattern.combos import PtnCombo
    p, _ = build_pattern(case["src"])
    rows, ok0, agree0, det0 = check_pattern(case["src"], p, drv)
    size, fold = case["size"], case["fold"]
    tags = [f"size{size}", "fold" if fold else "nofold"]
    detail = dict(det0)
    gs = [rec_rows(g) for g in impl_group(p, case)]
    mg = drv.call("c20.group", rows=rows, **group_args(case))
    agree_g = "ok" in mg and mg["ok"] == gs
    objs, wire = make_filters(case["filters"], size)
    ok_c, agree_c, det_c = check_creates(case["filters"], wire, drv)
    detail.update(det_c)
    for k in ("chord", "combo", "type"):
        tags.append(f"{k}:{'none' if not case['filters'][k] else case['filters'][k]['opts']}")
    try:
        cs = PtnCombo(impl_group(p, case)).combinations(
            size=size, make_size2=fold,
            chord_filter=objs["chord"].filter if objs["chord"] else None,
            combo_filter=objs["combo"].filter if objs["combo"] else None,
            type_filter=objs["type"].filter if objs["type"] else None)
        impl = ("ok", combos_rows(cs))
    except Exception as e:
        impl = ("err", err_class(e))
    m = drv.call("c20.combos", groups=gs, size=size, fold=fold, filters=wire)
    nontrivial = False
    if impl[0] == "err":
        ok, agree = False, False        # in-domain inputs never raise
        sp = None
        detail.update(impl=impl)
    else:
        flat = [s for c in impl[1] for s in c]
        sp = drv.call("c20.combos_spec", groups=gs, size=size, fold=fold, filters=wire, reported=flat)["ok"]
        ok = sp["ok"] and all(len(s) == (2 if fold and size >= 2 else size) for s in flat) if flat else sp["ok"]
        agree = "ok" in m and flat_sorted(m["ok"]) == flat_sorted(impl[1])
        nontrivial = bool(flat) and (len(flat) < sp["candidates"] or any(case["filters"][k] and case["filters"][k]["opts"] for k in case["filters"]))
        if not (ok and agree):
            detail.update(groups=gs, impl=impl[1], model=m, spec=sp, filters=wire)
        if flat:
            tags.append("some")
    dom = bool(sp["dom"]) if sp else True
    return dict(claim="combos", ok=ok and ok0 and ok_c, agree=agree and agree0 and agree_c and agree_g, dom=dom, kf=None,
                tags=tags, nontrivial=nontrivial, detail=detail)


def run_create(case, drv):
    import numpy as np
    kind = case["kind"]
    fspec = dict(chord=None, combo=None, type=None)
    fspec[kind] = dict(rows=case["rows"], keys=case["keys"], opts=case["opts"], exclude=case["exclude"])
    tags = [kind, f"opts{case['opts']}", "excl" if case["exclude"] else "incl"]
    try:
        objs, wire = make_filters(fspec, len(case["rows"][0]))
    except Exception as e:
        return dict(claim="create", ok=False, agree=False, dom=True, kf=None, tags=tags + ["raises"], nontrivial=False,
                    detail=dict(exc=f"{type(e).__name__}: {e}"))
    ok, agree, detail = check_creates(fspec, wire, drv)
    data = case["data"]
    if data:
        f = objs[kind]
        cls = _classes()
        if kind == "chord":
            res = [bool(f.filter(np.array(d))) for d in data]
        elif kind == "combo":
            res = [bool(x) for x in f.filter(np.array(data))]
        else:
            res = [bool(x) for x in f.filter(np.array([[cls[t] for t in d] for d in data], dtype=object))]
        kw = dict(wire[kind])
        fm = drv.call(f"c20.filter_{kind}", data=data, **kw)["ok"]
        a2 = fm["model"] == res
        o2 = fm["spec"] == res
        if not (a2 and o2):
            detail["filter"] = dict(data=data, impl=res, model=fm, filter=wire[kind])
        ok, agree = ok and o2, agree and a2
    return dict(claim="create", ok=ok, agree=agree, dom=True, kf=None, tags=tags, nontrivial=case["opts"] != 0 or bool(data),
                detail=detail)


def run_template(case, drv):
    from reamber.algorithms.pattern.combos import PtnCombo
    p, _ = build_pattern(case["src"])
    rows, ok0, agree0, det0 = check_pattern(case["src"], p, drv)
    detail = dict(det0)
    gs = [rec_rows(g) for g in impl_group(p, case)]
    keys = case["keys"]
    tags = [case["kind"]]
    try:
        if case["kind"] == "chord_stream":
            cs = PtnCombo(impl_group(p, case)).template_chord_stream(case["primary"], case["secondary"], keys,
                                                                     case["and_lower"], case["include_jack"])
        else:
            cs = PtnCombo(impl_group(p, case)).template_jacks(case["min_len"], keys)
        impl = ("ok", combos_rows(cs))
    except Exception as e:
        impl = ("err", err_class(e))
    if case["kind"] == "chord_stream":
        m = drv.call("c20.template_chord_stream", groups=gs, primary=case["primary"], secondary=case["secondary"], keys=keys,
                     and_lower=case["and_lower"], include_jack=case["include_jack"])
        size = 2
        # the filters the template is documented to apply, as row sets (declarative expansions, proved = create)
        chord_rows = drv.call("c20.create_chord", rows=[[case["primary"], case["secondary"]]], keys=keys,
                              opts=3 if case["and_lower"] else 0)["ok"]
        wire = dict(chord=dict(ar=chord_rows, invert=False),
                    combo=None if case["include_jack"] else dict(ar=[[k, k] for k in range(keys)], keys=keys, invert=True),
                    type=dict(ar=[["HoldTail", "object"], ["object", "HoldTail"]], invert=True))
    else:
        m = drv.call("c20.template_jacks", groups=gs, min_len=case["min_len"], keys=keys)
        size = case["min_len"]
        trow = ["HoldTail"] + ["object"] * (size - 1)
        wire = dict(chord=None, combo=dict(ar=[[k] * size for k in range(keys)], keys=keys, invert=False),
                    type=dict(ar=[trow[i:] + trow[:i] for i in range(size)] if size >= 1 else [], invert=True))
    nontrivial = False
    if impl[0] == "err":
        agree = "err" in m and m["err"] == impl[1]
        ok = case["kind"] == "jacks" and case["min_len"] < 2
        tags.append("raises")
        if not (ok and agree):
            detail.update(impl=impl, model=m)
    else:
        flat = [s for c in impl[1] for s in c]
        sp = drv.call("c20.combos_spec", groups=gs, size=size, fold=True, filters=wire, reported=flat)["ok"]
        ok = sp["ok"] and not (case["kind"] == "jacks" and case["min_len"] < 2)
        agree = "ok" in m and flat_sorted(m["ok"]) == flat_sorted(impl[1])
        nontrivial = bool(flat)
        if not (ok and agree):
            detail.update(groups=gs, impl=impl[1], model=m, spec=sp)
    return dict(claim="template", ok=ok and ok0, agree=agree and agree0, dom=True, kf=None, tags=tags, nontrivial=nontrivial,
                detail=detail)
