"""C16 — timed lists behave like ordered collections of their rows.

Claims
* `history`: a list of some class (every concrete subclass of TimedList of every game) is built (from a frame with
  arbitrary row labels, from items, from a dict, as `empty(n)`), then 1-12 list operations are applied
  (slice, after/before/between with inclusive flags, the head/tail variants for holds, sorted, append of an item,
  of a fresh list or of a live list, with/without sort) over a POOL of live lists: every operation takes any live
  list as its receiver, its result joins the pool, the receiver stays; every live list is read again after every
  step and must be what it was (no operation of the property is assigning).  After **every** step all observables are read from the real object
  (len, tl[i] for several i incl. negative / out of range, iteration, first/last offset) and
  (C) compared with Model/TList.lean applied to the implementation's previous state (labels included), and the
      whole run of the model from the initial table is compared with the final state;
  (S) judged by Spec/TList.lean (`specStepB`, `specFirstB`, `specLastB`, `itemCarries`) on plain rows, no labels.
* `fields`: `cls([])`, `cls(items)`, `cls.from_dict(d)`, `cls.empty(n)` have exactly the declared fields
  (`hasDeclaredFields` against Generated/Schemas.lean) and the model's columns / rows.
All numbers are dyadic rationals (exact in doubles): every comparison is for equality, also at `>=`/`>` bounds.
"""
import inspect
import math
import warnings
from fractions import Fraction as Fr

from lib.rat import R, F

ID = "C16"
QUICK_N = 2500
THOROUGH_N = 40000
QUICK_BUDGET_S = 80
THOROUGH_BUDGET_S = 900
RULE = ("list class drawn from all concrete TimedList subclasses; 0-10 (sometimes 17-40) rows with offsets from a small "
        "pool (ties, negative, fractional) or, in 45 % of the cases, of chart magnitude (10 s - 20 min in ms, both signs) with "
        "neighbours 1 ms / 0.5 ms / 1/1024 ms / 1 ulp apart; bounds equal to a row's offset (or tail) or 1 ms / 0.5 ms / 1 ulp "
        "next to it (equality at the inclusive flags, nothing near the bound may be taken for it); "
        "arbitrary row labels (permuted, gapped, duplicated); 1-12 operations, each on the latest result or on any earlier live "
        "list, every live list re-observed after every step; 14 % of the steps are a client's IN-PLACE edit of a live list "
        "(offset += d, a whole column assigned, one cell through df.iloc / df.loc, hold lengths) after which every live "
        "list is read again and every observable (len, first/last offset, indexing, iteration) must be the one of its "
        "CURRENT rows; "
        "non-trivial = at least 2 rows and (a tie or bound equal to an offset, or labels != positions when indexed)")
ASSUMPTIONS = [
    "values are dyadic rationals of small magnitude: every double operation the code performs is exact",
    "row contents: finite numbers, strings, bools, lists of strings (no NaN in offset/length)",
    "appended items/lists are of the list's own class",
]
TRUSTED_EXTRA = ["pandas row/label semantics are modelled (Model/TList.lean), tied by this correspondence only"]

OFFSETS = [Fr(-3), Fr(-3, 2), Fr(0), Fr(1, 4), Fr(1), Fr(1), Fr(5, 2), Fr(4), Fr(8001, 8), Fr(-1, 1024)]
LENGTHS = [Fr(0), Fr(1, 4), Fr(1), Fr(3, 2), Fr(5, 2), Fr(7), Fr(0)]
STRS = ["", "a.wav", "b.ogg", "hit", "x y"]


# ------------------------------------------------------------------------------------------ classes

_CLS = {}


def classes():
    if not _CLS:
        from translators.schemas import all_list_classes
        for c in all_list_classes():
            if inspect.isabstract(c):
                continue
            _CLS[c.__name__] = c
    return _CLS


def info(name):
    c = classes()[name]
    ic = c._item_class()
    from reamber.base.lists.notes.HoldList import HoldList
    params = []
    for n, p in inspect.signature(ic.__init__).parameters.items():
        if n == "self" or p.kind in (p.VAR_KEYWORD, p.VAR_POSITIONAL):
            continue
        params.append((n, p.default is inspect.Parameter.empty))
    return dict(cls=c, item=ic, hold=issubclass(c, HoldList), props={k: (str(v[0]), v[1]) for k, v in ic._props.items()},
                params=params)


# ------------------------------------------------------------------------------------------ values

def cv(v):
    """python value -> case value (JSON-able, exact)"""
    if isinstance(v, bool):
        return v
    if isinstance(v, int):
        return v
    if isinstance(v, Fr):
        return {"f": [v.numerator, v.denominator]}
    if isinstance(v, float):
        return {"f": R(v)}
    if isinstance(v, bytes):
        return {"y": v.decode("latin-1")}
    if isinstance(v, str):
        return v
    if isinstance(v, list):
        return list(v)
    raise TypeError(v)


def pv(v):
    """case value -> python value handed to the implementation"""
    if isinstance(v, dict):
        if "f" in v:
            return float(F(v["f"]))
        return v["y"].encode("latin-1")
    return v


def enc(v):
    """python / numpy value -> wire cell"""
    import numpy as np
    if v is None:
        return None
    if isinstance(v, (bool, np.bool_)):
        return {"b": bool(v)}
    if isinstance(v, (int, np.integer)):
        return {"q": [int(v), 1]}
    if isinstance(v, (float, np.floating)):
        v = float(v)
        if math.isnan(v):
            return None
        return {"q": R(v)}
    if isinstance(v, bytes):
        return {"s": v.decode("latin-1")}
    if isinstance(v, str):
        return {"s": v}
    if isinstance(v, (list, tuple)):
        return {"l": [str(x) for x in v]}
    if isinstance(v, Fr):
        return {"q": R(v)}
    raise TypeError(f"cell {v!r} ({type(v)})")


def cell_key(c):
    if c is None:
        return ("nan",)
    if "q" in c:
        return ("q", F(c["q"]))
    if "s" in c:
        return ("s", c["s"])
    if "b" in c:
        return ("q", Fr(int(c["b"])))       # dtype is not part of the property: True == 1
    return ("l", tuple(c["l"]))


def rec_dict(rec):
    return {k: cell_key(c) for k, c in rec}


def rec_eq(impl, model):
    """row of the implementation vs row of the model; a NaN the model has no field for is pandas' padding"""
    a, b = rec_dict(impl), rec_dict(model)
    for k in set(a) | set(b):
        if k in a and k in b:
            if a[k] != b[k]:
                return False
        elif k in a:
            if a[k] != ("nan",):
                return False
        else:
            return False
    return True


# offsets of ordinary chart magnitude (ms): tens of seconds to 20 minutes, both signs
BIG = [Fr(12345), Fr(60000), Fr(100000), Fr(180000), Fr(480001, 2), Fr(754321), Fr(1200000), Fr(-35000), Fr(-600000),
       Fr(3999999, 4)]
# neighbours of a base: 1 ms, sub-millisecond
DELTAS = [Fr(0), Fr(0), Fr(1), Fr(-1), Fr(1, 2), Fr(-1, 2), Fr(1, 1024), Fr(-1, 1024), Fr(2), Fr(-5, 2), Fr(1, 4)]


def ulp_up(q):
    return Fr(math.nextafter(float(q), math.inf))


def ulp_down(q):
    return Fr(math.nextafter(float(q), -math.inf))


def gen_pool(rng, hold):
    """the offsets of one case: a few bases of chart magnitude with neighbours 1 ms / sub-ms / 1 ulp apart"""
    pool = []
    for b in rng.sample(BIG, rng.choice([1, 1, 2])):
        pool.append(b)
        pool += [b + d for d in rng.sample(DELTAS, 4)]
        if not hold:
            # 1-ulp neighbours only where the code does no arithmetic on the offset (holds add the length)
            pool += [ulp_up(b), ulp_down(b)][: rng.choice([0, 1, 2])]
    return pool


_POOL = [None]      # offsets of the case being generated (None: the small default pool)


def gen_value(rng, name, dtype, default):
    if name == "offset":
        return rng.choice(_POOL[0] or OFFSETS)
    if name == "length":
        return rng.choice(LENGTHS) if rng.random() < 0.93 else Fr(-1, 2)
    if isinstance(default, list):
        return [rng.choice(STRS) for _ in range(rng.choice([0, 0, 1, 2]))]
    if dtype == "float":
        return Fr(rng.choice([0, 1, 4, 60, 120, 175, -2]) * 4 + rng.choice([0, 0, 1, 2]), 4)
    if dtype == "int":
        return rng.choice([0, 1, 2, 3, 7, 50, 100])
    if dtype == "bool":
        return rng.random() < 0.5
    if dtype == "b":
        return rng.choice([b"", b"0A", b"ZZ"])
    return rng.choice(STRS)


def gen_row(rng, inf):
    return {k: cv(gen_value(rng, k, dt, d)) for k, (dt, d) in inf["props"].items()}


def gen_kw(rng, inf, full=False):
    """constructor keywords of one item: all required parameters, optional ones at random"""
    kw = {}
    for n, req in inf["params"]:
        if req or full or rng.random() < 0.6:
            if n in inf["props"]:
                dt, d = inf["props"][n]
            else:
                dt, d = "int", 0            # a parameter that is not a declared field (OsuSv.metronome)
            kw[n] = cv(gen_value(rng, n, dt, d))
    return kw


def gen_labels(rng, n):
    r = rng.random()
    if r < 0.35:
        return list(range(n))
    if r < 0.6:
        l = list(range(n))
        rng.shuffle(l)
        return l
    if r < 0.85:
        return sorted(rng.sample(range(-5, 3 * n + 10), n), reverse=rng.random() < 0.3)
    return [rng.randrange(0, max(1, n // 2 + 1)) for _ in range(n)]     # duplicated labels


def gen_n(rng, tier):
    r = rng.random()
    if r < 0.08:
        return 0
    if r < 0.15:
        return 1
    if r < 0.92:
        return rng.randint(2, 10)
    return rng.randint(17, 40)


def gen_bound(rng, tail=False):
    pool = _POOL[0]
    if pool and rng.random() < 0.85:
        # a bound on / next to a row's key: equal, 1 ms, 0.5 ms, 1 ulp away
        key = rng.choice(pool)
        if tail and rng.random() < 0.7:
            key = key + rng.choice(LENGTHS)
        r = rng.random()
        if r < 0.3:
            return key
        if r < 0.7:
            return key + rng.choice([Fr(1), Fr(-1), Fr(1, 2), Fr(-1, 2), Fr(1, 1024), Fr(-1, 1024)])
        return ulp_up(key) if rng.random() < 0.5 else ulp_down(key)
    if not pool and rng.random() < 0.15:
        key = rng.choice(OFFSETS)
        return ulp_up(key) if rng.random() < 0.5 else ulp_down(key)
    return rng.choice(OFFSETS + [Fr(2), Fr(7, 2), Fr(13, 2), Fr(-10), Fr(2000)])


def gen_op(rng, inf, n):
    hold = inf["hold"]
    kinds = ["slice", "slice", "after", "before", "between", "sorted", "sorted", "append", "append"]
    if hold:
        kinds += ["hafter", "hafter", "hbefore", "hbefore", "hbetween", "hbetween"]
    k = rng.choice(kinds)
    if rng.random() < 0.14:
        # a client edit of a live list IN PLACE (same list object, same frame) between two operations: the property
        # speaks about lists "after any earlier operations", so every later observation must follow the current rows
        how = rng.choice(["iadd", "iadd", "assign", "cell", "loc"] + (["hlen"] if hold else []))
        return dict(k="edit", how=how, d=cv(rng.choice([d for d in DELTAS if d != 0] + [Fr(250), Fr(-1000), Fr(7, 2)])),
                    i=rng.randint(-n - 1, n + 1))
    if k == "slice":
        def ix():
            return rng.choice([None, rng.randint(-n - 2, n + 2), rng.randint(0, n + 1)])
        c = rng.choice([None, None, None, 1, 2, -1, -1, -2, 3, -3]) if rng.random() < 0.97 else 0
        return dict(k=k, a=ix(), b=ix(), c=c)
    if k in ("after", "before"):
        return dict(k=k, x=cv(gen_bound(rng)), incl=rng.random() < 0.5, dflt=rng.random() < 0.3)
    if k == "between":
        lo, hi = gen_bound(rng), gen_bound(rng)
        if rng.random() < 0.8 and lo > hi:
            lo, hi = hi, lo
        il, ih = rng.random() < 0.5, rng.random() < 0.5
        return dict(k=k, lo=cv(lo), hi=cv(hi), il=il, ih=ih, as_bool=(il == ih and rng.random() < 0.5 and not hold),
                    dflt=rng.random() < 0.2)
    if k == "hafter":
        tail = rng.random() < 0.6
        return dict(k=k, x=cv(gen_bound(rng, tail)), incl=rng.random() < 0.5, tail=tail)
    if k == "hbefore":
        head = rng.random() < 0.5
        return dict(k=k, x=cv(gen_bound(rng, not head)), incl=rng.random() < 0.5, head=head)
    if k == "hbetween":
        head, tail = rng.random() < 0.5, rng.random() < 0.5
        lo, hi = gen_bound(rng, tail), gen_bound(rng, not head)
        if rng.random() < 0.8 and lo > hi:
            lo, hi = hi, lo
        return dict(k=k, lo=cv(lo), hi=cv(hi), il=rng.random() < 0.5, ih=rng.random() < 0.5, head=head, tail=tail)
    if k == "sorted":
        return dict(k=k, rev=rng.random() < 0.4, dflt=rng.random() < 0.3)
    # append
    if rng.random() < 0.5:
        return dict(k="append", how="item", kws=[gen_kw(rng, inf, full=True)], sort=rng.random() < 0.5)
    m = rng.choice([0, 1, 2, 3])
    return dict(k="append", how="list", rows=[gen_row(rng, inf) for _ in range(m)], sort=rng.random() < 0.5)


def gen_init(rng, inf, tier):
    r = rng.random()
    n = gen_n(rng, tier)
    if r < 0.6:
        return dict(how="frame", labels=gen_labels(rng, n), rows=[gen_row(rng, inf) for _ in range(n)])
    if r < 0.8:
        full = rng.random() < 0.7
        return dict(how="items", kws=[gen_kw(rng, inf, full=full) for _ in range(min(n, 12))])
    if r < 0.92:
        names = [k for k in inf["props"] if rng.random() < 0.7 or k == "offset"]
        rng.shuffle(names)
        m = min(n, 8)
        return dict(how="dict", cols={k: [cv(gen_value(rng, k, *inf["props"][k])) for _ in range(m)] for k in names})
    return dict(how="empty", n=rng.choice([0, 1, 2, 3, 5]))


def gen(rng, tier, i):
    names = sorted(classes())
    base = ["TimedList", "HoldList", "BpmList", "HitList", "OsuHoldList", "OsuSvList", "QuaHoldList", "OsuBpmList"]
    name = rng.choice(base) if rng.random() < 0.4 else rng.choice(names)
    inf = info(name)
    _POOL[0] = gen_pool(rng, inf["hold"]) if rng.random() < 0.45 else None
    try:
        return _gen(rng, tier, name, inf)
    finally:
        _POOL[0] = None


def _gen(rng, tier, name, inf):
    if rng.random() < 0.2:
        return gen_fields(rng, name, inf, tier)
    init = gen_init(rng, inf, tier)
    n = len(init.get("rows", init.get("kws", []))) if init["how"] in ("frame", "items") else 4
    ops = [gen_op(rng, inf, n) for _ in range(rng.choice([1, 2, 3, 4, 6, 8, 12]))]
    for k, o in enumerate(ops):
        # the receiver: the latest result (a chain) or any list that is still live
        o["on"] = None if (k == 0 or rng.random() < 0.5) else rng.randrange(0, k + 1)
        if o["k"] == "append" and rng.random() < 0.3:
            o.pop("kws", None); o.pop("rows", None)
            o["how"] = "member"
            o["m"] = rng.randrange(0, k + 1)
    probes = sorted({0, -1, n, -n, -n - 1, rng.randint(-n - 1, n + 1), rng.randint(0, n + 1)})
    return dict(claim="history", cls=name, init=init, ops=ops, probes=probes)


def gen_fields(rng, name, inf, tier):
    r = rng.random()
    if r < 0.1:
        init = dict(how="nil")
    elif r < 0.35:
        init = dict(how="empty", n=rng.choice([0, 1, 2, 3, 7]))
    elif r < 0.65:
        full = rng.random() < 0.5
        init = dict(how="items", kws=[gen_kw(rng, inf, full=full) for _ in range(rng.choice([1, 1, 2, 3]))])
    else:
        names = [k for k in inf["props"] if rng.random() < 0.6]
        if rng.random() < 0.12:
            names.append(rng.choice(["index", "foo", "metronome", "tail"]))
        rng.shuffle(names)
        m = rng.choice([0, 1, 2, 3])
        cols = {}
        for k in names:
            dt, d = inf["props"].get(k, ("int", 0))
            cols[k] = [cv(gen_value(rng, k, dt, d)) for _ in range(m)]
        init = dict(how="dict", cols=cols)
    return dict(claim="fields", cls=name, init=init)


def corpus():
    F1 = lambda q: {"f": [Fr(q).numerator, Fr(q).denominator]}
    hrow = lambda o, c, l: dict(length=F1(l), column=c, offset=F1(o))
    c = []
    # D09 witness shape: empty(n) must not grow an 'index' column
    # ... and (D08) a list-valued default must come out as one empty list per row, not NaN
    for name in ("TimedList", "OsuHoldList", "QuaBpmList", "QuaHitList", "QuaHoldList"):
        c.append(dict(claim="fields", cls=name, init=dict(how="empty", n=2)))
    c.append(dict(claim="history", cls="HoldList", init=dict(how="empty", n=3),
                  ops=[dict(k="append", how="list", rows=[hrow(1, 2, 3)], sort=True)], probes=[0, -1, 4]))
    # positional vs label indexing after a sort; ties; bounds equal to offsets; head/tail
    rows = [hrow(3, 1, 2), hrow(1, 2, 5), hrow(2, 0, Fr(1, 2)), hrow(1, 3, 1)]
    c.append(dict(claim="history", cls="HoldList", init=dict(how="frame", labels=[0, 1, 2, 3], rows=rows),
                  ops=[dict(k="sorted", rev=False, dflt=True), dict(k="slice", a=1, b=3, c=None),
                       dict(k="hafter", x=F1(2), incl=True, tail=True)], probes=[0, 1, -1, 2, -3]))
    c.append(dict(claim="history", cls="HoldList", init=dict(how="frame", labels=[7, 3, 3, -1], rows=rows),
                  ops=[dict(k="hbetween", lo=F1(1), hi=F1(3), il=True, ih=True, head=False, tail=True),
                       dict(k="before", x=F1(3), incl=False, dflt=True), dict(k="sorted", rev=True, dflt=False)],
                  probes=[0, -1, 1]))
    c.append(dict(claim="history", cls="TimedList", init=dict(how="frame", labels=[], rows=[]),
                  ops=[dict(k="after", x=F1(0), incl=True, dflt=False), dict(k="slice", a=None, b=None, c=0)], probes=[0, -1]))
    c.append(dict(claim="history", cls="HoldList", init=dict(how="frame", labels=[], rows=[]),
                  ops=[dict(k="sorted", rev=False, dflt=False)], probes=[0]))
    # the receiver stays what it was: sort list 0, then look at list 0 again; reverse-sort list 0, list 1 must not follow
    c.append(dict(claim="history", cls="HoldList", init=dict(how="frame", labels=[0, 1, 2, 3], rows=rows),
                  ops=[dict(k="sorted", rev=False, dflt=True), dict(k="sorted", rev=True, dflt=False, on=0),
                       dict(k="slice", a=1, b=3, c=None, on=0), dict(k="append", how="member", m=1, sort=False, on=0)],
                  probes=[0, 1, -1]))
    c.append(dict(claim="history", cls="OsuSvList", init=dict(how="dict", cols=dict(offset=[F1(3), F1(1), F1(2)])),
                  ops=[dict(k="append", how="member", m=0, sort=True), dict(k="after", x=F1(2), incl=True, dflt=False, on=0)],
                  probes=[0, -1]))
    # chart magnitude: a row 1 ms / 0.5 ms / 1 ulp off the bound is not on the bound (tolerant comparisons lose this)
    trow = lambda o: dict(offset=F1(o))
    big = [trow(180000), trow(180001), trow(Fr(360001, 2)), trow(ulp_up(Fr(180000))), trow(179999)]
    for incl in (True, False):
        c.append(dict(claim="history", cls="TimedList", init=dict(how="frame", labels=[0, 1, 2, 3, 4], rows=big),
                      ops=[dict(k="after", x=F1(180001), incl=incl, dflt=False)], probes=[0, -1]))
        c.append(dict(claim="history", cls="TimedList", init=dict(how="frame", labels=[0, 1, 2, 3, 4], rows=big),
                      ops=[dict(k="before", x=F1(180000), incl=incl, dflt=False)], probes=[0, -1]))
        c.append(dict(claim="history", cls="TimedList", init=dict(how="frame", labels=[0, 1, 2, 3, 4], rows=big),
                      ops=[dict(k="between", lo=F1(180000), hi=F1(180001), il=incl, ih=incl, as_bool=False, dflt=False)],
                      probes=[0]))
    hbig = [hrow(1200000, 0, 500), hrow(1200001, 1, 500), hrow(1199999, 2, Fr(1001, 2)), hrow(1200000, 3, Fr(1001, 2))]
    osu_extra = dict(hitsound_set=0, sample_set=0, addition_set=0, custom_set=0, volume=0, hitsound_file="")
    for incl in (True, False):
        c.append(dict(claim="history", cls="HoldList", init=dict(how="frame", labels=[0, 1, 2, 3], rows=hbig),
                      ops=[dict(k="hafter", x=F1(1200500), incl=incl, tail=True)], probes=[0, -1]))
        c.append(dict(claim="history", cls="OsuHoldList", init=dict(how="frame", labels=[3, 1, 2, 0], rows=[dict(r, **osu_extra) for r in hbig]),
                      ops=[dict(k="hafter", x=F1(1200000), incl=incl, tail=False)], probes=[0, -1]))
        c.append(dict(claim="history", cls="HoldList", init=dict(how="frame", labels=[0, 1, 2, 3], rows=hbig),
                      ops=[dict(k="hbefore", x=F1(1200500), incl=incl, head=False)], probes=[0, -1]))
        c.append(dict(claim="history", cls="HoldList", init=dict(how="frame", labels=[0, 1, 2, 3], rows=hbig),
                      ops=[dict(k="hbetween", lo=F1(1200000), hi=F1(Fr(2401001, 2)), il=incl, ih=incl, head=incl, tail=not incl)],
                      probes=[0]))
    c.append(dict(claim="fields", cls="OsuSvList", init=dict(how="items", kws=[dict(offset=F1(1))]), _expect="D34"))
    c.append(dict(claim="fields", cls="QuaHitList", init=dict(how="dict", cols=dict(offset=[F1(1)], column=[1])),
                  _expect="D24-fixed"))
    c.append(dict(claim="fields", cls="HoldList", init=dict(how="dict", cols=dict(offset=[F1(1)], foo=[1]))))
    return c


# ------------------------------------------------------------------------------------------ validity (shrinker)

def _is_rat(v):
    return (isinstance(v, dict) and set(v) == {"f"} and isinstance(v["f"], list) and len(v["f"]) == 2
            and all(isinstance(x, int) and not isinstance(x, bool) for x in v["f"]) and v["f"][1] > 0)


def _val_ok(name, dtype, default, v):
    if isinstance(default, list):
        return isinstance(v, list) and all(isinstance(x, str) for x in v)
    if dtype == "float":
        return _is_rat(v)
    if dtype == "int":
        return isinstance(v, int) and not isinstance(v, bool) and abs(v) < 2 ** 31
    if dtype == "bool":
        return isinstance(v, bool)
    if dtype == "b":
        return isinstance(v, dict) and set(v) == {"y"} and isinstance(v["y"], str)
    return isinstance(v, str)


def _row_ok(inf, row):
    return (isinstance(row, dict) and set(row) == set(inf["props"])
            and all(_val_ok(k, *inf["props"][k], row[k]) for k in row))


def _kw_ok(inf, kw):
    if not isinstance(kw, dict):
        return False
    names = dict(inf["params"])
    for n, req in inf["params"]:
        if req and n not in kw:
            return False
    for k, v in kw.items():
        if k not in names:
            return False
        dt, d = inf["props"].get(k, ("int", 0))
        if not _val_ok(k, dt, d, v):
            return False
    return True


def _init_ok(inf, init):
    how = init.get("how")
    if how == "nil":
        return True
    if how == "empty":
        return isinstance(init.get("n"), int) and 0 <= init["n"] <= 50
    if how == "frame":
        return (isinstance(init.get("rows"), list) and isinstance(init.get("labels"), list)
                and len(init["rows"]) == len(init["labels"]) and all(isinstance(l, int) and not isinstance(l, bool) for l in init["labels"])
                and all(_row_ok(inf, r) for r in init["rows"]))
    if how == "items":
        return isinstance(init.get("kws"), list) and all(_kw_ok(inf, kw) for kw in init["kws"])
    if how == "dict":
        cols = init.get("cols")
        if not isinstance(cols, dict):
            return False
        lens = {len(v) if isinstance(v, list) else -1 for v in cols.values()}
        if len(lens) > 1 or -1 in lens:
            return False
        for k, vs in cols.items():
            dt, d = inf["props"].get(k, ("int", 0))
            if not all(_val_ok(k, dt, d, v) for v in vs):
                return False
        return True
    return False


def _oint(v):
    return v is None or (isinstance(v, int) and not isinstance(v, bool))


def _op_ok(inf, o):
    k = o.get("k")
    if k == "slice":
        return _oint(o.get("a")) and _oint(o.get("b")) and _oint(o.get("c"))
    if k in ("after", "before"):
        return _is_rat(o.get("x")) and isinstance(o.get("incl"), bool)
    if k == "between":
        return _is_rat(o.get("lo")) and _is_rat(o.get("hi")) and isinstance(o.get("il"), bool) and isinstance(o.get("ih"), bool) \
            and not (o.get("as_bool") and o["il"] != o["ih"])
    if k == "hafter":
        return inf["hold"] and _is_rat(o.get("x")) and isinstance(o.get("incl"), bool) and isinstance(o.get("tail"), bool)
    if k == "hbefore":
        return inf["hold"] and _is_rat(o.get("x")) and isinstance(o.get("incl"), bool) and isinstance(o.get("head"), bool)
    if k == "hbetween":
        return inf["hold"] and _is_rat(o.get("lo")) and _is_rat(o.get("hi")) and all(isinstance(o.get(f), bool) for f in ("il", "ih", "head", "tail"))
    if k == "sorted":
        return isinstance(o.get("rev"), bool)
    if k == "edit":
        return o.get("how") in ("iadd", "assign", "cell", "loc", "hlen") and (inf["hold"] or o["how"] != "hlen") \
            and _is_rat(o.get("d")) and _oint(o.get("i")) and o.get("i") is not None
    if k == "append":
        if o.get("how") == "member":
            return isinstance(o.get("m"), int) and not isinstance(o["m"], bool) and o["m"] >= 0 and isinstance(o.get("sort"), bool)
        if o.get("how") == "item":
            return isinstance(o.get("kws"), list) and len(o["kws"]) == 1 and _kw_ok(inf, o["kws"][0])
        return o.get("how") == "list" and isinstance(o.get("rows"), list) and all(_row_ok(inf, r) for r in o["rows"])
    return False


def _on_ok(o):
    on = o.get("on")
    return on is None or (isinstance(on, int) and not isinstance(on, bool) and on >= 0)


def valid(case):
    try:
        if case.get("cls") not in classes():
            return False
        inf = info(case["cls"])
        if not _init_ok(inf, case["init"]):
            return False
        if case["claim"] == "fields":
            return True
        if case["init"]["how"] == "nil":
            return False
        return (isinstance(case["ops"], list) and all(isinstance(o, dict) and _op_ok(inf, o) and _on_ok(o) for o in case["ops"])
                and isinstance(case["probes"], list) and all(isinstance(p, int) and not isinstance(p, bool) for p in case["probes"]))
    except Exception:
        return False


# ------------------------------------------------------------------------------------------ adapters

def err_class(e):
    if isinstance(e, IndexError):
        return "index"
    if isinstance(e, KeyError):
        return "key"
    if isinstance(e, ValueError):
        return "value"
    if isinstance(e, TypeError):
        return "type"
    return "other:" + type(e).__name__


def build_frame_list(inf, labels, rows):
    import pandas as pd
    cls = inf["cls"]
    if not rows:
        return cls([])
    cols = list(inf["props"])
    return cls(pd.DataFrame({c: [pv(r[c]) for r in rows] for c in cols}, index=labels))


def build(inf, init):
    cls, item = inf["cls"], inf["item"]
    how = init["how"]
    if how == "nil":
        return cls([])
    if how == "empty":
        return cls.empty(init["n"])
    if how == "frame":
        return build_frame_list(inf, init["labels"], init["rows"])
    if how == "items":
        return cls([item(**{k: pv(v) for k, v in kw.items()}) for kw in init["kws"]])
    if how == "dict":
        return cls.from_dict({k: [pv(v) for v in vs] for k, vs in init["cols"].items()})
    raise ValueError(how)


def state(tl):
    """(cols, wire table) of the implementation's frame"""
    df = tl.df
    cols = [str(c) for c in df.columns]
    data = [df.iloc[:, j].tolist() for j in range(len(cols))]
    labels = [int(l) for l in df.index.tolist()]
    tbl = [[labels[i], [[cols[j], enc(data[j][i])] for j in range(len(cols))]] for i in range(len(labels))]
    return cols, tbl


def canon_rec(rec):
    """a row as a mapping: fields in name order; a NaN cell is pandas' padding for an absent field"""
    return sorted(([k, ({"q": [int(c["b"]), 1]} if "b" in c else c)] for k, c in rec if c is not None), key=lambda kc: kc[0])


def plain(tbl):
    """the plain sequence of rows (no labels) the specification speaks about"""
    return [canon_rec(r) for _, r in tbl]


def item_rec(it):
    return [[str(k), enc(v)] for k, v in it.data.to_dict().items()]


def observe(tl, probes):
    o = {}
    o["len"] = len(tl)
    o["cls"] = type(tl).__name__

    def attempt(f):
        try:
            return {"ok": f()}
        except Exception as e:
            return {"err": err_class(e)}

    o["first"] = attempt(lambda: None if tl.first_offset() is None else R(Fr(float(tl.first_offset()))))
    o["last"] = attempt(lambda: None if tl.last_offset() is None else R(Fr(float(tl.last_offset()))))

    def fl():
        a, b = tl.first_last_offset()
        return [None if a is None else R(Fr(float(a))), None if b is None else R(Fr(float(b)))]
    o["fl"] = attempt(fl)
    o["gets"] = [[i, attempt(lambda i=i: item_rec(tl[i]))] for i in probes]
    try:
        o["item_cls"] = sorted({type(tl[i]).__name__ for i in range(min(len(tl), 2))})
    except Exception:
        o["item_cls"] = []
    o["iter"] = attempt(lambda: [item_rec(it) for it in tl])
    return o


def apply_op(inf, tl, o):
    cls, item = inf["cls"], inf["item"]
    k = o["k"]
    x = lambda key: float(F(o[key]["f"]))
    if k == "slice":
        return tl[slice(o["a"], o["b"], o["c"])]
    if k == "after":
        return tl.after(x("x")) if (o.get("dflt") and not o["incl"]) else tl.after(x("x"), o["incl"])
    if k == "before":
        return tl.before(x("x")) if (o.get("dflt") and not o["incl"]) else tl.before(x("x"), include_end=o["incl"])
    if k == "between":
        if o.get("dflt") and o["il"] and not o["ih"]:
            return tl.between(x("lo"), x("hi"))
        ends = o["il"] if o.get("as_bool") else (o["il"], o["ih"])
        return tl.between(x("lo"), x("hi"), ends)
    if k == "hafter":
        if not o["tail"] and o.get("dflt"):
            return tl.after(x("x"), include_end=o["incl"])
        return tl.after(x("x"), include_end=o["incl"], include_tail=o["tail"])
    if k == "hbefore":
        return tl.before(x("x"), include_end=o["incl"], include_head=o["head"])
    if k == "hbetween":
        return tl.between(x("lo"), x("hi"), include_ends=(o["il"], o["ih"]), include_head=o["head"], include_tail=o["tail"])
    if k == "sorted":
        return tl.sorted() if (o.get("dflt") and not o["rev"]) else tl.sorted(reverse=o["rev"])
    if k == "append":
        val = append_val(inf, o)
        return tl.append(val, sort=True) if o["sort"] else (tl.append(val) if o.get("dflt", True) else tl.append(val, sort=False))
    raise ValueError(k)


def apply_edit(inf, tl, o):
    """edits the list IN PLACE through the public API (the list object and its frame stay the same objects);
    returns False when there is nothing to edit"""
    n = len(tl)
    if n == 0:
        return False
    d = float(F(o["d"]["f"]))
    how = o["how"]
    i = o["i"] % n
    if how == "iadd":
        tl.offset += d                               # list-property column setter: df["offset"] = ...
    elif how == "assign":
        vals = [float(v) for v in tl.offset.tolist()]
        vals[i] = vals[i] + d
        tl.offset = vals
    elif how == "cell":
        j = list(tl.df.columns).index("offset")
        tl.df.iloc[i, j] = float(tl.df.iloc[i, j]) + d
    elif how == "loc":
        lab = tl.df.index[i]
        if list(tl.df.index).count(lab) != 1:
            return False
        tl.df.loc[lab, "offset"] = float(tl.df.loc[lab, "offset"]) + d
    elif how == "hlen":
        tl.length = tl.length + abs(d)
    return True


def append_val(inf, o):
    if o["how"] == "item":
        return inf["item"](**{k: pv(v) for k, v in o["kws"][0].items()})
    return build_frame_list(inf, list(range(len(o["rows"]))), o["rows"])


def wire_op(inf, o):
    """operation as the model takes it (exact values; the appended rows as the implementation received them)"""
    k = o["k"]
    q = lambda key: R(float(F(o[key]["f"])))      # the exact value of the double the implementation received
    if k == "slice":
        return dict(k=k, a=o["a"], b=o["b"], c=o["c"])
    if k in ("after", "before"):
        return dict(k=k, x=q("x"), incl=o["incl"])
    if k == "between":
        return dict(k=k, lo=q("lo"), hi=q("hi"), il=o["il"], ih=o["ih"])
    if k == "hafter":
        return dict(k=k, x=q("x"), incl=o["incl"], tail=o["tail"])
    if k == "hbefore":
        return dict(k=k, x=q("x"), incl=o["incl"], head=o["head"])
    if k == "hbetween":
        return dict(k=k, lo=q("lo"), hi=q("hi"), il=o["il"], ih=o["ih"], head=o["head"], tail=o["tail"])
    if k == "sorted":
        return dict(k=k, rev=o["rev"])
    val = append_val(inf, o)
    if o["how"] == "item":
        ys = [item_rec(val)]
    else:
        ys = [r for _, r in state(val)[1]]
    return dict(k="append", ys=ys, sort=o["sort"])


def tbl_eq(a, b, labels=True):
    if len(a) != len(b):
        return False
    for (la, ra), (lb, rb) in zip(a, b):
        if labels and la != lb:
            return False
        if not rec_eq(ra, rb):
            return False
    return True


def off_of(rec):
    d = rec_dict(rec)
    return d["offset"][1] if "offset" in d and d["offset"][0] == "q" else None


def tie_equiv(a, b):
    """same labelled rows, differing only in the order inside groups of equal offset"""
    if len(a) != len(b):
        return False
    if [off_of(r) for _, r in a] != [off_of(r) for _, r in b]:
        return False
    # NaN cells are pandas' padding for fields a row does not have (see rec_eq)
    key = lambda r: sorted((k, v) for k, v in rec_dict(r).items() if v != ("nan",))
    ka = sorted(key(r) for _, r in a)
    kb = sorted(key(r) for _, r in b)
    return ka == kb


def model_init(drv, case, inf):
    init = case["init"]
    how = init["how"]
    name = case["cls"]
    if how == "frame":
        cols = list(inf["props"])
        rows = [[l, [[c, enc(pv(r[c]))] for c in cols]] for l, r in zip(init["labels"], init["rows"])]
        return {"ok": {"cols": cols, "rows": rows}}
    if how == "nil":
        return drv.call("c16.fields", cls=name, how="nil")
    if how == "empty":
        return drv.call("c16.fields", cls=name, how="empty", n=init["n"])
    if how == "items":
        return drv.call("c16.fields", cls=name, how="items",
                        items=[[[k, enc(pv(v))] for k, v in kw.items()] for kw in init["kws"]])
    return drv.call("c16.fields", cls=name, how="dict",
                    dict=[[k, [enc(pv(v)) for v in vs]] for k, vs in init["cols"].items()])


def list_default_fields(inf):
    return [k for k, (dt, d) in inf["props"].items() if isinstance(d, list)]


def run(case, drv):
    warnings.simplefilter("ignore")
    return dict(history=run_history, fields=run_fields)[case["claim"]](case, drv)


def run_fields(case, drv):
    name = case["cls"]
    inf = info(name)
    init = case["init"]
    how = init["how"]
    tags = [how, name]
    try:
        tl = build(inf, init)
        cols, tbl = state(tl)
        impl = {"ok": dict(cols=cols, rows=tbl)}
    except Exception as e:
        impl = {"err": err_class(e)}
    m = model_init(drv, case, inf)
    declared = list(inf["props"])
    # expected number of rows
    if how == "nil":
        want = 0
    elif how == "empty":
        want = init["n"]
    elif how == "items":
        want = len(init["kws"])
    else:
        want = len(next(iter(init["cols"].values()))) if init["cols"] else 0
    undeclared = how == "dict" and any(k not in declared for k in init["cols"])
    detail = {}
    if "ok" in impl:
        # for empty(n) the rows are judged too: every declared field present with a value (no NaN) in every row
        judged_rows = [r for _, r in impl["ok"]["rows"]] if how == "empty" else []
        spec = drv.call("c16.spec_fields", cls=name, cols=impl["ok"]["cols"], rows=judged_rows)["ok"]
        ok = spec["declared"] and spec["no_missing"] and spec["row_fields"] and len(impl["ok"]["rows"]) == want and not undeclared
        # column order and row labels are pandas detail the property does not name
        agree = "ok" in m and sorted(m["ok"]["cols"]) == sorted(impl["ok"]["cols"]) and \
            tbl_eq(impl["ok"]["rows"], m["ok"]["rows"], labels=False)
        if agree and (m["ok"]["cols"] != impl["ok"]["cols"] or not tbl_eq(impl["ok"]["rows"], m["ok"]["rows"])):
            tags.append("labels-or-column-order-differ")
    else:
        ok = undeclared            # refusing a dict with an undeclared key keeps the declared fields; any other failure does not
        agree = "err" in m and m["err"] == impl["err"]
        tags.append("impl-raises")
    # known findings
    kf = None
    dom = True
    if name == "OsuSvList" and how == "items" and init["kws"]:
        dom = False                # D34: OsuSv items carry an undeclared 'metronome'
        if not ok and "ok" in impl and set(impl["ok"]["cols"]) - set(declared) == {"metronome"} \
                and len(impl["ok"]["rows"]) == want:
            kf = "D34"
    if how == "dict" and not undeclared and want > 0 and any(k not in init["cols"] for k in list_default_fields(inf)):
        tags.append("list-default-filled")     # the D24 situation (repaired): from_dict fills one fresh list per row
    if not (ok and agree):
        detail = dict(impl=impl, model=m, declared=declared)
    return dict(claim="fields", ok=ok, agree=agree, dom=dom, kf=kf, tags=tags, nontrivial=how != "nil", detail=detail)


def run_history(case, drv):
    name = case["cls"]
    inf = info(name)
    tags = [case["init"]["how"], "hold" if inf["hold"] else "timed"]
    ok, agree = True, True
    detail = {}
    nontrivial = False

    def fail(kind, **kw):
        nonlocal ok, agree
        if kind == "ok":
            ok = False
        else:
            agree = False
        if len(detail) < 6:
            detail[f"{kind}:{len(detail)}"] = kw

    # ---- initial list
    m0 = model_init(drv, case, inf)
    try:
        cur = build(inf, case["init"])
    except Exception as e:
        # construction failures are the `fields` claim's business; here only the correspondence is recorded
        ec = err_class(e)
        if not ("err" in m0 and m0["err"] == ec):
            fail("agree", step="init", impl=ec, model=m0)
        return dict(claim="history", ok=True, agree=agree, dom=False, tags=tags + ["init-raises"], nontrivial=False, detail=detail)
    cols, tbl = state(cur)
    if "ok" not in m0 or not tbl_eq(tbl, m0["ok"]["rows"], labels=False) or sorted(m0["ok"]["cols"]) != sorted(cols):
        fail("agree", step="init", impl=dict(cols=cols, rows=tbl), model=m0)
    elif not tbl_eq(tbl, m0["ok"]["rows"]):
        tags.append("labels-differ")
    init_tbl = m0["ok"]["rows"] if "ok" in m0 else tbl
    synced = True            # the whole-run comparison is meaningful while no sort chose another tie order
    probes = case["probes"]

    def check_obs(tl, tbl, step):
        nonlocal nontrivial
        o = observe(tl, probes)
        mo = drv.call("c16.obs", cls=name, rows=tbl, idx=probes)["ok"]
        # (C)
        if o["len"] != mo["len"]:
            fail("agree", step=step, what="len", impl=o["len"], model=mo["len"])
        if o["cls"] != name:
            fail("agree", step=step, what="class", impl=o["cls"])
        if o["item_cls"] and o["item_cls"] != [inf["item"].__name__]:
            fail("agree", step=step, what="item class", impl=o["item_cls"])
        fo = o["first"]
        if not ("ok" in fo and (None if fo["ok"] is None else F(fo["ok"])) == (None if mo["first"] is None else F(mo["first"]))):
            fail("agree", step=step, what="first", impl=fo, model=mo["first"])
        lo, ml = o["last"], mo["last"]
        same_last = ("err" in lo and "err" in ml and lo["err"] == ml["err"]) or \
                    ("ok" in lo and "ok" in ml and (None if lo["ok"] is None else F(lo["ok"])) == (None if ml["ok"] is None else F(ml["ok"])))
        if not same_last:
            fail("agree", step=step, what="last", impl=lo, model=ml)
        for (i, g), mg in zip(o["gets"], mo["gets"]):
            if "err" in g or "err" in mg:
                if not ("err" in g and "err" in mg and g["err"] == mg["err"]):
                    fail("agree", step=step, what=f"get {i}", impl=g, model=mg)
            elif not rec_eq(g["ok"], mg["ok"]):
                fail("agree", step=step, what=f"get {i}", impl=g, model=mg)
        it, mi = o["iter"], mo["iter"]
        if "err" in it or "err" in mi:
            if not ("err" in it and "err" in mi and it["err"] == mi["err"]):
                fail("agree", step=step, what="iter", impl=it, model=mi)
        elif len(it["ok"]) != len(mi["ok"]) or not all(rec_eq(a, b) for a, b in zip(it["ok"], mi["ok"])):
            fail("agree", step=step, what="iter", impl=it, model=mi)
        # (S) on plain rows
        if "err" in o["first"] or "err" in o["iter"]:
            fail("ok", step=step, what="observable raises", impl=dict(first=o["first"], iter=o["iter"]))
            return
        so = drv.call("c16.spec_obs", cls=name, rows=plain(tbl), len=o["len"], first=o["first"]["ok"], last=o["last"],
                      gets=[[i, ({"ok": canon_rec(g["ok"])} if "ok" in g else g)] for i, g in o["gets"]],
                      iter=[canon_rec(r) for r in o["iter"]["ok"]])["ok"]
        for k, v in so.items():
            if not v:
                fail("ok", step=step, what=k, impl={k: o.get(k)}, rows=plain(tbl))
        # first_last_offset is the pair of the two
        fl = o["fl"]
        if "ok" in fl:
            if not ("ok" in o["last"] and fl["ok"] == [o["first"]["ok"], o["last"]["ok"]]):
                fail("ok", step=step, what="first_last_offset", impl=fl, first=o["first"], last=o["last"])
        elif not (o["len"] == 0):
            fail("ok", step=step, what="first_last_offset raises", impl=fl)
        labels = [l for l, _ in tbl]
        if len(tbl) >= 2 and labels != list(range(len(tbl))):
            nontrivial = True

    check_obs(cur, tbl, "init")
    # ---- operations over a POOL of live lists: every operation takes a receiver from the pool, its result joins the
    # pool, the receiver stays; after every step every live list is read again and must be what it was
    pool = [dict(tl=cur, tbl=tbl)]
    pool_ops = []

    def check_live(step, skip=None):
        for k, mem in enumerate(pool):
            if k == skip:
                continue
            try:
                _, now = state(mem["tl"])
            except Exception as e:
                fail("ok", step=step, what=f"live list {k} cannot be read any more", impl=err_class(e))
                continue
            if not tbl_eq(now, mem["tbl"], labels=False):
                # a plain sequence does not change when something is derived from it
                fail("ok", step=step, what=f"live list {k} changed (rows were {len(mem['tbl'])}, order/content differ)",
                     was=plain(mem["tbl"])[:6], now=plain(now)[:6])
            else:
                check_obs(mem["tl"], mem["tbl"], f"{step}/live{k}")

    for si, o in enumerate(case["ops"]):
        ri = (len(pool) - 1) if o.get("on") is None else o["on"] % len(pool)
        rec = pool[ri]
        cur, tbl = rec["tl"], rec["tbl"]
        if ri != len(pool) - 1:
            tags.append("earlier-receiver")
        if o["k"] == "edit":
            # not an operation of the property but a client's in-place edit: afterwards every live list is read again
            # through its frame (a list derived by slicing may legitimately share memory with the edited one - that is
            # C14's subject, not C16's) and every observable must be the one of the CURRENT rows
            try:
                done = apply_edit(inf, cur, o)
            except Exception as e:
                tags.append("edit-raises:" + err_class(e))
                break
            if not done:
                tags.append("edit-nothing")
                continue
            tags.append("edit:" + o["how"])
            synced = False
            stop = False
            for k2, mem in enumerate(pool):
                try:
                    _, now = state(mem["tl"])
                except Exception as e:
                    tags.append("edit-unreadable:" + err_class(e))
                    stop = True
                    break
                mem["tbl"] = now
            if stop:
                break
            for k2, mem in enumerate(pool):
                check_obs(mem["tl"], mem["tbl"], f"{si}/after-edit/live{k2}")
            nontrivial = True
            continue
        try:
            if o["k"] == "append" and o.get("how") == "member":
                src = pool[o["m"] % len(pool)]
                wo = dict(k="append", ys=[r for _, r in src["tbl"]], sort=o["sort"])
                tags.append("append-live-list")
            else:
                src = None
                wo = wire_op(inf, o)
        except Exception as e:
            # the appended value itself could not be built (constructor failure): not this claim's business
            tags.append("append-value-raises")
            break
        tags.append(o["k"])
        try:
            if src is not None:
                nxt = cur.append(src["tl"], sort=True) if o["sort"] else cur.append(src["tl"])
            else:
                nxt = apply_op(inf, cur, o)
            _, ntbl = state(nxt)
            impl = {"ok": ntbl}
        except Exception as e:
            nxt = None
            impl = {"err": err_class(e)}
        m = drv.call("c16.step", rows=tbl, o=wo)
        sorting = o["k"] == "sorted" or (o["k"] == "append" and o["sort"])
        if "err" in impl or "err" in m:
            if not ("err" in impl and "err" in m and impl["err"] == m["err"]):
                fail("agree", step=si, op=o, impl=impl, model=m)
        elif not tbl_eq(impl["ok"], m["ok"], labels=False):
            # row labels are not observable through the list API (Props/C16 labels_irrelevant): rows only
            if sorting and tie_equiv(impl["ok"], m["ok"]):
                tags.append("tie-order")
                synced = False
            else:
                fail("agree", step=si, op=o, impl=impl, model=m, prev=tbl)
        elif not tbl_eq(impl["ok"], m["ok"]):
            tags.append("labels-differ")
        so_ = dict(wo, ys=[canon_rec(r) for r in wo["ys"]]) if "ys" in wo else wo
        sp = drv.call("c16.spec_step", prev=plain(tbl), o=so_,
                      next=({"ok": plain(impl["ok"])} if "ok" in impl else impl))["ok"]
        if not sp:
            fail("ok", step=si, op=o, prev=plain(tbl), impl=impl)
        # non-triviality: a bound that equals some key, or ties under a sort
        offs = [off_of(r) for _, r in tbl]
        if len(tbl) >= 2 and (len(set(offs)) < len(offs) or any(F(wo[b]) in offs for b in ("x", "lo", "hi") if b in wo)):
            nontrivial = True
        if nxt is None:
            tags.append("op-raises")
            check_live(si)          # a refused operation must not have touched anything either
            break
        pool_ops.append([ri, wo])
        pool.append(dict(tl=nxt, tbl=impl["ok"]))
        check_obs(nxt, impl["ok"], si)
        check_live(si, skip=len(pool) - 1)
    else:
        if synced and pool_ops:
            mr = drv.call("c16.run_pool", rows=init_tbl, ops=pool_ops)
            if "ok" not in mr or len(mr["ok"]) != len(pool) or \
                    not all(tbl_eq(mem["tbl"], mt, labels=False) for mem, mt in zip(pool, mr["ok"])):
                fail("agree", step="run_pool", impl=[mem["tbl"] for mem in pool][-2:], model=mr if "err" in mr else mr["ok"][-2:])
    return dict(claim="history", ok=ok, agree=agree, dom=True, kf=None, tags=sorted(set(tags)), nontrivial=nontrivial,
                detail=detail)
