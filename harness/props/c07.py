"""C07 — O2Jam reading: every note, long-note end and tempo change at the time its measure position implies;
columns, head/tail pairing, the 300-byte header.

Correspondence: `O2JMapSet.read(bytes)` against `Model/O2J.lean: readFile` on the same byte string.
Specification: `Spec/O2J.lean` (`specMeta` = fields at the declared offsets, `pairFrom`, `posTime`) evaluated by the
driver on the same bytes; the implementation's output is compared with it as multisets of objects per difficulty.
Times are doubles in the implementation and exact rationals in the model: compared within the DESIGN §3 tolerance
plus a forward error bound of the float computation (see `tolerances`).

A case is a structured description of an .ojn file (header attributes, three lists of packages, trailing bytes,
optional malformations); `build(case)` assembles the bytes that both sides receive.
"""
import logging
import math
import struct
import warnings
from fractions import Fraction as Fr

from lib.rat import F

ID = "C07"
QUICK_N = 330
THOROUGH_N = 15000
QUICK_BUDGET_S = 85
THOROUGH_BUDGET_S = 900
RULE = ("about 70% of the file cases go through O2JMapSet.read(bytes), the rest through O2JMapSet.read_file on a temporary .ojn (str and "
        "pathlib.Path); claim seq reads 2-3 files 2-5 times in one process through any entry point (same song id, same packages "
        "under another header tempo, a head left open followed by a file starting with a tail on that column, files repeated), "
        "takes the results off the returned objects only after all reads (difficulties interleaved) and lets one O2JMapSetMeta "
        "instance read every header in turn; each read is judged against the model/specification of its own bytes; "
        "claim sess is a session in one fresh process: 1-3 files under 1-2 paths, read 2-5 times through read_file under different "
        "spellings of the same path (absolute, Path, /./, /../, relative, symlinks) and read(bytes), every earlier result edited in "
        "place between the reads (20 editing routes), files rewritten between reads (other/same content, same size with the old "
        "mtime), every read judged right after the call against the bytes the path held then. "
        "Generated .ojn byte strings: random header (all 23 fields, NULs and non-ASCII bytes in the texts), three "
        "difficulties of 0-40 (thorough: 0-200) packages, slot counts 1-192, note channels 2-8 with hits and long notes "
        "spanning packages and measures, 0-30 tempo events anywhere (position 0, inside one measure, coinciding with notes, "
        "after the last note), autoplay/unknown channels, trailing bytes, shuffled package order, and a small share of "
        "ill-formed files (truncated, unpaired tails, measure-fraction packages, tempo 0/negative, short header); about 14% of the "
        "files carry tempo floats from the rest of the float32 range as bit patterns (NaN of both signs and several payloads, "
        "+-inf, the largest floats, subnormals and very small numbers, -0.0) as events and as header tempo; "
        "claims f32/int check the byte decoders on random bit patterns; non-trivial = a difficulty with at least two "
        "tempo events and a note after the second, or a long note crossing a package boundary")
ASSUMPTIONS = [
    "claim seq is evaluated in a fresh Python process per case (its own sequence is the only history); a failing claim read is re-evaluated in a fresh process and tagged history-dependent when it only fails after other reads",
    "struct.unpack('<i'/'<h'/'<f') is modelled (two's complement, IEEE-754 single -> exact rational) and cross-checked on random bit patterns",
    "float measure positions fl(fl(i/n)+m) order exactly like the rationals m+i/n for m <= 100000, n <= 2000 (generator domain)",
    "times compared within 2^-40 relative + a forward error bound (k+2)*2^-49*(Mmax+1)*240000/min|bpm| of the double computation",
    "volume/pan are modelled and reported as a tag only: the property does not name them",
    "ordinary tempos are 0 or 1e-3 <= |bpm| <= 1e6; the rest of the float32 range (NaN, +-inf, subnormals, the largest and smallest normal numbers, -0.0) is generated as bit patterns: NaN/inf/large anywhere, subnormal/very small ones only in effect over a distance of exactly 0",
    "a model time at or beyond 2^52 ms in magnitude puts the case outside the domain (tag beyond-2^52ms, not judged): from 2^64 ms on the int64 item Series of O2JHit/O2JHold raise ValueError inside pandas' setitem (find_result_type -> np.iinfo(object)); observed on the real code with a tempo of 1e-20 in effect over one measure",
]
TRUSTED_EXTRA = ["files with a NaN / +-inf tempo are judged against Model.readFileX (the same reader over every float32; proved to refine "
                 "Model.readFile wherever that one does not decline: readFileX_refines, and re-evaluated on every case: xrefines)"]

E_BPMS = [50.0, 60.0, 75.0, 100.0, 120.0, 125.0, 128.0, 150.0, 160.0, 200.0, 240.0, 250.0, 300.0, 375.0, 37.5, 62.5, 93.75, 187.5,
          480.0, 600.0]
SLOTS = [1, 1, 2, 2, 3, 4, 4, 4, 6, 8, 8, 12, 16, 16, 24, 32, 48, 64, 96, 192, 5, 7, 9]
HDR_INTS = ["song_id", "genre", "bmp_size", "old_file_version", "cover_size", "cover_offset"]
HDR_SHORTS = ["old_encode_version", "old_song_id"]
HDR_INT3 = ["event_count", "note_count", "measure_count", "duration", "note_offset"]
HDR_TEXT = dict(signature=4, old_genre=20, title=64, artist=32, creator=32, ojm_file=32)
ATTRS = ["song_id", "signature", "encode_version", "genre", "bpm", "level", "event_count", "note_count", "measure_count",
         "package_count", "old_encode_version", "old_song_id", "old_genre", "bmp_size", "old_file_version", "title", "artist",
         "creator", "ojm_file", "cover_size", "duration", "note_offset", "cover_offset"]


def f32(x):
    """nearest float32 as a Python float"""
    return struct.unpack("<f", struct.pack("<f", x))[0]


def is_f32(x):
    try:
        return isinstance(x, float) and math.isfinite(x) and f32(x) == x
    except (OverflowError, struct.error):
        return False


def sane_tempo(x):
    """0 (= no event) or a magnitude for which every time stays far inside the int64 / double-integer range"""
    return is_f32(x) and (x == 0 or 1e-3 <= abs(x) <= 1e6)


def is_bits(x):
    """a float32 given by its bit pattern: {"bits": u32} (NaN, +-inf, subnormals, -0.0, the largest floats ... are not JSON numbers)"""
    return isinstance(x, dict) and set(x) == {"bits"} and isinstance(x["bits"], int) and not isinstance(x["bits"], bool) \
        and 0 <= x["bits"] < 2 ** 32


def fval(x):
    """the Python float of a tempo entry (a float, or a bit pattern)"""
    return struct.unpack("<f", struct.pack("<I", x["bits"]))[0] if isinstance(x, dict) else x


def pack_f(x):
    return struct.pack("<I", x["bits"]) if isinstance(x, dict) else struct.pack("<f", x)


def tempo_entry_ok(x):
    return is_bits(x) or sane_tempo(x)


# ------------------------------------------------------------------------------------------ bytes

def _text(s, n):
    b = s.encode("latin-1")[:n]
    return b + b"\0" * (n - len(b))


def build_header(h, pkg_counts):
    b = struct.pack("<i", h["song_id"]) + _text(h["signature"], 4) + struct.pack("<f", h["encode_version"])
    b += struct.pack("<i", h["genre"]) + pack_f(h["bpm"]) + struct.pack("<4h", *h["level"])
    b += struct.pack("<3i", *h["event_count"]) + struct.pack("<3i", *h["note_count"]) + struct.pack("<3i", *h["measure_count"])
    b += struct.pack("<3i", *pkg_counts)
    b += struct.pack("<hh", h["old_encode_version"], h["old_song_id"]) + _text(h["old_genre"], 20)
    b += struct.pack("<ii", h["bmp_size"], h["old_file_version"])
    b += _text(h["title"], 64) + _text(h["artist"], 32) + _text(h["creator"], 32) + _text(h["ojm_file"], 32)
    b += struct.pack("<i", h["cover_size"]) + struct.pack("<3i", *h["duration"]) + struct.pack("<3i", *h["note_offset"])
    b += struct.pack("<i", h["cover_offset"])
    assert len(b) == 300
    return b


def build_pkg(p):
    ch = p["ch"]
    if ch in (0, 1):
        ev = b"".join(pack_f(x) for x in p["ev"])
    else:
        ev = b"".join(struct.pack("<hBB", e[0], e[1], e[2]) for e in p["ev"])
    n = p.get("n", len(p["ev"]))
    return struct.pack("<ihh", p["m"], ch, n) + ev


def build(case):
    opts = case.get("opts") or {}
    counts = opts.get("pkg_counts") or [len(l) for l in case["levels"]]
    b = build_header(case["hdr"], counts)
    for l in case["levels"]:
        for p in l:
            b += build_pkg(p)
    b += bytes(case.get("tail") or [])
    if opts.get("cut") is not None:
        b = b[: opts["cut"]]
    return b


# ------------------------------------------------------------------------------------------ generators

def gen_bpm(rng, wide=False):
    r = rng.random()
    if r < 0.5:
        return rng.choice(E_BPMS)
    if r < 0.9 or not wide:
        return f32(round(rng.uniform(30, 400), rng.choice([0, 1, 2, 5])))
    return f32(rng.choice([rng.uniform(5, 30), rng.uniform(400, 5000)]))


NAN_BITS = [0x7FC00000, 0xFFC00000, 0x7F800001, 0x7FFFFFFF, 0xFF800001]
INF_BITS = [0x7F800000, 0xFF800000]
HUGE_BITS = [0x7F7FFFFF, 0xFF7FFFFF, 0x7F000000, 0x60000000]
TINY_BITS = [0x00000001, 0x80000001, 0x007FFFFF, 0x807FFFFF, 0x00800000, 0x80800000, 0x00400000, 0x0D000000]


def gen_special(rng, kinds=("nan", "inf", "huge")):
    """a float32 outside the ordinary tempo range, as a bit pattern"""
    k = rng.choice(kinds)
    if k == "nan":
        b = rng.choice(NAN_BITS + [0x7F800000 | rng.randrange(1, 2 ** 23) | (rng.randrange(2) << 31)])
    elif k == "inf":
        b = rng.choice(INF_BITS)
    elif k == "huge":
        b = rng.choice(HUGE_BITS + [(rng.randrange(2) << 31) | (rng.randrange(200, 255) << 23) | rng.randrange(2 ** 23)])
    else:   # tiny: subnormal or a very small normal number
        b = rng.choice(TINY_BITS + [(rng.randrange(2) << 31) | rng.randrange(1, 2 ** 23),
                                    (rng.randrange(2) << 31) | (rng.randrange(1, 60) << 23) | rng.randrange(2 ** 23)])
    return dict(bits=b)


def add_specials(rng, level, hdr_holder=None):
    """the whole float32 range as tempo values (class: every value struct.unpack can return, not only ordinary tempos).
    NaN, +-inf and the largest floats go anywhere.  Subnormal / very small tempos are only put where they are in effect
    over a zero distance (directly superseded at the same position by the next tempo package of the file, or after
    everything else): in effect over any positive distance they give times beyond 2^64 ms, where pandas' int64 item
    Series raises (ASSUMPTIONS)."""
    meas = sorted({p["m"] for p in level}) or [0]
    hi = max(meas)
    for _ in range(rng.choice([1, 1, 2, 3])):
        q = rng.random()
        if q < 0.6:
            n = rng.choice([1, 2, 4, 3])
            ev = [0.0] * n
            ev[rng.randrange(n)] = gen_special(rng)
            if n > 1 and rng.random() < 0.3:
                ev[rng.randrange(n)] = rng.choice([-0.0, gen_bpm(rng), gen_special(rng)])
            level.insert(rng.randrange(len(level) + 1), dict(m=rng.choice(meas + [hi + 1, 0]), ch=1, ev=ev))
        elif q < 0.8:   # tiny, superseded at the same position by the package that follows it in the file
            m = rng.choice(meas + [hi + 1])
            n = rng.choice([1, 2, 4])
            k = rng.randrange(n)
            a, b = [0.0] * n, [0.0] * n
            a[k] = gen_special(rng, ("tiny",))
            b[k] = rng.choice([gen_bpm(rng), gen_bpm(rng), gen_special(rng)])
            level.append(dict(m=m, ch=1, ev=a))
            level.append(dict(m=m, ch=1, ev=b))
        else:           # tiny, after everything else
            level.append(dict(m=hi + rng.choice([1, 2, 7]), ch=1, ev=[gen_special(rng, ("tiny",))]))


def bookify(case):
    """make a file description by-the-book (in place): empty slots and events of unknown type become four zero bytes,
    packages of channels other than 1..8 are dropped, the event count is the number of events, no truncation / count
    overrides - what an encoder working from an abstract chart writes"""
    case.pop("opts", None)
    for l in case["levels"]:
        l[:] = [p for p in l if 1 <= p["ch"] <= 8]
        for p in l:
            p.pop("n", None)
            if p["ch"] != 1:
                p["ev"] = [e if (e[0] != 0 and e[2] in (0, 2, 3)) else [0, 0, 0] for e in p["ev"]]
    return case


def f32_parts(x):
    """[sign, exponent, mantissa] of a tempo entry"""
    u = struct.unpack("<I", pack_f(x))[0]
    return [u >> 31, (u >> 23) & 255, u & (2 ** 23 - 1)]


def abstract(case):
    """the abstract chart (input of the Lean encoder model `encodeChart`) of a by-the-book file description, or None"""
    if case.get("opts"):
        return None
    h = case["hdr"]
    try:
        hdr = {k: h[k] for k in HDR_INTS + HDR_SHORTS + HDR_INT3 + ["level"]}
        for k in HDR_TEXT:
            hdr[k] = list(h[k].encode("latin-1"))
        hdr["encode_version"] = f32_parts(h["encode_version"])
        hdr["bpm"] = f32_parts(h["bpm"])
    except (UnicodeEncodeError, KeyError):
        return None
    levels = []
    for l in case["levels"]:
        al = []
        for p in l:
            if "n" in p or len(p["ev"]) >= 2 ** 15:
                return None
            if p["ch"] == 1:
                sl = []
                for e in p["ev"]:
                    parts = f32_parts(e)
                    sl.append(None if parts == [0, 0, 0] else parts)
                al.append(dict(k="t", m=p["m"], sl=sl))
            elif 2 <= p["ch"] <= 8:
                sl = []
                for e in p["ev"]:
                    if e == [0, 0, 0]:
                        sl.append(None)
                    elif e[0] != 0 and e[2] in (0, 2, 3):
                        sl.append([e[0], e[2], e[1] // 16, e[1] % 16])
                    else:
                        return None
                al.append(dict(k="n", m=p["m"], c=p["ch"] - 2, sl=sl))
            else:
                return None
        levels.append(al)
    return dict(hdr=hdr, levels=levels, tail=list(case.get("tail") or []))


def gen_text(rng, n):
    r = rng.random()
    k = rng.randint(0, n)
    if r < 0.5:
        s = "".join(rng.choice("abcdefghijklmnopqrstuvwxyzABCDEFGHIJKLMNOPQRSTUVWXYZ0123456789 -_.()") for _ in range(k))
    elif r < 0.8:   # NULs inside, non-ASCII bytes
        s = "".join(chr(rng.choice([0, 0, 32, 65, 97, 127, 128, 200, 255, rng.randrange(256)])) for _ in range(k))
    else:
        s = "".join(chr(rng.randrange(256)) for _ in range(k))
    return s


def gen_header(rng):
    def i32():
        return rng.choice([0, 1, -1, rng.randrange(-2 ** 31, 2 ** 31), rng.randrange(0, 100000), 2 ** 31 - 1, -2 ** 31])

    def i16():
        return rng.choice([0, 1, -1, rng.randrange(-2 ** 15, 2 ** 15), 29, 2 ** 15 - 1, -2 ** 15])
    h = {k: i32() for k in HDR_INTS}
    h.update({k: i16() for k in HDR_SHORTS})
    h.update({k: [i32() for _ in range(3)] for k in HDR_INT3})
    h["level"] = [i16() for _ in range(4)]
    h.update({k: gen_text(rng, n) for k, n in HDR_TEXT.items()})
    if rng.random() < 0.5:
        h["signature"] = "ojn\0"
    h["encode_version"] = rng.choice([f32(2.9), 0.0, f32(rng.uniform(-10, 10)), 1.0])
    h["bpm"] = gen_bpm(rng, wide=True)
    return h


def note_ev(rng, t, enabled=None):
    en = enabled if enabled is not None else rng.choice([1, 1, 1, 2, 7, -1, 300, rng.randrange(1, 2 ** 15)])
    return [en, rng.randrange(256), t]


def gen_level(rng, tier, well_formed=True, small=False):
    """packages of one difficulty. Columns are processed measure by measure so that long notes are well nested;
    the package order is then optionally shuffled in ways that keep every column's own order."""
    big = tier == "thorough"
    r = rng.random()
    if r < 0.08:
        return []
    n_meas = rng.choice([1, 1, 2, 3] if small else [1, 1, 2, 3, 4, 6, 8] + ([12, 20, 28] if big else [10]))
    start = rng.choice([0, 0, 0, 0, 1, 3, 50, 999])
    dens = rng.choice([0.15, 0.3, 0.5, 0.8])
    cols = rng.sample(range(7), rng.choice([1, 2, 4, 7, 7]))
    pkgs = []
    open_ = {c: False for c in range(7)}
    tempo_budget = rng.choice([0, 0, 1, 2, 3, 5, 8, 30])
    tempo_meas = set()
    span = n_meas + rng.choice([0, 0, 1, 3])      # tempo events may lie after the last note
    for _ in range(min(tempo_budget, 12)):
        tempo_meas.add(start + rng.randrange(0, span + 1))
    if tempo_budget and rng.random() < 0.4:
        tempo_meas.add(0)
    remaining = tempo_budget
    for m in range(start, start + n_meas):
        per_meas = []
        for c in cols:
            if rng.random() > dens and not (open_[c] and rng.random() < 0.3):
                continue
            n = rng.choice(SLOTS)
            ev = []
            for i in range(n):
                q = rng.random()
                if q < 0.45:
                    ev.append([0, rng.randrange(256), rng.choice([0, 0, 2, 3, 1])])   # empty slot (type byte ignored)
                elif open_[c]:
                    if q < 0.75:
                        ev.append(note_ev(rng, 3))
                        open_[c] = False
                    else:
                        ev.append([0, 0, 0])
                elif q < 0.8:
                    ev.append(note_ev(rng, 0))
                elif q < 0.95:
                    ev.append(note_ev(rng, 2))
                    open_[c] = True
                else:
                    ev.append(note_ev(rng, rng.choice([1, 4, 5, 255])))                 # unknown type: ignored
            per_meas.append(dict(m=m, ch=c + 2, ev=ev))
        rng.shuffle(per_meas)
        pkgs += per_meas
        if rng.random() < 0.15:   # autoplay / unknown channels
            pkgs.append(dict(m=m, ch=rng.choice([9, 10, 15, 22, 23, 100, -1]),
                             ev=[note_ev(rng, rng.choice([0, 2, 3]), enabled=rng.choice([0, 1])) for _ in range(rng.choice([0, 1, 4]))]))
    # close what is still open, in a last measure
    last = start + n_meas
    for c in range(7):
        if open_[c] and well_formed:
            n = rng.choice([1, 2, 4, 8])
            k = rng.randrange(n)
            pkgs.append(dict(m=last, ch=c + 2, ev=[[0, 0, 0]] * k + [note_ev(rng, 3)] + [[0, 0, 0]] * (n - k - 1)))
            open_[c] = False
    # tempo packages
    tp = []
    for m in sorted(tempo_meas):
        if remaining <= 0:
            break
        n = rng.choice([1, 1, 2, 4, 4, 8, 16, 3, 192]) if remaining > 1 else rng.choice([1, 2, 4])
        ev = []
        for i in range(n):
            if remaining > 0 and rng.random() < (0.6 if n <= 4 else 0.15):
                ev.append(gen_bpm(rng, wide=True))
                remaining -= 1
            else:
                ev.append(rng.choice([0.0, 0.0, -0.0]))
        tp.append(dict(m=m, ch=1, ev=ev))
        if rng.random() < 0.15 and remaining > 0:     # a second tempo package for the same measure
            tp.append(dict(m=m, ch=1, ev=[gen_bpm(rng)]))
            remaining -= 1
    # merge: tempo packages anywhere
    q = rng.random()
    if q < 0.5:
        allp = sorted(pkgs + tp, key=lambda p: (p["m"], p["ch"] != 1))
        # keep per-column order: the sort above is stable w.r.t. the per-measure shuffles only across measures,
        # which is what matters (columns appear once per measure)
    elif q < 0.8:
        allp = list(pkgs)
        for t in tp:
            allp.insert(rng.randrange(len(allp) + 1), t)
    else:
        # interleave columns arbitrarily while keeping each column's own order
        by = {}
        for p in pkgs + tp:
            by.setdefault(p["ch"], []).append(p)
        allp = []
        keys = list(by)
        while keys:
            k = rng.choice(keys)
            allp.append(by[k].pop(0))
            if not by[k]:
                keys.remove(k)
    return allp


def gen(rng, tier, i):
    r = rng.random()
    if r < 0.04:
        return dict(claim="f32", bits=rng.choice([0, 0x80000000, 0x3F800000, 0x7F800000, 0xFF800000, 0x7FC00000, 1, 0x007FFFFF,
                                                 0x00800000, 0x7F7FFFFF, 0x42F00000, rng.randrange(2 ** 32), rng.randrange(2 ** 32)]))
    if r < 0.06:
        return dict(claim="int", bytes=[rng.choice([0, 255, 128, 127, rng.randrange(256)]) for _ in range(4)])
    if r < 0.15:
        return gen_seq(rng, tier)
    if r < 0.25:
        return gen_sess(rng, tier)
    case = gen_file(rng, tier)
    case["via"] = rng.choice(["read", "read", "read", "read_file_str", "read_file_path"])
    return case


def gen_seq(rng, tier):
    """2-3 files read 2-5 times in one process: shared song ids, the same chart under another header tempo, a file with
    a head left open followed by a file whose first long-note event on that column is a tail, files repeated"""
    k = rng.choice([2, 2, 3])
    files = [gen_file(rng, "quick", small=True) for _ in range(k)]
    q = rng.random()
    if q < 0.35:        # same song id (and signature) everywhere, different everything else
        for f in files[1:]:
            f["hdr"]["song_id"] = files[0]["hdr"]["song_id"]
            f["hdr"]["signature"] = files[0]["hdr"]["signature"]
    elif q < 0.65:      # the same packages under a different header tempo / title
        files[1]["levels"] = [[dict(p) for p in l] for l in files[0]["levels"]]
        files[1]["tail"] = list(files[0]["tail"])
        if "opts" in files[0]:
            files[1]["opts"] = dict(files[0]["opts"])
        else:
            files[1].pop("opts", None)
        files[1]["hdr"]["bpm"] = gen_bpm(rng, wide=True)
    elif q < 0.85:      # a head left open on a column, then a file that starts with a tail on it
        c = rng.randrange(2, 9)
        m0 = rng.randrange(0, 4)
        files[0]["levels"][rng.randrange(3)].append(dict(m=m0 + 50, ch=c, ev=[note_ev(rng, 2)]))
        files[1]["levels"][0].insert(0, dict(m=m0, ch=c, ev=[[0, 0, 0], note_ev(rng, 3)]))
    n = rng.choice([2, 2, 3, 4, 5])
    steps = []
    for i in range(n):
        f = i if i < k and rng.random() < 0.7 else rng.randrange(k)
        st = dict(f=f, via=rng.choice(VIAS))
        if rng.random() < 0.5:
            st["levels"] = rng.sample(range(3), 3)
        steps.append(st)
    return dict(claim="seq", files=files, steps=steps)


EDIT_ROUTES = ["hits_offset_add", "holds_length_mul", "holds_offset_add", "stack_offset_mul", "set_stack_offset_add", "bpms_bpm_set",
               "bpms_offset_add", "df_iloc", "df_values", "df_assign", "df_at", "column_set", "drop_rows", "sort_reverse",
               "replace_lists", "objs_dict", "item_setattr", "header_lists", "header_attrs", "maps_list"]
SPELLINGS = ["abs", "path", "dotted", "updown", "rel", "symlink", "dirlink", "bytes"]


def gen_sess(rng, tier):
    """a session in ONE process: 1-3 files written under 1-2 paths of a private directory; the paths are read two or more
    times through read_file (the same path spelled in different ways: absolute str, pathlib.Path, with /./ and /../
    segments, relative to the working directory, through a symlink to the file / to the directory) and read(bytes);
    between the reads EVERY earlier result is edited in place through the ordinary editing routes, and files are
    rewritten (other content, the same content, other content of the same size with the old modification time).
    Every read is judged, right after the call, against the model/specification of the bytes the path held then."""
    k = rng.choice([1, 2, 2, 3])
    files = [gen_file(rng, "quick", small=True) for _ in range(k)]
    for f in files:
        f.pop("opts", None) if rng.random() < 0.5 else None
    if k >= 2 and rng.random() < 0.5:
        # same size, other content: only numbers differ (header tempo / a note's position inside its package)
        files[1] = dict(files[0], hdr=dict(files[0]["hdr"], bpm=gen_bpm(rng), song_id=files[0]["hdr"]["song_id"]))
    npaths = rng.choice([1, 1, 2])
    steps = [dict(op="write", p=0, f=0)]
    if npaths == 2:
        steps.append(dict(op="write", p=1, f=rng.randrange(k)))
    nreads = rng.choice([2, 3, 3, 4, 5])
    for i in range(nreads):
        if i > 0:
            q = rng.random()
            if q < 0.3:
                steps.append(dict(op="write", p=rng.randrange(npaths), f=rng.randrange(k), keep_mtime=rng.random() < 0.5))
        edits = []
        if i > 0 and rng.random() < 0.9:
            for _ in range(rng.choice([1, 2, 3, 5])):
                edits.append([rng.choice(EDIT_ROUTES), rng.choice([1000.0, 2.0, 0.5, -250.0, 1.0, 3.0])])
        steps.append(dict(op="read", p=rng.randrange(npaths), via=rng.choice(SPELLINGS), edits=edits))
    return dict(claim="sess", files=files, steps=steps)


def gen_file(rng, tier, small=False):
    hdr = gen_header(rng)
    ill = rng.random() < 0.07
    levels = [gen_level(rng, tier, well_formed=not (ill and rng.random() < 0.3), small=small) for _ in range(3)]
    case = dict(claim="read", hdr=hdr, levels=levels, tail=[rng.randrange(256) for _ in range(rng.choice([0, 0, 1, 7, 40]))])
    if rng.random() < 0.14:
        for l in levels:
            if rng.random() < 0.6:
                add_specials(rng, l)
        q = rng.random()
        if q < 0.3:
            hdr["bpm"] = gen_special(rng)
        elif q < 0.4:   # a subnormal / very small header tempo, superseded at position 0 in every difficulty that has anything to time
            hdr["bpm"] = gen_special(rng, ("tiny",))
            for l in levels:
                l.insert(0, dict(m=0, ch=1, ev=[gen_bpm(rng)] + [0.0] * rng.choice([0, 1, 3])))
                for p in l:
                    if p["m"] < 0:
                        p["m"] = 0
    if not ill and rng.random() < 0.35:
        bookify(case)
    if ill:
        k = rng.randrange(8)
        opts = {}
        lv = rng.randrange(3)
        if k == 0:
            total = len(build(case))
            opts["cut"] = rng.choice([rng.randrange(0, 300), 300, rng.randrange(300, total + 1), max(300, total - len(case["tail"]) - 1)])
        elif k == 1:
            cnt = [len(l) for l in levels]
            cnt[lv] += rng.choice([1, 5])
            opts["pkg_counts"] = cnt
            case["tail"] = rng.choice([[], case["tail"]])
        elif k == 2:    # a tail with no head
            levels[lv].insert(rng.randrange(len(levels[lv]) + 1), dict(m=0, ch=rng.randrange(2, 9), ev=[note_ev(rng, 3)]))
        elif k == 3:    # measure-fraction package
            levels[lv].insert(rng.randrange(len(levels[lv]) + 1), dict(m=1, ch=0, ev=rng.choice([[0.5], [], [0.75, 1.0]])))
        elif k == 4:
            hdr["bpm"] = rng.choice([0.0, -0.0, f32(-120.0)])
        elif k == 5:    # negative / tiny tempo event
            levels[lv].append(dict(m=rng.randrange(0, 5), ch=1, ev=[rng.choice([f32(-90.0), f32(0.5), f32(-1e-2), f32(99999.0)])]))
        elif k == 6:    # count field disagrees with the events present
            if levels[lv]:
                p = rng.choice(levels[lv])
                p["n"] = rng.choice([-1, 0, len(p["ev"]) + 1, -32768])
        else:           # package counts smaller than what is present (rest is trailing data): still well-formed
            cnt = [len(l) for l in levels]
            cnt[lv] = max(0, cnt[lv] - 1)
            opts["pkg_counts"] = cnt
        if opts:
            case["opts"] = opts
    return case


def _hdr(bpm=120.0, **kw):
    h = dict(song_id=7, signature="ojn\0", encode_version=f32(2.9), genre=3, bpm=bpm, level=[1, 2, 3, 0], event_count=[1, 2, 3],
             note_count=[4, 5, 6], measure_count=[7, 8, 9], old_encode_version=29, old_song_id=7, old_genre="g" * 20, bmp_size=5,
             old_file_version=6, title="T\0itle\xff", artist="A", creator="C", ojm_file="o.ojm", cover_size=9,
             duration=[10, 11, 12], note_offset=[300, 400, 500], cover_offset=600)
    h.update(kw)
    return h


H = [1, 0x48, 0]
HD = [1, 0x48, 2]
TL = [1, 0x48, 3]
Z = [0, 0, 0]


def corpus():
    c = []
    # D10 witness shape: two tempo events, notes after each; tempo event after the last note; none at measure 0
    c.append(dict(claim="read", hdr=_hdr(120.0),
                  levels=[[dict(m=0, ch=2, ev=[H, Z, H, Z]), dict(m=1, ch=1, ev=[0.0, 60.0]), dict(m=2, ch=8, ev=[H, H, H]),
                           dict(m=3, ch=1, ev=[240.0]), dict(m=3, ch=3, ev=[HD, Z]), dict(m=4, ch=3, ev=[Z, TL]),
                           dict(m=6, ch=1, ev=[90.0])], [], []], tail=[1, 2, 3]))
    # tempo event at measure 0 (0.0 is falsy), several in one measure, coinciding with a note
    c.append(dict(claim="read", hdr=_hdr(100.0),
                  levels=[[dict(m=0, ch=1, ev=[200.0, 0.0, 50.0, 0.0]), dict(m=0, ch=4, ev=[H, H]), dict(m=1, ch=4, ev=[H])],
                          [dict(m=0, ch=5, ev=[H])], []], tail=[]))
    # no tempo packages at all (the unrepaired loop raised TypeError)
    c.append(dict(claim="read", hdr=_hdr(150.0), levels=[[dict(m=2, ch=2, ev=[H, HD]), dict(m=5, ch=2, ev=[Z, Z, TL])], [], []], tail=[]))
    # long note across packages and measures, head replaced by a second head, hits in between on another column
    c.append(dict(claim="read", hdr=_hdr(128.0),
                  levels=[[dict(m=0, ch=2, ev=[HD, Z, HD, Z]), dict(m=0, ch=3, ev=[H]), dict(m=1, ch=2, ev=[Z, Z, Z, TL]),
                           dict(m=2, ch=2, ev=[H])], [], []], tail=[]))
    # packages out of measure order
    c.append(dict(claim="read", hdr=_hdr(60.0),
                  levels=[[dict(m=3, ch=2, ev=[H]), dict(m=2, ch=1, ev=[120.0]), dict(m=1, ch=2, ev=[H]), dict(m=0, ch=1, ev=[0.0, 30.0])],
                          [], []], tail=[]))
    # ill-formed
    c.append(dict(claim="read", hdr=_hdr(0.0), levels=[[dict(m=0, ch=2, ev=[H])], [], []], tail=[]))
    c.append(dict(claim="read", hdr=_hdr(0.0), levels=[[], [], []], tail=[]))
    c.append(dict(claim="read", hdr=_hdr(120.0), levels=[[dict(m=0, ch=2, ev=[TL])], [], []], tail=[]))
    c.append(dict(claim="read", hdr=_hdr(120.0), levels=[[dict(m=0, ch=0, ev=[0.5])], [], []], tail=[]))
    c.append(dict(claim="read", hdr=_hdr(120.0), levels=[[dict(m=0, ch=2, ev=[H])], [], []], tail=[], opts=dict(pkg_counts=[2, 0, 0])))
    c.append(dict(claim="read", hdr=_hdr(120.0), levels=[[dict(m=0, ch=2, ev=[H])], [], []], tail=[], opts=dict(cut=305)))
    c.append(dict(claim="read", hdr=_hdr(120.0), levels=[[], [], []], tail=[], opts=dict(cut=299)))
    # a head left open in the first difficulty is closed by a tail of the second (the buffer is shared)
    c.append(dict(claim="read", hdr=_hdr(120.0), levels=[[dict(m=1, ch=2, ev=[HD])], [dict(m=2, ch=2, ev=[TL])], []], tail=[]))
    # every text field filled to its last byte (a field boundary moved by one byte shows here)
    c.append(dict(claim="read", hdr=_hdr(120.0, signature="OJNx", old_genre="0123456789abcdefghij", title="T" * 63 + "z", artist="a" * 31 + "y",
                                         creator="c" * 31 + "x", ojm_file="o" * 31 + "w"), levels=[[], [], []], tail=[]))
    # the file API, and several reads in one process
    c.append(dict(c[0], via="read_file_str"))
    c.append(dict(c[1], via="read_file_path"))
    c.append(dict(c[10], via="read_file_str"))        # truncated file through the file API
    c.append(dict(claim="read", via="read_file_path", hdr=_hdr(120.0), tail=[],    # difficulty counts [0, 2, 0] through the file API
                  levels=[[], [dict(m=0, ch=2, ev=[H, H]), dict(m=1, ch=1, ev=[60.0])], []]))
    two = dict(claim="read", hdr=_hdr(120.0), levels=[[dict(m=0, ch=2, ev=[H, Z, H, Z]), dict(m=1, ch=1, ev=[0.0, 60.0]),
                                                       dict(m=2, ch=3, ev=[HD, Z]), dict(m=3, ch=3, ev=[Z, TL])], [], []], tail=[])
    # same song id and same packages, another header tempo and title (a memo per song / per measure shows here)
    other = dict(two, hdr=_hdr(90.0, title="another", level=[9, 8, 7, 6]))
    c.append(dict(claim="seq", files=[two, other], steps=[dict(f=0, via="read"), dict(f=1, via="read"), dict(f=0, via="read_file_str"),
                                                          dict(f=1, via="read_file_path", levels=[2, 0, 1])]))
    # a head left open by one file must not close a tail of the next file (hold buffer outliving a call)
    dang = dict(claim="read", hdr=_hdr(120.0), levels=[[dict(m=5, ch=4, ev=[HD])], [], []], tail=[])
    tailonly = dict(claim="read", hdr=_hdr(120.0), levels=[[dict(m=1, ch=4, ev=[Z, TL])], [], []], tail=[])
    c.append(dict(claim="seq", files=[dang, tailonly, two], steps=[dict(f=0), dict(f=1), dict(f=2), dict(f=0, via="read_file_str"),
                                                                  dict(f=1, via="read_file_str")]))
    # the same file twice, then an ill-formed one, then the first again
    c.append(dict(claim="seq", files=[two, dict(two, opts=dict(cut=310))], steps=[dict(f=0), dict(f=0), dict(f=1), dict(f=0, levels=[1, 2, 0])]))
    # ---- the whole float32 range as tempo values (bit patterns): what the reader does on NaN, +-inf, subnormals, -0.0
    NAN, NNAN, INF, NINF = dict(bits=0x7FC00000), dict(bits=0xFFC00000), dict(bits=0x7F800000), dict(bits=0xFF800000)
    SUB, NSUB, NZERO, FMAX = dict(bits=1), dict(bits=0x80000001), dict(bits=0x80000000), dict(bits=0x7F7FFFFF)
    body = [dict(m=0, ch=2, ev=[H, Z, H, Z]), None, dict(m=2, ch=8, ev=[H, H, H]), dict(m=3, ch=1, ev=[240.0]),
            dict(m=3, ch=3, ev=[HD, Z]), dict(m=4, ch=3, ev=[Z, TL])]
    for ev in ([0.0, NAN], [NNAN], [0.0, INF], [NINF, 0.0], [FMAX], [NZERO, 60.0], [NZERO]):
        c.append(dict(claim="read", hdr=_hdr(120.0), levels=[[dict(p) if p else dict(m=1, ch=1, ev=ev) for p in body], [], []], tail=[]))
    for hb in (NAN, INF, NINF, FMAX):     # as header tempo (with and without tempo events)
        c.append(dict(claim="read", hdr=_hdr(hb), levels=[[dict(p) if p else dict(m=1, ch=1, ev=[60.0]) for p in body],
                                                          [dict(m=0, ch=2, ev=[H]), dict(m=1, ch=2, ev=[H])], []], tail=[]))
    c.append(dict(claim="read", hdr=_hdr(NZERO), levels=[[dict(m=0, ch=2, ev=[H])], [], []], tail=[]))       # -0.0: ZeroDivisionError
    # subnormal tempo: after everything; superseded at its own position; as header tempo superseded at position 0
    c.append(dict(claim="read", hdr=_hdr(120.0), levels=[[dict(m=0, ch=2, ev=[H, H]), dict(m=5, ch=1, ev=[0.0, SUB])], [], []], tail=[]))
    c.append(dict(claim="read", hdr=_hdr(120.0), levels=[[dict(m=0, ch=2, ev=[H, H]), dict(m=1, ch=1, ev=[NSUB]), dict(m=1, ch=1, ev=[90.0]),
                                                          dict(m=2, ch=2, ev=[H])], [], []], tail=[]))
    c.append(dict(claim="read", hdr=_hdr(SUB), levels=[[dict(m=0, ch=1, ev=[100.0, 0.0]), dict(m=0, ch=2, ev=[H, H]), dict(m=1, ch=2, ev=[H])],
                                                       [], []], tail=[]))
    # NaN before a long note's tail only: head finite, tail and length NaN; an inf tempo between two notes
    c.append(dict(claim="read", hdr=_hdr(100.0), levels=[[dict(m=0, ch=2, ev=[HD]), dict(m=1, ch=1, ev=[NAN]), dict(m=2, ch=2, ev=[TL]),
                                                          dict(m=2, ch=1, ev=[INF]), dict(m=3, ch=4, ev=[H, H])], [], []], tail=[],
                  via="read_file_str"))
    # sessions: the same path read again after the earlier result was edited in place; other spellings; a rewrite in between
    c.append(dict(claim="sess", files=[two], steps=[dict(op="write", p=0, f=0), dict(op="read", p=0, via="abs", edits=[]),
                                                    dict(op="read", p=0, via="abs", edits=[["hits_offset_add", 1000.0]]),
                                                    dict(op="read", p=0, via="rel", edits=[["holds_length_mul", 2.0], ["stack_offset_mul", 0.5]]),
                                                    dict(op="read", p=0, via="bytes", edits=[["bpms_bpm_set", 3.0], ["header_lists", 1.0]])]))
    c.append(dict(claim="sess", files=[two, other], steps=[dict(op="write", p=0, f=0), dict(op="write", p=1, f=1),
                                                           dict(op="read", p=0, via="path", edits=[]), dict(op="read", p=1, via="symlink", edits=[["maps_list", 1.0]]),
                                                           dict(op="write", p=0, f=1, keep_mtime=True),
                                                           dict(op="read", p=0, via="dotted", edits=[["df_values", 2.0], ["header_attrs", 1.0]]),
                                                           dict(op="read", p=1, via="updown", edits=[["replace_lists", 1.0], ["item_setattr", 5.0]]),
                                                           dict(op="write", p=0, f=0),
                                                           dict(op="read", p=0, via="dirlink", edits=[["drop_rows", 1.0], ["df_assign", -1.0]])]))
    c.append(dict(claim="f32", bits=0x42F00000))
    c.append(dict(claim="f32", bits=0x80000000))
    c.append(dict(claim="f32", bits=0x807FFFFF))
    c.append(dict(claim="f32", bits=0xFF800000))
    c.append(dict(claim="f32", bits=0x7FC00000))
    c.append(dict(claim="f32", bits=0x00000001))
    c.append(dict(claim="int", bytes=[0, 0, 0, 128]))
    return c


def valid(case):
    try:
        cl = case["claim"]
        if cl == "f32":
            return isinstance(case["bits"], int) and 0 <= case["bits"] < 2 ** 32
        if cl == "int":
            return len(case["bytes"]) == 4 and all(isinstance(b, int) and 0 <= b < 256 for b in case["bytes"])
        if cl == "seq":
            files, steps = case["files"], case["steps"]
            if not files or not steps or len(steps) > 8 or not all(valid_file(f) for f in files):
                return False
            for st in steps:
                if not (isinstance(st["f"], int) and 0 <= st["f"] < len(files) and st.get("via", "read") in VIAS):
                    return False
                lv = st.get("levels")
                if lv is not None and not (isinstance(lv, list) and all(isinstance(x, int) and 0 <= x < 3 for x in lv)
                                           and len(set(lv)) == len(lv)):
                    return False
            return True
        if cl == "sess":
            files, steps = case["files"], case["steps"]
            if not files or not steps or len(steps) > 16 or not all(valid_file(f) for f in files):
                return False
            written = set()
            for st in steps:
                if st["op"] == "write":
                    if not (st["p"] in (0, 1, 2) and isinstance(st["f"], int) and 0 <= st["f"] < len(files)):
                        return False
                    written.add(st["p"])
                elif st["op"] == "read":
                    if not (st["p"] in written and st.get("via", "abs") in SPELLINGS):
                        return False
                    for e in st.get("edits") or []:
                        if not (isinstance(e, list) and len(e) == 2 and e[0] in EDIT_ROUTES and isinstance(e[1], (int, float))
                                and math.isfinite(e[1])):
                            return False
                else:
                    return False
            return any(st["op"] == "read" for st in steps)
        return case.get("via", "read") in VIAS and valid_file(case)
    except Exception:
        return False


def valid_file(case):
    try:
        h = case["hdr"]
        for k in HDR_INTS:
            if not (isinstance(h[k], int) and -2 ** 31 <= h[k] < 2 ** 31):
                return False
        for k in HDR_SHORTS:
            if not (isinstance(h[k], int) and -2 ** 15 <= h[k] < 2 ** 15):
                return False
        for k in HDR_INT3:
            if len(h[k]) != 3 or not all(isinstance(x, int) and -2 ** 31 <= x < 2 ** 31 for x in h[k]):
                return False
        if len(h["level"]) != 4 or not all(isinstance(x, int) and -2 ** 15 <= x < 2 ** 15 for x in h["level"]):
            return False
        for k, n in HDR_TEXT.items():
            if not isinstance(h[k], str) or len(h[k]) > n or any(ord(ch) > 255 for ch in h[k]):
                return False
        if not is_f32(h["encode_version"]) or not tempo_entry_ok(h["bpm"]):
            return False
        if len(case["levels"]) != 3:
            return False
        for l in case["levels"]:
            for p in l:
                if not (isinstance(p["m"], int) and 0 <= p["m"] <= 100000 and isinstance(p["ch"], int) and -2 ** 15 <= p["ch"] < 2 ** 15):
                    return False
                if len(p["ev"]) > 2000:
                    return False
                if "n" in p and not (isinstance(p["n"], int) and -2 ** 15 <= p["n"] < 2 ** 15):
                    return False
                for e in p["ev"]:
                    if p["ch"] in (0, 1):
                        if not (tempo_entry_ok(e) if p["ch"] == 1 else (is_f32(e) or is_bits(e))):
                            return False
                    elif not (isinstance(e, list) and len(e) == 3 and all(isinstance(x, int) for x in e)
                              and -2 ** 15 <= e[0] < 2 ** 15 and 0 <= e[1] < 256 and 0 <= e[2] < 256):
                        return False
        if not all(isinstance(b, int) and 0 <= b < 256 for b in case.get("tail") or []):
            return False
        o = case.get("opts") or {}
        if o.get("pkg_counts") is not None and (len(o["pkg_counts"]) != 3 or not all(isinstance(x, int) and 0 <= x < 2 ** 20 for x in o["pkg_counts"])):
            return False
        if o.get("cut") is not None and not (isinstance(o["cut"], int) and o["cut"] >= 0):
            return False
        return True
    except Exception:
        return False


# ------------------------------------------------------------------------------------------ adapter

def _quiet():
    warnings.filterwarnings("ignore")
    logging.getLogger("reamber").setLevel(logging.ERROR)
    logging.getLogger("reamber.o2jam.O2JEventPackage").setLevel(logging.ERROR)


def err_class(e):
    return dict(IndexError="index", KeyError="key", AttributeError="attr", ZeroDivisionError="zerodiv").get(
        type(e).__name__, "struct" if type(e).__name__ == "error" else "other:" + type(e).__name__)


VIAS = ["read", "read_file_str", "read_file_path"]


def read_obj(data, via="read"):
    """one call of a public read entry point: ("ok", mapset) or ("err", class, repr).
    `read` = O2JMapSet.read(bytes); `read_file_*` = O2JMapSet.read_file on a temporary .ojn file (str / pathlib.Path)"""
    import os
    import tempfile
    from pathlib import Path
    from reamber.o2jam.O2JMapSet import O2JMapSet
    _quiet()
    path = None
    try:
        with warnings.catch_warnings():
            warnings.simplefilter("ignore")
            if via == "read":
                return ("ok", O2JMapSet.read(data))
            fd, path = tempfile.mkstemp(suffix=".ojn", prefix="c07-", dir="/tmp")
            with os.fdopen(fd, "wb") as f:
                f.write(data)
            return ("ok", O2JMapSet.read_file(Path(path) if via == "read_file_path" else path))
    except Exception as e:
        return ("err", err_class(e), repr(e)[:200])
    finally:
        if path is not None:
            try:
                os.remove(path)
            except OSError:
                pass


def extract(ms, level_order=None):
    """header attributes and the three object lists of every difficulty, read off a map set (levels visited in
    `level_order`, returned in their own order)"""
    with warnings.catch_warnings():
        warnings.simplefilter("ignore")
        hdr = {a: getattr(ms, a) for a in ATTRS}
        n = len(ms.maps)
        order = [k for k in (level_order or range(n)) if k < n] + [k for k in range(n) if k not in (level_order or range(n))]
        lv = [None] * n
        for k in order:
            m = ms.maps[k]
            hd, ho, bp = m.hits.df, m.holds.df, m.bpms.df
            hits = [(float(o), int(c), int(v), int(p)) for o, c, v, p in zip(hd["offset"], hd["column"], hd["volume"], hd["pan"])]
            holds = [(float(o), int(c), float(ln), int(v), int(p))
                     for o, c, ln, v, p in zip(ho["offset"], ho["column"], ho["length"], ho["volume"], ho["pan"])]
            bpms = [(float(o), float(b)) for o, b in zip(bp["offset"], bp["bpm"])]
            lv[k] = dict(hits=hits, holds=holds, bpms=bpms)
    return hdr, lv


def run_impl(data, via="read"):
    r = read_obj(data, via)
    if r[0] == "err":
        return r
    try:
        hdr, lv = extract(r[1])
        return ("ok", hdr, lv)
    except Exception as e:
        return ("err", err_class(e), repr(e)[:200])


def meta_reuse(obj, data):
    """`read_meta` on an O2JMapSetMeta instance that has already read other headers: ("ok", header) / ("err", …)"""
    try:
        obj.read_meta(data[:300])
        return ("ok", {a: getattr(obj, a) for a in ATTRS})
    except Exception as e:
        return ("err", err_class(e), repr(e)[:200])


# ------------------------------------------------------------------------------------------ comparators

def f32_matches(py, j):
    """python float (from struct) vs the model's F32 json"""
    if j == "nan":
        return isinstance(py, float) and math.isnan(py)
    if "inf" in j:
        return isinstance(py, float) and math.isinf(py) and (py < 0) == j["inf"]
    return isinstance(py, float) and math.isfinite(py) and Fr(py) == F(j["fin"])


def field_matches(py, j):
    if isinstance(j, (dict, str)):
        return f32_matches(py, j)
    return isinstance(py, int) and not isinstance(py, bool) and py == j


def header_diff(hdr, jh):
    """attributes of the implementation's header that differ from a model/spec header (json)"""
    bad = []
    for a in ATTRS:
        if a not in jh:
            bad.append(a)
            continue
        k, v, py = jh[a]["k"], jh[a]["v"], hdr[a]
        if k == "int":
            okk = isinstance(py, int) and py == v
        elif k == "flt":
            okk = f32_matches(py, v)
        elif k == "byte":
            okk = py == bytes([v])
        elif k == "list":
            okk = isinstance(py, list) and len(py) == len(v) and all(field_matches(x, y) for x, y in zip(py, v))
        elif k == "text":
            okk = isinstance(py, str) and [ord(ch) for ch in py] == v
        else:
            okk = isinstance(py, (bytes, bytearray)) and list(py) == v
        if not okk:
            bad.append(a)
    return bad


def TV(x):
    """a time of a model level: exact rational [num, den] -> float; "nan" (extended model) -> NaN"""
    return float("nan") if x == "nan" else float(F(x))


def BV(x):
    """a tempo value of a model level: rational, or the extended model's {"inf": neg} / "nan" forms"""
    if x == "nan":
        return float("nan")
    if isinstance(x, dict):
        return -math.inf if x["inf"] else math.inf
    return float(F(x))


def tolerances(jlevel):
    """absolute tolerance for the times of one difficulty: DESIGN §3 (2^-40) plus a forward error bound of the
    double computation: each of the k+1 segments contributes <= 2 ulp(Mmax) of measure error times 240000/bpm.
    Tempos that are not ordinary numbers do not enter: an infinite tempo contributes exactly 0, a NaN tempo makes
    the time NaN (compared as such), and tempos below 1e-3 are only generated in effect over a distance of exactly 0,
    where the product is exactly 0 (in effect over a positive distance they move the time beyond 2^52: `beyond`)."""
    bv = [abs(BV(b[1])) for b in jlevel["bpms"]]
    bpms = [b for b in bv if math.isfinite(b) and b >= 1e-3]
    k = len(jlevel["bpms"])
    pos = [float(F(x[0])) for x in jlevel["hits"]] + [float(F(x[1])) for x in jlevel["holds"]] + [float(F(b[0])) for b in jlevel["bpms"]]
    mmax = max([1.0] + [abs(p) for p in pos]) + 1.0
    bmin = min(bpms) if bpms else 1.0
    return 2.0 ** -40 + (k + 2) * 2.0 ** -49 * mmax * 240000.0 / bmin


def beyond(jlevels):
    """some time of the model output is at or beyond 2^52 ms in magnitude (142 000 years): doubles are integers there and
    from 2^64 on pandas' int64 item Series raise inside the item setters - outside the domain (ASSUMPTIONS)"""
    lim = 2.0 ** 52
    for jl in jlevels:
        ts = [TV(x[4]) for x in jl["hits"]] + [TV(x[5]) for x in jl["holds"]] + [TV(b[2]) for b in jl["bpms"]]
        ts += [TV(x[6]) for x in jl["holds"] if x[6] is not None]
        if any(abs(t) >= lim for t in ts if not math.isnan(t)):
            return True
    return False


def near(a, b, atol):
    if math.isnan(a) or math.isnan(b):
        return math.isnan(a) and math.isnan(b)
    return abs(a - b) <= atol + 2.0 ** -40 * max(abs(a), abs(b))


def same_val(a, b):
    """tempo values: equal as floats, NaN = NaN"""
    return (math.isnan(a) and math.isnan(b)) or a == b


def match_multiset(impl, ref, same):
    """impl, ref: lists; `same(a, b)`; sorted pairing first, greedy matching as a fallback"""
    if len(impl) != len(ref):
        return False
    if all(same(a, b) for a, b in zip(sorted(impl), sorted(ref))):
        return True
    left = list(ref)
    for a in impl:
        for i, b in enumerate(left):
            if same(a, b):
                del left[i]
                break
        else:
            return False
    return True


def level_diff(impl, jl):
    """which lists of one difficulty differ between the implementation and a model/spec level (json).
    returns (bad list, volpan_mismatch, maxdev)"""
    atol = tolerances(jl)
    ref_hits = [(TV(x[4]), int(x[1]), int(x[2]), int(x[3])) for x in jl["hits"]]
    ref_holds = [(TV(x[5]), int(x[2]), TV(x[6]), int(x[3]), int(x[4])) for x in jl["holds"]]
    ref_bpms = [(TV(b[2]), BV(b[1])) for b in jl["bpms"]]

    def same_hold(a, b):
        # a length is the difference of two times: twice the absolute tolerance, relative part on the larger operand
        if math.isnan(a[2]) or math.isnan(b[2]):
            return a[1] == b[1] and near(a[0], b[0], atol) and math.isnan(a[2]) and math.isnan(b[2])
        return (a[1] == b[1] and near(a[0], b[0], atol)
                and abs(a[2] - b[2]) <= 2 * atol + 2.0 ** -39 * (abs(b[0]) + abs(b[2])))
    bad = []
    if not match_multiset(impl["hits"], ref_hits, lambda a, b: a[1] == b[1] and near(a[0], b[0], atol)):
        bad.append("hits")
    if not match_multiset(impl["holds"], ref_holds, same_hold):
        bad.append("holds")
    if not match_multiset(impl["bpms"], ref_bpms, lambda a, b: same_val(a[1], b[1]) and near(a[0], b[0], atol)):
        bad.append("bpms")
    vp = False
    if not bad:
        vp = not (match_multiset(impl["hits"], ref_hits, lambda a, b: a[1:] == b[1:] and near(a[0], b[0], atol))
                  and match_multiset(impl["holds"], ref_holds, lambda a, b: (a[1], a[3], a[4]) == (b[1], b[3], b[4]) and near(a[0], b[0], atol)))
    dv = 0.0
    if not bad:
        fin = lambda l, i: sorted(x for x in l if not math.isnan(x[i]) and not any(isinstance(y, float) and math.isnan(y) for y in x))
        for a, b in zip(fin(impl["hits"], 0), fin(ref_hits, 0)):
            dv = max(dv, abs(a[0] - b[0]))
        for a, b in zip(fin(impl["bpms"], 0), fin(ref_bpms, 0)):
            dv = max(dv, abs(a[0] - b[0]))
        for a, b in zip(fin(impl["holds"], 2), fin(ref_holds, 2)):
            dv = max(dv, abs(a[2] - b[2]))
    return bad, vp, dv


# ------------------------------------------------------------------------------------------ run

def run(case, drv):
    cl = case["claim"]
    if cl == "f32":
        b = struct.pack("<I", case["bits"])
        py = struct.unpack("<f", b)[0]
        j = drv.call("c07.f32", b=list(b))["ok"]
        good = f32_matches(py, j)
        return dict(claim="f32", ok=good, agree=good, dom=True, tags=["f32"], nontrivial=True,
                    detail={} if good else dict(py=repr(py), model=j))
    if cl == "int":
        b = bytes(case["bytes"])
        j = drv.call("c07.int", b=list(b))["ok"]
        good = j["i32"] == struct.unpack("<i", b)[0] and j["i16"] == struct.unpack("<h", b[:2])[0]
        return dict(claim="int", ok=good, agree=good, dom=True, tags=["int"], nontrivial=True,
                    detail={} if good else dict(model=j, bytes=case["bytes"]))
    if cl == "seq":
        return run_seq(case, drv)
    if cl == "sess":
        return run_sess(case, drv)
    return run_read(case, drv)


def judge(impl, r):
    """verdict parts for one read: `impl` = what the implementation returned for a byte string, `r` = the driver's
    model + specification for the same bytes.  Returns dict(ok, agree, dom, wf, tags, detail, maxdev)."""
    model, spec = r["model"], r["spec"]
    tags = []
    detail = {}
    maxdev = 0.0
    boundary = False
    kf = None
    # ---- domain (the property's quantifier: well-formed, no measure-fraction packages)
    lv_spec = spec.get("levels")
    dom = ("ok" in spec["header"]) and spec.get("framed", False) and spec.get("init_positive", False) and lv_spec is not None \
        and all(all(l["dom"].values()) and "ok" in l["out"] for l in lv_spec)
    # the generator's notion of well-formed implies the hypothesis `Spec.wellFormed` of theorem `read_spec`
    dom = dom and bool(spec.get("wf"))
    if not dom:
        tags.append("ill-formed")
    wf = dom
    # ---- correspondence: implementation vs model
    agree = True
    if not r.get("xrefines", False):
        # the extended model (every float32) must be the rational model wherever that one does not decline
        agree = False
        detail["xrefines"] = "Model.readFileX differs from Model.readFile on a byte string the latter does not decline"
    if "err" in model and model["err"] == "nonfinite":
        # a NaN / +-inf tempo: the rational model (the one the theorems speak about) declines, the extended model
        # `readFileX` (same reader over every float32) is the reference
        tags.append("nonfinite-tempo")
        model = r["modelx"]
    if "ok" in model and beyond(model["ok"]["levels"]):
        tags.append("beyond-2^52ms")        # outside the domain: not judged
        return dict(ok=True, agree=agree, dom=False, wf=False, tags=tags, detail=detail, maxdev=0.0)
    if impl[0] == "err":
        tags.append("impl-raises:" + impl[1])
        agree = "err" in model        # every exception is one class: the property is silent on ill-formed files
        if agree and model["err"] != impl[1]:
            tags.append("error-class-differs")
    elif "err" in model:
        agree = False
    else:
        mo = model["ok"]
        hb = header_diff(impl[1], mo["header"])
        if hb or len(mo["levels"]) != len(impl[2]):
            agree = False
            detail["corr_header"] = hb
        else:
            for k, (il, jl) in enumerate(zip(impl[2], mo["levels"])):
                bad, vp, dv = level_diff(il, jl)
                maxdev = max(maxdev, dv)
                if bad:
                    agree = False
                    detail.setdefault("corr_levels", []).append([k, bad])
                if vp:
                    tags.append("volpan-differs")
    agree = agree and bool(r.get("xrefines", False))
    # ---- specification on the implementation's output
    ok = True
    if impl[0] == "ok":
        if "ok" in spec["header"]:
            hb = header_diff(impl[1], spec["header"]["ok"])
            if hb:
                ok = False
                detail["spec_header"] = hb
        else:
            ok = False        # fewer than 300 bytes cannot yield a header
            detail["spec_header"] = "implementation returned a header for a byte string the format cannot hold"
        if wf:
            if len(impl[2]) != len(lv_spec):
                ok = False
                detail["spec_levels"] = "count"
            else:
                set_levels = spec["set"]["ok"] if "ok" in spec.get("set", {}) else None
                if set_levels is None or len(set_levels) != len(lv_spec):
                    ok = False
                    detail["spec_set"] = "Spec.specSet undefined on a well-formed file"
                    set_levels = [l["out"]["ok"] for l in lv_spec]
                for k, (il, l) in enumerate(zip(impl[2], set_levels)):
                    bad = level_diff(il, l)[0]
                    if bad:
                        ok = False
                        detail.setdefault("spec_levels", []).append([k, bad])
    elif wf:
        ok = False            # a well-formed file must be read
        detail["spec"] = "implementation raised on a well-formed file: " + impl[2]
    if not (ok and agree):
        detail["impl"] = _short(impl)
        detail["model"] = _short(model)
        detail["spec"] = detail.get("spec") or _short(spec)
    return dict(ok=ok, agree=agree, dom=dom, wf=wf, tags=tags, detail=detail, maxdev=maxdev)


def file_stats(case):
    """(nontrivial, tempo tag) of one file description"""
    nontrivial = False
    for l in case["levels"]:
        tempo = sorted(p["m"] for p in l if p["ch"] == 1 and any(fval(e) != 0 for e in p["ev"]))
        notes_m = [p["m"] for p in l if 2 <= p["ch"] <= 8 and any(e[0] != 0 for e in p["ev"])]
        if len(tempo) >= 2 and notes_m and max(notes_m) > tempo[1]:
            nontrivial = True
        for c in range(2, 9):
            st = False
            for p in l:
                if p["ch"] == c:
                    if st and any(e[0] != 0 and e[2] == 3 for e in p["ev"]):
                        nontrivial = True
                    for e in p["ev"]:
                        if e[0] != 0 and e[2] == 2:
                            st = True
                        elif e[0] != 0 and e[2] == 3:
                            st = False
    ntempo = max([sum(1 for p in l if p["ch"] == 1 for e in p["ev"] if fval(e) != 0) for l in case["levels"]] + [0])
    return nontrivial, "tempo%d" % min(ntempo, 3)


def fresh(case):
    """evaluate a case in a NEW Python process (own driver): nothing read earlier by this worker can influence it, so a
    failure found this way reproduces from its replay file"""
    import json
    import os
    import subprocess
    import sys
    here = os.path.dirname(os.path.dirname(os.path.abspath(__file__)))
    code = ("import sys, json, os\n"
            "sys.path.insert(0, %r)\nsys.path.insert(0, os.environ['REAMBER_REPO'])\n"
            "from lib.driver import Driver\nimport props.c07 as m\n"
            "c = json.load(sys.stdin)\nr = m.run(c, Driver())\n"
            "print('\\n@@C07@@' + json.dumps(r, default=str))\n") % here
    env = dict(os.environ, C07_INPROC="1")
    env.setdefault("REAMBER_REPO", "/repo")
    p = subprocess.run([sys.executable, "-c", code], input=json.dumps(case), env=env, stdout=subprocess.PIPE,
                       stderr=subprocess.PIPE, text=True, timeout=300)
    for line in p.stdout.split("\n"):
        if line.startswith("@@C07@@"):
            return json.loads(line[len("@@C07@@"):])
    raise RuntimeError("fresh-process evaluation failed: " + (p.stderr or p.stdout)[-800:])


def _inproc():
    import os
    return os.environ.get("C07_INPROC") == "1"


def run_read(case, drv):
    res = run_read_inproc(case, drv)
    if (res["ok"] and res["agree"]) or _inproc():
        return res
    fr = fresh(case)
    if fr["ok"] and fr["agree"]:
        # fails here, passes alone: state kept between calls. Still a failure; out of `dom` so that the shrinker
        # does not follow candidates whose failure only comes from this process's history
        res["tags"].append("history-dependent")
        res["dom"] = False
        res["detail"]["history"] = "the same case passes when read alone in a fresh process: the result depends on what this process read before"
        return res
    return fr


def run_seq(case, drv):
    """always judged in a fresh process: the sequence itself is the only history"""
    if _inproc():
        return run_seq_inproc(case, drv)
    return fresh(case)


def run_read_inproc(case, drv):
    data = build(case)
    via = case.get("via", "read")
    impl = run_impl(data, via)
    j = judge(impl, drv.call("c07.run", b=list(data)))
    nt, ttag = file_stats(case)
    ab = abstract(case)
    if ab is not None:
        # the encoder model of the round-trip theorem `read_encode`: its bytes are the bytes both sides just read, and the
        # abstract chart's own timeline is the specification's set of those bytes
        e = drv.call("c07.encode", **ab)
        j["tags"].append("by-the-book")
        if "ok" not in e or bytes(e["ok"]["bytes"]) != data or not e["ok"]["timeline_eq"]:
            j["agree"] = False
            j["detail"]["encoder"] = ("Lean encodeChart differs from the harness serialiser" if "ok" in e and bytes(e["ok"]["bytes"]) != data
                                      else "aTimeline differs from specSet of the encoded bytes" if "ok" in e else _short(e))
        elif j["wf"] and not e["ok"]["wf"]:
            j["agree"] = False
            j["detail"]["encoder"] = "encoded chart not wellFormed"
    return dict(claim="read", ok=j["ok"], agree=j["agree"], dom=j["dom"], kf=None, tags=j["tags"] + [ttag, "via:" + via],
                nontrivial=nt and j["wf"], maxdev=j["maxdev"], boundary=False, detail=j["detail"])


def run_seq_inproc(case, drv):
    """several files read one after the other in ONE process (any entry point, any order, files repeated), every
    result judged independently against the model/specification of its own bytes.  All reads are done first and the
    results are taken off the returned objects afterwards, difficulties interleaved — so state kept between calls
    (memo tables, a hold buffer that outlives a file, shared objects) shows.  One O2JMapSetMeta instance also reads
    every header in turn."""
    from reamber.o2jam.O2JMapSetMeta import O2JMapSetMeta
    files = case["files"]
    datas = [build(f) for f in files]
    drvres = {}
    steps = case["steps"]
    objs = []
    shared_meta = O2JMapSetMeta()
    metas = []
    for st in steps:
        objs.append(read_obj(datas[st["f"]], st.get("via", "read")))
        metas.append(meta_reuse(shared_meta, datas[st["f"]]))
    # extraction after all reads, last read first, difficulties in the step's own order
    impls = [None] * len(steps)
    for k in reversed(range(len(steps))):
        o = objs[k]
        if o[0] == "err":
            impls[k] = o
            continue
        try:
            hdr, lv = extract(o[1], steps[k].get("levels"))
            impls[k] = ("ok", hdr, lv)
        except Exception as e:
            impls[k] = ("err", err_class(e), repr(e)[:200])
    ok, agree, dom, maxdev = True, True, True, 0.0
    tags, detail = [], {}
    for k, st in enumerate(steps):
        i = st["f"]
        if i not in drvres:
            drvres[i] = drv.call("c07.run", b=list(datas[i]))
        j = judge(impls[k], drvres[i])
        # the shared O2JMapSetMeta instance: header of this file, whatever it read before
        spec_h = drvres[i]["spec"]["header"]
        mh = metas[k]
        if mh[0] == "ok":
            if "ok" not in spec_h or header_diff(mh[1], spec_h["ok"]):
                j["ok"] = False
                j["detail"]["reused_meta"] = header_diff(mh[1], spec_h["ok"]) if "ok" in spec_h else "header from < 300 bytes"
        elif "ok" in spec_h:
            j["ok"] = False
            j["detail"]["reused_meta"] = "read_meta raised on 300 bytes: " + mh[2]
        ok, agree, dom = ok and j["ok"], agree and j["agree"], dom and j["dom"]
        maxdev = max(maxdev, j["maxdev"])
        tags += [t for t in j["tags"] if t not in tags]
        if not (j["ok"] and j["agree"]):
            detail["step%d(file %d, %s)" % (k, i, st.get("via", "read"))] = j["detail"]
    tags += ["seq%d" % min(len(steps), 5)] + sorted({"via:" + st.get("via", "read") for st in steps})
    if len({st["f"] for st in steps}) < len(steps):
        tags.append("file-repeated")
    return dict(claim="seq", ok=ok, agree=agree, dom=dom, kf=None, tags=tags, nontrivial=len(steps) >= 2, maxdev=maxdev,
                boundary=False, detail=detail)




def apply_edit(ms, route, arg):
    """one in-place edit of a result of an earlier read, through an ordinary editing route of the library / pandas.
    Errors of the edit itself (empty lists, read-only views) are of no interest here."""
    import numpy as np
    try:
        with warnings.catch_warnings():
            warnings.simplefilter("ignore")
            maps = list(ms.maps)
            if route == "hits_offset_add":
                for m in maps:
                    m.hits.offset += arg
            elif route == "holds_length_mul":
                for m in maps:
                    m.holds.length *= arg
            elif route == "holds_offset_add":
                for m in maps:
                    m.holds.offset += arg
            elif route == "stack_offset_mul":
                for m in maps:
                    st = m.stack()
                    st.offset *= arg
            elif route == "set_stack_offset_add":
                st = ms.stack()
                st.offset += arg
            elif route == "bpms_bpm_set":
                for m in maps:
                    m.bpms.bpm = arg
            elif route == "bpms_offset_add":
                for m in maps:
                    m.bpms.offset += arg
            elif route == "df_iloc":
                for m in maps:
                    for l in (m.hits, m.holds, m.bpms):
                        l.df.iloc[:, l.df.columns.get_loc("offset")] = arg
            elif route == "df_values":
                for m in maps:
                    for l in (m.hits, m.holds, m.bpms):
                        v = l.df["offset"].values
                        v[:] = np.asarray(arg).astype(v.dtype)
            elif route == "df_assign":
                for m in maps:
                    for l in (m.hits, m.holds, m.bpms):
                        l.df["offset"] = arg
            elif route == "df_at":
                for m in maps:
                    for l in (m.hits, m.holds, m.bpms):
                        if len(l.df):
                            l.df.at[l.df.index[0], "offset"] = arg
            elif route == "column_set":
                for m in maps:
                    m.hits.column = 0
                    m.holds.column += 1
            elif route == "drop_rows":
                for m in maps:
                    for l in (m.hits, m.holds, m.bpms):
                        l.df.drop(l.df.index[:1], inplace=True)
            elif route == "sort_reverse":
                for m in maps:
                    for l in (m.hits, m.holds, m.bpms):
                        l.df.sort_values("offset", ascending=False, inplace=True)
            elif route == "replace_lists":
                for m in maps:
                    m.hits = type(m.hits)([])
                    m.bpms = type(m.bpms)([])
            elif route == "objs_dict":
                for m in maps:
                    m.objs["holds"] = type(m.holds)([])
            elif route == "item_setattr":
                for m in maps:
                    for l in (m.hits, m.holds, m.bpms):
                        if len(l.df):
                            it = l[0]
                            it.offset = arg
            elif route == "header_lists":
                for a in ("level", "package_count", "event_count", "note_count", "measure_count", "duration", "note_offset"):
                    l = getattr(ms, a)
                    if l:
                        l[0] = int(arg) + 99
                    l.reverse()
                    l.append(5)
            elif route == "header_attrs":
                ms.title = "edited"
                ms.artist = ""
                ms.bpm = float(arg)
                ms.song_id = -5
                ms.genre = 10
                ms.old_genre = b"x"
            elif route == "maps_list":
                if arg >= 2:
                    ms.maps.clear()
                elif len(ms.maps) > 1:
                    ms.maps.reverse()
                    ms.maps.pop()
    except Exception:
        pass


def spell(d, name, via, linkdir):
    """the path of file `name` in directory `d`, spelled as `via` says (all spellings denote the same file)"""
    import os
    from pathlib import Path
    full = os.path.join(d, name)
    if via == "path":
        return Path(full)
    if via == "dotted":
        return os.path.join(d, ".", name)
    if via == "updown":
        return os.path.join(d, "..", os.path.basename(d), name)
    if via == "rel":
        return os.path.relpath(full)
    if via == "symlink":
        ln = os.path.join(d, "ln-" + name)
        if not os.path.islink(ln):
            os.symlink(full, ln)
        return ln
    if via == "dirlink":
        return Path(os.path.join(linkdir, name))
    return full


def run_sess(case, drv):
    """always judged in a fresh process: the session itself is the only history"""
    if _inproc():
        return run_sess_inproc(case, drv)
    return fresh(case)


def run_sess_inproc(case, drv):
    """a session of writes, reads and in-place edits of earlier results in one process (see `gen_sess`).  What a read
    returns must depend on the bytes it is given only: every result is taken off the returned object right after the
    call and judged against the model/specification of the bytes the path held at that moment; then all earlier
    results are edited in place before the next read.  Results that were never edited are re-read off their objects at
    the end: they must still be what they were."""
    import os
    import shutil
    import tempfile
    from reamber.o2jam.O2JMapSet import O2JMapSet
    _quiet()
    files = case["files"]
    datas = [build(f) for f in files]
    drvres = {}
    d = tempfile.mkdtemp(prefix="c07-sess-", dir="/tmp")
    linkdir = d + "-ln"
    os.symlink(d, linkdir)
    held = {}           # path index -> file index whose bytes it holds now
    results = []        # (step index, file index, mapset or None, snapshot, edited?)
    ok, agree, dom, maxdev = True, True, True, 0.0
    tags, detail = [], {}
    nreads = 0
    try:
        for k, st in enumerate(case["steps"]):
            name = "f%d.ojn" % st["p"]
            full = os.path.join(d, name)
            if st["op"] == "write":
                old = os.stat(full) if os.path.exists(full) else None
                with open(full, "wb") as f:
                    f.write(datas[st["f"]])
                if old is not None and st.get("keep_mtime"):
                    os.utime(full, ns=(old.st_atime_ns, old.st_mtime_ns))
                    tags.append("rewrite-keeps-mtime" + ("-and-size" if old.st_size == len(datas[st["f"]]) else ""))
                if old is not None:
                    tags.append("rewritten-same" if held.get(st["p"]) == st["f"] else "rewritten-other")
                held[st["p"]] = st["f"]
                continue
            # edits of every earlier result, then the read
            for e in st.get("edits") or []:
                for r in results:
                    if r[2] is not None:
                        apply_edit(r[2], e[0], e[1])
                        r[4] = True
                tags.append("edit:" + e[0]) if ("edit:" + e[0]) not in tags else None
            i = held[st["p"]]
            via = st.get("via", "abs")
            try:
                with warnings.catch_warnings():
                    warnings.simplefilter("ignore")
                    if via == "bytes":
                        with open(full, "rb") as f:
                            b = f.read()
                        obj = ("ok", O2JMapSet.read(b))
                    else:
                        obj = ("ok", O2JMapSet.read_file(spell(d, name, via, linkdir)))
            except Exception as e:
                obj = ("err", err_class(e), repr(e)[:200])
            if obj[0] == "ok":
                try:
                    hdr, lv = extract(obj[1])
                    impl = ("ok", hdr, lv)
                except Exception as e:
                    impl = ("err", err_class(e), repr(e)[:200])
            else:
                impl = obj
            if i not in drvres:
                drvres[i] = drv.call("c07.run", b=list(datas[i]))
            j = judge(impl, drvres[i])
            nreads += 1
            if any(r[1] == i for r in results):
                tags.append("same-bytes-again")
            results.append([k, i, obj[1] if obj[0] == "ok" else None, impl, False])
            ok, agree, dom = ok and j["ok"], agree and j["agree"], dom and j["dom"]
            maxdev = max(maxdev, j["maxdev"])
            tags += [t for t in j["tags"] if t not in tags]
            if ("spell:" + via) not in tags:
                tags.append("spell:" + via)
            if not (j["ok"] and j["agree"]):
                detail["step%d(read #%d of path %d = file %d, %s)" % (k, nreads, st["p"], i, via)] = j["detail"]
        # results never edited must not have changed
        for r in results:
            if r[2] is not None and not r[4] and r[3][0] == "ok":
                try:
                    hdr, lv = extract(r[2])
                    now = ("ok", hdr, lv)
                except Exception as e:
                    now = ("err", err_class(e), repr(e)[:200])
                if repr(now) != repr(r[3]):
                    ok = False
                    detail["step%d-later" % r[0]] = dict(note="the result of this read changed after later calls although it was never edited",
                                                         before=_short(r[3]), after=_short(now))
    finally:
        try:
            os.remove(linkdir)
        except OSError:
            pass
        shutil.rmtree(d, ignore_errors=True)
    tags = sorted(set(tags))
    return dict(claim="sess", ok=ok, agree=agree, dom=dom, kf=None, tags=tags + ["sess%d" % min(nreads, 5)], nontrivial=nreads >= 2,
                maxdev=maxdev, boundary=False, detail=detail)


def _short(x, n=1800):
    s = repr(x)
    return s if len(s) <= n else s[:n] + f"... ({len(s)} chars)"
