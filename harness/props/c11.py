"""C11 — reseating tempo changes onto measure lines keeps every change at its time.

Observation points: TimingMap.reseat_bpm_changes_snap(list), TimingMap.from_bpm_changes_snap(t0, list, reseat=True),
TimingMap.reseat().  Model: `reseat` / `fromBcSnap` of Model/Timing.lean (driver ops c11.*).  Specification:
Spec/Reseat.lean (`seatedB`, `lengthOkB`, `interleaveB`, `sameTimelineB`), evaluated by the driver on the
implementation's output.  Two arithmetic modes (as C10): `exact` (RAConst.MIN_TO_MSEC := Fraction(60000), Fraction
tempos: same branches, exact equality required) and `float` (the code as shipped; timelines compared within 2^-40
after dropping points that repeat the previous bpm; a first-pass decision within 1e-7 of a threshold is a
float-boundary case).
"""
import itertools
import logging
import math
from fractions import Fraction as Fr

from lib.rat import R, F, close, dev

ID = "C11"
QUICK_N = 12000
THOROUGH_N = 150000
QUICK_BUDGET_S = 70
THOROUGH_BUDGET_S = 900
RULE = ("lists of 1-8 tempo changes, first at measure 0 beat 0: (a) the half-beat grid with <= 4 changes x 3 bpms "
        "(enumerated exhaustively on the thorough tier, sampled on quick), (b) finer grids (denominators 1..96, 5, 7, 1000, 10000), "
        "(c) positions a whole number of measures / beats plus a remainder on either side of extend_threshold "
        "(incl. exactly the double 0.001 and 1/1000), (d) gaps shorter than the threshold, duplicates, unsorted input, "
        "already seated lists; lists of 17-64 changes with stacks of 2-3 changes on one position (different bpms, stack index swept), "
        "seated and unseated; histories on the mutable records before the call (read beat_length/measure_length or query the map, "
        "edit bpm/metronome in place, both orders - the model gets the edited values); any positive bpm (exactly-representable set or arbitrary decimals), metronomes 1-8 and a few "
        "fractional ones, any initial offset; claims reseat / from_snap / tm_reseat; exact and float modes. "
        "non-trivial = some interval takes a non-default branch of the loop")
ASSUMPTIONS = [
    "exact mode swaps RAConst.MIN_TO_MSEC for Fraction(60000) at run time (duck typing through the same code paths)",
    "extend_threshold is the double 0.001; the model is run with its exact value (theorems hold for every 0 <= thr < 1/2)",
    "metronomes are integers or have a fractional part > 1/100 (the property does not quantify over metronomes)",
    "float mode: a first-pass remainder within 1e-7 of 0.001 may take either branch (counted as float-boundary)",
]

E_BPMS = [50, 60, 75, 100, 120, 125, 128, 150, 160, 200, 240, 250, 300, 375, 37.5, 62.5, 93.75, 187.5, 480, 600]
DENS = [1, 2, 2, 3, 4, 4, 6, 8, 12, 16, 24, 32, 48, 96, 5, 7, 1000, 10000]
FRAC_METS = [Fr(9, 2), Fr(3, 2), Fr(15, 4), Fr(7, 2), Fr(5, 2)]
THR_D = Fr(0.001)          # what `x <= extend_threshold` compares with
THR = R(THR_D)
TOL_FLOAT = R(Fr(1, 2 ** 40))
HB_BPMS = [60000, 30000, 45000]     # the suite's own bpm and two others (exact mode)
HB_MAXPOS = 16                      # half-beat indices 1..16  (two measures of 4/4)


_THR = None


def src_thr():
    """`extend_threshold`'s default as the source has it now (exact value of the double), on the wire"""
    global _THR
    if _THR is None:
        import inspect
        from reamber.algorithms.timing.utils.reseat_bpm_changes_snap import reseat_bpm_changes_snap
        _THR = R(Fr(inspect.signature(reseat_bpm_changes_snap).parameters["extend_threshold"].default))
    return _THR


def _imports():
    logging.getLogger().setLevel(logging.ERROR)
    from reamber.base.RAConst import RAConst
    from reamber.algorithms.timing.TimingMap import TimingMap
    from reamber.algorithms.timing.utils.BpmChangeSnap import BpmChangeSnap
    from reamber.algorithms.timing.utils.snap import Snap
    return RAConst, TimingMap, BpmChangeSnap, Snap


class exact_mode:
    def __init__(self, on):
        self.on = on

    def __enter__(self):
        RAConst = _imports()[0]
        self.old = RAConst.MIN_TO_MSEC
        if self.on:
            RAConst.MIN_TO_MSEC = Fr(60000)

    def __exit__(self, *a):
        _imports()[0].MIN_TO_MSEC = self.old


class time_limit:
    """the loop under test inserts into the list it walks: an edit that breaks its progress must not hang the check"""

    def __init__(self, seconds):
        self.s = seconds

    def _raise(self, *a):
        raise TimeoutError("implementation did not terminate")

    def __enter__(self):
        import signal
        try:
            self.old = signal.signal(signal.SIGALRM, self._raise)
            signal.setitimer(signal.ITIMER_REAL, self.s)
            self.armed = True
        except ValueError:          # not in the main thread
            self.armed = False

    def __exit__(self, *a):
        if self.armed:
            import signal
            signal.setitimer(signal.ITIMER_REAL, 0)
            signal.signal(signal.SIGALRM, self.old)


# ------------------------------------------------------------------------------------------ generators

def _hb_table():
    """the exhaustive family: n <= 4 changes on the half-beat grid (positions 1..HB_MAXPOS half-beats), 3 bpms each"""
    out = []
    for n in (1, 2, 3, 4):
        for pos in itertools.combinations(range(1, HB_MAXPOS + 1), n - 1):
            out.append((n, pos))
    return out


_HB = None


def hb_count():
    global _HB
    if _HB is None:
        _HB = _hb_table()
    return sum(len(HB_BPMS) ** n for n, _ in _HB)


def hb_case(k):
    """k-th list of the exhaustive family"""
    global _HB
    if _HB is None:
        _HB = _hb_table()
    for n, pos in _HB:
        c = len(HB_BPMS) ** n
        if k < c:
            bp = []
            for _ in range(n):
                bp.append(HB_BPMS[k % len(HB_BPMS)])
                k //= len(HB_BPMS)
            cs = [dict(bpm=R(bp[0]), met=R(4), measure=0, beat=R(0))]
            for b, p in zip(bp[1:], pos):
                cs.append(dict(bpm=R(b), met=R(4), measure=p // 8, beat=R(Fr(p % 8, 2))))
            return cs
        k -= c
    raise IndexError


def rand_bpm(rng):
    if rng.random() < 0.6:
        return Fr(rng.choice(E_BPMS))
    b = Fr(str(round(rng.uniform(20, 600), rng.choice([0, 1, 3, 6]))))
    return b if b > 0 else Fr(120)


def rand_met(rng):
    r = rng.random()
    if r < 0.55:
        return Fr(4)
    if r < 0.92:
        return Fr(rng.randint(1, 8))
    return rng.choice(FRAC_METS)


def place(total_beats, met):
    """(measure, beat) of a point `total_beats` beats after a measure line, metronome `met`"""
    m = math.floor(total_beats / met)
    return m, total_beats - m * met


def gen_changes(rng, kind):
    n = rng.choice([1, 2, 2, 3, 3, 4, 4, 5, 6, 8])
    met = rand_met(rng)
    cs = [dict(bpm=R(rand_bpm(rng)), met=R(met), measure=0, beat=R(0))]
    pm, pb = 0, Fr(0)            # position of the previous change
    for i in range(1, n):
        k = kind if kind != "mixed" else rng.choice(["grid", "grid", "near_measure", "near_measure", "near_beat", "tiny", "seated", "seated", "dup"])
        if k == "grid":
            d = rng.choice(DENS)
            dist = Fr(rng.randrange(1, int(6 * met * d) + 2), d)
        elif k == "seated":
            dist = (rng.randint(1, 5)) * met - pb
        elif k == "near_measure":
            q = rng.choice([0, 1, 1, 2, 3, 7])
            rem = rng.choice([THR_D, Fr(1, 1000), Fr(1, 1000) + Fr(1, 10 ** 12), THR_D + Fr(1, 2 ** 70), Fr(1, 2000), Fr(1, 1024),
                              Fr(1, 500), Fr(999, 1000), Fr(9999, 10000), Fr(rng.randrange(1, 4000), 10 ** 6),
                              Fr(rng.randrange(1, 2000), 2 ** 20)])
            dist = (q + rem) * met - pb
            if dist <= 0:
                dist += met
        elif k == "near_beat":
            q = rng.randrange(0, int(4 * met) + 1)
            rem = rng.choice([THR_D, Fr(1, 1000), Fr(1, 10000), Fr(1, 5000), Fr(1, 1024), Fr(1, 500), Fr(2, 1000),
                              Fr(rng.randrange(1, 3000), 10 ** 6)])
            dist = q + rem - (pb - math.floor(pb))
            if dist <= 0:
                dist += 1
        elif k == "tiny":
            dist = rng.choice([Fr(1, 1000), Fr(1, 500), Fr(1, 250), Fr(3, 1000), Fr(1, 10000), Fr(1, 256)]) * rng.choice([1, 1, met])
        else:  # dup
            dist = Fr(0)
        tot = pb + dist
        dm, nb = place(tot, met)
        pm, pb = pm + dm, nb
        if rng.random() < 0.25 and pb == 0:
            met = rand_met(rng)          # metronome changes on a measure line
        elif rng.random() < 0.04:
            nm = rand_met(rng)           # ... and now and then inside a measure
            if pb < nm:
                met = nm
        cs.append(dict(bpm=R(rand_bpm(rng)), met=R(met), measure=pm, beat=R(pb)))
    return cs


def gen_long(rng, i):
    """17-64 changes with stacks of two or three changes on exactly one position (different bpms), the stack index
    swept by the case number: the order inside a stack decides which bpm is in force after it (the later in list
    order - `list.sort` is stable), and sort implementations differ exactly on long lists with ties"""
    n = rng.choice([17, 17, 18, 20, 24, 33, 40, 64])
    seated = rng.random() < 0.5
    met = Fr(rng.choice([4, 4, 3, 5]))
    n_stacks = rng.choice([1, 1, 2, 3])
    starts = {(i + 7 * k) % (n - 3) + 1 for k in range(n_stacks)}      # index of the first member of a stack
    if rng.random() < 0.3:
        starts.add(rng.randrange(1, n - 2))
    cs = [dict(bpm=R(rand_bpm(rng)), met=R(met), measure=0, beat=R(0))]
    pm, pb = 0, Fr(0)
    stack_left = 0
    k = 1
    while k < n:
        if stack_left == 0 and k in starts:
            stack_left = rng.choice([1, 1, 2])          # this many further changes on the position of change k
        elif stack_left > 0:
            stack_left -= 1
            prev = F(cs[-1]["bpm"])
            b = rand_bpm(rng)
            if b == prev:
                b = prev * 2
            cs.append(dict(bpm=R(b), met=R(met), measure=pm, beat=R(pb)))
            k += 1
            continue
        if seated:
            dist = rng.randint(1, 3) * met - pb
        else:
            d = rng.choice([1, 2, 2, 3, 4, 8])
            dist = Fr(rng.randrange(1, int(3 * met * d) + 1), d)
        dm, nb = place(pb + dist, met)
        pm, pb = pm + dm, nb
        cs.append(dict(bpm=R(rand_bpm(rng)), met=R(met), measure=pm, beat=R(pb)))
        k += 1
    return cs


def gen(rng, tier, i):
    if tier == "thorough" and i < hb_count():
        return dict(claim="reseat", mode="exact", t0=R(0), cs=hb_case(i))
    r = rng.random()
    mode = "exact" if rng.random() < 0.7 else "float"
    if r > 0.9:
        cs = gen_long(rng, i)
        claim = rng.choice(["reseat", "reseat", "from_snap", "tm_reseat"])
        if claim == "tm_reseat":
            mode = "exact"
        if rng.random() < 0.15:
            tail = cs[1:]
            rng.shuffle(tail)                # ties then keep their (shuffled) list order
            cs = cs[:1] + tail
        t0 = Fr(rng.choice([0, -1000, 1234, Fr(-75, 2)]))
        return dict(claim=claim, mode=mode, t0=R(t0), cs=cs, _long=True)
    if r < 0.12:
        return dict(claim="reseat", mode="exact", t0=R(0), cs=hb_case(rng.randrange(hb_count())))
    kind = rng.choice(["grid", "grid", "grid", "near_measure", "near_measure", "near_measure", "near_beat", "tiny", "seated",
                       "mixed", "mixed", "mixed", "mixed"])
    cs = gen_changes(rng, kind)
    if rng.random() < 0.12 and len(cs) > 2:
        tail = cs[1:]
        rng.shuffle(tail)
        cs = cs[:1] + tail               # reseat sorts its argument (stable)
    t0 = Fr(rng.choice([0, 0, -1000, 1234, Fr(-75, 2), Fr(str(round(rng.uniform(-5000, 5000), 3)))]))
    claim = rng.choice(["reseat", "reseat", "reseat", "from_snap", "from_snap", "tm_reseat"])
    if claim == "tm_reseat" and mode == "float":
        claim = "from_snap"
    case = dict(claim=claim, mode=mode, t0=R(t0), cs=cs)
    if rng.random() < 0.3:
        case["hist"] = gen_hist(rng, cs)
    return case


def gen_hist(rng, cs):
    """what a caller may do with the (mutable, public) records between building them and reseating: read the derived
    lengths (directly or through a TimingMap query) and edit `bpm` / `metronome` in place, in either order"""
    edits = []
    for k in rng.sample(range(len(cs)), rng.choice([1, 1, 1, 2, min(3, len(cs))]) if len(cs) > 1 else 1):
        e = dict(k=k, bpm=None, met=None)
        r = rng.random()
        if r < 0.8:
            old = F(cs[k]["bpm"])
            e["bpm"] = R(rng.choice([old * 2, old / 2, rand_bpm(rng), rand_bpm(rng)]))
        if r >= 0.7:
            beat = F(cs[k]["beat"])
            cands = [m for m in range(1, 9) if m > beat and m != F(cs[k]["met"])]
            if cands:
                e["met"] = R(rng.choice(cands))
        if e["bpm"] is None and e["met"] is None:
            e["bpm"] = R(F(cs[k]["bpm"]) * 2)
        edits.append(e)
    return dict(order=rng.choice(["read_edit", "read_edit", "read_edit", "edit_read", "read_edit_read", "edit"]),
                read=rng.choice(["props", "props", "query"]), edits=edits)


def final_cs(case):
    """the records' public fields at the moment of the reseating call"""
    cs = [dict(c) for c in case["cs"]]
    for e in (case.get("hist") or {}).get("edits", []):
        if e.get("bpm") is not None:
            cs[e["k"]]["bpm"] = e["bpm"]
        if e.get("met") is not None:
            cs[e["k"]]["met"] = e["met"]
    return cs


def _c(bpm, met, measure, beat):
    return dict(bpm=R(Fr(bpm)), met=R(Fr(met)), measure=measure, beat=R(Fr(beat)))


def corpus():
    c = []
    # the suite's own shapes
    c.append(dict(claim="reseat", mode="exact", t0=R(0), cs=[_c(60000, 4, 0, 0), _c(60000, 4, 1, Fr(1, 2))]))
    c.append(dict(claim="reseat", mode="float", t0=R(0), cs=[_c(60000, 4, 0, 0), _c(60000, 4, 1, Fr(1, 2))]))
    # branch 1 (stretch): 4.0001 measures, and exactly one measure + remainder
    c.append(dict(claim="reseat", mode="exact", t0=R(0), cs=[_c(60, 4, 0, 0), _c(120, 4, 4, Fr(4, 10000))]))
    c.append(dict(claim="reseat", mode="exact", t0=R(0), cs=[_c(60, 4, 0, 0), _c(120, 4, 1, Fr(4, 1000)), _c(90, 3, 3, 1)]))
    # remainder exactly at the threshold, in both readings of "0.001"
    c.append(dict(claim="reseat", mode="exact", t0=R(0), cs=[_c(60, 4, 0, 0), _c(120, 4, 2, 4 * THR_D)]))
    c.append(dict(claim="reseat", mode="exact", t0=R(0), cs=[_c(60, 4, 0, 0), _c(120, 4, 2, 4 * (THR_D + Fr(1, 2 ** 70)))]))
    # branch 3, set and insert variants, three changes with mixed bpm and metronome
    c.append(dict(claim="from_snap", mode="exact", t0=R(-1000), cs=[_c(120, 4, 0, 0), _c(90, 3, 0, Fr(5, 2)), _c(200, 4, 3, Fr(1, 3))]))
    c.append(dict(claim="from_snap", mode="float", t0=R(1234), cs=[_c(120, 4, 0, 0), _c(90, 3, 0, Fr(5, 2)), _c(200, 4, 3, Fr(1, 3))]))
    c.append(dict(claim="tm_reseat", mode="exact", t0=R(250), cs=[_c(150, 4, 0, 0), _c(75, 4, 2, Fr(3, 2)), _c(300, 5, 4, Fr(1, 4))]))
    # seated input: nothing changes
    c.append(dict(claim="reseat", mode="exact", t0=R(0), cs=[_c(120, 4, 0, 0), _c(60, 3, 2, 0), _c(60, 3, 2, 0), _c(240, 7, 9, 0)]))
    c.append(dict(claim="from_snap", mode="float", t0=R(-37.5), cs=[_c(133.7, 4, 0, 0), _c(61.3, 3, 2, 0), _c(240, 7, 9, 0)]))
    # single change; unsorted input
    c.append(dict(claim="reseat", mode="exact", t0=R(0), cs=[_c(100, 4, 0, 0)]))
    c.append(dict(claim="reseat", mode="exact", t0=R(0), cs=[_c(100, 4, 0, 0), _c(50, 4, 3, 1), _c(200, 4, 1, Fr(7, 2))]))
    # fractional metronome
    c.append(dict(claim="reseat", mode="exact", t0=R(0), cs=[_c(60, Fr(9, 2), 0, 0), _c(120, 4, 1, 1)]))
    # histories: inspect the records (or query the map), retime one change in place, then reseat
    h = dict(order="read_edit", read="props", edits=[dict(k=1, bpm=R(240), met=None)])
    c.append(dict(claim="reseat", mode="exact", t0=R(0), hist=h,
                  cs=[_c(120, 4, 0, 0), _c(120, 4, 1, 2), _c(60, 4, 4, 0), _c(240, 4, 6, 3)]))
    c.append(dict(claim="from_snap", mode="float", t0=R(-37.5), hist=dict(h, order="read_edit_read"),
                  cs=[_c(120, 4, 0, 0), _c(120, 4, 1, 2), _c(60, 4, 4, 0), _c(240, 4, 6, 3)]))
    c.append(dict(claim="tm_reseat", mode="exact", t0=R(-37.5), hist=dict(h, read="query"),
                  cs=[_c(120, 4, 0, 0), _c(120, 4, 1, 2), _c(60, 4, 4, 0)]))
    c.append(dict(claim="reseat", mode="exact", t0=R(0),
                  hist=dict(order="edit_read", read="props", edits=[dict(k=0, bpm=R(60), met=R(3))]),
                  cs=[_c(120, 4, 0, 0), _c(120, 4, 2, 0), _c(60, 4, 3, 1)]))
    # first change not at (0,0): reseat itself does not check, from_snap raises ValueError (error path, correspondence only)
    c.append(dict(claim="from_snap", mode="exact", t0=R(0), cs=[_c(60, 4, 1, 0), _c(120, 4, 2, 1)]))
    return c


def met_ok(m):
    fr = m - math.floor(m)
    return m > 0 and (fr == 0 or fr > Fr(1, 100))


def valid(case):
    try:
        if case["claim"] not in ("reseat", "from_snap", "tm_reseat") or case["mode"] not in ("exact", "float"):
            return False
        cs = case["cs"]
        if not cs:
            return False
        h = case.get("hist")
        if h is not None:
            if h["order"] not in ("read_edit", "edit_read", "read_edit_read", "edit") or h["read"] not in ("props", "query"):
                return False
            for e in h["edits"]:
                if not (0 <= e["k"] < len(cs)) or (e.get("bpm") is None and e.get("met") is None):
                    return False
        for c in cs + final_cs(case):
            m = F(c["met"])
            if F(c["bpm"]) <= 0 or not met_ok(m) or F(c["beat"]) < 0 or F(c["beat"]) >= m or c["measure"] < 0:
                return False
        first = min(cs, key=lambda c: (c["measure"], F(c["beat"])))
        if first["measure"] != 0 or F(first["beat"]) != 0:
            return False
        F(case["t0"])
        return True
    except Exception:
        return False


# ------------------------------------------------------------------------------------------ adapters

def num(x, mode):
    f = F(x)
    if f.denominator == 1 and mode == "exact":
        return f
    return f if mode == "exact" else float(f)


def met_val(x, mode):
    f = F(x)
    if f.denominator == 1:
        return int(f)
    return f if mode == "exact" else float(f)


def build_impl_changes(cs, mode):
    _, _, BpmChangeSnap, Snap = _imports()
    out = []
    for c in cs:
        mv = met_val(c["met"], mode)
        out.append(BpmChangeSnap(num(c["bpm"], mode), mv, Snap(c["measure"], F(c["beat"]), mv)))
    return out


def exact_cs(cs, mode):
    """the case as the implementation really received it (floats are exact rationals)"""
    out = []
    for c in cs:
        out.append([R(Fr(num(c["bpm"], mode))), R(Fr(met_val(c["met"], mode))),
                    [c["measure"], c["beat"], R(Fr(met_val(c["met"], mode)))]])
    return out


def err_class(e):
    if isinstance(e, IndexError):
        return "index"
    if isinstance(e, ZeroDivisionError):
        return "zerodiv"
    if isinstance(e, ValueError):
        return "value"
    return "other:" + type(e).__name__


def noise_zero_metronome(e):
    """D16c's predicate: ZeroDivisionError raised inside reseat_bpm_changes_snap's branch 2 with metronome 0 and a
    beat remainder that is rounding noise (< 1e-9), read off the traceback's innermost frame"""
    if not isinstance(e, ZeroDivisionError):
        return False
    tb = e.__traceback__
    while tb is not None and tb.tb_next is not None:
        tb = tb.tb_next
    if tb is None or tb.tb_frame.f_code.co_name != "reseat_bpm_changes_snap":
        return False
    loc = tb.tb_frame.f_locals
    try:
        return loc.get("metronome") == 0 and 0 < loc.get("beat_diff_rem") < 1e-9
    except Exception:
        return False


def play_history(hist, rows, tm, mode, Snap):
    """read the derived lengths / edit the public fields of the records in place, in the order the case says.
    `rows` are BpmChangeSnap (list claims) or the map's BpmChangeOffset records (`tm` given)."""
    def read():
        if hist["read"] == "query" and tm is not None:
            try:                       # the query only serves to make the library read the lengths; its own
                last = max(int(b.snap.measure) for b in tm.bpm_changes_snap())      # outcome is C10's business
                tm.offsets([Snap(last + 1, 0, None), Snap(0, 0, None), Snap(last + 3, 0, None)])
            except Exception:
                pass
        else:
            for r in rows:
                _ = (r.beat_length, r.measure_length)

    def edit():
        for e in hist["edits"]:
            r = rows[e["k"]]
            if e.get("bpm") is not None:
                r.bpm = num(e["bpm"], mode)
            if e.get("met") is not None:
                mv = met_val(e["met"], mode)
                r.metronome = mv
                if hasattr(r, "snap"):
                    r.snap.metronome = mv

    for step in hist["order"].split("_"):
        read() if step == "read" else edit()


def bcs_to_j(out):
    r = []
    for o in out:
        sm = o.snap.metronome
        r.append([R(Fr(o.bpm)), R(Fr(o.metronome)), [R(Fr(o.snap.measure)), R(Fr(o.snap.beat)), None if sm is None else R(Fr(sm))]])
    return r


def bco_to_j(out):
    return [[R(Fr(o.bpm)), R(Fr(o.metronome)), R(Fr(o.offset))] for o in out]


def int_measures(j):
    """[bpm, met, [measure(as rational), beat, met]] -> measure as an int where it is one (float mode gives 2.0)"""
    out = []
    ok = True
    for b, m, s in j:
        me = F(s[0])
        if me.denominator != 1:
            ok = False
            out.append([b, m, [int(me), s[1], s[2]]])
        else:
            out.append([b, m, [int(me), s[1], s[2]]])
    return out, ok


def canon_tl(pts):
    """drop points that repeat the previous kept point's bpm (float-mode comparison of timelines)"""
    keep = []
    for t, b in pts:
        t, b = F(t), F(b)
        if keep and close(b, keep[-1][1]):
            continue
        keep.append((t, b))
    return keep


def tl_close(a, b):
    if len(a) != len(b):
        return False
    return all(close(x[0], y[0]) and close(x[1], y[1]) for x, y in zip(a, b))


def run(case, drv):
    RAConst, TimingMap, BpmChangeSnap, Snap = _imports()
    claim, mode, cs = case["claim"], case["mode"], case["cs"]
    THR = src_thr()
    t0 = num(case["t0"], mode)
    t0x = R(Fr(t0))
    hist = case.get("hist")
    # the model is given the records' public fields as they are when the reseating entry point is called
    jcs = exact_cs(cs if claim == "tm_reseat" else final_cs(case), mode)
    tol = R(0) if mode == "exact" else TOL_FLOAT
    dom = drv.call("c11.dom", cs=jcs, thr=THR)["ok"]
    tags = [mode, claim] + (["long-with-ties"] if len(cs) >= 17 else []) + sorted(set(dom["classes"])) + ([f"hist:{hist['order']}:{hist['read']}"] if hist else [])
    # = the hypotheses `Dom thr l` of Props/C11.lean (the theorems are stated for ascending input)
    in_dom = dom["sorted"] and dom["wf"] and dom["first_zero"] and dom["no_beat_extend"] and dom["no_tiny_gap"] and dom["met_ok"]
    quantified = dom["wf"] and dom["first_zero"] and dom["met_ok"]        # inside the property's own quantifier
    spec_inp, spec_t0 = jcs, t0x
    impl_tm0 = None
    # ---------------- implementation
    with exact_mode(mode == "exact"), time_limit(10):
        try:
            bcs = build_impl_changes(cs, mode)
            if hist and claim != "tm_reseat":
                play_history(hist, bcs, None, mode, Snap)
            if claim == "reseat":
                out = TimingMap.reseat_bpm_changes_snap(bcs)
                impl = ("ok", bcs_to_j(out))
            elif claim == "from_snap":
                tm = TimingMap.from_bpm_changes_snap(t0, bcs, reseat=True)
                impl = ("ok", bco_to_j(tm.bpm_changes_offset))
            else:
                tm0 = TimingMap.from_bpm_changes_snap(t0, bcs, reseat=False)
                if hist:
                    play_history(hist, tm0.bpm_changes_offset, tm0, mode, Snap)
                impl_tm0 = bco_to_j(tm0.bpm_changes_offset)
                tm = tm0.reseat()
                impl = ("ok", bco_to_j(tm.bpm_changes_offset))
        except MemoryError:
            impl = ("err", "other:MemoryError", False)
        except Exception as e:
            impl = ("err", err_class(e), noise_zero_metronome(e))
    # ---------------- model
    if claim == "reseat":
        m = drv.call("c11.reseat", cs=jcs, thr=THR)
        spec_t0 = R(0)
    elif claim == "from_snap":
        m = drv.call("c11.from_snap", cs=jcs, thr=THR, t0=t0x)
    else:
        if impl_tm0 is None:
            m0 = drv.call("timing.from_snap", t0=t0x, cs=jcs, reseat=False)
            m = m0 if "err" in m0 else drv.call("c11.tm_reseat", tm=m0["ok"], thr=THR)
        else:
            m = drv.call("c11.tm_reseat", tm=impl_tm0, thr=THR)
        if "ok" in m:
            spec_inp = m["ok"]["bcs"]          # what TimingMap.reseat() reseats: the re-derived snaps
            m = dict(ok=m["ok"]["tm"])
            d2 = drv.call("c11.dom", cs=spec_inp, thr=THR)["ok"]
            if hist:                           # the map was edited after it was built: only the re-derived list counts
                in_dom = d2["sorted"] and d2["wf"] and d2["first_zero"] and d2["met_ok"]
                quantified = in_dom
                dom = dict(dom, no_beat_extend=True, no_tiny_gap=True, classes=d2["classes"], in_times=d2["in_times"])
            in_dom = in_dom and d2["no_beat_extend"] and d2["no_tiny_gap"]
            dom = dict(dom, no_beat_extend=dom["no_beat_extend"] and d2["no_beat_extend"],
                       no_tiny_gap=dom["no_tiny_gap"] and d2["no_tiny_gap"], margin=R(min(F(dom["margin"]), F(d2["margin"]))))
    # ---------------- compare + spec
    ok, agree, boundary, maxdev = True, True, False, 0.0
    detail = {}
    near = mode == "float" and F(dom["margin"]) < Fr(1, 10 ** 7)
    kf = None
    if impl[0] == "err":
        # raising on a list the property quantifies over is a violation (D16 / D16b / D16c when their predicate holds)
        ok = not quantified
        if claim == "from_snap" and not dom["first_zero"]:
            ok = True
        if mode == "exact":
            agree = ("err" in m) and m["err"] == impl[1]
        elif not (("err" in m) and m["err"] == impl[1]):
            tags.append("float-diverged")
            if near:
                ok, boundary = True, True
            elif impl[2]:
                kf = "D16c"
        tags.append("impl-raises")
        detail = dict(impl=impl[:2], model=m)
    else:
        out = impl[1]
        if claim == "reseat":
            out_i, ints = int_measures(out)
            sp = drv.call("c11.spec", inp=spec_inp, out=out_i, t0=spec_t0, tol=tol)["ok"]
            spec_ok = ints and sp["seated"] and sp["length"] and sp["times"] and sp["bpm"] and (sp["same"] or not sp["in_seated"])
        else:
            out_i = out
            sp = drv.call("c11.spec_off", inp=spec_inp, out=out, t0=spec_t0, tol=tol)["ok"]
            spec_ok = sp["length"] and sp["times"] and sp["bpm"] and (sp["same"] or not sp["in_seated"])
        ok = bool(spec_ok) or not quantified
        if mode == "exact":
            agree = ("ok" in m) and (out_i == m["ok"])
        else:
            # (C) is claimed in exact mode only: in doubles a remainder that is exactly 0 may come out as +-1 ulp and
            # send the loop through another (equally valid) branch.  Float mode judges the output by the
            # specification; a timeline that differs from the model's is counted, not failed.
            same_tl = False
            if "ok" in m:
                op = "c11.spec" if claim == "reseat" else "c11.spec_off"
                spm = drv.call(op, inp=spec_inp, out=m["ok"], t0=spec_t0, tol=tol)["ok"]
                a, b = canon_tl(sp["out_pts"]), canon_tl(spm["out_pts"])
                same_tl = tl_close(a, b)
                if same_tl:
                    for x, y in zip(a, b):
                        maxdev = max(maxdev, dev(x[0], y[0]))
            if not same_tl:
                tags.append("float-diverged")
                boundary = True
            if not ok and near:
                ok = True          # a first-pass remainder within 1e-7 of extend_threshold: either branch is accepted
        if not (ok and agree):
            detail = dict(impl=out, model=m, spec={k: v for k, v in sp.items() if k != "out_pts"},
                          out_pts=[[str(F(t)), str(F(b))] for t, b in sp["out_pts"]],
                          in_times=[str(F(t)) for t in dom["in_times"]], dom={k: v for k, v in dom.items() if k != "in_times"})
    if not ok and kf is None:
        if not dom["no_beat_extend"]:
            kf = "D16"
        elif not dom["no_tiny_gap"]:
            kf = "D16b"
    nontrivial = any(c != "keep" for c in dom["classes"])
    return dict(claim=claim, ok=ok, agree=agree, dom=bool(in_dom), kf=kf, tags=tags, nontrivial=nontrivial, maxdev=maxdev,
                boundary=boundary, detail=detail)


def evidence_extra(tier):
    if tier == "thorough":
        return dict(exhaustive=True, exhaustive_family=f"half-beat grid, <= 4 changes within {HB_MAXPOS} half-beats, bpms {HB_BPMS}: "
                                                       f"{hb_count()} lists, exact mode (the remaining cases are random)")
    return dict(exhaustive=False, exhaustive_family_size=hb_count())
