"""C15 — a chart is a set of timed objects: results do not depend on row order.

Metamorphic + differential.  A chart (all five games) is built twice through the public list classes: once in
the generated row order and once with every list permuted the way the library itself produces unsorted lists
(unsorted construction, `append` without sort one item at a time, concatenation of two lists, reverse sort,
`iloc` re-ordering that keeps the row labels) or, in half of the cases, reached through an ordinary list HISTORY
(`build_history`: sorted pieces concatenated, a sorted list filtered / cut at a time / rotated by slices and
re-appended, reversed by a slice, a sorted list that then received items, columns re-assigned in place after a
sort; then handed on through deepcopy / another chart's attribute / the constructor / a full slice).  Each listed operation f is run on both by the REAL code and
the two results are compared under the relation of the property (`Spec/Perm.lean`, evaluated by the driver):

  dominant_bpm / scroll_speed (values), sv_normalize / rate / converters / full_ln (multisets of rows),
  hitsound_copy (multiset of notes and of (time, sound, volume)), the four writers (by-the-book denotation of
  the written text through the Lean `denote` of that format: c01 / c02 / c04 / c06).

The same two charts (row snapshots of the real objects) go through the Lean models of the operations (c19.*,
c17.model, c13.rate_chart, c08.convert, c18.copy): impl ≈ model on both orders.
"""
import logging
import math
import random
import warnings
from fractions import Fraction as Fr

from lib.rat import R, F, close, dev

ID = "C15"
QUICK_N = 3000
THOROUGH_N = 20000
QUICK_BUDGET_S = 80
THOROUGH_BUDGET_S = 900
RULE = ("charts of the five games (0-24 hits, 0-8 holds, 1-20 tempo points (thorough: up to 40), 0-16 SVs; chords, notes on tempo "
        "points, SVs coinciding with tempo points / each other, repeated bpm values, exact duplicates of rows; all times "
        "dyadic, tempos from the exactly representable set, so every comparison is an equality) x a permutation of every "
        "list produced by one of construct / append / concat / revsort / iloc or (half of the lists) by a list history "
        "h:<base>+<post>*: base in sorted pieces concatenated (also re-sorted pieces) / sorted list filtered by a mask and "
        "re-appended / cut with after()+before() / reversed by [::-1] / rotated by two slices / sorted then items appended / "
        "columns re-assigned in place after sorted(); posts in deepcopy / assigned to another chart and read back (also "
        "through the chart's deepcopy) / TimedList(list) / [:]  x one of 11 claims (dominant, normalize, "
        "speed, full_ln, rate, convert (17 entry points), hitsound, write_osu, write_qua, write_sm, write_bms) or the "
        "correspondence-only claim bpmlist (current_bpm with and without sort, time_diff, ave_bpm vs Model/BpmList.lean); writer "
        "charts are laid out on a beat grid with tempo changes on measure lines; a small share of cases carries a tie "
        "that makes the result inherently order dependent (two different tempo points at one time, different SVs at one "
        "time, a hit and a hold on one (time, column)) and is only tagged; non-trivial = some list with >= 2 distinct "
        "rows ends up in a different order")
ASSUMPTIONS = [
    "a permutation of a list is observed as the row order of the list's DataFrame after construction by the public API; "
    "the model receives the row snapshots of the real objects",
    "`same objects` is read as the same multiset of rows over all declared columns; `same sounds` of hitsound_copy as "
    "the same multiset of (time, clap/finish/whistle/named sample, volume) over result notes and event samples together "
    "(which of several named samples overflows to the event list depends on the row order by design of the slot loop)",
    "`written files denote the same timeline`: the Lean by-the-book denotations (Spec/Osu, Spec/SM, Spec/BMS, Spec/Qua) "
    "of the two texts have the same metadata and the same multisets of timed objects and tempo points",
    "ties: two different tempo points at one time, SVs with different multipliers at one time, or different notes on "
    "one (time, column) make sort-then-pair results inherently order dependent; such cases are outside the proved "
    "domain and nothing is demanded of them",
]
TRUSTED_EXTRA = ["adapters of harness/props/c08.py, c13.py, c06.py reused for snapshots (snap_src/snap_out, snap_map, doc_wire)"]

GAMES = ["osu", "qua", "sm", "bms", "o2j"]
SV_GAMES = ["osu", "qua"]
HOWS = ["construct", "append", "concat", "revsort", "iloc", "dfconcat"]
# row orders reached through ordinary list histories: "h:<base>[+<post>]*" (see build_history)
H_BASES = ["sorted_concat", "filter_reappend", "after_before", "reverse_slice", "rotate", "sorted_items", "inplace",
           "resorted_concat"]
H_POSTS = ["deepcopy", "via_chart", "via_chart_copy", "ctor", "slice_all"]
LISTS = ["hits", "holds", "bpms", "svs"]
E_BPMS = [60, 75, 100, 120, 125, 150, 160, 200, 240, 250, 300, 375, 480, 37.5, 62.5, 187.5]
E_MULTS = [0.25, 0.5, 0.75, 1, 1.25, 1.5, 2, 3, 4, 0.125]
WRITER_BPMS = [Fr(b) for b in (60, 75, 100, 120, 125, 150, 200, 240, 250, 300, 375)]
RATES = [Fr(1, 2), Fr(2), Fr(4), Fr(1, 4), Fr(1), Fr(8)]
CLAIMS = ["dominant", "normalize", "speed", "full_ln", "rate", "convert", "hitsound",
          "write_osu", "write_qua", "write_sm", "write_bms", "bpmlist"]
DELTA_DEFAULT = R(Fr(0.1))      # `delta=0.1` of BpmList.current_bpm, the exact value of that double
CONVS = ["BMSToOsu.convert", "BMSToQua.convert", "BMSToSM.convert", "O2JToBMS.convert", "O2JToOsu.convert",
         "O2JToQua.convert", "O2JToSM.convert", "O2JToSM.convert_merge", "OsuToBMS.convert", "OsuToQua.convert",
         "OsuToSM.convert", "QuaToBMS.convert", "QuaToOsu.convert", "QuaToSM.convert", "SMToBMS.convert",
         "SMToOsu.convert", "SMToQua.convert"]
SRC_OF = {"BMS": "bms", "O2J": "o2j", "Osu": "osu", "Qua": "qua", "SM": "sm"}
SOUND_NAMES = ["a.wav", "b.wav", "c.wav", "kick.ogg"]


# ------------------------------------------------------------------------------------------ building charts

def _cls(game):
    from props import c08
    return c08._cls(game)


def perm_of(pseed, name, n):
    p = list(range(n))
    random.Random(f"{pseed}:{name}:{n}").shuffle(p)
    return p


def _items(game, kind, rows):
    K = _cls(game)
    out = []
    for i, r in enumerate(rows):
        if kind == "hits":
            if game == "osu" and len(r) > 2:
                from reamber.osu.OsuHit import OsuHit
                s = r[2]
                out.append(OsuHit(offset=float(F(r[0])), column=r[1], hitsound_set=s["hs"], sample_set=s["ss"],
                                  addition_set=s["ad"], custom_set=s["cs"], volume=s["v"], hitsound_file=s["f"]))
            else:
                # BMS: every note carries its own key sound (a function of the row's place in the GENERATED order)
                kw = dict(sample=b"h%02d.wav" % i) if game == "bms" else {}
                out.append(K["hit"](offset=float(F(r[0])), column=r[1], **kw))
        elif kind == "holds":
            if game == "osu" and len(r) > 3:
                from reamber.osu.OsuHold import OsuHold
                s = r[3]
                out.append(OsuHold(offset=float(F(r[0])), column=r[1], length=float(F(r[2])), hitsound_set=s["hs"],
                                   sample_set=s["ss"], addition_set=s["ad"], custom_set=s["cs"], volume=s["v"],
                                   hitsound_file=s["f"]))
            else:
                kw = dict(sample=b"l%02d.wav" % i) if game == "bms" else {}
                out.append(K["hold"](offset=float(F(r[0])), column=r[1], length=float(F(r[2])), **kw))
        elif kind == "bpms":
            out.append(K["bpm"](offset=float(F(r[0])), bpm=float(F(r[1]))))
        elif kind == "svs":
            out.append(K["sv"](offset=float(F(r[0])), multiplier=float(F(r[1]))))
    return out


def build_list(game, kind, rows, how=None, pseed=0):
    """the list in generated row order (`how is None`) or permuted the way `how` says"""
    Cls = _cls(game)[kind]
    items = _items(game, kind, rows)
    if how is None or not items:
        return Cls(items)
    if how.startswith("h:"):
        return build_history(game, kind, items, how, pseed)
    p = perm_of(pseed, kind, len(items))
    pit = [items[i] for i in p]
    if how == "construct":
        return Cls(pit)
    if how == "append":
        lst = Cls([pit[0]])
        for it in pit[1:]:
            lst = lst.append(it)
        return lst
    if how == "concat":
        k = (pseed % len(pit)) if len(pit) > 1 else 0
        a, b = Cls(pit[:k]), Cls(pit[k:])
        return a.append(b)
    if how == "dfconcat":
        # two lists put together as frames, the way client code does it: the row labels of the pieces are KEPT
        # (0..k-1, 0..n-k-1), so labels repeat - the rows and their order are what `construct` gives
        import pandas as pd
        k = (pseed % len(pit)) if len(pit) > 1 else 0
        if k == 0:
            return Cls(pit)
        return Cls(pd.concat([Cls(pit[:k]).df, Cls(pit[k:]).df]))
    if how == "revsort":
        return Cls(items).sorted(reverse=True)
    if how == "iloc":
        return Cls(Cls(items).df.iloc[p])
    raise ValueError(how)


def parse_how(how):
    """a history `h:<base>+<post>+...` -> (base, posts) or None"""
    if not isinstance(how, str) or not how.startswith("h:"):
        return None
    base, *posts = how[2:].split("+")
    if base not in H_BASES or len(posts) > 3 or any(q not in H_POSTS for q in posts):
        return None
    return base, posts


def build_history(game, kind, items, how, pseed):
    """the same items as a list that reached its row order the way client code does: pieces that were each sorted and
    then concatenated, a sorted list filtered / cut at a time / sliced and put together again, reversed by a slice,
    a sorted list that received more items, columns re-assigned in place after a sort; then handed on through
    deepcopy / another chart's attribute / the list constructor / a full slice.  All choices derive from pseed."""
    K = _cls(game)
    Cls = K[kind]
    base, posts = parse_how(how)
    rr = random.Random(f"{pseed}:{kind}:{how}")
    n = len(items)
    p = perm_of(pseed, kind, n)
    pit = [items[i] for i in p]
    if base in ("sorted_concat", "resorted_concat"):
        k = rr.choice([2, 2, 3])
        pieces = [[] for _ in range(k)]
        for it in pit:
            pieces[rr.randrange(k)].append(it)
        lst = None
        for pc in pieces:
            if not pc:
                continue
            piece = Cls(pc).sorted()
            if base == "resorted_concat":
                piece = piece.sorted(reverse=True).sorted()
            lst = piece if lst is None else lst.append(piece)
    elif base == "filter_reappend":
        import numpy as np
        full = Cls(pit).sorted()
        mask = np.array([rr.random() < 0.5 for _ in range(n)], dtype=bool)
        lst = full[mask].append(full[~mask])
    elif base == "after_before":
        full = Cls(pit).sorted()
        t = float(rr.choice(full.df["offset"].tolist()))
        lst = full.after(t).append(full.before(t, include_end=True))
    elif base == "reverse_slice":
        lst = Cls(pit).sorted()[::-1]
    elif base == "rotate":
        full = Cls(pit).sorted()
        k = rr.randrange(n)
        lst = full[k:].append(full[:k])
    elif base == "sorted_items":
        k = rr.randrange(1, n) if n > 1 else 1
        lst = Cls(pit[:k]).sorted()
        for it in pit[k:]:
            lst = lst.append(it)
    elif base == "inplace":
        lst = Cls(items).sorted()
        for c in list(lst.df.columns):
            vals = lst.df[c].tolist()
            lst.df[c] = [vals[i] for i in p]
    else:
        raise ValueError(how)
    for q in posts:
        if q == "deepcopy":
            lst = lst.deepcopy()
        elif q in ("via_chart", "via_chart_copy"):
            m0 = K["map"]()
            setattr(m0, kind, lst)
            if q == "via_chart_copy":
                m0 = m0.deepcopy()
            lst = getattr(m0, kind)
        elif q == "ctor":
            lst = Cls(lst)
        elif q == "slice_all":
            lst = lst[:]
    return lst


META = dict(
    osu=dict(title="Song A", artist="Evening", creator="mapper", version="Hard", title_unicode="Song A u",
             artist_unicode="Evening u", audio_file_name="audio.mp3", background_file_name="bg.png", preview_time=1500),
    qua=dict(title="Song A", artist="Evening", creator="mapper", difficulty_name="Hard", audio_file="audio.mp3",
             background_file="bg.png", song_preview_time=1500),
    bms=dict(title=b"Song A", artist=b"Evening", version=b"Hard"),
    sm=dict(difficulty="Easy", difficulty_val=3, description=""),
    o2j=dict())
SM_TYPES = {4: "dance-single", 5: "pump-single", 6: "dance-solo", 7: "kb7-single", 8: "dance-double"}


def build_map(case, which, permuted):
    """which: 'chart' | 'src' | 'tgt'"""
    game = case["game"]
    ch = case[which]
    K = _cls(game)
    m = K["map"]()
    hows = case.get("how", {}) if permuted else {}
    for kind in LISTS:
        if kind == "svs" and game not in SV_GAMES:
            continue
        lst = build_list(game, kind, ch.get(kind, []), hows.get(kind) if permuted else None, case.get("pseed", 0))
        setattr(m, kind, lst)
    for k, v in META[game].items():
        setattr(m, k, v)
    keys = case.get("keys", 4)
    if game == "osu":
        m.circle_size = keys
        if ch.get("samples"):
            from reamber.osu.lists.OsuSampleList import OsuSampleList
            from reamber.osu.OsuSample import OsuSample
            m.samples = OsuSampleList([OsuSample(offset=float(F(s[0])), sample_file=s[1], volume=s[2]) for s in ch["samples"]])
    elif game == "qua":
        m.mode = f"Keys{keys}" if keys in (4, 7) else "Keys7"
    elif game == "sm":
        m.chart_type = SM_TYPES.get(keys, "kb7-single")
    return m


def wrap_set(game, m, case):
    """sm / o2j converters and the sm writer take map sets"""
    K = _cls(game)
    if game == "sm":
        ms = K["set"]()
        ms.maps = [m]
        for k, v in dict(title="Song A", artist="Evening", credit="mapper", title_translit="Song A tr",
                         artist_translit="Evening tr", music="audio.mp3", background="bg.png", sample_start=12.5).items():
            setattr(ms, k, v)
        ms.offset = float(F(case["sm_offset"])) if case.get("sm_offset") is not None else 0.0
        return ms
    if game == "o2j":
        return K["set"](maps=[m], level=[5, 0, 0, 0], title="Song A", artist="Evening", creator="mapper")
    return m


def fr(x):
    x = float(x)
    if math.isnan(x):
        return None
    return Fr(x)


def snap_rows(m, game):
    """row snapshots of the real lists, in their row order"""
    out = {}
    for kind, cols in (("hits", ["offset", "column"]), ("holds", ["offset", "column", "length"]),
                       ("bpms", ["offset", "bpm"]), ("svs", ["offset", "multiplier"])):
        if kind == "svs" and game not in SV_GAMES:
            out[kind] = []
            continue
        df = getattr(m, kind).df
        arrs = [df[c].tolist() for c in cols]
        rows = []
        for i in range(len(df)):
            row = []
            for c, a in zip(cols, arrs):
                row.append(int(a[i]) if c == "column" else R(fr(a[i])))
            rows.append(row)
        out[kind] = rows
    return out


def all_offsets(s):
    return [F(r[0]) for k in LISTS for r in s[k]]


def err_class(e):
    for t, n in ((ValueError, "value"), (KeyError, "key"), (AttributeError, "attr"), (TypeError, "type"),
                 (IndexError, "index"), (ZeroDivisionError, "zerodiv")):
        if isinstance(e, t):
            return n
    return "other:" + type(e).__name__


# ------------------------------------------------------------------------------------------ the relation, via the driver

def same_rows(drv, a, b):
    return bool(drv.call("c15.same_rows", a=a, b=b)["ok"])


def same_list(drv, a, b):
    return bool(drv.call("c15.same_list", a=a, b=b)["ok"])


def domain(drv, s):
    return drv.call("c15.dom", bpms=s["bpms"], svs=s["svs"], hits=s["hits"], holds=s["holds"])["ok"]


def reordered(s1, s2):
    return any(s1[k] != s2[k] for k in LISTS)


def how_tags(case):
    out = set()
    for k, v in case.get("how", {}).items():
        h = parse_how(v)
        if h is None:
            out.add(f"{k}:{v}")
        else:
            out.add(f"{k}:history")
            out.add(f"h:{h[0]}")
            out.update(f"post:{q}" for q in h[1])
    return sorted(out)


def base_tags(case, s1, s2):
    tags = [case["game"]] + how_tags(case)
    if reordered(s1, s2):
        tags.append("reordered")
    n = len(s1["bpms"])
    tags.append("tempo-n1" if n <= 1 else ("tempo-n2-16" if n <= 16 else "tempo-n17+"))
    return tags


def res(claim, ok, agree, dom, tags, nontrivial, detail=None, maxdev=0.0):
    return dict(claim=claim, ok=bool(ok), agree=bool(agree), dom=bool(dom), kf=None, tags=tags, nontrivial=bool(nontrivial),
                maxdev=maxdev, boundary=False, detail=detail if (detail and not (ok and agree)) else {})


def close_rows(a, b):
    """two lists of rows of Fraction|None|other, compared position by position with the float tolerance"""
    if len(a) != len(b):
        return False
    for ra, rb in zip(a, b):
        if len(ra) != len(rb):
            return False
        for x, y in zip(ra, rb):
            if isinstance(x, Fr) and isinstance(y, Fr):
                if not close(x, y):
                    return False
            elif x != y:
                return False
    return True


def _skey(row):
    return tuple((0, Fr(0)) if v is None else ((1, v) if isinstance(v, Fr) else (2, str(v))) for v in row)


def sorted_rows(rows):
    return sorted(rows, key=_skey)


def setup(case, which="chart"):
    m1 = build_map(case, which, False)
    m2 = build_map(case, which, True)
    g = case["game"]
    s1, s2 = snap_rows(m1, g), snap_rows(m2, g)
    for k in LISTS:
        if sorted(map(repr, s1[k])) != sorted(map(repr, s2[k])):
            raise RuntimeError(f"harness: list {k} of the permuted chart is not a permutation of the original")
    return m1, m2, s1, s2


# ------------------------------------------------------------------------------------------ analysis claims

def _ana_in(s, game):
    offs = all_offsets(s)
    return dict(bpms=s["bpms"], svs=s["svs"] if game in SV_GAMES else [], omin=R(min(offs)), omax=R(max(offs)),
                last=R(max(offs)), has_sv=game in SV_GAMES)


def _stack_ok(m, a):
    st = m.stack()
    return Fr(float(st.offset.min())) == F(a["omin"]) and Fr(float(st.offset.max())) == F(a["omax"])


def run_dominant(case, drv):
    from reamber.algorithms.utils import dominant_bpm
    m1, m2, s1, s2 = setup(case)
    tags = base_tags(case, s1, s2)
    a1, a2 = _ana_in(s1, case["game"]), _ana_in(s2, case["game"])
    d = domain(drv, s1)
    out = []
    for m in (m1, m2):
        try:
            out.append(("ok", fr(dominant_bpm(m))))
        except Exception as e:
            out.append(("err", err_class(e)))
    mo = [drv.call("c19.dominant", bpms=a["bpms"], last=a["last"]) for a in (a1, a2)]
    dom = d["tempo_ties_equal"]
    if not dom:
        tags.append("tempo-tie-order-dependent")
    enc = [[[o[0], R(o[1]) if o[0] == "ok" and o[1] is not None else (o[1] if o[0] == "err" else None)]] for o in out]
    same = same_list(drv, enc[0], enc[1])
    ok = same or not dom
    agree = _stack_ok(m1, a1) and _stack_ok(m2, a2)
    if dom:
        for o, mm in zip(out, mo):
            if o[0] == "ok":
                agree = agree and "ok" in mm and o[1] is not None and F(mm["ok"]) == o[1]
            else:
                agree = agree and "err" in mm and mm["err"] == o[1]
        agree = agree and (("ok" in mo[0]) == ("ok" in mo[1])) and mo[0] == mo[1]
    nontrivial = reordered(s1, s2) and len({tuple(map(tuple, [r])) for r in map(lambda r: (F(r[0]), F(r[1])), s1["bpms"])}) >= 2
    return res("dominant", ok, agree, dom, tags, nontrivial,
               dict(impl=[str(o) for o in out], model=mo, bpms=s1["bpms"], bpms_permuted=s2["bpms"]))


def _ov(case):
    return None if case.get("override") is None else float(F(case["override"]))


def run_normalize(case, drv):
    from reamber.algorithms.generate.sv_normalize import sv_normalize
    m1, m2, s1, s2 = setup(case)
    tags = base_tags(case, s1, s2) + ["override" if case.get("override") is not None else "dominant-ref"]
    a1, a2 = _ana_in(s1, case["game"]), _ana_in(s2, case["game"])
    d = domain(drv, s1)
    ov = _ov(case)
    out = []
    for m in (m1, m2):
        try:
            o = sv_normalize(m) if ov is None else sv_normalize(m, ov)
            df = o.df
            out.append(("ok", [[fr(a), fr(b)] for a, b in zip(df["offset"].tolist(), df["multiplier"].tolist())]))
        except Exception as e:
            out.append(("err", err_class(e)))
    mo = [drv.call("c19.sv_normalize", bpms=a["bpms"], last=a["last"], override=case.get("override")) for a in (a1, a2)]
    dom = d["tempo_ties_equal"] or (case.get("override") is not None and F(case["override"]) != 0)
    if not d["tempo_ties_equal"]:
        tags.append("tempo-tie-order-dependent")
    if out[0][0] == "ok" and out[1][0] == "ok":
        enc = [[[None if v is None else R(v) for v in r] for r in o[1]] for o in out]
        same = same_rows(drv, enc[0], enc[1])
    else:
        same = out[0] == out[1]
    ok = same or not dom
    agree = True
    maxdev = 0.0
    if dom:
        for o, mm in zip(out, mo):
            if o[0] == "ok":
                if "ok" not in mm or any(v is None for r in o[1] for v in r):
                    agree = False
                else:
                    a = sorted_rows([list(r) for r in o[1]])
                    b = sorted_rows([[F(x), F(y)] for x, y in mm["ok"]])
                    agree = agree and close_rows(a, b)
            else:
                agree = agree and "err" in mm
        if "ok" in mo[0] and "ok" in mo[1]:
            agree = agree and same_rows(drv, mo[0]["ok"], mo[1]["ok"])
    return res("normalize", ok, agree, dom, tags, reordered(s1, s2) and len(s1["bpms"]) >= 2,
               dict(impl=[str(o)[:800] for o in out], model=mo, bpms=s1["bpms"], bpms_permuted=s2["bpms"]), maxdev)


def run_speed(case, drv):
    from reamber.algorithms.analysis.scroll_speed import scroll_speed
    m1, m2, s1, s2 = setup(case)
    game = case["game"]
    tags = base_tags(case, s1, s2) + ["override" if case.get("override") is not None else "dominant-ref",
                                      "has-sv" if game in SV_GAMES else "no-sv"]
    a1, a2 = _ana_in(s1, game), _ana_in(s2, game)
    d = domain(drv, s1)
    ov = _ov(case)
    out = []
    for m in (m1, m2):
        try:
            s = scroll_speed(m) if ov is None else scroll_speed(m, ov)
            out.append(("ok", [[fr(t), fr(v)] for t, v in zip(s.index.tolist(), s.tolist())]))
        except Exception as e:
            out.append(("err", err_class(e)))
    mo = [drv.call("c19.scroll_speed", has_sv=a["has_sv"], bpms=a["bpms"], svs=a["svs"], omin=a["omin"], omax=a["omax"],
                   override=case.get("override")) for a in (a1, a2)]
    dom = d["tempo_ties_equal"] and (d["sv_ties_equal"] or game not in SV_GAMES)
    if not d["tempo_ties_equal"]:
        tags.append("tempo-tie-order-dependent")
    if game in SV_GAMES and not d["sv_ties_equal"]:
        tags.append("sv-tie-order-dependent")
    if out[0][0] == "ok" and out[1][0] == "ok":
        enc = [[[None if v is None else R(v) for v in r] for r in o[1]] for o in out]
        same = same_rows(drv, enc[0], enc[1])
    else:
        same = out[0] == out[1]
    ok = same or not dom
    agree = _stack_ok(m1, a1) and _stack_ok(m2, a2)
    if dom:
        for o, mm in zip(out, mo):
            if o[0] == "ok":
                if "ok" not in mm:
                    agree = False
                else:
                    a = sorted_rows([list(r) for r in o[1]])
                    b = sorted_rows([[F(t), None if v is None else F(v)] for t, v in mm["ok"]])
                    agree = agree and close_rows(a, b)
            else:
                agree = agree and "err" in mm
        if "ok" in mo[0] and "ok" in mo[1]:
            # the theorem's conclusion on the model: equal lists
            agree = agree and same_list(drv, mo[0]["ok"], mo[1]["ok"])
    return res("speed", ok, agree, dom, tags, reordered(s1, s2),
               dict(impl=[str(o)[:1500] for o in out], model=mo, chart=s1, permuted=s2))


# ------------------------------------------------------------------------------------------ full_ln

def _note_rows(m):
    rows = []
    for o, c in zip(m.hits.df["offset"].tolist(), m.hits.df["column"].tolist()):
        rows.append([R(fr(o)), int(c), None])
    hd = m.holds.df
    for o, c, l in zip(hd["offset"].tolist(), hd["column"].tolist(), hd["length"].tolist()):
        rows.append([R(fr(o)), int(c), None if fr(l) is None else R(fr(l))])
    return rows


def run_full_ln(case, drv):
    from reamber.algorithms.generate.full_ln import full_ln
    m1, m2, s1, s2 = setup(case)
    tags = base_tags(case, s1, s2)
    gap, thr = case["gap"], case["thr"]
    d = domain(drv, s1)
    dom = d["note_ties_equal"]
    if not dom:
        tags.append("note-tie-order-dependent")
    out = []
    for m in (m1, m2):
        try:
            r = full_ln(m, gap=float(F(gap)), ln_as_hit_thres=float(F(thr)))
            out.append(("ok", _note_rows(r), snap_rows(r, case["game"])))
        except Exception as e:
            out.append(("err", err_class(e)))
    mo = [drv.call("c17.model", gap=gap, thr=thr, extras=[], hits=s["hits"], holds=s["holds"]) for s in (s1, s2)]
    if out[0][0] == "ok" and out[1][0] == "ok":
        same = same_rows(drv, out[0][1], out[1][1]) and \
            all(same_rows(drv, out[0][2][k], out[1][2][k]) for k in ("bpms", "svs"))
    else:
        same = out[0][:2] == out[1][:2]
    ok = same or not dom
    agree = True
    if dom:
        for o, mm in zip(out, mo):
            if o[0] != "ok" or "ok" not in mm:
                agree = False
            else:
                agree = agree and same_rows(drv, o[1], mm["ok"]["hits"] + mm["ok"]["holds"])
        if "ok" in mo[0] and "ok" in mo[1]:
            agree = agree and same_list(drv, mo[0]["ok"]["hits"], mo[1]["ok"]["hits"]) and \
                same_list(drv, mo[0]["ok"]["holds"], mo[1]["ok"]["holds"])
    return res("full_ln", ok, agree, dom, tags, reordered(s1, s2) and len(s1["hits"]) + len(s1["holds"]) >= 2,
               dict(impl=[str(o[:2])[:1500] for o in out], model=mo, chart=s1, permuted=s2))


# ------------------------------------------------------------------------------------------ rate

G13 = dict(osu="osu", qua="qua", sm="sm", bms="bms", o2j="o2j")


def _frame_rows(fr_):
    return [list(r) for r in fr_["rows"]]


def _same_chart13(drv, a, b):
    """two c13 chart snapshots: same lists (names, columns) with the same multisets of rows; same scalars"""
    if [k for k, _ in a["lists"]] != [k for k, _ in b["lists"]]:
        return False
    for (_, fa), (_, fb) in zip(a["lists"], b["lists"]):
        if sorted(fa["cols"]) != sorted(fb["cols"]) or not same_rows(drv, _cells13(fa), _cells13(fb)):
            return False
    if (a.get("samples") is None) != (b.get("samples") is None):
        return False
    if a.get("samples") is not None and not same_rows(drv, _cells13(a["samples"]), _cells13(b["samples"])):
        return False
    return a.get("preview") == b.get("preview") and a.get("meta") == b.get("meta")


def _cells13(f):
    """rows over the columns in name order (column order is not something the property names)"""
    order = sorted(range(len(f["cols"])), key=lambda i: f["cols"][i])
    return [[(r[i] if not isinstance(r[i], dict) else "<" + r[i]["o"] + ">") for i in order] for r in f["rows"]]


def run_rate(case, drv):
    from props import c13
    m1, m2, s1, s2 = setup(case)
    g = G13[case["game"]]
    tags = base_tags(case, s1, s2) + [f"r={F(case['r'])}"]
    r = case["r"]
    out, before = [], []
    for m in (m1, m2):
        before.append(c13.snap_map(g, m))
        try:
            out.append(("ok", c13.snap_map(g, m.rate(float(F(r))))))
        except Exception as e:
            out.append(("err", err_class(e)))
    mo = [drv.call("c13.rate_chart", game=g, r=r, chart=b) for b in before]
    if out[0][0] == "ok" and out[1][0] == "ok":
        same = _same_chart13(drv, out[0][1], out[1][1])
    else:
        same = out[0] == out[1]
    ok = same
    agree = True
    for o, mm in zip(out, mo):
        if o[0] == "ok":
            agree = agree and "ok" in mm and _same_chart13(drv, o[1], mm["ok"])
        else:
            agree = agree and "err" in mm
    if "ok" in mo[0] and "ok" in mo[1]:
        agree = agree and _same_chart13(drv, mo[0]["ok"], mo[1]["ok"])
    return res("rate", ok, agree, True, tags, reordered(s1, s2),
               dict(impl=[str(o)[:1500] for o in out], model=[str(x)[:1500] for x in mo]))


# ------------------------------------------------------------------------------------------ converters

def run_convert(case, drv):
    import inspect
    from props import c08
    conv = case["conv"]
    m1, m2, s1, s2 = setup(case)
    game = case["game"]
    tags = base_tags(case, s1, s2) + [conv.split(".")[0]]
    if len(s1["hits"]) + len(s1["holds"]) == 0:
        return res("convert", True, True, False, tags + ["no-notes-skipped"], False)
    fn = c08.get_converter(conv)
    kwargs = {}
    params = inspect.signature(fn).parameters
    if "raise_bad_mode" in params:
        kwargs["raise_bad_mode"] = False
    out, before = [], []
    for m in (m1, m2):
        src = wrap_set(game, m, case)
        before.append(c08.snap_src(game, src))
        try:
            out.append(("ok", c08.snap_out(fn(src, **kwargs))))
        except Exception as e:
            out.append(("err", err_class(e), repr(e)[:200]))
    d = drv.call("c08.dom", conv=conv, src=before[0])["ok"]
    k = (d["shift_default"] if d["has_shift"] else 0) or 0
    mo = [drv.call("c08.convert", conv=conv, src=b, k=k) for b in before]
    if out[0][0] == "ok" and out[1][0] == "ok":
        same = _same_out(drv, out[0][1], out[1][1])
    else:
        same = out[0][:2] == out[1][:2]
    ok = same
    agree = True
    for o, mm in zip(out, mo):
        if o[0] == "ok":
            agree = agree and "ok" in mm and c08.same_out(o[1], mm["ok"]) is None
        else:
            agree = agree and "err" in mm and mm["err"] == o[1]
    if "ok" in mo[0] and "ok" in mo[1]:
        agree = agree and _same_out(drv, mo[0]["ok"], mo[1]["ok"])
    return res("convert", ok, agree, bool(d["static_ok"]), tags, reordered(s1, s2),
               dict(impl=[str(o)[:2500] for o in out], model=[str(x)[:1500] for x in mo], chart=s1, permuted=s2))


def _frame_cells(f):
    """c08 frame -> rows over the columns sorted by name"""
    cols = sorted(f["cols"], key=lambda c: c[0])
    n = len(f["index"])
    return [c[0] for c in cols], [[(c[1][i] if not isinstance(c[1][i], dict) else "<" + c[1][i]["o"] + ">") for c in cols]
                                  for i in range(n)]


def _canon_meta(kvs):
    """attribute snapshots (name, str(value)); a number is compared by value (1 and 1.0 are one key count)"""
    out = []
    for k, v in kvs:
        try:
            v = "num:" + str(Fr(float(v))) if v not in ("True", "False", "") else v
        except (ValueError, OverflowError):
            pass
        out.append((k, v))
    return sorted(out)


def _same_out(drv, a, b):
    if a["is_list"] != b["is_list"] or len(a["groups"]) != len(b["groups"]):
        return False
    for ga, gb in zip(a["groups"], b["groups"]):
        if _canon_meta(ga["set_meta"]) != _canon_meta(gb["set_meta"]) or len(ga["charts"]) != len(gb["charts"]):
            return False
        for x, y in zip(ga["charts"], gb["charts"]):
            if _canon_meta(x["meta"]) != _canon_meta(y["meta"]):
                return False
            for ln in LISTS:
                fx, fy = x.get(ln), y.get(ln)
                if (fx is None) != (fy is None):
                    return False
                if fx is None:
                    continue
                nx, rx = _frame_cells(fx)
                ny, ry = _frame_cells(fy)
                if nx != ny or not same_rows(drv, rx, ry):
                    return False
    return True


# ------------------------------------------------------------------------------------------ hitsound_copy

def _hs_snap(m):
    """c18 wire chart of a real osu map"""
    from props import c18
    return c18.chart_of_map(m)


def _note_keys(ch):
    return [[n[0], n[1], None, False] for n in ch["hits"]] + [[n[0], n[1], n[2], True] for n in ch["holds"]]


def _sounds(ch):
    """(time, sound, volume) over notes and event samples together"""
    out = []
    for n in ch["hits"] + ch["holds"]:
        t, hs, v, f = n[0], n[3], n[7], n[8]
        for bit, name in ((2, "clap"), (4, "finish"), (8, "whistle")):
            if hs & bit == bit:
                out.append([t, name, v])
        if f:
            out.append([t, "file:" + "".join(map(chr, f)), v])
    for e in ch["samples"]:
        out.append([e[0], "file:" + "".join(map(chr, e[1])), e[2]])
    return out


def _object_lists(m):
    """note lists whose `hitsound_set` column lost its integer dtype"""
    return [k for k in ("hits", "holds") if len(getattr(m, k).df) and getattr(m, k).df["hitsound_set"].dtype == object]


def _retyped(m):
    m = m.deepcopy()
    for k in ("hits", "holds"):
        lst = getattr(m, k)
        proto = type(lst)([]).df
        lst.df = lst.df.astype({c: proto[c].dtype for c in lst.df.columns if c in proto})
    return m


def run_hitsound(case, drv):
    from reamber.algorithms.osu.hitsound_copy import hitsound_copy
    src1, src2, ss1, ss2 = setup(case, "src")
    tgt1, tgt2, st1, st2 = setup(case, "tgt")
    tags = ["osu"] + how_tags(case)
    if reordered(ss1, ss2) or reordered(st1, st2):
        tags.append("reordered")
    out = []
    for s, t in ((src1, tgt1), (src2, tgt2)):
        try:
            out.append(("ok", _hs_snap(hitsound_copy(s, t))))
        except Exception as e:
            out.append(("err", err_class(e), repr(e)[:200]))
    w = [(_hs_snap(s), _hs_snap(t)) for s, t in ((src1, tgt1), (src2, tgt2))]
    mo = [drv.call("c18.copy", src=a, tgt=b) for a, b in w]
    d = drv.call("c18.dom", src=w[0][0], tgt=w[0][1])["ok"]
    dom = d["no_sep"] and d["holds_have_length"]
    if out[0][0] == "ok" and out[1][0] == "ok":
        same = same_rows(drv, _note_keys(out[0][1]), _note_keys(out[1][1])) and \
            same_rows(drv, _sounds(out[0][1]), _sounds(out[1][1]))
    else:
        same = out[0][:2] == out[1][:2]
    ok = same or not dom
    objcols = _object_lists(src2) + _object_lists(tgt2)
    if objcols:
        # the shape of the repaired finding D40 (append(<one item>) left object-dtype columns, on which
        # `hitsound_set & 2 == 2` is a logical and); tagged only - a fixed finding suppresses nothing
        tags.append("object-dtype-after-append")
        if not ok:
            try:
                fixed = _hs_snap(hitsound_copy(_retyped(src2), _retyped(tgt2)))
                if same_rows(drv, _note_keys(out[0][1]), _note_keys(fixed)) and same_rows(drv, _sounds(out[0][1]), _sounds(fixed)):
                    tags.append("equal-once-retyped(D40)")
            except Exception:
                pass
    agree = True
    for i, (o, mm) in enumerate(zip(out, mo)):
        if o[0] != "ok" or "ok" not in mm:
            agree = False
        else:
            agree = agree and same_rows(drv, _note_keys(o[1]), _note_keys(mm["ok"])) and \
                same_rows(drv, _sounds(o[1]), _sounds(mm["ok"]))
    if "ok" in mo[0] and "ok" in mo[1]:
        agree = agree and same_rows(drv, _note_keys(mo[0]["ok"]), _note_keys(mo[1]["ok"])) and \
            same_rows(drv, _sounds(mo[0]["ok"]), _sounds(mo[1]["ok"]))
    r = res("hitsound", ok, agree, dom, tags, "reordered" in tags,
               dict(impl=[str(o)[:2000] for o in out], model=[str(x)[:1500] for x in mo], src=w[0][0], tgt=w[0][1],
                    src_permuted=w[1][0], tgt_permuted=w[1][1], object_dtype_lists=objcols))
    return r


# ------------------------------------------------------------------------------------------ writers

def _flat(j):
    """a JSON value of a Lean denotation -> a cell"""
    import json
    if j is None or isinstance(j, (bool, str)):
        return j
    if isinstance(j, int):
        return [j, 1]
    if isinstance(j, list) and len(j) == 2 and all(isinstance(x, int) and not isinstance(x, bool) for x in j):
        return j
    return json.dumps(j, sort_keys=True)


def _rows_of_dicts(lst):
    return [[_flat(v) for _, v in sorted(d.items())] if isinstance(d, dict) else [_flat(v) for v in d] for d in lst]


def _write_result(claim, case, drv, s1, s2, texts, dens, same, dom=True, extra_tags=()):
    tags = base_tags(case, s1, s2) + list(extra_tags)
    detail = dict(texts=[str(t)[:3000] for t in texts], denotations=[str(d)[:3000] for d in dens], chart=s1, permuted=s2)
    # the correspondence of the writer models is C01/C03/C05/C06's.  A text without a by-the-book meaning on BOTH
    # sides (or a writer that raises on both) is not a dependence on row order: tagged, nothing demanded.
    if all(d is None for d in dens):
        return res(claim, True, True, False, tags + ["no-denotation-on-both-sides"], False, detail)
    return res(claim, same or not dom, True, dom, tags, reordered(s1, s2), detail)


def run_write_osu(case, drv):
    m1, m2, s1, s2 = setup(case)
    texts, dens = [], []
    for m in (m1, m2):
        try:
            lines = "\n".join(str(l) for l in m.write()).split("\n")
            texts.append(("ok", lines))
            sp = drv.call("c01.denote", lines=lines)
            dens.append(sp.get("ok"))
        except Exception as e:
            texts.append(("err", err_class(e), repr(e)[:200]))
            dens.append(None)
    if dens[0] is not None and dens[1] is not None:
        a, b = dens
        same = a["meta"] == b["meta"] and all(
            same_rows(drv, _rows_of_dicts(a[k]), _rows_of_dicts(b[k])) for k in ("bpms", "svs", "hits", "holds"))
    else:
        same = texts[0][:2] == texts[1][:2] and texts[0][0] == "err"
    return _write_result("write_osu", case, drv, s1, s2, texts, dens, same)


def run_write_qua(case, drv):
    import yaml
    from props import c06
    m1, m2, s1, s2 = setup(case)
    texts, dens = [], []
    for m in (m1, m2):
        try:
            text = m.write()
            texts.append(("ok", text))
            sp = drv.call("c06.denote", doc=c06.doc_wire(yaml.safe_load(text)))
            dens.append(sp.get("ok"))
        except Exception as e:
            texts.append(("err", err_class(e), repr(e)[:200]))
            dens.append(None)
    if dens[0] is not None and dens[1] is not None:
        a, b = dens
        same = True
        for k in sorted(set(a) | set(b)):
            if isinstance(a.get(k), list) and isinstance(b.get(k), list) and k in ("bpms", "svs", "hits", "holds"):
                same = same and same_rows(drv, _rows_of_dicts(a[k]), _rows_of_dicts(b[k]))
            else:
                same = same and a.get(k) == b.get(k)
    else:
        same = texts[0][:2] == texts[1][:2] and texts[0][0] == "err"
    return _write_result("write_qua", case, drv, s1, s2, texts, dens, same)


def run_write_sm(case, drv):
    m1, m2, s1, s2 = setup(case)
    texts, dens = [], []
    for m in (m1, m2):
        try:
            ms = wrap_set("sm", m, case)
            text = ms.write()
            if isinstance(text, list):
                text = "\n".join(text)
            texts.append(("ok", text))
            dens.append(drv.call("c02.denote", text=text)["ok"])
        except Exception as e:
            texts.append(("err", err_class(e), repr(e)[:200]))
            dens.append(None)
    timed = True
    if dens[0] is not None and dens[1] is not None:
        a, b = dens
        same = a["offset_sec"] == b["offset_sec"] and a["bpms"] is not None and b["bpms"] is not None and \
            same_rows(drv, a["bpms"], b["bpms"]) and a["stops_empty"] == b["stops_empty"] and \
            sorted(map(repr, [v for v in a["values"] if v and v[0] not in ("BPMS", "NOTES")])) == \
            sorted(map(repr, [v for v in b["values"] if v and v[0] not in ("BPMS", "NOTES")])) and \
            len(a["charts"]) == len(b["charts"])
        if same:
            for x, y in zip(a["charts"], b["charts"]):
                same = same and x["chart_type"] == y["chart_type"] and x["measures"] == y["measures"] and \
                    same_rows(drv, _rows_of_dicts(x["beats"]), _rows_of_dicts(y["beats"]))
                if x["notes"] is None or y["notes"] is None:
                    timed = False
                else:
                    same = same and same_rows(drv, _rows_of_dicts(x["notes"]), _rows_of_dicts(y["notes"]))
            if a["tempo_times"] is not None and b["tempo_times"] is not None:
                same = same and same_rows(drv, [[t] for t in a["tempo_times"]], [[t] for t in b["tempo_times"]])
    else:
        same = texts[0][:2] == texts[1][:2] and texts[0][0] == "err"
    return _write_result("write_sm", case, drv, s1, s2, texts, dens, same, extra_tags=[] if timed else ["sm-untimed"])


def _effective(tempo):
    """tempo changes of a BMS denotation with a change that is replaced at its own position dropped"""
    out = []
    for t in tempo:
        if out and out[-1][2] == t[2]:
            out[-1] = t
        else:
            out.append(t)
    return out


def run_write_bms(case, drv):
    m1, m2, s1, s2 = setup(case)
    extra = []
    texts, dens = [], []
    for m in (m1, m2):
        try:
            lines = m.write().split(b"\r\n")
            texts.append(("ok", [l.decode("latin-1") for l in lines]))
            dens.append(drv.call("c04.denote", layout="BME", lines=[l.hex() for l in lines])["ok"]["den"])
        except Exception as e:
            texts.append(("err", err_class(e), repr(e)[:200]))
            dens.append(None)
    if dens[0] is not None and dens[1] is not None:
        a, b = dens
        # the #BPMxx table is keyed by row position: the header differs in its keys, the denoted tempo does not.
        # `#BPM` (header) is the first ROW's bpm; it is a tempo point at position 0 that the channel-08 change at
        # position 0 replaces at once: the timeline is that of the last change at each position
        if a["header"]["bpm0"] != b["header"]["bpm0"]:
            extra.append("bms-header-bpm-follows-row-order")
        same = same_rows(drv, _rows_of_dicts(_effective(a["tempo"])), _rows_of_dicts(_effective(b["tempo"]))) and \
            same_rows(drv, _rows_of_dicts(a["hits"]), _rows_of_dicts(b["hits"])) and \
            same_rows(drv, _rows_of_dicts(a["holds"]), _rows_of_dicts(b["holds"]))
    else:
        same = texts[0][:2] == texts[1][:2] and texts[0][0] == "err"
    return _write_result("write_bms", case, drv, s1, s2, texts, dens, same, extra_tags=extra)

# ------------------------------------------------------------------------------------------ BpmList list-level queries

def run_bpmlist(case, drv):
    """BpmList.current_bpm (sort=True / sort=False), TimedList.time_diff, BpmList.ave_bpm on the tempo list in both row
    orders against the models of Model/BpmList.lean (current_bpm_perm, time_diff_perm, ave_bpm_order_counterexample).
    The property's statement does not name these routines: nothing is demanded of the implementation here (`ok`), the
    claim keeps the models of the theorems tied to the code (`agree`); a dependence on row order is tagged."""
    m1, m2, s1, s2 = setup(case)
    tags = base_tags(case, s1, s2)
    t, delta, last = F(case["t"]), F(case["delta"]), F(case["last"])
    d = domain(drv, s1)
    dom = d["tempo_ties_equal"]
    if not dom:
        tags.append("tempo-tie-order-dependent")
    out = []
    for m in (m1, m2):
        b = m.bpms
        o = {}
        for name, kw in (("cur", {}), ("cur_nosort", dict(sort=False))):
            try:
                x = b.current_bpm(float(t), delta=float(delta), **kw)
                o[name] = ["ok", [fr(x.offset), fr(x.bpm)]]
            except Exception as e:
                o[name] = ["err", err_class(e)]
        try:
            o["diff"] = ["ok", [fr(v) for v in b.time_diff(float(last)).tolist()]]
        except Exception as e:
            o["diff"] = ["err", err_class(e)]
        try:
            v = float(b.ave_bpm(float(last)))
            o["ave"] = ["ok", Fr(v) if math.isfinite(v) else None]
        except Exception as e:
            o["ave"] = ["err", err_class(e)]
        try:
            ds = b.describe()
            o["describe"] = ["ok", {c: {k: fr(ds[c][k]) for k in ("count", "mean", "std", "min", "25%", "50%", "75%", "max")}
                                    for c in ("offset", "bpm")}]
        except Exception as e:
            o["describe"] = ["err", err_class(e)]
        out.append(o)
    mo = [drv.call("c15.bpmlist", bpms=s["bpms"], t=R(t), delta=R(delta), last=R(last))["ok"] for s in (s1, s2)]
    agree = True
    for o, mm, s in zip(out, mo, (s1, s2)):
        for name in ("cur", "cur_nosort"):
            if o[name][0] == "ok":
                # tied tempo points: `sorted()` is pandas' default (unstable) sort, the model's is stable - which of the tied
                # rows is returned is not determined there; its time is
                k = 2 if (dom or name == "cur_nosort") else 1
                agree = agree and mm[name] is not None and [F(mm[name][0]), F(mm[name][1])][:k] == o[name][1][:k]
            else:
                agree = agree and mm[name] is None and o[name][1] == "index"
        agree = agree and o["diff"][0] == "ok" and [F(x) for x in mm["diff"]] == o["diff"][1]
        first = min(F(r[0]) for r in s["bpms"])
        if last != first:
            agree = agree and o["ave"][0] == "ok" and o["ave"][1] is not None and close(F(mm["ave"]), o["ave"][1])
        agree = agree and o["describe"][0] == "ok"
        if o["describe"][0] == "ok":
            for c in ("offset", "bpm"):
                got, want = o["describe"][1][c], mm["describe_" + c]
                agree = agree and got["count"] == want["count"]
                for k, kk in (("mean", "mean"), ("min", "min"), ("25%", "q25"), ("50%", "q50"), ("75%", "q75"), ("max", "max")):
                    agree = agree and got[k] is not None and close(F(want[kk]), got[k])
                if want["count"] >= 2:
                    agree = agree and got["std"] is not None and close(F(want["var"]), got["std"] * got["std"])
    # the conclusions of the theorems on the model
    agree = agree and mo[0]["describe_offset"] == mo[1]["describe_offset"] and mo[0]["describe_bpm"] == mo[1]["describe_bpm"]
    if out[0]["describe"] != out[1]["describe"]:
        tags.append("describe-follows-row-order(float summation order)")
    agree = agree and mo[0]["diff"] == mo[1]["diff"] and (not dom or mo[0]["cur"] == mo[1]["cur"])
    if out[0]["cur"] != out[1]["cur"]:
        tags.append("current-bpm-follows-row-order")
    if out[0]["cur_nosort"] != out[1]["cur_nosort"]:
        tags.append("current-bpm-nosort-follows-row-order")
    if out[0]["diff"] != out[1]["diff"]:
        tags.append("time-diff-follows-row-order")
    if out[0]["ave"] != out[1]["ave"]:
        tags.append("ave-bpm-follows-row-order")
    return res("bpmlist", True, agree, dom, tags, reordered(s1, s2) and len(s1["bpms"]) >= 2,
               dict(impl=[str(o)[:1500] for o in out], model=mo, bpms=s1["bpms"], bpms_permuted=s2["bpms"]))


RUNNERS = dict(dominant=run_dominant, normalize=run_normalize, speed=run_speed, full_ln=run_full_ln, rate=run_rate,
               convert=run_convert, hitsound=run_hitsound, write_osu=run_write_osu, write_qua=run_write_qua,
               write_sm=run_write_sm, write_bms=run_write_bms, bpmlist=run_bpmlist)


def n15b_shape(case):
    """predicate of the open finding N15b: on the permuted chart one note list is empty and the other is a ONE-row
    list whose row labels are a descending RangeIndex (a one-row list reversed by `lst[::-1]`).  pandas (2.3.3)
    raises `Shape of passed values is (1, n), indices imply (0, n)` when it concatenates these two frames, so
    full_ln and hitsound_copy (pd.concat of the note frames) raise on such a chart although its row ORDER is that
    of the plainly constructed one."""
    import pandas as pd
    try:
        for which in (("src", "tgt") if case["claim"] == "hitsound" else ("chart",)):
            m = build_map(case, which, True)
            dfs = [m.hits.df, m.holds.df]
            for a, b in (dfs, dfs[::-1]):
                if len(a) == 0 and len(b) == 1 and isinstance(b.index, pd.RangeIndex) and b.index.step < 0:
                    return True
    except Exception:
        pass
    return False


def run(case, drv):
    warnings.simplefilter("ignore")
    logging.disable(logging.WARNING)
    r = RUNNERS[case["claim"]](case, drv)
    if not r["ok"] and r["kf"] is None and case["claim"] in ("full_ln", "hitsound") and n15b_shape(case):
        r["kf"], r["dom"] = "N15b", False
        r["tags"] = r["tags"] + ["one-row-descending-rangeindex-next-to-empty(N15b)"]
    return r


# ------------------------------------------------------------------------------------------ generators

def g_time(rng, hi=40000):
    return Fr(rng.randrange(0, hi // 125)) * 125 + rng.choice([0, 0, 0, Fr(1, 2), Fr(1, 4)]) * rng.choice([0, 1])


def gen_free_chart(rng, tier, game, ties):
    """analysis / full_ln / rate / convert charts: free dyadic times"""
    nb = rng.choice([1, 1, 2, 2, 3, 3, 4, 5, 6, 8, 12, 17, 20] + ([25, 40] if tier == "thorough" else []))
    base = g_time(rng, 2000)
    times = {base}
    while len(times) < nb:
        times.add(base + g_time(rng))
    times = sorted(times)
    pool = [Fr(b) for b in rng.sample(E_BPMS, rng.choice([1, 2, 2, 3, 4]))]
    bpms = [[R(t), R(rng.choice(pool))] for t in times]
    if rng.random() < 0.15 and bpms:
        bpms.append(list(rng.choice(bpms)))                    # an exact duplicate row
    keys = rng.choice([4, 4, 7])
    nh = rng.choice([1, 2, 3, 5, 8, 12, 24])
    hits = []
    for _ in range(nh):
        q = rng.random()
        t = rng.choice(times) if q < 0.2 else (base + g_time(rng, 45000))
        hits.append([R(t), rng.randrange(keys)])
    if rng.random() < 0.4 and hits:                            # chords
        for _ in range(rng.choice([1, 2, 3])):
            hits.append([rng.choice(hits)[0], rng.randrange(keys)])
    holds = []
    for _ in range(rng.choice([0, 0, 1, 2, 4, 8])):
        holds.append([R(base + g_time(rng, 45000)), rng.randrange(keys), R(rng.choice([125, 250, 500, 1000, Fr(125, 2)]))])
    svs = []
    if game in SV_GAMES:
        for _ in range(rng.choice([0, 0, 1, 2, 3, 5, 8, 16])):
            q = rng.random()
            if q < 0.25:
                t = rng.choice(times)
            elif q < 0.4 and svs:
                t = F(rng.choice(svs)[0])
            elif q < 0.5:
                t = base - rng.choice([125, 250, 1000])
            else:
                t = base + g_time(rng, 45000)
            svs.append([R(t), R(Fr(rng.choice(E_MULTS)))])
        # coinciding SVs carry equal multipliers (the stated hypothesis) unless a tie case is wanted
        if not ties:
            seen = {}
            for s in svs:
                s[1] = seen.setdefault(F(s[0]), s[1])
    if ties == "tempo" and bpms:
        t = rng.choice(bpms)[0]
        bpms.append([t, R(Fr(rng.choice([b for b in E_BPMS if Fr(b) not in pool] or E_BPMS)))])
    if ties == "note" and hits:
        h = rng.choice(hits)
        holds.append([h[0], h[1], R(250)])
    for l in (hits, holds, bpms, svs):
        rng.shuffle(l)
        if rng.random() < 0.5:
            l.sort(key=lambda p: F(p[0]))          # the generated order is the file order of a reader: by time
    return dict(hits=hits, holds=holds, bpms=bpms, svs=svs), keys


def gen_grid_chart(rng, tier, game):
    """writer charts: segments of whole measures (4 beats) at tempos whose beat length is a whole millisecond;
    notes on quarter / eighth beats; tempo changes on measure lines; distinct (time, column)"""
    keys = rng.choice([4, 4, 7])
    nseg = rng.choice([1, 1, 2, 3, 4])
    t = Fr(rng.choice([0, 0, 500, 1000]))
    bpms, cells = [], []
    for _ in range(nseg):
        bpm = rng.choice(WRITER_BPMS)
        beat = Fr(60000) / bpm
        nm = rng.choice([1, 1, 2, 3])
        bpms.append([R(t), R(bpm)])
        for m in range(nm):
            for q in range(8):
                cells.append(t + (m * 4 + Fr(q, 2)) * beat)
        t += nm * 4 * beat
    used = set()
    hits, holds = [], []
    for _ in range(rng.choice([1, 2, 4, 8, 12])):
        tt, c = rng.choice(cells), rng.randrange(keys)
        if (tt, c) in used:
            continue
        used.add((tt, c))
        hits.append([R(tt), c])
    for _ in range(rng.choice([0, 0, 1, 2, 3])):
        i = rng.randrange(len(cells))
        j = min(len(cells) - 1, i + rng.choice([1, 2, 4]))
        c = rng.randrange(keys)
        if j == i or any((x, c) in used for x in cells[i:j + 1]):
            continue
        for x in cells[i:j + 1]:
            used.add((x, c))
        holds.append([R(cells[i]), c, R(cells[j] - cells[i])])
    svs = []
    if game in SV_GAMES:
        for tt in rng.sample(cells, min(len(cells), rng.choice([0, 1, 2, 4]))):
            svs.append([R(tt), R(Fr(rng.choice(E_MULTS)))])
    for l in (hits, holds, bpms, svs):
        rng.shuffle(l)
        if rng.random() < 0.6:
            l.sort(key=lambda p: F(p[0]))
    return dict(hits=hits, holds=holds, bpms=bpms, svs=svs), keys, bpms


def gen_sound(rng, vols):
    q = rng.random()
    hs, f = 0, ""
    if q < 0.5:
        hs = rng.choice([2, 4, 8, 6, 10, 12, 14, 2, 8])
    elif q < 0.8:
        f = rng.choice(SOUND_NAMES)
    elif q < 0.9:
        hs = rng.choice([2, 4, 8, 14])
        f = rng.choice(SOUND_NAMES)
    return dict(hs=hs, ss=rng.choice([0, 0, 0, 1, 2]), ad=rng.choice([0, 0, 0, 1]), cs=rng.choice([0, 0, 0, 1]),
                v=rng.choice(vols), f=f)


def gen_hitsound(rng, tier):
    times = [Fr(t) for t in rng.sample([0, 125, 250, 500, 1000, 1500, 2000, 3000], rng.choice([1, 2, 3, 4]))]
    vols = rng.sample([0, 10, 20, 30, 50, 70, 100], rng.choice([1, 2, 3]))
    src = dict(hits=[], holds=[], bpms=[[R(0), R(120)]], svs=[])
    tgt = dict(hits=[], holds=[], bpms=[[R(0), R(120)]], svs=[])
    for t in times:
        for _ in range(rng.choice([0, 1, 2, 3, 5, 8])):
            s = gen_sound(rng, vols)
            if rng.random() < 0.25:
                src["holds"].append([R(t), rng.randrange(7), R(rng.choice([50, 100, 250])), s])
            else:
                src["hits"].append([R(t), rng.randrange(7), s])
        for _ in range(rng.choice([0, 1, 2, 3, 4, 6])):
            own = gen_sound(rng, vols) if rng.random() < 0.3 else dict(hs=0, ss=0, ad=0, cs=0, v=0, f="")
            if rng.random() < 0.3:
                tgt["holds"].append([R(t), rng.randrange(7), R(rng.choice([50, 100, 250])), own])
            else:
                tgt["hits"].append([R(t), rng.randrange(7), own])
    for ch in (src, tgt):
        for _ in range(rng.choice([0, 1, 2])):
            ch["hits"].append([R(rng.choice([7, 133, 777])), rng.randrange(7), gen_sound(rng, vols)])
        rng.shuffle(ch["hits"])
        rng.shuffle(ch["holds"])
    return src, tgt


def gen_one_how(rng, hist_p):
    if rng.random() >= hist_p:
        return rng.choice(HOWS)
    posts = [rng.choice(H_POSTS) for _ in range(rng.choice([0, 0, 1, 1, 2]))]
    return "h:" + "+".join([rng.choice(H_BASES)] + posts)


def gen_how(rng, game, hist_p=0.5):
    style = rng.random()
    if style < 0.35:
        h = gen_one_how(rng, hist_p)
        return {k: h for k in LISTS}
    return {k: gen_one_how(rng, hist_p) for k in LISTS}


def gen_search(rng, tier, i):
    """the stream of the search for a failing input: the same charts, row orders mostly reached through histories"""
    return gen(rng, tier, i, hist_p=0.85)


def gen(rng, tier, i, hist_p=0.5):
    claim = rng.choice(["dominant", "dominant", "normalize", "speed", "speed", "full_ln", "full_ln", "rate", "convert",
                        "convert", "hitsound", "write_osu", "write_qua", "write_sm", "write_bms", "bpmlist"])
    pseed = rng.randrange(1 << 30)
    if claim == "hitsound":
        src, tgt = gen_hitsound(rng, tier)
        return dict(claim=claim, game="osu", pseed=pseed, how=gen_how(rng, "osu", hist_p), src=src, tgt=tgt, keys=7)
    if claim.startswith("write_"):
        game = claim.split("_")[1]
        chart, keys, bp = gen_grid_chart(rng, tier, game)
        c = dict(claim=claim, game=game, pseed=pseed, how=gen_how(rng, game, hist_p), chart=chart, keys=keys)
        if game == "sm":
            c["sm_offset"] = min(bp, key=lambda p: F(p[0]))[0]
        return c
    if claim == "normalize":
        game = rng.choice(SV_GAMES)
    elif claim == "convert":
        conv = rng.choice(CONVS)
        game = SRC_OF[[k for k in SRC_OF if conv.startswith(k + "To")][0]]
    else:
        game = rng.choice(GAMES)
    ties = None
    q = rng.random()
    if q < 0.06 and claim in ("dominant", "normalize", "speed"):
        ties = "tempo"
    elif q < 0.12 and claim == "speed" and game in SV_GAMES:
        ties = "sv"
    elif q < 0.1 and claim == "full_ln":
        ties = "note"
    elif q < 0.06 and claim == "bpmlist":
        ties = "tempo"
    chart, keys = gen_free_chart(rng, tier, game, ties)
    c = dict(claim=claim, game=game, pseed=pseed, how=gen_how(rng, game, hist_p), chart=chart, keys=keys)
    if claim in ("normalize", "speed"):
        q = rng.random()
        c["override"] = R(Fr(rng.choice(E_BPMS))) if q < 0.3 else (R(0) if q < 0.34 else None)
    if claim == "full_ln":
        c["gap"] = R(rng.choice([150, 0, 125, 250, Fr(125, 2)]))
        c["thr"] = R(rng.choice([100, 0, 125, 250]))
    if claim == "rate":
        c["r"] = R(rng.choice(RATES))
    if claim == "convert":
        c["conv"] = conv
    if claim == "bpmlist":
        times = sorted(F(r[0]) for r in chart["bpms"])
        offs = [F(r[0]) for k in LISTS for r in chart[k]]
        q = rng.random()
        t = rng.choice(times) if q < 0.35 else (times[0] - rng.choice([125, Fr(1, 8), Fr(1, 16)]) if q < 0.5 else
                                                min(offs) + g_time(rng, 45000))
        c["t"] = R(t)
        c["delta"] = rng.choice([DELTA_DEFAULT, DELTA_DEFAULT, R(0), R(Fr(1, 8)), R(1)])
        last = max(offs) + rng.choice([0, 125, 1000]) if rng.random() < 0.7 else rng.choice(times) + rng.choice([0, Fr(125, 2)])
        c["last"] = R(last if last != 0 else Fr(125))
    return c


def _c(claim, game, hits=(), holds=(), bpms=(), svs=(), how="construct", pseed=1, keys=4, **kw):
    chart = dict(hits=[[R(t), c] for t, c in hits], holds=[[R(t), c, R(l)] for t, c, l in holds],
                 bpms=[[R(t), R(b)] for t, b in bpms], svs=[[R(t), R(x)] for t, x in svs])
    how = {k: how for k in LISTS} if isinstance(how, str) else how
    return dict(claim=claim, game=game, pseed=pseed, how=how, chart=chart, keys=keys, **kw)


def corpus():
    c = []
    # D18 witness: the long interval belongs to the tempo point that comes second in time; reverse the tempo rows
    for g in GAMES:
        c.append(_c("dominant", g, hits=[(0, 0), (1500, 1)], bpms=[(0, 100), (1000, 200)], how="revsort"))
    c.append(_c("normalize", "osu", hits=[(0, 0), (1500, 1)], bpms=[(0, 100), (1000, 200)], how="revsort"))
    c.append(_c("speed", "sm", hits=[(0, 0), (1500, 1)], bpms=[(0, 100), (1000, 200)], how="revsort"))
    c.append(_c("speed", "osu", hits=[(0, 0), (3000, 1)], bpms=[(0, 100), (1000, 200), (2000, 100)],
                svs=[(1000, 0.5), (1500, 2), (1500, 2), (-500, 4)], how="revsort"))
    # three tempo points, every order of append
    for ps in range(1, 5):
        c.append(_c("dominant", "qua", hits=[(0, 0), (4000, 1)], bpms=[(0, 100), (1000, 200), (1250, 150)], how="append", pseed=ps))
    c.append(_c("full_ln", "osu", hits=[(0, 0), (500, 0), (1000, 0), (0, 1), (250, 1)], holds=[(2000, 0, 500)],
                bpms=[(0, 120)], how="revsort", gap=R(150), thr=R(100)))
    c.append(_c("full_ln", "bms", hits=[(0, 0), (500, 0), (500, 1), (1000, 0)], holds=[(250, 1, 100)],
                bpms=[(0, 120)], how="iloc", gap=R(0), thr=R(0)))
    c.append(_c("rate", "sm", hits=[(0, 0), (500, 1)], holds=[(250, 2, 250)], bpms=[(0, 120), (1000, 240)], how="concat", r=R(2)))
    c.append(_c("rate", "osu", hits=[(0, 0), (500, 1)], holds=[(250, 2, 250)], bpms=[(0, 120), (1000, 240)],
                svs=[(0, 1), (500, 2)], how="revsort", r=R(Fr(1, 2))))
    c.append(_c("convert", "osu", hits=[(0, 0), (500, 1), (250, 3)], holds=[(250, 2, 250)], bpms=[(0, 120), (1000, 240)],
                svs=[(0, 1), (500, 2)], how="revsort", conv="OsuToQua.convert"))
    c.append(_c("convert", "sm", hits=[(0, 0), (500, 1), (250, 3)], holds=[(250, 2, 250)], bpms=[(0, 120), (1000, 240)],
                how="append", conv="SMToOsu.convert"))
    c.append(_c("convert", "bms", hits=[(0, 0), (500, 1), (250, 3)], holds=[(250, 2, 250)], bpms=[(0, 120), (1000, 240)],
                how="iloc", conv="BMSToOsu.convert"))
    for g in ("osu", "qua", "sm", "bms"):
        c.append(_c("write_" + g, g, hits=[(0, 0), (500, 1), (2000, 3), (2250, 0)], holds=[(1000, 2, 500)],
                    bpms=[(0, 120), (2000, 240), (3000, 60)], svs=[(0, 1), (500, 2)] if g in SV_GAMES else [],
                    how="revsort", sm_offset=R(0)))
        c.append(_c("write_" + g, g, hits=[(0, 0), (500, 1), (2000, 3), (2250, 0)], holds=[(1000, 2, 500)],
                    bpms=[(0, 120), (2000, 240), (3000, 60)], svs=[(0, 1), (500, 2)] if g in SV_GAMES else [],
                    how="append", pseed=3, sm_offset=R(0)))
    # row orders reached through list histories: two sections whose tempo points interleave, each section sorted, then
    # concatenated; the same through another chart and a deepcopy
    for cl, g, kw in (("dominant", "osu", {}), ("dominant", "sm", {}), ("normalize", "qua", dict(override=None)),
                      ("speed", "osu", dict(override=None)), ("speed", "bms", dict(override=None))):
        for ps in (1, 2, 3):
            for h in ("h:sorted_concat", "h:sorted_concat+via_chart_copy", "h:resorted_concat+deepcopy", "h:rotate+ctor",
                      "h:reverse_slice+slice_all", "h:inplace"):
                c.append(_c(cl, g, hits=[(0, 0), (1000, 1), (21000, 3), (30000, 1), (5000, 1), (16000, 2)], holds=[(2000, 3, 700)],
                            bpms=[(0, 120), (20000, 150), (5000, 200), (12000, 75)],
                            svs=[(2500, 1.5), (25000, 2), (8000, 0.5)] if g in SV_GAMES else [], how=h, pseed=ps, **kw))
    for ps in (1, 2):
        c.append(_c("bpmlist", "osu", hits=[(0, 0), (4000, 1)], bpms=[(0, 100), (1000, 200), (1250, 150)], how="revsort", pseed=ps,
                    t=R(1100), delta=DELTA_DEFAULT, last=R(4000)))
        c.append(_c("bpmlist", "bms", hits=[(0, 0), (4000, 1)], bpms=[(500, 100), (1000, 200)], how="h:sorted_concat", pseed=ps,
                    t=R(0), delta=R(0), last=R(2000)))
    s = lambda hs=0, f="", v=20: dict(hs=hs, ss=0, ad=0, cs=0, v=v, f=f)
    c.append(dict(claim="hitsound", game="osu", pseed=2, how={k: "revsort" for k in LISTS}, keys=7,
                  src=dict(hits=[[R(0), 0, s(2)], [R(0), 1, s(4, "a.wav")], [R(0), 2, s(8, "b.wav", 30)], [R(500), 0, s(0, "c.wav")]],
                           holds=[[R(0), 3, R(100), s(14, "c.wav")]], bpms=[[R(0), R(120)]], svs=[]),
                  tgt=dict(hits=[[R(0), 0, s(8, "own.wav", 77)], [R(0), 1, s()], [R(500), 1, s(2)]],
                           holds=[[R(0), 3, R(50), s()]], bpms=[[R(0), R(120)]], svs=[])))
    return c


# ------------------------------------------------------------------------------------------ shrinker domain

def _isR(x):
    return isinstance(x, list) and len(x) == 2 and all(isinstance(v, int) and not isinstance(v, bool) for v in x) \
        and x[1] > 0 and (x[1] & (x[1] - 1)) == 0 and abs(x[0]) < 2 ** 40


def _chart_ok(ch, game, sounds):
    if not isinstance(ch, dict) or any(k not in ch for k in LISTS):
        return False
    for r in ch["hits"]:
        if len(r) != (3 if sounds else 2) or not _isR(r[0]) or not isinstance(r[1], int) or not 0 <= r[1] < 10:
            return False
    for r in ch["holds"]:
        if len(r) != (4 if sounds else 3) or not _isR(r[0]) or not isinstance(r[1], int) or not 0 <= r[1] < 10 \
                or not _isR(r[2]) or F(r[2]) < 0:
            return False
    for r in ch["bpms"]:
        if len(r) != 2 or not _isR(r[0]) or not _isR(r[1]) or F(r[1]) <= 0:
            return False
    for r in ch["svs"]:
        if len(r) != 2 or not _isR(r[0]) or not _isR(r[1]) or F(r[1]) <= 0:
            return False
    if ch["svs"] and game not in SV_GAMES:
        return False
    return True


def valid(case):
    try:
        if case["claim"] not in CLAIMS or case["game"] not in GAMES:
            return False
        if not isinstance(case.get("pseed"), int) or any(case["how"].get(k) not in HOWS and parse_how(case["how"].get(k)) is None for k in LISTS):
            return False
        if case["claim"] == "hitsound":
            return case["game"] == "osu" and all(
                _chart_ok(case[w], "osu", True) and len(case[w]["bpms"]) >= 1 and
                all(isinstance(r[-1], dict) and set(r[-1]) == {"hs", "ss", "ad", "cs", "v", "f"} and
                    all(isinstance(r[-1][k], int) and r[-1][k] >= 0 for k in ("hs", "ss", "ad", "cs", "v")) and
                    isinstance(r[-1]["f"], str) and ":" not in r[-1]["f"] and ";" not in r[-1]["f"] and "," not in r[-1]["f"]
                    for r in case[w]["hits"] + case[w]["holds"]) for w in ("src", "tgt"))
        ch = case["chart"]
        if not _chart_ok(ch, case["game"], False):
            return False
        if not ch["bpms"] or not (ch["hits"] or ch["holds"]):
            return False
        if case["claim"] == "normalize" and case["game"] not in SV_GAMES:
            return False
        if case["claim"] in ("normalize", "speed") and case.get("override") is not None and \
                (not _isR(case["override"]) or F(case["override"]) < 0):
            return False
        if case["claim"] == "full_ln" and not (_isR(case["gap"]) and _isR(case["thr"]) and F(case["gap"]) >= 0 and F(case["thr"]) >= 0):
            return False
        if case["claim"] == "rate" and not (_isR(case["r"]) and F(case["r"]) > 0 and
                                            (F(case["r"]).numerator & (F(case["r"]).numerator - 1)) == 0):
            return False
        if case["claim"] == "bpmlist" and not (_isR(case.get("t")) and _isR(case.get("last")) and F(case["last"]) != 0 and
                                               (case.get("delta") == DELTA_DEFAULT or
                                                (_isR(case.get("delta")) and F(case["delta"]) >= 0))):
            return False
        if case["claim"] == "convert" and (case.get("conv") not in CONVS or
                                           not case["conv"].startswith([k for k, v in SRC_OF.items() if v == case["game"]][0] + "To")):
            return False
        if case["claim"].startswith("write_"):
            if case["claim"] != "write_" + case["game"]:
                return False
            # the writers' own domain: objects at or after the first tempo point
            t0 = min(F(p[0]) for p in ch["bpms"])
            if any(F(r[0]) < t0 for r in ch["hits"] + ch["holds"]):
                return False
            if case["game"] == "sm" and not _isR(case.get("sm_offset")):
                return False
            if any(F(p[1]) not in WRITER_BPMS for p in ch["bpms"]) or any(F(r[2]) <= 0 for r in ch["holds"]):
                return False
            if not 1 <= case.get("keys", 0) <= 8:
                return False
        return True
    except Exception:
        return False
