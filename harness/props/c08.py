"""C08 — converting between games preserves chart content exactly, from any source state.

For each of the 16 converters and `O2JToSM.convert_merge`: a source chart is built from objects (or read: write→read
round trip, bundled .ojn files for O2Jam), an operation history is applied to it (filter, reverse sort, append,
stack-modify, rate, deepcopy, …), the source is snapshotted, the real converter is called, the source is
snapshotted again.  The Lean driver
  (C) runs the model (`Model/Convert.lean` interpreting `Generated/Converters.lean`) on the same snapshot, and
  (S) evaluates the specification (`Spec/Convert.lean: specAll`, `untouched`) on the implementation's output.
Numbers travel as exact rationals; row labels of the source travel too (the model is label-sensitive where the
code is).  Labels / row order / dtypes of the *result* are canonicalised away before (C) compares.
"""
import copy
import inspect
import math
import os

from lib.rat import R, F

ID = "C08"
QUICK_N = 900
THOROUGH_N = 24000
QUICK_BUDGET_S = 75
THOROUGH_BUDGET_S = 900
RULE = ("17 conversion entry points x source charts of 1-3 maps (0-7 hits / holds / tempo points / SVs each, dyadic "
        "times; SV multipliers, tempos, lengths and shifts over the whole range an in-memory chart allows: 0, negative, "
        "1e-4..1e-2, 10..1e5; 3K-9K incl. key counts Quaver / StepMania have no mode for) x keyword arguments of the public API "
        "(raise_bad_mode omitted/True/False, move_right_by) x operation histories of 0-4 steps drawn from {read, filter, column filter, reverse sort, "
        "append, stack offset/column/loc edit, rate, deepcopy, slice} x shift argument in {-1,0,1,2,omitted}; "
        "non-trivial = the history leaves at least one list with labels other than 0..n-1 or the chart has >=2 "
        "non-empty lists; distinct = distinct canonical case JSON")
ASSUMPTIONS = [
    "codecs are parameters: texts are shift_jis-encodable (encode then decode is the identity); for a BMS source the value compared is unidecode(decode('sjis')) of the stored bytes, i.e. the converters' own transliteration applied to the source value (identity on ASCII, incl. ':' ';' ',' '#' quotes and blanks)",
    "a source map that has lost all its notes is skipped (key-count inference from an empty chart is not part of C08)",
    "raise_bad_mode is drawn from {omitted, True, False}; when the key count has no mode in the target game (decided with the repo's own QuaMapMode.get_mode / SMMapChartTypes.get_type) and the flag is not False, the documented ValueError is the expected outcome; with False a chart with an empty mode / chart type must still be produced for every source chart",
    "StepMania source charts use the five chart types that have a key count (get_keys is None for the others and SMToQua's int(None) is outside this property)",
    "pandas concat/iloc/boolean indexing/label-aligned column assignment are modelled (Model/Convert.lean), not verified",
]
TRUSTED_EXTRA = ["translator harness/translators/converters.py (ast of reamber/algorithms/convert/*.py, _props, objs)"]

CONVS = ["BMSToOsu.convert", "BMSToQua.convert", "BMSToSM.convert", "O2JToBMS.convert", "O2JToOsu.convert",
         "O2JToQua.convert", "O2JToSM.convert", "O2JToSM.convert_merge", "OsuToBMS.convert", "OsuToQua.convert",
         "OsuToSM.convert", "QuaToBMS.convert", "QuaToOsu.convert", "QuaToSM.convert", "SMToBMS.convert",
         "SMToOsu.convert", "SMToQua.convert"]
SRC_OF = {"BMS": "bms", "O2J": "o2j", "Osu": "osu", "Qua": "qua", "SM": "sm"}
HAS_SHIFT = {"O2JToBMS.convert": 1, "OsuToBMS.convert": 0, "QuaToBMS.convert": 0}
HAS_RBM = ("BMSToQua.convert", "OsuToQua.convert", "OsuToSM.convert", "SMToQua.convert")
SM_TYPES = {3: "dance-threepanel", 4: "dance-single", 6: "dance-solo", 7: "kb7-single", 8: "dance-double"}
KEYS_OF = dict(osu=[3, 4, 4, 5, 6, 7, 7, 8, 9], bms=[3, 4, 4, 5, 6, 7, 7, 8, 9], qua=[4, 7, 8], sm=[3, 4, 4, 6, 7, 7, 8], o2j=[7])
# metadata texts: plain ones and ones with the characters that delimit something in one of the file formats
# (':' ';' ',' '#' '//' quotes, blanks at the ends) and non-ASCII (shift_jis-encodable); converters work on in-memory charts
TITLES = ["Song A", "nhelv", "Gravity", "x", "The Long Title (ver. 2)", "a-b_c", "Re:Start", "a;b", "x, y, z",
          "#1 hit", "// intro", "  padded  ", "\u65e5\u672c\u8a9e\u30bf\u30a4\u30c8\u30eb", 'say "hi"', "it's"]
ARTISTS = ["Silentroom", "Evening", "someone", "DJ 7", "artist / obj:name", "A;B feat. C", "x,y", "#id", " lead",
           "\u30ca\u30a4\u30c8", "'q'"]
CREATORS = ["mapper", "Eve", "c3", "anon", "m:apper", "a;b", "c, d", "#7", "trail ", "\u4f5c\u8005", '"x"']
VERSIONS = ["Hard", "Lv.12", "another", "Insane 4K", "Lv:12", "a;b", "7K, hard", "#3", "// x", " sp ",
            "\u96e3\u3057\u3044", "'h'"]
SM_DIFFS = ["Beginner", "Easy", "Medium", "Hard", "Challenge", "Edit"]
OPS = ["filter_after", "filter_before", "filter_col", "sort_rev", "append", "stack_offset", "stack_column",
       "stack_loc", "rate", "deepcopy", "slice", "read"]


def src_game(conv):
    for k, v in SRC_OF.items():
        if conv.startswith(k + "To"):
            return v
    raise ValueError(conv)


# ------------------------------------------------------------------------------------------ generators

def gen_num(rng, lo=0, hi=4000):
    r = rng.random()
    if r < 0.55:
        return rng.randrange(lo, hi)
    if r < 0.85:
        return [rng.randrange(lo * 8, hi * 8), 8]
    if r < 0.95:
        return -rng.randrange(0, 500)
    return rng.choice([10 ** 7, [1, 1024], -10 ** 6, [10 ** 9 + 1, 64]])


# the whole range an in-memory chart allows, not only what a game would accept: 0, negatives, tiny, huge
SV_MULTS = [1, 0.5, 2, 1.25, 0.75, 0, -1, [-1, 2], [1, 10000], [1, 1024], [5, 1000], [1, 100], 10, [101, 10], 100,
            10000, 12.5, -100]
BPMS = [60, 120, 150, 200, 187.5, 90, 120, 150, [1, 1000], [1, 8], 0, -120, 1000, 100000, [999999, 10]]
LENGTHS = [1, 50, 125, [25, 2], 1000, 0, -50, [1, 1024], 100000, [-1, 4]]
SHIFTS = [None, -1, 0, 1, 2, 10, -3]


def gen_map(rng, game, keys, small=False):
    top = 3 if small else 7
    nh, nl, nb = rng.randint(0, top), rng.randint(0, top), rng.randint(1, 3)
    if nh + nl == 0:
        nh = 1
    m = dict(hits=[[gen_num(rng), rng.randrange(keys)] for _ in range(nh)],
             holds=[[gen_num(rng), rng.randrange(keys), rng.choice(LENGTHS)] for _ in range(nl)],
             bpms=[[gen_num(rng, 0, 2000) if i else 0, rng.choice(BPMS)] for i in range(nb)])
    if game in ("osu", "qua"):
        m["svs"] = [[gen_num(rng), rng.choice(SV_MULTS)] for _ in range(rng.randint(0, 4))]
    m["meta"] = gen_meta(rng, game, keys, per_map=True)
    return m


def gen_meta(rng, game, keys, per_map):
    t, a, c, v = rng.choice(TITLES), rng.choice(ARTISTS), rng.choice(CREATORS), rng.choice(VERSIONS)
    if game == "osu":
        return dict(title=t, artist=a, creator=c, version=v, title_unicode=t + " u", artist_unicode=a + " u",
                    audio_file_name="audio.mp3", background_file_name="bg.png", preview_time=rng.choice([-1, 0, 1500]),
                    circle_size=keys)
    if game == "qua":
        return dict(title=t, artist=a, creator=c, difficulty_name=v, audio_file="audio.mp3",
                    background_file="bg.png", song_preview_time=rng.choice([0, 1500]), mode=f"Keys{keys}")
    if game == "bms":
        return dict(title=t, artist=a, version=v)
    if game == "sm":
        if per_map:
            return dict(difficulty=rng.choice(SM_DIFFS), difficulty_val=rng.randint(1, 20),
                        chart_type=SM_TYPES[keys], description=rng.choice(["", "d"]))
        return dict(title=t, artist=a, credit=c, title_translit=t + " tr", artist_translit=a + " tr",
                    music="audio.mp3", background="bg.png", sample_start=rng.choice([0.0, 12.5]))
    if game == "o2j":
        if per_map:
            return dict(level=rng.randint(1, 60))
        return dict(title=t, artist=a, creator=c)
    raise ValueError(game)


def gen_history(rng, game, nmaps):
    k = rng.choice([0, 0, 1, 1, 2, 2, 3, 4])
    h = []
    for _ in range(k):
        op = rng.choice(OPS)
        which = rng.randrange(nmaps)
        lst = rng.choice(["hits", "holds", "bpms", "hits", "holds"] + (["svs"] if game in ("osu", "qua") else []))
        e = dict(op=op, map=which, list=lst)
        if op in ("filter_after", "filter_before"):
            e.update(t=rng.choice([0, 500, 1000, 2000, 3500]), incl=rng.random() < 0.5)
        elif op == "filter_col":
            e.update(list=rng.choice(["hits", "holds"]), col=rng.randrange(4))
        elif op == "append":
            e.update(row=[gen_num(rng), rng.randrange(4), 100])
        elif op == "stack_offset":
            e.update(d=rng.choice([1, -250, 1000, [1, 2]]))
        elif op == "stack_column":
            e.update(d=rng.choice([1, 2]))
        elif op == "stack_loc":
            e.update(t=rng.choice([0, 500, 1500]), d=rng.choice([10, -5]))
        elif op == "rate":
            e.update(by=rng.choice([2, [1, 2], 4, [5, 4]]))
        elif op == "slice":
            e.update(a=rng.randrange(0, 3), b=rng.randrange(2, 7))
        h.append(e)
    return h


def gen(rng, tier, i):
    conv = CONVS[i % len(CONVS)] if rng.random() < 0.8 else rng.choice(CONVS)
    game = src_game(conv)
    keys = rng.choice(KEYS_OF[game])
    multi = game in ("sm", "o2j")
    nmaps = (rng.choice([1, 2, 2, 3]) if game == "sm" else 3 if game == "o2j" else 1)
    if game == "o2j" and rng.random() < 0.3:
        nmaps = rng.choice([1, 2])
    base = "objects"
    if game == "o2j" and nmaps == 3 and rng.random() < 0.06:
        base = rng.choice(["o2ma120.ojn", "o2ma178.ojn"])
    case = dict(claim="convert", conv=conv, keys=keys, base=base,
                maps=[gen_map(rng, game, rng.choice(KEYS_OF[game]) if game == "sm" else keys, small=multi)
                      for _ in range(nmaps)],
                rbm=(rng.choice([None, True, False, False]) if conv in HAS_RBM else None),
                setmeta=gen_meta(rng, game, keys, per_map=False) if multi else {},
                history=gen_history(rng, game, nmaps),
                shift=(rng.choice(SHIFTS) if conv in HAS_SHIFT else None))
    return case


def corpus():
    def m(game, hits, holds, bpms, svs=None, keys=4, **meta):
        d = dict(hits=hits, holds=holds, bpms=bpms, meta=dict(_META[game], **meta))
        if svs is not None:
            d["svs"] = svs
        return d
    c = []
    osu1 = m("osu", [[0, 0], [500, 1], [1000, 3]], [[250, 2, 125], [1500, 0, 500]], [[0, 120], [1000, 150]], [[0, 1], [750, 0.5]])
    qua1 = m("qua", [[0, 0], [500, 1], [1000, 3]], [[250, 2, 125]], [[0, 120]], [[100, 2]])
    bms1 = m("bms", [[0, 0], [500, 1], [1000, 3]], [[250, 2, 125], [1500, 1, 50]], [[0, 120]])
    sm1 = m("sm", [[0, 0], [500, 3]], [[250, 2, 125]], [[0, 120]])
    sm2 = m("sm", [[100, 1]], [[300, 0, 50], [400, 3, 50]], [[0, 150]], difficulty="Hard", difficulty_val=9)
    o1 = m("o2j", [[0, 0], [500, 6]], [[250, 2, 125]], [[0, 120]], level=3)
    o2 = m("o2j", [[10, 1]], [[300, 0, 50]], [[0, 150], [500, 75]], level=17)
    o3 = m("o2j", [[20, 5], [30, 4]], [], [[0, 200]], level=40)
    # fixed findings: witnesses (fail again on the reverse patches)
    c.append(dict(claim="convert", conv="OsuToSM.convert", keys=4, base="objects", maps=[osu1], setmeta={},
                  history=[dict(op="stack_offset", map=0, list="hits", d=1)], shift=None, _expect="D11"))
    c.append(dict(claim="convert", conv="OsuToQua.convert", keys=4, base="objects", maps=[osu1], setmeta={},
                  history=[], shift=None, _expect="D12"))
    c.append(dict(claim="convert", conv="O2JToSM.convert_merge", keys=7, base="objects", maps=[o1, o2, o3],
                  setmeta=_SETMETA["o2j"], history=[], shift=None, _expect="D13"))
    c.append(dict(claim="convert", conv="QuaToOsu.convert", keys=4, base="objects", maps=[qua1], setmeta={},
                  history=[], shift=None, _expect="D09"))
    # open findings
    c.append(dict(claim="convert", conv="BMSToOsu.convert", keys=4, base="objects", maps=[bms1], setmeta={},
                  history=[dict(op="filter_after", map=0, list="hits", t=0, incl=False)], shift=None, _expect="D27"))
    c.append(dict(claim="convert", conv="BMSToQua.convert", keys=4, base="objects", maps=[bms1], setmeta={},
                  history=[], shift=None, _expect="D08"))
    # edge cases
    c.append(dict(claim="convert", conv="OsuToBMS.convert", keys=4, base="objects", maps=[osu1], setmeta={},
                  history=[dict(op="rate", map=0, list="hits", by=2), dict(op="sort_rev", map=0, list="holds")], shift=2))
    c.append(dict(claim="convert", conv="O2JToBMS.convert", keys=7, base="objects", maps=[o1, o2, o3],
                  setmeta=_SETMETA["o2j"], history=[dict(op="filter_col", map=1, list="hits", col=1)], shift=None))
    c.append(dict(claim="convert", conv="SMToOsu.convert", keys=4, base="objects", maps=[sm1, sm2],
                  setmeta=_SETMETA["sm"], history=[dict(op="deepcopy", map=0, list="hits"),
                                                   dict(op="append", map=1, list="hits", row=[700, 2, 100])], shift=None))
    c.append(dict(claim="convert", conv="SMToQua.convert", keys=4, base="objects", maps=[sm1], setmeta=_SETMETA["sm"],
                  history=[dict(op="read", map=0, list="hits")], shift=None))
    c.append(dict(claim="convert", conv="QuaToSM.convert", keys=4, base="objects", maps=[qua1], setmeta={},
                  history=[dict(op="stack_loc", map=0, list="hits", t=0, d=10), dict(op="slice", map=0, list="hits", a=1, b=3)],
                  shift=None))
    c.append(dict(claim="convert", conv="O2JToOsu.convert", keys=7, base="o2ma178.ojn", maps=[o1, o2, o3],
                  setmeta=_SETMETA["o2j"], history=[dict(op="stack_offset", map=2, list="hits", d=1)], shift=None))
    c.append(dict(claim="convert", conv="BMSToSM.convert", keys=4, base="objects",
                  maps=[m("bms", [], [[250, 2, 125]], [[0, 120]])], setmeta={}, history=[], shift=None))
    # metadata with the delimiters of the file formats, blanks at the ends, quotes, non-ASCII
    sp = dict(title="Re:Start", artist="artist / obj:name", creator="a;b, #c")
    c.append(dict(claim="convert", conv="OsuToSM.convert", keys=4, base="objects",
                  maps=[m("osu", [[0, 0]], [[250, 2, 125]], [[0, 120]], [], version="Lv:12 // x", **sp)], setmeta={},
                  history=[], shift=None, rbm=None))
    c.append(dict(claim="convert", conv="QuaToSM.convert", keys=4, base="objects",
                  maps=[m("qua", [[0, 0]], [[250, 2, 125]], [[0, 120]], [], difficulty_name=" sp ", **sp)], setmeta={},
                  history=[], shift=None))
    c.append(dict(claim="convert", conv="BMSToSM.convert", keys=4, base="objects",
                  maps=[m("bms", [[0, 0]], [[250, 2, 125]], [[0, 120]], title="Re:Start;", artist="\u30ca\u30a4\u30c8 / obj:x", version='"h"')],
                  setmeta={}, history=[], shift=None))
    c.append(dict(claim="convert", conv="O2JToSM.convert", keys=7, base="objects", maps=[o1, o2, o3],
                  setmeta=dict(title="  Re:Start  ", artist="A;B", creator="c:d"), history=[], shift=None))
    c.append(dict(claim="convert", conv="O2JToSM.convert_merge", keys=7, base="objects", maps=[o1, o2],
                  setmeta=dict(title="#1: x", artist="\u65e5\u672c;", creator="'q':"), history=[], shift=None))
    c.append(dict(claim="convert", conv="SMToOsu.convert", keys=4, base="objects", maps=[sm1, sm2],
                  setmeta=dict(_SETMETA["sm"], title="Re:Start", artist="x;y", credit="// c"), history=[], shift=None))
    c.append(dict(claim="convert", conv="OsuToBMS.convert", keys=4, base="objects",
                  maps=[m("osu", [[0, 0]], [[250, 2, 125]], [[0, 120]], [], title="\u65e5\u672c\u8a9e:1", artist=" a;b ", version="#7")],
                  setmeta={}, history=[], shift=None))
    # numeric values outside what a game would accept: 0x / negative / tiny / huge SVs and tempos, 0 / negative lengths
    wild_svs = [[0, 0], [100, -1], [200, [1, 10000]], [300, 100], [400, [5, 1000]], [500, 10000]]
    c.append(dict(claim="convert", conv="QuaToOsu.convert", keys=4, base="objects",
                  maps=[m("qua", [[0, 0]], [[250, 2, 0], [300, 1, -50]], [[0, 0], [100, -120], [200, [1, 1000]], [300, 100000]], wild_svs)],
                  setmeta={}, history=[], shift=None))
    c.append(dict(claim="convert", conv="OsuToQua.convert", keys=4, base="objects",
                  maps=[m("osu", [[-1000000, 0]], [[250, 2, [1, 1024]]], [[0, [1, 8]]], wild_svs)],
                  setmeta={}, history=[dict(op="rate", map=0, list="hits", by=[1, 2])], shift=None, rbm=False))
    c.append(dict(claim="convert", conv="QuaToBMS.convert", keys=4, base="objects",
                  maps=[m("qua", [[0, 0], [10, 3]], [[250, 2, 100000]], [[0, 120]], wild_svs)],
                  setmeta={}, history=[], shift=-3))
    # keyword arguments: key counts the target has no mode for
    sm6 = m("sm", [[0, 5], [100, 2]], [[300, 0, 50]], [[0, 150]], difficulty="Hard", difficulty_val=9, chart_type="dance-solo")
    sm7 = m("sm", [[50, 6]], [], [[0, 150]], difficulty="Challenge", difficulty_val=12, chart_type="kb7-single")
    osu6 = m("osu", [[0, 0], [500, 5]], [[250, 2, 125]], [[0, 120]], [], circle_size=6)
    osu5 = m("osu", [[0, 0], [500, 4]], [[250, 2, 125]], [[0, 120]], [], circle_size=5)
    bms6 = m("bms", [[0, 0], [500, 5]], [[250, 2, 125]], [[0, 120]])
    c.append(dict(claim="convert", conv="SMToQua.convert", keys=4, base="objects", maps=[sm1, sm6, sm7],
                  setmeta=_SETMETA["sm"], history=[], shift=None, rbm=False))
    c.append(dict(claim="convert", conv="SMToQua.convert", keys=4, base="objects", maps=[sm1, sm6, sm7],
                  setmeta=_SETMETA["sm"], history=[], shift=None, rbm=None))
    c.append(dict(claim="convert", conv="OsuToQua.convert", keys=6, base="objects", maps=[osu6], setmeta={},
                  history=[], shift=None, rbm=False))
    c.append(dict(claim="convert", conv="OsuToQua.convert", keys=6, base="objects", maps=[osu6], setmeta={},
                  history=[], shift=None, rbm=True))
    c.append(dict(claim="convert", conv="OsuToSM.convert", keys=5, base="objects", maps=[osu5], setmeta={},
                  history=[], shift=None, rbm=False))
    c.append(dict(claim="convert", conv="OsuToSM.convert", keys=5, base="objects", maps=[osu5], setmeta={},
                  history=[], shift=None, rbm=None))
    c.append(dict(claim="convert", conv="BMSToQua.convert", keys=6, base="objects", maps=[bms6], setmeta={},
                  history=[], shift=None, rbm=False))
    return c


_META = dict(
    osu=dict(title="Song A", artist="Evening", creator="mapper", version="Hard", title_unicode="Song A u",
             artist_unicode="Evening u", audio_file_name="audio.mp3", background_file_name="bg.png", preview_time=1500,
             circle_size=4),
    qua=dict(title="Song A", artist="Evening", creator="mapper", difficulty_name="Hard", audio_file="audio.mp3",
             background_file="bg.png", song_preview_time=1500, mode="Keys4"),
    bms=dict(title="Song A", artist="Evening", version="Hard"),
    sm=dict(difficulty="Easy", difficulty_val=3, chart_type="dance-single", description=""),
    o2j=dict(level=5))
_SETMETA = dict(sm=dict(title="Song A", artist="Evening", credit="mapper", title_translit="Song A tr",
                        artist_translit="Evening tr", music="audio.mp3", background="bg.png", sample_start=12.5),
                o2j=dict(title="Song A", artist="Evening", creator="mapper"))


def _isnum(x):
    if isinstance(x, bool):
        return False
    if isinstance(x, (int, float)):
        return True
    return isinstance(x, list) and len(x) == 2 and all(isinstance(v, int) and not isinstance(v, bool) for v in x) and x[1] > 0


def text_ok(v):
    try:
        return v.encode("shift_jis").decode("shift_jis") == v and v.isprintable()
    except UnicodeError:
        return False


def valid(case):
    try:
        if case.get("claim") != "convert" or case["conv"] not in CONVS:
            return False
        game = src_game(case["conv"])
        if not case["maps"]:
            return False
        if case["base"] != "objects" and (game != "o2j" or case["base"] not in ("o2ma120.ojn", "o2ma178.ojn")):
            return False
        if case["keys"] not in KEYS_OF[game]:
            return False
        if case.get("rbm", None) not in (None, True, False) or (case.get("rbm") is not None and case["conv"] not in HAS_RBM):
            return False
        if game not in ("sm", "o2j") and len(case["maps"]) != 1:
            return False
        if game == "o2j" and (len(case["maps"]) > 3 or case["base"] != "objects" and len(case["maps"]) != 3):
            return False
        for m in case["maps"]:
            for r in m["hits"]:
                if len(r) != 2 or not _isnum(r[0]) or not isinstance(r[1], int) or not 0 <= r[1] < 10:
                    return False
            for r in m["holds"]:
                if len(r) != 3 or not _isnum(r[0]) or not isinstance(r[1], int) or not 0 <= r[1] < 10 or not _isnum(r[2]):
                    return False
            for r in m["bpms"]:
                if len(r) != 2 or not _isnum(r[0]) or not _isnum(r[1]):
                    return False
            if (game in ("osu", "qua")) != ("svs" in m):
                return False
            for r in m.get("svs", []):
                if len(r) != 2 or not _isnum(r[0]) or not _isnum(r[1]):
                    return False
            if set(m["meta"]) != set(_META[game]):
                return False
            for k, v in m["meta"].items():
                if type(v) is not type(_META[game][k]) or (isinstance(v, str) and not text_ok(v)):
                    return False
            if game == "o2j" and not 0 <= m["meta"]["level"] < 1000:
                return False
            if game == "sm" and m["meta"]["chart_type"] not in SM_TYPES.values():
                return False
            if game == "osu" and not 1 <= m["meta"]["circle_size"] <= 10:
                return False
        if game in ("sm", "o2j"):
            if set(case["setmeta"]) != set(_SETMETA[game]):
                return False
            for k, v in case["setmeta"].items():
                if type(v) is not type(_SETMETA[game][k]) or (isinstance(v, str) and not text_ok(v)):
                    return False
        elif case["setmeta"]:
            return False
        for e in case["history"]:
            if e["op"] not in OPS or not 0 <= e["map"] < len(case["maps"]):
                return False
            if e["list"] not in ("hits", "holds", "bpms", "svs") or (e["list"] == "svs" and game not in ("osu", "qua")):
                return False
            if e["op"] == "rate" and F(R(num(e["by"]))) <= 0:
                return False
            if e["op"] == "append" and (len(e["row"]) != 3 or not all(_isnum(v) for v in e["row"])):
                return False
        if case["shift"] is not None and (case["conv"] not in HAS_SHIFT or not isinstance(case["shift"], int)):
            return False
        return True
    except Exception:
        return False


# ------------------------------------------------------------------------------------------ building sources

def num(x):
    """case number -> python number (int, or float of a dyadic rational)"""
    if isinstance(x, list):
        return x[0] / x[1]
    return x


def _cls(game):
    if game == "osu":
        from reamber.osu import OsuHit, OsuHold, OsuBpm, OsuSv
        from reamber.osu.OsuMap import OsuMap
        from reamber.osu.lists import OsuBpmList, OsuSvList
        from reamber.osu.lists.notes import OsuHitList, OsuHoldList
        return dict(map=OsuMap, hit=OsuHit, hold=OsuHold, bpm=OsuBpm, sv=OsuSv, hits=OsuHitList, holds=OsuHoldList,
                    bpms=OsuBpmList, svs=OsuSvList)
    if game == "qua":
        from reamber.quaver import QuaHit, QuaHold, QuaBpm, QuaSv
        from reamber.quaver.QuaMap import QuaMap
        from reamber.quaver.lists import QuaBpmList, QuaSvList
        from reamber.quaver.lists.notes import QuaHitList, QuaHoldList
        return dict(map=QuaMap, hit=lambda **k: QuaHit(keysounds=[], **k), hold=lambda **k: QuaHold(keysounds=[], **k),
                    bpm=QuaBpm, sv=QuaSv, hits=QuaHitList, holds=QuaHoldList, bpms=QuaBpmList, svs=QuaSvList)
    if game == "sm":
        from reamber.sm import SMHit, SMHold, SMBpm
        from reamber.sm.SMMap import SMMap
        from reamber.sm.SMMapSet import SMMapSet
        from reamber.sm.lists import SMBpmList
        from reamber.sm.lists.notes import SMHitList, SMHoldList
        return dict(map=SMMap, set=SMMapSet, hit=SMHit, hold=SMHold, bpm=SMBpm, hits=SMHitList, holds=SMHoldList,
                    bpms=SMBpmList)
    if game == "bms":
        from reamber.bms import BMSHit, BMSHold, BMSBpm
        from reamber.bms.BMSMap import BMSMap
        from reamber.bms.lists import BMSBpmList
        from reamber.bms.lists.notes import BMSHitList, BMSHoldList
        return dict(map=BMSMap, hit=BMSHit, hold=BMSHold, bpm=BMSBpm, hits=BMSHitList, holds=BMSHoldList, bpms=BMSBpmList)
    if game == "o2j":
        from reamber.o2jam import O2JHit, O2JHold, O2JBpm
        from reamber.o2jam.O2JMap import O2JMap
        from reamber.o2jam.O2JMapSet import O2JMapSet
        from reamber.o2jam.lists import O2JBpmList
        from reamber.o2jam.lists.notes import O2JHitList, O2JHoldList
        return dict(map=O2JMap, set=O2JMapSet, hit=O2JHit, hold=O2JHold, bpm=O2JBpm, hits=O2JHitList,
                    holds=O2JHoldList, bpms=O2JBpmList)
    raise ValueError(game)


def build_map(game, spec, idx):
    K = _cls(game)
    m = K["map"]()
    extra = (lambda i: dict(sample=b"%02d" % ((idx * 31 + i) % 100))) if game == "bms" else (lambda i: {})
    if spec["hits"]:
        m.hits = K["hits"]([K["hit"](offset=num(o), column=c, **extra(i)) for i, (o, c) in enumerate(spec["hits"])])
    if spec["holds"]:
        m.holds = K["holds"]([K["hold"](offset=num(o), column=c, length=num(l), **extra(50 + i))
                              for i, (o, c, l) in enumerate(spec["holds"])])
    if spec["bpms"]:
        m.bpms = K["bpms"]([K["bpm"](offset=num(o), bpm=num(b)) for o, b in spec["bpms"]])
    if spec.get("svs"):
        m.svs = K["svs"]([K["sv"](offset=num(o), multiplier=num(v)) for o, v in spec["svs"]])
    for k, v in spec["meta"].items():
        if game == "o2j" and k == "level":
            continue
        setattr(m, k, v.encode("shift_jis") if game == "bms" else v)
    return m


_OJN = {}


def build_source(case):
    game = src_game(case["conv"])
    if game in ("osu", "qua", "bms"):
        return game, build_map(game, case["maps"][0], 0)
    K = _cls(game)
    if game == "o2j" and case["base"] != "objects":
        path = os.path.join(os.environ.get("REAMBER_REPO", "/repo"), "tests", "unit_tests", "o2jam", case["base"])
        if path not in _OJN:
            _OJN[path] = K["set"].read_file(path)
        s = copy.deepcopy(_OJN[path])
        # keep the bundled charts small enough for the driver
        for m in s.maps:
            m.hits = m.hits[:12]
            m.holds = m.holds[:8]
            m.bpms = m.bpms[:3]
        return game, s
    maps = [build_map(game, ms, i) for i, ms in enumerate(case["maps"])]
    if game == "sm":
        s = K["set"](maps=maps, **case["setmeta"])
    else:
        s = K["set"](maps=maps, level=[ms["meta"]["level"] for ms in case["maps"]] + [0], **case["setmeta"])
    return game, s


def apply_history(game, src, history):
    """returns (src, tags).  An operation that raises is skipped (tagged): the property quantifies over the states
    the operations *produce*."""
    import pandas as pd
    tags = []
    multi = game in ("sm", "o2j")

    def get(i):
        return src.maps[i] if multi else src

    def put(i, m):
        nonlocal src
        if multi:
            src.maps[i] = m
        else:
            src = m

    for e in history:
        op = e["op"]
        try:
            m = get(e["map"] if multi else 0)
            ln = e["list"]
            lst = getattr(m, ln)
            if op == "filter_after":
                setattr(m, ln, lst.after(e["t"], include_end=e["incl"]))
            elif op == "filter_before":
                setattr(m, ln, lst.before(e["t"], include_end=e["incl"]))
            elif op == "filter_col":
                setattr(m, ln, lst[lst.column != e["col"]])
            elif op == "sort_rev":
                setattr(m, ln, lst.sorted(reverse=True))
            elif op == "append":
                K = _cls(game)
                o, c, l = (num(v) for v in e["row"])
                extra = dict(sample=b"ZZ") if game == "bms" else {}
                if ln == "hits":
                    item = K["hit"](offset=o, column=int(c), **extra)
                elif ln == "holds":
                    item = K["hold"](offset=o, column=int(c), length=l, **extra)
                elif ln == "bpms":
                    item = K["bpm"](offset=o, bpm=120 + int(c))
                else:
                    item = K["sv"](offset=o, multiplier=1.5)
                setattr(m, ln, lst.append(item))
            elif op == "stack_offset":
                m.stack().offset += num(e["d"])
            elif op == "stack_column":
                s = m.stack()
                s.column += e["d"]
                s.column -= e["d"]
            elif op == "stack_loc":
                s = m.stack()
                s.loc[s.offset > e["t"], "offset"] += e["d"]
            elif op == "rate":
                if multi and e["map"] == 0:
                    src = src.rate(num(e["by"]))
                else:
                    put(e["map"] if multi else 0, m.rate(num(e["by"])))
            elif op == "deepcopy":
                if multi and e["map"] == 0:
                    src = src.deepcopy()
                else:
                    put(e["map"] if multi else 0, m.deepcopy())
            elif op == "slice":
                setattr(m, ln, lst[e["a"]:e["b"]])
            elif op == "read":
                src = reread(game, src)
            tags.append(op)
        except Exception as ex:   # the operation itself failed: not a state the history produces
            tags.append(f"{op}-skipped:{type(ex).__name__}")
    return src, tags


def reread(game, src):
    """freshly read: through the library's own writer and reader"""
    if game == "osu":
        from reamber.osu.OsuMap import OsuMap
        return OsuMap.read(src.write())
    if game == "qua":
        from reamber.quaver.QuaMap import QuaMap
        return QuaMap.read(src.write())
    if game == "sm":
        from reamber.sm.SMMapSet import SMMapSet
        if src.offset is None:
            src.offset = float(src.maps[0].bpms.first_offset())
        return SMMapSet.read(src.write())
    if game == "bms":
        from reamber.bms.BMSMap import BMSMap, ENCODING
        return BMSMap.read([l.strip() for l in src.write().decode(ENCODING).split("\n")])
    raise ValueError("no writer")


# ------------------------------------------------------------------------------------------ snapshots

def tostr(v):
    if isinstance(v, bytes):
        try:
            return v.decode("shift_jis")
        except UnicodeDecodeError:
            return v.decode("latin-1")
    return str(v)


def cell(v):
    import numpy as np
    if v is None:
        return None
    if isinstance(v, (bool, np.bool_)):
        return bool(v)
    if isinstance(v, (int, np.integer)):
        return [int(v), 1]
    if isinstance(v, (float, np.floating)):
        return None if math.isnan(v) else R(float(v))
    if isinstance(v, bytes):
        return v.decode("latin-1")
    if isinstance(v, str):
        return v
    return {"o": type(v).__name__}


def frame(df):
    return dict(index=[int(i) for i in df.index], cols=[[str(c), [cell(v) for v in df[c].tolist()]] for c in df.columns])


def attrs_of(obj, translit=False):
    """the object's plain attributes as texts; `translit`: a BMS *source* — the converters read its byte strings
    through unidecode(decode('sjis')), which is the value the target must carry"""
    out = []
    for k, v in vars(obj).items():
        if k in ("objs", "maps") or k.startswith("_"):
            continue
        if isinstance(v, (str, int, float, bool, bytes)) or v is None or \
                (isinstance(v, list) and all(isinstance(x, (str, int)) for x in v)):
            if translit and isinstance(v, bytes):
                from unidecode import unidecode
                out.append([k, unidecode(tostr(v))])
            else:
                out.append([k, tostr(v)])
    return sorted(out)


LISTS = ("hits", "holds", "bpms", "svs")


def snap_map(m, level, translit=False):
    lists = [[k, frame(m.objs[k].df)] for k in LISTS if k in m.objs]
    return dict(lists=lists, meta=attrs_of(m, translit), level=level)


def snap_src(game, src):
    if game in ("sm", "o2j"):
        levels = [tostr(src.level_name(m)) if game == "o2j" else "" for m in src.maps]
        return dict(meta=attrs_of(src), maps=[snap_map(m, l) for m, l in zip(src.maps, levels)])
    return dict(meta=[], maps=[snap_map(src, "", translit=(game == "bms"))])


def snap_chart(m):
    d = dict(meta=attrs_of(m))
    for k in LISTS:
        if k in m.objs:
            d[k] = frame(m.objs[k].df)
    d.setdefault("svs", None)
    return d


def snap_out(res):
    items = res if isinstance(res, list) else [res]
    groups = []
    for it in items:
        if hasattr(it, "maps"):
            groups.append(dict(set_meta=attrs_of(it), charts=[snap_chart(m) for m in it.maps]))
        else:
            groups.append(dict(set_meta=[], charts=[snap_chart(it)]))
    return dict(is_list=isinstance(res, list), groups=groups)


def err_class(e):
    for t, n in ((ValueError, "value"), (KeyError, "key"), (AttributeError, "attr"), (TypeError, "type"),
                 (IndexError, "index")):
        if isinstance(e, t):
            return n
    return "other:" + type(e).__name__


# ------------------------------------------------------------------------------------------ comparison

def canon_frame(f):
    """labels, row order and column order dropped"""
    if f is None:
        return None
    cols = sorted(f["cols"], key=lambda c: c[0])
    names = [c[0] for c in cols]
    n = len(f["index"])
    rows = sorted(repr([c[1][i] if i < len(c[1]) else "<short>" for c in cols]) for i in range(n))
    return dict(names=names, rows=rows)


def same_out(impl, model):
    """returns None when equal, else a short description of the first difference"""
    if impl["is_list"] != model["is_list"]:
        return "container kind"
    if len(impl["groups"]) != len(model["groups"]):
        return f"{len(impl['groups'])} top-level objects vs model {len(model['groups'])}"
    for gi, (a, b) in enumerate(zip(impl["groups"], model["groups"])):
        ia = dict(a["set_meta"])
        for k, v in reversed(b["set_meta"]):
            if ia.get(k) != v:
                return f"group {gi}: set attribute {k}: {ia.get(k)!r} vs model {v!r}"
        if len(a["charts"]) != len(b["charts"]):
            return f"group {gi}: {len(a['charts'])} charts vs model {len(b['charts'])}"
        for ci, (x, y) in enumerate(zip(a["charts"], b["charts"])):
            ix = dict(x["meta"])
            for k, v in reversed(y["meta"]):
                if ix.get(k) != v:
                    return f"group {gi} chart {ci}: attribute {k}: {ix.get(k)!r} vs model {v!r}"
            for ln in LISTS:
                if canon_frame(x.get(ln)) != canon_frame(y.get(ln)):
                    return f"group {gi} chart {ci}: list {ln} differs"
    return None


def mask_out(out, col, list_names, repl):
    """copy of `out` with the NaN cells of column `col` replaced (to test that a known finding is the *only* failure)"""
    o = copy.deepcopy(out)
    for g in o["groups"]:
        for c in g["charts"]:
            for ln in list_names:
                f = c.get(ln)
                if f:
                    for cc in f["cols"]:
                        if cc[0] == col:
                            cc[1] = [repl if v is None else v for v in cc[1]]
    return o


# ------------------------------------------------------------------------------------------ run

def get_converter(conv):
    import reamber.algorithms.convert as C
    cname, fname = conv.split(".")
    return getattr(getattr(C, cname), fname)


def no_mode(conv, maps):
    """the target game has no key mode for some source chart (the repo's own tables decide)"""
    from reamber.quaver.QuaMapMeta import QuaMapMode
    from reamber.sm.SMMapMeta import SMMapChartTypes
    try:
        for m in maps:
            if conv == "OsuToQua.convert":
                good = QuaMapMode.get_mode(int(m.circle_size))
            elif conv == "BMSToQua.convert":
                good = QuaMapMode.get_mode(int(m.stack().column.max() + 1))
            elif conv == "SMToQua.convert":
                good = QuaMapMode.get_mode(int(SMMapChartTypes.get_keys(m.chart_type)))
            elif conv == "OsuToSM.convert":
                good = SMMapChartTypes.get_type(m.stack().column.max() + 1)
            else:
                good = True
            if not good:
                return True
    except Exception:
        return True
    return False


def run(case, drv):
    conv = case["conv"]
    fn = get_converter(conv)
    game, src = build_source(case)
    src, tags = apply_history(game, src, case["history"])
    tags = [conv.split(".")[0]] + tags
    maps = src.maps if game in ("sm", "o2j") else [src]
    if any(len(m.hits) + len(m.holds) == 0 for m in maps) or not maps:
        return dict(claim="convert", ok=True, agree=True, dom=False, tags=tags + ["no-notes-skipped"], nontrivial=False)
    before = snap_src(game, src)
    kwargs = {}
    params = inspect.signature(fn).parameters
    rbm = case.get("rbm", False) if conv in HAS_RBM else None      # (corpus cases written before the flag was generated: False)
    if "raise_bad_mode" in params and rbm is not None:
        kwargs["raise_bad_mode"] = rbm
    unsupported = "raise_bad_mode" in params and no_mode(conv, maps)
    if unsupported:
        tags.append("no-mode-in-target")
    tags.append(f"rbm={rbm}")
    if case["shift"] is not None and "move_right_by" in params:
        kwargs["move_right_by"] = case["shift"]
    try:
        res = fn(src, **kwargs)
        impl = ("ok", snap_out(res))
    except Exception as e:
        impl = ("err", err_class(e), repr(e)[:300])
    after = snap_src(game, src)
    d = drv.call("c08.dom", conv=conv, src=before)["ok"]
    k = case["shift"] if case["shift"] is not None else (d["shift_default"] if d["has_shift"] else 0)
    if k is None:
        k = 0
    model = drv.call("c08.convert", conv=conv, src=before, k=k)
    fresh_ok = d["labels_free"] or d["fresh"]
    dom = bool(d["static_ok"] and fresh_ok and d["src_ok"])
    nontrivial = (not d["fresh"]) or sum(1 for m in before["maps"] for _, f in m["lists"] if f["index"]) >= 2
    if not d["fresh"]:
        tags.append("labels-not-fresh")
    kf = None
    detail = {}
    if impl[0] == "err" and unsupported and rbm is not False and impl[1] == "value":
        # the documented guard: the target game has no mode for this key count and the caller did not switch it off
        ok = after == before
        agree = True
        dom = False
        tags.append("guard-raises")
        detail = {} if ok else dict(note="source modified", impl=impl)
    elif impl[0] == "err":
        agree = "err" in model and model["err"] == impl[1]
        ok = False                      # no target chart was produced for a source chart
        detail = dict(impl=impl, model=model if "err" in model else "ok")
        tags.append("impl-raises")
    else:
        out = impl[1]
        v = drv.call("c08.spec", conv=conv, src=before, src_after=after, k=k, out=out)["ok"]
        ok = all(v.values())
        if "ok" in model:
            diff = same_out(out, model["ok"])
            agree = diff is None
        else:
            diff = f"model raises {model}"
            agree = False
        if not ok:
            failing = sorted(kk for kk, vv in v.items() if not vv)
            detail = dict(failing=failing, verdict=v)
        if not agree:
            detail["diff"] = diff
        if not (ok and agree):
            detail["impl"] = out
            detail["model"] = model
            detail["source"] = before
    return dict(claim="convert", ok=ok, agree=agree, dom=dom, kf=kf, tags=tags, nontrivial=nontrivial, maxdev=0.0,
                detail=detail)
