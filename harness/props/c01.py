"""C01 — osu!mania file <-> chart.

Correspondence: OsuMap.read / OsuMap.write / the item read_string + write_string functions / the column<->x
mapping against Model/Osu.lean; specification: Spec/Osu.lean (`IsColumn`, `denote` = the format by the book,
`quantize`) evaluated by the driver on the implementation's output.

claims
  col     x -> column and column -> x for one (K, x) / (K, c)         (thorough: + exhaustive 18 x 512 tables)
  line    one line through read_string of hit/hold/bpm/sv/sample, incl. malformed ones (error enum)
  read    a .osu text of the dialect -> chart:  impl ~ model (C),  impl ~ Spec.denote (S); half of the cases go through the
          FILE entry point (OsuMap.read_file on a temp file holding exactly the text, utf-8) — model: decode, universal
          newlines, split("\n"), read
  badtext a malformed text: error enum only
  write   a chart -> text: impl text == model tokens rendered (C); Spec.denote(impl text) ~ quantize(chart) and
          OsuMap.read(impl text) ~ quantize(chart) (S)
  cycle   4 write/read generations: every later generation ~ the first written one; text 3 == text 2
  (write / cycle: half of the cases through write_file + read_file; most charts reach the state they are written from
  through an ordinary history — Map.Stacker edits (whole column and loc), rate, deepcopy, sort / filter / append on the
  lists, a round trip through the Quaver or StepMania converters — so that float-typed `column`, int-typed `offset`,
  object-typed `kiai` and non-default row labels occur; the model works on the values, `normalise(extract(map))`)
U+2028, U+2029, U+0085, \x0b, \x0c, \x1c-\x1e (line ends for str.splitlines(), not for the format) are placed inside
metadata values, tags and file names; Python's str.strip() — and the model's `strip` — remove them (and \x1f, \xa0,
U+3000 ...) only at the ends of a line or value.
"""
import math
import os
import re
from fractions import Fraction as Fr

from lib.rat import R, F, close, dev

ID = "C01"
QUICK_N = 1000
THOROUGH_N = 30000
QUICK_BUDGET_S = 80
THOROUGH_BUDGET_S = 900
RULE = ("texts of the v14 mania dialect: K in 1..18, x anywhere inside a column's range, integer/decimal/negative/large "
        "times, type bits with new-combo/colour bits, random hitsound fields, 0-120 objects (thorough 0-300), 0-40 timing "
        "lines mixing bpm/SV of both signs, sample events, metadata with ':' / non-ASCII / leading blanks, CRLF line ends, "
        "extra sections, U+2028/U+2029/U+0085/\\x0b/\\x0c/\\x1c-\\x1e inside values, tags and file names, half of the cases through "
        "read_file / write_file on a temp file; charts reach their state through histories (stack edits, rate, deepcopy, "
        "list sort/filter/append, Osu->Qua->Osu, Osu->SM->Osu; float-typed column, int-typed offset, relabelled rows); charts: finite doubles (dyadic stream and arbitrary stream) incl. negative and sub-ms offsets, bpm/SV "
        "of both signs; malformed lines/texts compared on the error class; numeric fields of a quarter of the texts and of the "
        "damaged lines written as Python's int()/float() accept them (underscores, non-ASCII digits and padding, '+', '5.', '.5', "
        "exponents); claim lex: 24 tokens per case (valid exotic, inf/nan family, damaged, \\x1c-\\x1f) through int()/float() and through "
        "OsuHit.read_string; claim lextable: digit runs and white space against unicodedata/str.isspace over all code points; "
        "claim session: one chart object written 2-4 times (write/write_file) with 1-3 edits in between through list-property "
        "columns, Stacker, df.loc/iloc, replaced df, replaced lists, metadata, and looks (iteration, indexing), each text judged "
        "against the object's content at that moment read through the column API. non-trivial = at least one object or timing line "
        "off the defaults (x off the column centre, fractional/negative time, ':' in a value, malformed field)")
ASSUMPTIONS = [
    "float rendering (repr) and unidecode are parameters of the model: the harness renders the model's tokens with "
    "Python's own repr/unidecode and asserts float(repr(x)) == x on every number it sees; integral numeric metadata is "
    "rendered by the model itself (_num)",
    "int()/float() are modelled as CPython 3.12 implements them on str (Unicode decimal digits / white space folded to ASCII, "
    "\\x1c-\\x1f no white space, underscores between digits); the model's numbers are exact rationals: on inf/infinity/nan tokens "
    "Python returns a non-finite double where the model answers ValueError (recogniser floatNonFinite; such tokens are kept out "
    "of the text streams and replayed on the real reader by the claim lex), and a literal beyond the double range is inf for "
    "Python and exact in the model",
    "strings travel as JSON: characters outside the BMP are not generated",
    "dialect facts (not demanded of the reader): the background event is the line after '//Background and Video events' "
    "and is quoted; sample events follow '//Storyboard Sound Samples'; effects field is 0 or 1; CircleSize is integral",
    "in-memory charts: text attributes carry no leading/trailing white space or line breaks, file names no ',' ':'; "
    "tags are non-empty and blank-free (otherwise `quantize` says what comes back)",
]
TRUSTED_EXTRA = ["Python repr/unidecode as instantiation of the model's Render parameter"]



def _imports():
    from reamber.osu.OsuMap import OsuMap
    from reamber.osu.OsuHit import OsuHit
    from reamber.osu.OsuHold import OsuHold
    from reamber.osu.OsuBpm import OsuBpm
    from reamber.osu.OsuSv import OsuSv
    from reamber.osu.OsuSample import OsuSample
    from reamber.osu.OsuNoteMeta import OsuNoteMeta
    from reamber.osu.lists.OsuBpmList import OsuBpmList
    from reamber.osu.lists.OsuSvList import OsuSvList
    from reamber.osu.lists.OsuSampleList import OsuSampleList
    from reamber.osu.lists.notes.OsuHitList import OsuHitList
    from reamber.osu.lists.notes.OsuHoldList import OsuHoldList
    return dict(OsuMap=OsuMap, OsuHit=OsuHit, OsuHold=OsuHold, OsuBpm=OsuBpm, OsuSv=OsuSv, OsuSample=OsuSample,
                OsuNoteMeta=OsuNoteMeta, OsuBpmList=OsuBpmList, OsuSvList=OsuSvList, OsuSampleList=OsuSampleList,
                OsuHitList=OsuHitList, OsuHoldList=OsuHoldList)


def err_class(e):
    t = type(e)
    if t is Exception:
        return "format"
    for cls, name in ((ZeroDivisionError, "zerodiv"), (IndexError, "index"), (ValueError, "value"),
                      (AttributeError, "attr"), (TypeError, "type")):
        if isinstance(e, cls):
            return name
    return "other:" + t.__name__


# ------------------------------------------------------------------------------------------ vocabulary

NAMES = ["", "", "a.wav", "clap.wav", "hit normal.wav", "音.wav", "ß-drum.ogg", "soft-hitclap2.wav", "x", "é"]
WORDS = ["Tribal Trial", "a:b", "Re:Zero", "12:30 AM", "夜に駆ける", "Ünïcode", "x", "A - B", "feat. C", "::", "a: b :c",
         "1", "ver 2.0", "ß", "Murumoo's EXHAUST", "[bracket]", "a,b", "//not a comment", "Title:nested", "é è"]
# characters that `str.splitlines()` treats as line ends but the .osu format (and `split("\n")`) does not; Python's
# `str.strip()` removes them at the ends of a line or value, so they are placed *inside* values
ODD = ["\u2028", "\u2029", "\x85", "\x0b", "\x0c", "\x1c", "\x1d", "\x1e"]
ODD_WORDS = ["a\u2028b", "k\u2029l", "x\x85y", "p\x0bq", "m\x0cn", "r\x1cs", "t\x1du", "v\x1ew", "夜\u2028に", "é\x85è:ü"]
ODD_NAMES = ["cl\u2028ap.wav", "a\x1cb.wav", "h\x85it.ogg", "n\x0bm.wav", "音\u2029.wav", "s\x0c.wav", "q\x1dq", "w\x1ew.wav"]
TAGWORDS = ["BEMANI", "KONAMI", "SDVX", "V", "5", "a:b", "音楽", "x-y", "Instrumental", "ü"]
E_BPMS = [50, 60, 75, 100, 120, 125, 128, 150, 160, 200, 240, 250, 300, 375, 37.5, 62.5, 93.75, 187.5, 480, 600]
META_DEFAULT = dict(audio_file_name="", audio_lead_in=0, preview_time=-1, countdown=False, sample_set=0, stack_leniency=0.7,
                    mode=3, letterbox_in_breaks=False, special_style=False, widescreen_storyboard=True, distance_spacing=4,
                    beat_divisor=4, grid_size=8, timeline_zoom=0.3, title="", title_unicode="", artist="", artist_unicode="",
                    creator="", version="", source="", tags=[], beatmap_id=0, beatmap_set_id=-1, hp_drain_rate=5.0,
                    circle_size=4.0, overall_difficulty=5.0, approach_rate=5.0, slider_multiplier=1.4, slider_tick_rate=1,
                    background_file_name="", samples=[])
STR_KEYS = ["audio_file_name", "title", "title_unicode", "artist", "artist_unicode", "creator", "version", "source",
            "background_file_name"]
NUM_KEYS = ["audio_lead_in", "preview_time", "stack_leniency", "distance_spacing", "beat_divisor", "grid_size", "timeline_zoom",
            "hp_drain_rate", "circle_size", "overall_difficulty", "approach_rate", "slider_multiplier", "slider_tick_rate"]
G_KEYS = ["audio_lead_in", "distance_spacing", "beat_divisor", "grid_size", "timeline_zoom", "hp_drain_rate", "circle_size",
          "overall_difficulty", "approach_rate", "slider_multiplier", "slider_tick_rate"]
G_INT_KEYS = ["audio_lead_in", "beat_divisor", "grid_size"]       # read back with int()
INT_KEYS = ["sample_set", "mode", "beatmap_id", "beatmap_set_id"]
BOOL_KEYS = ["countdown", "letterbox_in_breaks", "special_style", "widescreen_storyboard"]


def col_range(c, k):
    lo = -(-512 * c // k)
    hi = -(-512 * (c + 1) // k) - 1
    return lo, hi



# ---- numeric tokens as Python's int() / float() accept them (the wider dialect)

DEC_ZEROS_BMP = [0x660, 0x6f0, 0x7c0, 0x966, 0x9e6, 0xa66, 0xe50, 0x1040, 0x17e0, 0x1810, 0xa620, 0xff10]
NUM_WS = [" ", "\t", "\x0b", "\x0c", "\xa0", "\x85", "\u2003", "\u3000", "\u1680", "\u205f"]   # not \r \n: they end a line


def exotic(rng, tok, is_float):
    """a token with the same value for Python's int() / float(): underscores between digits, non-ASCII decimal digits,
    a leading '+', white space around it, and (float fields only) '5.' / '.5' / exponent forms"""
    t = tok
    if is_float and rng.random() < 0.3 and re.fullmatch(r"-?\d+", t):
        t = rng.choice([t + ".", t + ".0", t + "e0", t + "E+0", t + "0e-1", t + ".00e+00"])
    if is_float and t.startswith("0.") and rng.random() < 0.5:
        t = t[1:]
    if rng.random() < 0.5:
        out = []
        for i, ch in enumerate(t):
            out.append(ch)
            if ch.isdigit() and i + 1 < len(t) and t[i + 1].isdigit() and rng.random() < 0.3:
                out.append("_")
        t = "".join(out)
    if rng.random() < 0.5:
        z = rng.choice(DEC_ZEROS_BMP)
        allofthem = rng.random() < 0.5
        t = "".join(chr(z + ord(ch) - 48) if ("0" <= ch <= "9" and (allofthem or rng.random() < 0.4)) else ch for ch in t)
    if t[:1] not in "+-" and rng.random() < 0.3:
        t = "+" + t
    if rng.random() < 0.4:
        t = rng.choice(NUM_WS + [""]) * rng.choice([1, 1, 2]) + t + rng.choice(NUM_WS + [""])
    return t


def exo_fields(rng, fields, floats):
    """fields of one line: each numeric field becomes an equal-valued exotic token with probability 0.4"""
    return [exotic(rng, f, i in floats) if (f is not None and rng.random() < 0.4 and re.fullmatch(r"[+-]?(\d+\.?\d*|\.\d+)([eE][+-]?\d+)?", f))
            else f for i, f in enumerate(fields)]


LEX_BASE = ["0", "7", "12", "007", "1234567", "-3", "+15", "-0", "0.5", ".5", "5.", "12.75", "-0.125", "1e3", "2.5e2", "1E-3", "1e+05",
            "1.e5", ".5E3", "00012.50", "123456789012345678901234567890", "1e22", "1e-400", "4.9e-324", "1.7976931348623157e308"]
LEX_BAD = ["", " ", ".", "e5", "1e", "1e+", "--1", "+-1", "+ 1", "1 2", "1_", "_1", "1__0", "1_.5", "1._5", "1_e5", "1e_5", "._5", "0x10",
           "1e5.0", "1d5", "1;5", "²", "½", "Ⅷ", "一", "٣²", "1\x00", "\x1c5", "5\x1c", "5\x1d", "\x1e5\x1e", "5\x1f", "1\x1c2", "\ufeff5", "5\u200b",
           "in_f", "infinit", "nan_", "in f", "+ inf", "infinityy", "na", "i", "1e400", "-1e999", "١_", "１＿２", "-", "+", "..5", "5..", "1e1e1",
           "1e5_", "+_5", "- 5", "٣ ٥"]
LEX_NONFIN = ["inf", "INF", "Inf", "infinity", "Infinity", "iNfInItY", "nan", "NaN", "NAN"]



def _exp_ok(t):
    """the model computes the exact value of a literal: exponents of more than 3 digits are kept out of the generated tokens
    (Python answers inf / 0.0 at once, 10^(10^20) cannot be written down)"""
    import unicodedata
    f = "".join(str(unicodedata.decimal(ch)) if (ch.isdigit() and unicodedata.category(ch) == "Nd") else ch for ch in t).replace("_", "")
    return re.search(r"[eE][+-]?[0-9]{4,}", f) is None


def gen_lex_tok(rng):
    for _ in range(50):
        t = _gen_lex_tok(rng)
        if _exp_ok(t):
            return t
    return "1e5"


def _gen_lex_tok(rng):
    r = rng.random()
    if r < 0.45:
        base = rng.choice(LEX_BASE + [str(rng.randint(-10 ** 6, 10 ** 6)), f"{rng.randint(-5000, 400000)}.{rng.randint(0, 999):03d}",
                                      f"{rng.randint(1, 999)}e{rng.randint(-30, 30)}"])
        return exotic(rng, base, True) if rng.random() < 0.8 else base
    if r < 0.60:
        t = rng.choice(LEX_NONFIN)
        t = rng.choice(["", "", "+", "-"]) + t
        if rng.random() < 0.5:
            t = rng.choice(NUM_WS + [""]) + t + rng.choice(NUM_WS + [""])
        return t
    if r < 0.85:
        t = rng.choice(LEX_BAD)
        if rng.random() < 0.3:
            t = rng.choice(NUM_WS) + t
        return t
    # a valid token damaged at one position
    t = exotic(rng, rng.choice(LEX_BASE), True)
    i = rng.randrange(len(t) + 1)
    return t[:i] + rng.choice(["_", " ", "\x1c", "\x1f", "e", ".", "-", "+", "٣", "x", "\u2003", "\x00", "?"]) + t[i:]



INT_META = ["AudioLeadIn", "PreviewTime", "Countdown", "Mode", "LetterboxInBreaks", "SpecialStyle", "WidescreenStoryboard", "BeatDivisor",
            "GridSize", "BeatmapID", "BeatmapSetID"]
FLOAT_META = ["StackLeniency", "DistanceSpacing", "TimelineZoom", "HPDrainRate", "CircleSize", "OverallDifficulty", "ApproachRate",
              "SliderMultiplier", "SliderTickRate"]


def exo_line(rng, line, kind):
    """the same line with some of its numeric fields written as equal-valued exotic tokens (file names, the literal
    `uninherited` flag of a timing line and the `Sample` / layer fields stay as they are)"""
    parts = line.split(",")
    if kind == "obj" and len(parts) == 6:
        ex = parts[5].split(":")
        parts[:5] = exo_fields(rng, parts[:5], {2})
        nums = exo_fields(rng, ex[:-1], {0} if len(ex) == 6 else set())
        parts[5] = ":".join(nums + ex[-1:])
    elif kind == "timing" and len(parts) == 8:
        flag = parts[6]
        parts = exo_fields(rng, parts, {0, 1})
        parts[6] = flag
    elif kind == "sample" and len(parts) == 5:
        parts[1] = exo_fields(rng, [parts[1]], {0})[0]
        parts[4] = exo_fields(rng, [parts[4]], set())[0]
    elif kind == "meta" and ":" in line:
        key, v = line.split(":", 1)
        if key in INT_META or key in FLOAT_META:
            lead = v[:len(v) - len(v.lstrip(" "))]
            return key + ":" + lead + exo_fields(rng, [v.strip(" ")], {0} if key in FLOAT_META else set())[0]
        return line
    return ",".join(parts)


def gen_time_text(rng):
    r = rng.random()
    if r < 0.45:
        return str(rng.randint(0, 400000))
    if r < 0.55:
        return str(-rng.randint(0, 5000))
    if r < 0.65:
        return str(rng.randint(10 ** 7, 3 * 10 ** 7))
    if r < 0.9:
        return f"{rng.randint(-2000, 400000)}.{rng.randint(0, 999):0{rng.choice([1, 2, 3])}d}"[:12]
    return rng.choice(["0", "-0", "1e3", "2.5e2", "007", "+15", ".5", "12."])


def gen_obj_line(rng, k, hold=None, odd=False):
    c = rng.randrange(k)
    lo, hi = col_range(c, k)
    x = rng.choice([lo, hi, rng.randint(lo, hi), (512 * c + 256) // k])
    y = rng.choice([192, 192, 0, rng.randint(0, 384)])
    t = gen_time_text(rng)
    hs = rng.choice([0, 0, 2, 4, 8, 10, 15])
    ex = f"{rng.randint(0, 3)}:{rng.randint(0, 3)}:{rng.choice([0, 0, 1, 7, 99])}:{rng.choice([0, 0, 30, 70, 100])}:{rng.choice(NAMES + (ODD_NAMES if odd else []))}"
    if hold is None:
        hold = rng.random() < 0.35
    if hold:
        ty = rng.choice([128, 128, 132, 128 + 16])
        try:
            te = float(t)
        except ValueError:
            te = 0.0
        e = rng.choice([str(int(te) + rng.randint(0, 5000)), f"{int(te) + rng.randint(0, 3000)}.{rng.randint(0, 999)}",
                        str(int(te) + 1)])
        return f"{x},{y},{t},{ty},{hs},{e}:{ex}"
    ty = rng.choice([1, 1, 5, 1 + 16, 1 + 4 + 64])
    return f"{x},{y},{t},{ty},{hs},{ex}"


def gen_code_text(rng, kind):
    if kind == "bpm":
        r = rng.random()
        if r < 0.5:
            v = 60000 / rng.choice(E_BPMS)
            return repr(v)
        if r < 0.85:
            return repr(round(rng.uniform(50, 2000), rng.choice([0, 2, 6, 12])))
        return rng.choice(["-500", "1e3", "333.333333333333", "0.001", "1000000"])
    r = rng.random()
    if r < 0.5:
        return repr(-100 / rng.choice([0.5, 1, 2, 0.25, 4, 10, 0.1, 1.3]))
    if r < 0.85:
        return repr(-round(rng.uniform(1, 1000), rng.choice([0, 2, 6, 12])))
    return rng.choice(["50", "-1e2", "-0.5", "-100", "1e-3"])


def gen_timing_line(rng, kind=None):
    if kind is None:
        kind = rng.choice(["bpm", "sv"])
    t = gen_time_text(rng)
    code = gen_code_text(rng, kind)
    met = rng.choice([4, 4, 3, 1, 7, 9])
    return (f"{t},{code},{met},{rng.randint(0, 3)},{rng.choice([0, 1, 5])},{rng.choice([0, 50, 60, 100])},"
            f"{1 if kind == 'bpm' else 0},{rng.choice([0, 0, 1])}")


def gen_sample_line(rng, odd=False):
    f = rng.choice(['"clap.wav"', '"a b.ogg"', '"音.wav"', 'noquote.wav', '""', '"x:y.wav"'] + (['"%s"' % n for n in ODD_NAMES] if odd else []))
    return f"Sample,{gen_time_text(rng)},0,{f},{rng.choice([0, 50, 70, 100])}"


def gen_text(rng, tier):
    k = rng.choice(list(range(1, 19)) + [4, 7])
    pad = lambda: rng.choice(["", "", " "])
    odd = rng.random() < 0.4
    word = lambda: rng.choice(ODD_WORDS if (odd and rng.random() < 0.5) else WORDS)
    L = ["osu file format v14", "", "[General]"]
    gen = [f"AudioFilename:{pad()}{rng.choice(['audio.mp3', 'a b.ogg', '音.mp3', ''] + (ODD_NAMES if odd else []))}",
           f"AudioLeadIn: {rng.choice([0, 0, 1500, -3])}", f"PreviewTime: {rng.choice([-1, 86398, 0])}",
           f"Countdown: {rng.choice([0, 1, 2])}", f"SampleSet: {rng.choice(['Soft', 'Normal', 'Drum', 'None', 'Other'])}",
           f"StackLeniency: {rng.choice(['0.7', '1', '0.25'])}", f"Mode: {rng.choice([3, 3, 0])}",
           f"LetterboxInBreaks: {rng.choice([0, 1])}", f"SpecialStyle: {rng.choice([0, 1])}",
           f"WidescreenStoryboard: {rng.choice([0, 1])}"]
    if rng.random() < 0.3:
        gen.append("EpilepsyWarning: 1")
    gen = [g for g in gen if rng.random() < 0.9]
    if rng.random() < 0.2:
        rng.shuffle(gen)
    L += gen + ["", "[Editor]"]
    if rng.random() < 0.4:
        L.append("Bookmarks: 1000,2000,3000,4000,5000,6000,7000,1")
    L += [f"DistanceSpacing: {rng.choice(['0.4', '1', '2.5'])}", f"BeatDivisor: {rng.choice([4, 8, 16])}",
          f"GridSize: {rng.choice([4, 8, 32])}", f"TimelineZoom: {rng.choice(['1.9', '0.3', '1'])}", "", "[Metadata]"]
    md = [f"Title:{pad()}{word()}", f"TitleUnicode:{pad()}{word()}", f"Artist:{pad()}{word()}", f"ArtistUnicode:{word()}",
          f"Creator:{word()}", f"Version:{word()}{pad()}", f"Source:{rng.choice(['', word()])}",
          "Tags:" + rng.choice(["", " ".join(rng.choice(TAGWORDS + (ODD_WORDS if odd else [])) for _ in range(rng.randint(0, 6))),
                                "a  b   c", " lead trail "]),
          f"BeatmapID:{rng.choice([0, 2062527])}", f"BeatmapSetID:{rng.choice([-1, 965664])}"]
    md = [g for g in md if rng.random() < 0.93]
    L += md + ["", "[Difficulty]"]
    cs = rng.choice([str(k), str(k), f"{k}.0"])
    df = [f"HPDrainRate:{rng.choice(['7.5', '5', '0', '10'])}", f"CircleSize:{cs}",
          f"OverallDifficulty:{rng.choice(['7.5', '8', '9.3'])}", f"ApproachRate:{rng.choice(['5', '9'])}",
          f"SliderMultiplier:{rng.choice(['1.4', '1', '3.6'])}", f"SliderTickRate:{rng.choice(['1', '2', '0.5'])}"]
    if rng.random() < 0.15:
        rng.shuffle(df)
    L += df + ["", "[Events]", "//Background and Video events",
               f'0,0,"{rng.choice(["BG.png", "b g.jpg", "背景.png", ""] + (ODD_NAMES if odd else []))}",{rng.choice([0, 5])},0', "//Break Periods"]
    if rng.random() < 0.3:
        L.append("2,1000,2000")
    L += ["//Storyboard Layer 0 (Background)", "//Storyboard Layer 1 (Fail)", "//Storyboard Layer 2 (Pass)",
          "//Storyboard Layer 3 (Foreground)"]
    if rng.random() < 0.7:
        L.append("//Storyboard Layer 4 (Overlay)")
    L.append("//Storyboard Sound Samples")
    for _ in range(rng.choice([0, 0, 1, 2, 5])):
        L.append(gen_sample_line(rng, odd))
    L += ["", "[TimingPoints]"]
    ntp = rng.choice([0, 1, 1, 2, 3, 5, 10, 40])
    for _ in range(ntp):
        L.append(gen_timing_line(rng))
    L += [""] * rng.choice([0, 1, 2])
    if rng.random() < 0.3:
        L += ["[Colours]", "Combo1 : 255,192,128", "Combo2 : 0,202,0", ""]
    L.append("[HitObjects]")
    mx = 300 if tier == "thorough" else 120
    nobj = rng.choice([0, 1, 2, 3, 5, 8, 20, 60, mx])
    for _ in range(nobj):
        L.append(gen_obj_line(rng, k, odd=odd))
    if rng.random() < 0.5:
        L.append("")
    if rng.random() < 0.25:
        # the wider dialect: numeric fields as Python's int() / float() accept them
        sec = None
        out = []
        for l in L:
            if l.startswith("[") and l.endswith("]"):
                sec = l
            elif sec in KV_HEADERS:
                l = exo_line(rng, l, "meta")
            elif sec == "[Events]" and l.startswith("Sample,"):
                l = exo_line(rng, l, "sample")
            elif sec == "[TimingPoints]" and l:
                l = exo_line(rng, l, "timing")
            elif sec == "[HitObjects]" and l:
                l = exo_line(rng, l, "obj")
            out.append(l)
        L = out
    eol = rng.choice(["", "", "\r", " "])
    if eol:
        L = [l + eol for l in L]
    return L


def gen_bad_line(rng):
    """one line for one of the five read_string functions; fields damaged inside the modelled number grammar"""
    kind = rng.choice(["hit", "hold", "bpm", "sv", "sample"])
    k = rng.randint(1, 18)
    if kind in ("hit", "hold"):
        s = gen_obj_line(rng, k, hold=(kind == "hold"))
    elif kind in ("bpm", "sv"):
        s = gen_timing_line(rng, kind)
    else:
        s = gen_sample_line(rng)
    n = rng.choice([0, 1, 1, 2])
    if rng.random() < 0.3:
        s = exo_line(rng, s, dict(hit="obj", hold="obj", bpm="timing", sv="timing", sample="sample")[kind])
    junk = ["", "abc", "1.5", "--1", "1e3", " 12 ", "+7", "0x10", "0", "0.0", "-0", "1 2", ".", "e5", "1e", "-", "5.", ".5",
            "1_0", "1_", "_1", "1__0", "1_.5", "١٢", "٣.٥", "+５", "\x1c5", "5\x1c", "7\u2003", "\xa07", "1\x1d2", "²", "1_0.5e0_1", "1e_5"]
    for _ in range(n):
        r = rng.random()
        parts = s.split(",")
        i = rng.randrange(len(parts))
        if r < 0.45:
            sub = parts[i].split(":")
            j = rng.randrange(len(sub))
            sub[j] = rng.choice(junk)
            parts[i] = ":".join(sub)
        elif r < 0.6:
            del parts[i]
        elif r < 0.7:
            parts.insert(i, rng.choice(junk))
        elif r < 0.85:
            parts[i] = parts[i] + ":" + rng.choice(junk)
        else:
            parts[i] = parts[i].replace(":", "", 1)
        s = ",".join(parts)
    return dict(claim="line", kind=kind, k=k, s=s)


def gen_bad_text(rng, tier):
    L = gen_text(rng, "quick")
    L = [l for l in L]
    r = rng.random()
    if r < 0.15:
        L = [l for l in L if l.strip() != "[TimingPoints]"]
    elif r < 0.3:
        L = [l for l in L if l.strip() != "[HitObjects]"]
    elif r < 0.4:
        # sections swapped
        i, j = [x.strip() for x in L].index("[TimingPoints]"), [x.strip() for x in L].index("[HitObjects]")
        L[i], L[j] = L[j], L[i]
    elif r < 0.55:
        key = rng.choice(["Title", "AudioLeadIn", "Tags", "CircleSize", "AudioFilename", "Countdown", "SampleSet"])
        L.insert(rng.randint(3, 8), key)
    elif r < 0.7:
        key = rng.choice(["AudioLeadIn", "PreviewTime", "Mode", "CircleSize", "BeatmapID", "Countdown", "StackLeniency"])
        L.insert(rng.randint(3, 8), f"{key}:{rng.choice(['abc', '', '1.5', ' ', '1 2', '--3'])}")
    elif r < 0.8:
        i = [x.strip() for x in L].index("[TimingPoints]")
        L.insert(i, "//Background and Video events")
    else:
        # damage a few object / timing / sample lines
        for _ in range(rng.randint(1, 3)):
            b = gen_bad_line(rng)
            stripped = [x.strip() for x in L]
            if b["kind"] in ("hit", "hold"):
                L.append(b["s"])
            elif b["kind"] in ("bpm", "sv"):
                L.insert(stripped.index("[TimingPoints]") + 1, b["s"])
            else:
                L.insert(stripped.index("//Storyboard Sound Samples") + 1, b["s"])
    return dict(claim="badtext", lines=L)


# ---- charts

def dyadic(rng, lo, hi, bits=10):
    return rng.randint(lo * 2 ** bits, hi * 2 ** bits) / 2 ** bits


def gen_offset(rng, exact):
    r = rng.random()
    if exact:
        if r < 0.4:
            return float(rng.randint(0, 400000))
        if r < 0.5:
            return float(-rng.randint(0, 5000))
        if r < 0.9:
            return dyadic(rng, -3000, 400000, rng.choice([1, 2, 10]))
        return float(rng.randint(10 ** 7, 2 * 10 ** 7)) + rng.choice([0, 0.5, 0.25])
    if r < 0.3:
        return round(rng.uniform(-5000, 400000), rng.choice([0, 1, 2, 3]))
    if r < 0.8:
        return rng.uniform(-5000, 400000)
    if r < 0.9:
        return rng.uniform(-1, 1)
    return rng.uniform(1e7, 3e7)


def gen_name(rng, odd=False):
    return rng.choice(NAMES + (ODD_NAMES if odd else []))


def gen_chart(rng, tier, small=False):
    exact = rng.random() < 0.5
    k = rng.choice(list(range(1, 19)) + [4, 7])
    mx = 40 if small else (300 if tier == "thorough" else 100)
    nh = rng.choice([0, 1, 2, 3, 8, 20, mx])
    nl = rng.choice([0, 0, 1, 2, 5, mx // 3])
    grid = [gen_offset(rng, exact) for _ in range(rng.randint(1, 6))]
    odd = rng.random() < 0.4

    def off():
        return rng.choice(grid) if rng.random() < 0.25 else gen_offset(rng, exact)

    def note():
        return dict(offset=off(), column=rng.randrange(k), hitsound_set=rng.choice([0, 0, 2, 8, 15]),
                    sample_set=rng.randint(0, 3), addition_set=rng.randint(0, 3), custom_set=rng.choice([0, 0, 1, 42]),
                    volume=rng.choice([0, 0, 30, 100]), hitsound_file=gen_name(rng, odd))
    hits = [note() for _ in range(nh)]
    holds = []
    for _ in range(nl):
        h = note()
        r = rng.random()
        if exact:
            h["length"] = rng.choice([0.0, 1.0, dyadic(rng, 0, 5000, rng.choice([0, 1, 10])), 0.5, 0.25])
        else:
            h["length"] = rng.choice([0.0, rng.uniform(0, 5000), rng.uniform(0, 2), round(rng.uniform(0, 3000), 1),
                                      math.ceil(h["offset"]) - h["offset"], 0.3, 0.9])
        holds.append(h)

    def tp():
        return dict(sample_set=rng.randint(0, 3), sample_set_index=rng.choice([0, 1, 5]), volume=rng.choice([0, 50, 60, 100]),
                    kiai=rng.random() < 0.3)
    bpms, svs = [], []
    for _ in range(rng.choice([0, 1, 1, 2, 3, 12])):
        v = float(rng.choice(E_BPMS)) if (exact or rng.random() < 0.3) else rng.uniform(20, 800)
        if rng.random() < 0.1:
            v = -v
        bpms.append(dict(offset=off(), bpm=v, metronome=rng.choice([4, 4, 3, 1, 7]), **tp()))
    for _ in range(rng.choice([0, 0, 1, 2, 5, 25])):
        v = rng.choice([0.5, 1.0, 2.0, 0.25, 4.0, 10.0, 0.1, 1.3]) if (exact or rng.random() < 0.3) else rng.uniform(0.01, 10)
        if rng.random() < 0.15:
            v = -v
        svs.append(dict(offset=off(), multiplier=v, **tp()))
    meta = dict(META_DEFAULT)
    meta["tags"] = []
    meta["samples"] = [dict(offset=off(), sample_file=rng.choice(['"clap.wav"', '"a b.ogg"', '"音.wav"', 'n.wav', '""'] +
                                                                 (['"%s"' % n for n in ODD_NAMES] if odd else [])),
                            volume=rng.choice([0, 50, 70, 100])) for _ in range(rng.choice([0, 0, 1, 3]))]
    meta["circle_size"] = float(k)
    if rng.random() < 0.8:
        w = lambda: rng.choice(WORDS)
        wo = lambda: rng.choice(ODD_WORDS if (odd and rng.random() < 0.5) else WORDS)
        # title / artist go through unidecode, which turns U+2028 / U+2029 into line breaks (finding D44): drawn from a
        # vocabulary without them except in the rare witness cases below
        wa = lambda: rng.choice((["x\x85y", "p\x0bq", "r\x1cs"] if (odd and rng.random() < 0.3) else []) or WORDS)
        meta.update(audio_file_name=rng.choice(["audio.mp3", "a b.ogg", "音.mp3", ""] + (ODD_NAMES if odd else [])), title=wa(),
                    title_unicode=wo(), artist=wa(), artist_unicode=wo(), creator=wo(), version=wo(), source=rng.choice(["", wo()]),
                    background_file_name=rng.choice(["BG.png", "b g.jpg", "背景.png", ""] + (ODD_NAMES if odd else [])),
                    tags=[rng.choice(TAGWORDS + (ODD_WORDS if odd else [])) for _ in range(rng.randint(0, 5))],
                    audio_lead_in=rng.choice([0, 1500, 999999]), preview_time=rng.choice([-1, 86398, 12.75, -0.5]),
                    countdown=rng.random() < 0.5, sample_set=rng.randint(0, 3), stack_leniency=rng.choice([0.7, 1.0, 0.123456789]),
                    mode=rng.choice([3, 3, 0]), letterbox_in_breaks=rng.random() < 0.5, special_style=rng.random() < 0.5,
                    widescreen_storyboard=rng.random() < 0.5, distance_spacing=rng.choice([0.4, 1.0, 2.5, 4]),
                    beat_divisor=rng.choice([4, 8, 16]), grid_size=rng.choice([4, 8, 32]), timeline_zoom=rng.choice([1.9, 0.3, 1.0]),
                    beatmap_id=rng.choice([0, 2062527]), beatmap_set_id=rng.choice([-1, 965664]),
                    hp_drain_rate=rng.choice([7.5, 5.0, 0.0, 10.0]), overall_difficulty=rng.choice([7.5, 8.0, 9.3]),
                    approach_rate=rng.choice([5.0, 9.0]), slider_multiplier=rng.choice([1.4, 1.0, 3.6]),
                    slider_tick_rate=rng.choice([1, 2, 0.5]))
    if rng.random() < 0.15:
        # numbers that ':g' (6 significant digits) would not keep — the witness domain of the repaired finding D30
        key = rng.choice(["audio_lead_in", "hp_drain_rate", "overall_difficulty", "distance_spacing", "timeline_zoom"])
        meta[key] = rng.choice([1000000, 1234567, 20000000]) if key == "audio_lead_in" else rng.choice([7.1234567, 1 / 3, 0.12345678])
    if rng.random() < 0.12:
        # int-typed offsets: every offset of the tempo / SV / note lists is a Python int
        for lst in (bpms, svs, hits):
            for r_ in lst:
                r_["offset"] = int(r_["offset"])
    if rng.random() < 0.02:
        # a romanised title / artist whose transliteration contains a line break (known finding D44)
        meta[rng.choice(["title", "artist"])] = rng.choice(["a\u2028b", "夜\u2029に", "x\u2028"])
    return dict(meta=meta, bpms=bpms, svs=svs, hits=hits, holds=holds)



# ---- sessions: one chart object, written several times with edits in between

LISTS = ["hits", "holds", "bpms", "svs", "samples"]
EDIT_KINDS = ["col_add", "col_column", "col_scale", "col_volume", "stack_add", "stack_loc", "df_iloc", "df_loc", "df_replace",
              "list_sorted", "list_after", "list_append", "meta"]
LOOK_KINDS = ["iter", "write_discard", "getitem", "stack", "records"]
SESSION_D = [1000.25, -777.5, 0.5, 11.0, 250.0, -0.75, 3.0]


def gen_edit(rng, k):
    kind = rng.choice(EDIT_KINDS)
    e = dict(op="edit", kind=kind, lst=rng.choice(LISTS), d=rng.choice(SESSION_D), i=rng.randint(0, 50))
    if kind in ("col_column",):
        e["lst"] = rng.choice(["hits", "holds"])
    if kind == "col_scale":
        e["lst"] = rng.choice(["holds", "bpms", "svs"])
    if kind == "col_volume":
        e["lst"] = rng.choice(["hits", "holds", "bpms", "svs", "samples"])
    if kind in ("list_after",):
        e["lst"] = rng.choice(["hits", "holds", "bpms", "svs"])
        e["t"] = rng.choice([-10000.0, 0.0, 1000.0, 50000.0])
    if kind == "stack_loc":
        e["t"] = rng.choice([0.0, 1000.0, 50000.0])
    if kind == "meta":
        e["key"] = rng.choice(["title_unicode", "version", "creator", "preview_time", "tags", "beatmap_id", "hp_drain_rate"])
        e["val"] = {"title_unicode": rng.choice(WORDS), "version": rng.choice(WORDS), "creator": rng.choice(WORDS),
                    "preview_time": rng.choice([-1, 500, 12.5]), "tags": [rng.choice(TAGWORDS) for _ in range(rng.randint(0, 3))],
                    "beatmap_id": rng.choice([0, 7, 2062527]), "hp_drain_rate": rng.choice([2.0, 7.5, 0.125])}[e["key"]]
    return e


def gen_session(rng, k):
    """2-4 writes (write() / write_file()) of ONE chart object; between them edits through every public editing route and
    plain looks (iteration, indexing, stack) that may leave state behind"""
    steps = []
    if rng.random() < 0.3:
        steps.append(dict(op="look", kind=rng.choice(LOOK_KINDS)))
    if rng.random() < 0.3:
        steps.append(gen_edit(rng, k))
    nw = rng.choice([2, 2, 3, 4])
    for w in range(nw):
        steps.append(dict(op="write", via=rng.choice(["lines", "file"])))
        if w == nw - 1:
            break
        if rng.random() < 0.25:
            steps.append(dict(op="look", kind=rng.choice(LOOK_KINDS)))
        for _ in range(rng.choice([1, 1, 2, 3])):
            steps.append(gen_edit(rng, k))
        if rng.random() < 0.25:
            steps.append(dict(op="look", kind=rng.choice(LOOK_KINDS)))
    return steps


def apply_look(m, kind):
    if kind == "iter":
        for lst in LISTS:
            for _ in getattr(m, lst):
                pass
    elif kind == "write_discard":
        m.write()
    elif kind == "getitem":
        for lst in LISTS:
            tl = getattr(m, lst)
            if len(tl):
                tl[0]
                tl[0:1]
    elif kind == "stack":
        m.stack()
    elif kind == "records":
        extract(m)


def apply_edit(m, e, k):
    """one edit of the chart through the public API; every edit keeps the chart inside the property's domain (columns inside
    the key count, non-zero bpm / SV, lengths >= 0)"""
    kind, d = e["kind"], float(e["d"])
    tl = getattr(m, e["lst"])
    n = len(tl)
    if kind == "col_add":
        tl.offset += d
    elif kind == "col_column":
        tl.column = (tl.column + 1) % k
    elif kind == "col_scale":
        if e["lst"] == "holds":
            tl.length *= 2
        elif e["lst"] == "bpms":
            tl.bpm = tl.bpm * 2
        else:
            tl.multiplier /= 4
    elif kind == "col_volume":
        tl.volume = (tl.volume + 10) % 101
    elif kind == "stack_add":
        st = m.stack()
        st.offset += d
    elif kind == "stack_loc":
        st = m.stack()
        st.loc[st.offset > float(e["t"]), "offset"] += d
    elif kind == "df_iloc":
        if n:
            df = tl.df
            cur = df["offset"].iloc[e["i"] % n]
            # an int-typed offset column takes an int (pandas refuses a float there in place)
            df.iloc[e["i"] % n, df.columns.get_loc("offset")] = (int(cur) + (int(d) or 1)) if df["offset"].dtype.kind == "i" else float(cur) + d
    elif kind == "df_loc":
        if n:
            df = tl.df
            df.loc[df["offset"] >= df["offset"].median(), "offset"] += ((int(d) or 1) if df["offset"].dtype.kind == "i" else d)
    elif kind == "df_replace":
        df = tl.df.copy()
        df["offset"] = df["offset"] + d
        tl.df = df
    elif kind == "list_sorted":
        setattr(m, e["lst"], tl.sorted(reverse=bool(e["i"] % 2)))
    elif kind == "list_after":
        setattr(m, e["lst"], tl.after(float(e["t"]), include_end=True))
    elif kind == "list_append":
        if n:
            setattr(m, e["lst"], tl.append(tl[0:1]))
    elif kind == "meta":
        setattr(m, e["key"], list(e["val"]) if e["key"] == "tags" else e["val"])


def gen(rng, tier, i):
    if i < 18:
        # exhaustive sub-claim, both tiers: every x of the playfield and every column for K = i + 1
        return dict(claim="coltable", k=i + 1)
    if i == 18:
        # the tables of the number reader, both tiers: Unicode decimal digits and white space against the running interpreter
        return dict(claim="lextable")
    r = rng.random()
    if r < 0.06:
        return dict(claim="lex", toks=[gen_lex_tok(rng) for _ in range(24)])
    if r < 0.12:
        k = rng.randint(1, 18)
        if rng.random() < 0.5:
            return dict(claim="col", k=k, x=rng.choice([rng.randint(0, 511), rng.randint(-20, 540), 256, 255, 511, 0]))
        return dict(claim="col", k=k, c=rng.randrange(k))
    if r < 0.22:
        return gen_bad_line(rng)
    via = "file" if rng.random() < 0.5 else "lines"
    if r < 0.50:
        return dict(claim="read", via=via, lines=gen_text(rng, tier))
    if r < 0.60:
        return gen_bad_text(rng, tier)
    if r < 0.80:
        return dict(claim="write", via=via, history=gen_history(rng), chart=gen_chart(rng, tier))
    if r < 0.89:
        ch = gen_chart(rng, tier, small=True)
        return dict(claim="session", history=gen_history(rng), chart=ch, steps=gen_session(rng, int(ch["meta"]["circle_size"])))
    return dict(claim="cycle", via=via, history=gen_history(rng), chart=gen_chart(rng, tier, small=True))


def corpus():
    c = []
    # D02 witness: 10K, x = 256 lies in column 5 (512*5 <= 2560 < 512*6)
    c.append(dict(claim="col", k=10, x=256))
    c.append(dict(claim="col", k=7, x=73))
    c.append(dict(claim="col", k=18, c=17))
    base = ["osu file format v14", "", "[General]", "AudioFilename: audio.mp3", "", "[Metadata]", "Title:a:b", "Artist: x : y ",
            "Tags:p q  r", "", "[Difficulty]", "CircleSize:10", "", "[Events]", "//Background and Video events",
            '0,0,"BG.png",0,0', "//Storyboard Sound Samples", 'Sample,24565,0,"clap.wav",70', "", "[TimingPoints]",
            "565.0,363.636363636364,4,2,1,60,1,0", "89292.5,-50,4,2,1,60,0,1", "", "", "[HitObjects]",
            "256,192,565,1,0,0:0:0:0:", "255,192,-3,5,2,1:2:3:40:a.wav", "307,0,1000.75,128,0,2000.5:0:0:0:0:"]
    # D01 witness (Title:a:b) and D02 witness (x=256 at 10K) inside a whole text
    c.append(dict(claim="read", lines=base))
    c.append(dict(claim="read", lines=[l + "\r" for l in base]))
    # the FILE entry point with characters that str.splitlines() (but not the format) treats as line ends — inside a
    # title, a version, tags, the audio file name, a hitsound file name and a sample file name
    oddtext = ["osu file format v14", "", "[General]", "AudioFilename: au\u2028dio.mp3", "", "[Metadata]", "Title:a\u2028b",
               "Version:x\x85y\x1cz", "Tags:p\x0bq r\u2029s", "", "[Difficulty]", "CircleSize:4", "", "[Events]",
               "//Background and Video events", '0,0,"B\x0cG.png",0,0', "//Storyboard Sound Samples",
               'Sample,24565,0,"cl\x1dap.wav",70', "", "[TimingPoints]", "565.0,363.636363636364,4,2,1,60,1,0", "", "",
               "[HitObjects]", "64,192,565,1,0,0:0:0:0:h\x1eit.wav", "448,192,1000,128,0,2000:0:0:0:0:n\u2028m.wav"]
    c.append(dict(claim="read", via="file", lines=oddtext))
    c.append(dict(claim="read", via="lines", lines=oddtext))
    c.append(dict(claim="read", via="file", lines=[l + "\r" for l in base]))
    c.append(dict(claim="badtext", lines=["bad_string"]))
    c.append(dict(claim="badtext", lines=[]))
    c.append(dict(claim="badtext", lines=["Title", "[TimingPoints]", "[HitObjects]"]))
    c.append(dict(claim="badtext", lines=["//Background and Video events", "[TimingPoints]", "[HitObjects]"]))
    c.append(dict(claim="badtext", lines=["[TimingPoints]", "0,0,4,0,0,0,1,0", "[HitObjects]"]))
    c.append(dict(claim="line", kind="hit", k=4, s="64,192,565,1,0:0,0:0:0:"))
    c.append(dict(claim="line", kind="hold", k=4, s="64,192,565,128,0,900:0:0:0:0:x.wav"))
    c.append(dict(claim="line", kind="sample", k=4, s="Sample,1"))
    m = dict(META_DEFAULT)
    m.update(title="a:b: c", title_unicode="夜:に", artist="Ünï", tags=["x", "y:z"], circle_size=10.0, samples=[
        dict(offset=12.9, sample_file='"x.wav"', volume=33)], samples_note=None)
    m.pop("samples_note")
    chart = dict(meta=m, bpms=[dict(offset=0.1, bpm=123.456, metronome=3, sample_set=0, sample_set_index=0, volume=50, kiai=True)],
                 svs=[dict(offset=5.5, multiplier=1.3, sample_set=0, sample_set_index=0, volume=50, kiai=False),
                      dict(offset=1e7 + 0.001, multiplier=-2.0, sample_set=1, sample_set_index=0, volume=50, kiai=False)],
                 hits=[dict(offset=1000.7, column=5, hitsound_set=0, sample_set=0, addition_set=0, custom_set=0, volume=0,
                            hitsound_file=""),
                       dict(offset=-3.5, column=0, hitsound_set=2, sample_set=1, addition_set=2, custom_set=3, volume=30,
                            hitsound_file="a.wav")],
                 holds=[dict(offset=1000.7, column=9, length=0.9, hitsound_set=0, sample_set=0, addition_set=0, custom_set=0,
                             volume=0, hitsound_file=""),
                        dict(offset=-10.5, column=3, length=5.25, hitsound_set=0, sample_set=0, addition_set=0, custom_set=0,
                             volume=0, hitsound_file="")])
    c.append(dict(claim="write", chart=chart))
    # the same chart through write_file / read_file, with odd characters inside values and file names
    import copy
    ch2 = copy.deepcopy(chart)
    ch2["meta"].update(title="x\x85y", title_unicode="夜\u2028に", version="v\x1c1", creator="k\u2029l", tags=["t\x0bg", "u"],
                       audio_file_name="au\u2028dio.mp3", background_file_name="B\x0cG.png")
    ch2["meta"]["samples"] = [dict(offset=12.9, sample_file='"cl\x1dap.wav"', volume=33)]
    ch2["hits"][1]["hitsound_file"] = "h\x1eit.wav"
    ch2["holds"][0]["hitsound_file"] = "n\u2028m.wav"
    # history build -> stack edit -> write: `column` is float64 afterwards (stacking pads with NaN); the x of an object
    # line must still be an integer
    c.append(dict(claim="write", via="lines", history=[dict(op="stack_add", d=250.0)], chart=chart))
    c.append(dict(claim="cycle", via="file", history=[dict(op="stack_loc", t=0.0, col="column"), dict(op="rate", by=2.0)],
                  chart=chart))
    c.append(dict(claim="write", via="file", chart=ch2))
    c.append(dict(claim="cycle", via="file", chart=ch2))
    c.append(dict(claim="cycle", chart=chart))
    c.append(dict(claim="write", chart=dict(meta=dict(META_DEFAULT), bpms=[], svs=[], hits=[], holds=[])))
    # two holds of one column whose quantized images can be paired in a wrong way (a greedy pairing in the "< 1 ms"
    # check once raised a false alarm here; the pairing is an exact matching now)
    hold = lambda o, l: dict(offset=o, column=3, hitsound_set=0, sample_set=0, addition_set=0, custom_set=0, volume=0,
                             hitsound_file="x", length=l)
    m2 = dict(META_DEFAULT); m2["circle_size"] = 14.0
    c.append(dict(claim="write", chart=dict(meta=m2, bpms=[], svs=[], hits=[], holds=[hold(0.6, 0.0), hold(0.5, 1.0)])))
    # sessions on one chart object: write, edit every list in place through its column properties, write again — the
    # second text must be the chart as it is then (a row cache kept by an earlier iteration would show the old one)
    E = lambda kind, lst, d=1000.25, **kw: dict(op="edit", kind=kind, lst=lst, d=d, i=1, **kw)
    W = lambda via="lines": dict(op="write", via=via)
    c.append(dict(claim="session", chart=chart, steps=[W(), E("col_add", "hits"), E("col_column", "hits"), E("col_add", "holds", -777.5),
                                                       E("col_scale", "holds"), E("col_scale", "bpms"), E("col_scale", "svs"),
                                                       E("col_add", "svs", 11.0), E("col_add", "samples", 3.0), W()]))
    c.append(dict(claim="session", chart=chart, steps=[dict(op="look", kind="iter"), E("stack_add", "hits", 250.0), W("file"),
                                                       E("df_loc", "hits"), E("df_iloc", "holds"), W("file"),
                                                       E("df_replace", "bpms", 0.5), E("list_sorted", "hits"), E("meta", "hits", key="version", val="v2"),
                                                       W()]))
    return c


# ------------------------------------------------------------------------------------------ validity (shrinker)

def _isnum(x):
    return isinstance(x, (int, float)) and not isinstance(x, bool) and math.isfinite(x)


def valid(case):
    try:
        cl = case["claim"]
        if cl == "coltable":
            return isinstance(case["k"], int) and 1 <= case["k"] <= 18
        if cl == "col":
            if not (isinstance(case["k"], int) and 1 <= case["k"] <= 18):
                return False
            if "x" in case:
                return isinstance(case["x"], int) and -10000 <= case["x"] <= 10000
            return isinstance(case["c"], int) and 0 <= case["c"] < case["k"]
        if cl == "lextable":
            return True
        if cl == "lex":
            return (isinstance(case["toks"], list) and 1 <= len(case["toks"]) <= 64
                    and all(isinstance(t, str) and len(t) <= 400 and "\n" not in t and "\r" not in t and "," not in t and ":" not in t
                            and all(ord(ch) <= 0xFFFF and not (0xD800 <= ord(ch) <= 0xDFFF) for ch in t) and _exp_ok(t)
                            for t in case["toks"]))
        if cl == "line":
            return isinstance(case["s"], str) and isinstance(case["k"], int) and 1 <= case["k"] <= 18 and _text_ok([case["s"]])
        if cl in ("read", "badtext"):
            if not (isinstance(case["lines"], list) and all(isinstance(l, str) for l in case["lines"]) and _text_ok(case["lines"])):
                return False
            return cl == "badtext" or dialect_ok(case["lines"])
        if cl == "session":
            if not (isinstance(case["steps"], list) and 1 <= len(case["steps"]) <= 40):
                return False
            for st in case["steps"]:
                if st.get("op") == "write":
                    if st.get("via") not in ("lines", "file"):
                        return False
                elif st.get("op") == "look":
                    if st.get("kind") not in LOOK_KINDS:
                        return False
                elif st.get("op") == "edit":
                    if st.get("kind") not in EDIT_KINDS or st.get("lst") not in LISTS or not _isnum(st.get("d")) \
                            or not (isinstance(st.get("i"), int) and 0 <= st["i"] <= 1000):
                        return False
                    if st["kind"] == "col_column" and st["lst"] not in ("hits", "holds"):
                        return False
                    if st["kind"] == "col_scale" and st["lst"] not in ("holds", "bpms", "svs"):
                        return False
                    if st["kind"] == "list_after" and (st["lst"] == "samples" or not _isnum(st.get("t"))):
                        return False
                    if st["kind"] == "stack_loc" and not _isnum(st.get("t")):
                        return False
                    if abs(st["d"]) > 1e6:
                        return False
                    if st["kind"] == "meta":
                        key, val = st.get("key"), st.get("val")
                        if key in ("title_unicode", "version", "creator"):
                            if not _str_ok(val):
                                return False
                        elif key == "preview_time" or key == "hp_drain_rate":
                            if not _isnum(val):
                                return False
                        elif key == "beatmap_id":
                            if not (isinstance(val, int) and not isinstance(val, bool)):
                                return False
                        elif key == "tags":
                            if not (isinstance(val, list) and all(_str_ok(t) and t and " " not in t for t in val)):
                                return False
                        else:
                            return False
                else:
                    return False
            if not any(st.get("op") == "write" for st in case["steps"]):
                return False
        if cl in ("write", "cycle", "session"):
            for o in case.get("history", []):
                if o.get("op") not in HISTORY_OPS:
                    return False
                if o["op"] == "rate" and o.get("by") not in (1.0, 2.0, 0.5, 1.25):
                    return False
                if o["op"] == "stack_loc" and o.get("col") not in ("column", "offset", "volume"):
                    return False
                if any(k in o and not _isnum(o[k]) for k in ("d", "t")):
                    return False
            return _chart_ok(case["chart"])
        return False
    except Exception:
        return False


REQ_HEADERS = ["[General]", "[Metadata]", "[Difficulty]", "[Events]", "[TimingPoints]", "[HitObjects]"]
OPT_HEADERS = ["[Editor]", "[Colours]"]
KV_HEADERS = ["[General]", "[Editor]", "[Metadata]", "[Difficulty]"]


def dialect_ok(lines):
    """the skeleton of a v14 mania file as osu! writes it: the required sections once each and in order, key lines
    (with a colon) only inside the key/value sections, the two event markers inside [Events] with the quoted background
    line right after the first and nothing but `Sample,` lines after the second.  The by-the-book denotation reads
    sections by their headers and the reader under test scans for keys and markers; only on this skeleton do the two
    have to coincide (shrunk replays stay inside it)."""
    st = [l.strip() for l in lines]
    heads = [l for l in st if l.startswith("[") and l.endswith("]")]
    if [h for h in heads if h in REQ_HEADERS] != REQ_HEADERS:
        return False
    if any(h not in REQ_HEADERS + OPT_HEADERS for h in heads) or len(set(heads)) != len(heads):
        return False
    sec = None
    bg_seen = smp_seen = False
    for i, l in enumerate(st):
        if l in heads:
            sec = l
            continue
        if l == "":
            continue
        if sec is None:
            if ":" in l:
                return False
            continue
        if sec in KV_HEADERS:
            if l.startswith("//") or ":" not in l:
                return False
        elif sec == "[Events]":
            if l == "//Background and Video events":
                if bg_seen or smp_seen or i + 1 >= len(st) or not st[i + 1].startswith('0,0,"') or st[i + 1].count('"') != 2:
                    return False
                bg_seen = True
            elif l == "//Storyboard Sound Samples":
                if smp_seen or not bg_seen:
                    return False
                smp_seen = True
            elif smp_seen and not l.startswith("Sample,"):
                return False
            elif l.startswith("Sample") and not smp_seen:
                return False
            elif ":" in l and not l.startswith("Sample,"):
                return False
    return bg_seen and smp_seen


def _text_ok(lines):
    for l in lines:
        if "\n" in l or any(ord(ch) > 0xFFFF for ch in l) or not _exp_ok(l):
            return False
        low = l.lower()
        if "inf" in low or "nan" in low:
            return False
    return True


def _str_ok(s, extra=""):
    return (isinstance(s, str) and s == s.strip() and "\n" not in s and "\r" not in s and all(ord(c) <= 0xFFFF for c in s)
            and not any(c in s for c in extra))


def _chart_ok(ch):
    m = ch["meta"]
    if set(m) != set(META_DEFAULT):
        return False
    k = m["circle_size"]
    if not (_isnum(k) and float(k) == int(k) and 1 <= int(k) <= 18):
        return False
    k = int(k)
    for key in STR_KEYS:
        if not _str_ok(m[key], '"' if key == "background_file_name" else ""):
            return False
    # a tag is one blank-free word; other white space *inside* it (U+2028, \\x1c …) is kept by `split(" ")`
    if not all(_str_ok(t) and t and " " not in t for t in m["tags"]):
        return False
    for key in NUM_KEYS:
        if not _isnum(m[key]):
            return False
    for key in G_INT_KEYS + INT_KEYS:
        if not (isinstance(m[key], int) and not isinstance(m[key], bool)):
            return False
    for key in BOOL_KEYS:
        if not isinstance(m[key], bool):
            return False
    for s in m["samples"]:
        if not (_isnum(s["offset"]) and _str_ok(s["sample_file"], ",") and isinstance(s["volume"], int)):
            return False
    for h in ch["hits"] + ch["holds"]:
        if not (_isnum(h["offset"]) and isinstance(h["column"], int) and 0 <= h["column"] < k
                and _str_ok(h["hitsound_file"], ",:")):
            return False
        for f in ("hitsound_set", "sample_set", "addition_set", "custom_set", "volume"):
            if not (isinstance(h[f], int) and not isinstance(h[f], bool)):
                return False
    for h in ch["holds"]:
        if not (_isnum(h["length"]) and h["length"] >= 0):
            return False
    for b in ch["bpms"]:
        if not (_isnum(b["offset"]) and _isnum(b["bpm"]) and b["bpm"] != 0 and _isnum(b["metronome"])
                and float(b["metronome"]) == int(b["metronome"]) and isinstance(b["kiai"], bool)):
            return False
    for b in ch["svs"]:
        if not (_isnum(b["offset"]) and _isnum(b["multiplier"]) and b["multiplier"] != 0 and isinstance(b["kiai"], bool)):
            return False
    for b in ch["bpms"] + ch["svs"]:
        for f in ("sample_set", "sample_set_index", "volume"):
            if not (isinstance(b[f], int) and not isinstance(b[f], bool)):
                return False
    return True


# ------------------------------------------------------------------------------------------ adapters

def build_map(ch):
    I = _imports()
    m = I["OsuMap"]()
    md = ch["meta"]
    for key, v in md.items():
        if key == "samples":
            m.samples = I["OsuSampleList"]([I["OsuSample"](float(s["offset"]), s["sample_file"], s["volume"]) for s in v])
        elif key == "tags":
            m.tags = list(v)
        else:
            setattr(m, key, v)
    # an offset given as a Python int stays an int (int-typed `offset` columns occur when every offset of a list is one)
    off = lambda v: v if isinstance(v, int) and not isinstance(v, bool) else float(v)
    m.hits = I["OsuHitList"]([I["OsuHit"](**dict(h, offset=off(h["offset"]))) for h in ch["hits"]])
    m.holds = I["OsuHoldList"]([I["OsuHold"](**dict(h, offset=off(h["offset"]), length=float(h["length"])))
                                for h in ch["holds"]])
    m.bpms = I["OsuBpmList"]([I["OsuBpm"](**dict(b, offset=off(b["offset"]), bpm=float(b["bpm"]))) for b in ch["bpms"]])
    m.svs = I["OsuSvList"]([I["OsuSv"](**dict(b, offset=off(b["offset"]), multiplier=float(b["multiplier"])))
                            for b in ch["svs"]])
    return m


HISTORY_OPS = ["stack_add", "stack_zero", "stack_loc", "rate", "deepcopy", "sort", "filter", "append", "via_qua", "via_sm"]


def gen_history(rng):
    """ordinary ways in which a chart reaches the state it is written from"""
    ops = []
    for _ in range(rng.choice([0, 1, 1, 2, 3])):
        op = rng.choice(HISTORY_OPS)
        if op == "stack_add":
            ops.append(dict(op=op, d=rng.choice([250.0, -100.0, 0.5, 1000.0])))
        elif op == "stack_loc":
            ops.append(dict(op=op, t=rng.choice([0.0, 1000.0, 50000.0]), col=rng.choice(["column", "offset", "volume"])))
        elif op == "rate":
            ops.append(dict(op=op, by=rng.choice([1.0, 2.0, 0.5, 1.25])))
        elif op == "filter":
            ops.append(dict(op=op, t=rng.choice([-10000.0, 0.0, 1000.0])))
        else:
            ops.append(dict(op=op))
    return ops


def apply_history(m, ops):
    """brings the implementation's chart into the state a user would write it from; returns (map, applied op names).
    Conversions that the library refuses for this key count are skipped."""
    I = _imports()
    done = []
    for o in ops:
        op = o["op"]
        try:
            if op == "stack_add":
                st = m.stack()
                st.offset += o["d"]
            elif op == "stack_zero":
                st = m.stack()
                st.offset += 0
            elif op == "stack_loc":
                st = m.stack()
                st.loc[st.offset > o["t"], o["col"]] += 0
            elif op == "rate":
                m = m.rate(o["by"])
            elif op == "deepcopy":
                m = m.deepcopy()
            elif op == "sort":
                m.hits = m.hits.sorted()
                m.holds = m.holds.sorted(reverse=True)
                m.bpms = m.bpms.sorted()
            elif op == "filter":
                m.hits = m.hits.after(o["t"], include_end=True)
                m.holds = m.holds.after(o["t"])
            elif op == "append":
                if len(m.hits) > 0:
                    m.hits = m.hits.append(m.hits[0:1])
                if len(m.svs) > 1:
                    m.svs = m.svs.append(m.svs[0], sort=True)
            elif op == "via_qua":
                from reamber.algorithms.convert.OsuToQua import OsuToQua
                from reamber.algorithms.convert.QuaToOsu import QuaToOsu
                m2 = QuaToOsu.convert(OsuToQua.convert(m))
                m = m2
            elif op == "via_sm":
                from reamber.algorithms.convert.OsuToSM import OsuToSM
                from reamber.algorithms.convert.SMToOsu import SMToOsu
                ms = SMToOsu.convert(OsuToSM.convert(m))
                if not ms:
                    continue
                m = ms[0]
            done.append(op)
        except Exception:
            if op in ("via_qua", "via_sm"):
                continue
            raise
    return m, done


INT_FIELDS = {"column", "hitsound_set", "sample_set", "addition_set", "custom_set", "volume", "sample_set_index"}


def normalise(ch):
    """the chart as *values*: a float-typed integer is that integer, an object-typed flag is that flag (the model works on
    values; how the implementation renders a float-typed column is exactly what the text comparison checks)"""
    def row(r):
        out = {}
        for k, v in r.items():
            if k in INT_FIELDS and isinstance(v, float) and math.isfinite(v) and v == int(v):
                v = int(v)
            elif k == "kiai":
                v = bool(v)
            out[k] = v
        return out
    md = dict(ch["meta"])
    md["samples"] = [row(r) for r in md["samples"]]
    for k in G_INT_KEYS + INT_KEYS:
        if isinstance(md[k], float) and md[k] == int(md[k]):
            md[k] = int(md[k])
    return dict(meta=md, bpms=[row(r) for r in ch["bpms"]], svs=[row(r) for r in ch["svs"]], hits=[row(r) for r in ch["hits"]],
                holds=[row(r) for r in ch["holds"]])


def _py(v):
    import numpy as np
    if isinstance(v, (np.bool_, bool)):
        return bool(v)
    if isinstance(v, np.integer):
        return int(v)
    if isinstance(v, np.floating):
        return float(v)
    return v


def _records(tl, fields):
    df = tl.df
    out = []
    for rec in df.to_dict("records"):
        out.append({f: _py(rec.get(f, "<missing column>")) for f in fields})
    return out


HIT_F = ["offset", "column", "hitsound_set", "sample_set", "addition_set", "custom_set", "volume", "hitsound_file"]
HOLD_F = HIT_F + ["length"]
BPM_F = ["offset", "bpm", "metronome", "sample_set", "sample_set_index", "volume", "kiai"]
SV_F = ["offset", "multiplier", "sample_set", "sample_set_index", "volume", "kiai"]
SMP_F = ["offset", "sample_file", "volume"]


def extract(m):
    """OsuMap -> plain chart (python numbers)"""
    md = {}
    for key in META_DEFAULT:
        if key == "samples":
            md[key] = _records(m.samples, SMP_F)
        elif key == "tags":
            md[key] = list(m.tags) if not isinstance(m.tags, str) else ([] if m.tags == "" else [m.tags])
        else:
            md[key] = _py(getattr(m, key))
    return dict(meta=md, bpms=_records(m.bpms, BPM_F), svs=_records(m.svs, SV_F), hits=_records(m.hits, HIT_F),
                holds=_records(m.holds, HOLD_F))


def chart_to_wire(ch, uni=False):
    """plain chart -> JSON for the driver (exact rationals)"""
    from unidecode import unidecode
    md = {}
    for key, v in ch["meta"].items():
        if key == "samples":
            md[key] = [dict(offset=R(float(s["offset"])), sample_file=s["sample_file"], volume=s["volume"]) for s in v]
        elif key in NUM_KEYS:
            md[key] = R(v)
        elif uni and key in ("title", "artist"):
            md[key] = unidecode(v)
        else:
            md[key] = v
    num = lambda d, keys: {k: (R(float(v)) if k in keys else v) for k, v in d.items()}
    return dict(meta=md, bpms=[num(b, ("offset", "bpm", "metronome")) for b in ch["bpms"]],
                svs=[num(b, ("offset", "multiplier")) for b in ch["svs"]],
                hits=[num(h, ("offset",)) for h in ch["hits"]],
                holds=[num(h, ("offset", "length")) for h in ch["holds"]])


# ------------------------------------------------------------------------------------------ comparison

def _F(q):
    return q if isinstance(q, Fr) else F(q)


class Cmp:
    def __init__(self):
        self.maxdev = 0.0
        self.why = []

    def exact_num(self, a, q, what):
        """implementation number vs exact rational: the implementation holds the nearest double"""
        q = _F(q)
        if isinstance(a, bool) or isinstance(a, int):
            ok = Fr(a) == q
        else:
            ok = math.isfinite(a) and a == float(q)
        if not ok:
            self.why.append(f"{what}: impl {a!r} vs {q}")
        return ok

    def near(self, a, q, what, scale=0):
        q = _F(q)
        if not math.isfinite(a):
            self.why.append(f"{what}: impl {a!r}")
            return False
        d = abs(Fr(a) - q)
        self.maxdev = max(self.maxdev, float(d))
        ok = d <= Fr(1, 2 ** 40) * (1 + max(abs(Fr(a)), abs(q), Fr(scale)))
        if not ok:
            self.why.append(f"{what}: impl {a!r} vs {float(q)!r}")
        return ok


EXACT_ROW = dict(hits=HIT_F, holds=[f for f in HOLD_F if f != "length"], bpms=[f for f in BPM_F if f != "bpm"],
                 svs=[f for f in SV_F if f != "multiplier"], samples=SMP_F)
NEAR_ROW = dict(hits=[], holds=["length"], bpms=["bpm"], svs=["multiplier"], samples=[])
NUMF = {"offset", "length", "bpm", "multiplier", "metronome"}


def _key_impl(kind, r):
    return tuple((f, (float(r[f]) + 0.0 if (f in NUMF and not isinstance(r[f], str)) else r[f])) for f in EXACT_ROW[kind])


def _key_lean(kind, r):
    return tuple((f, (float(F(r[f])) + 0.0 if f in NUMF else r[f])) for f in EXACT_ROW[kind])


def cmp_rows(c, kind, impl, lean, what):
    """multisets of rows: exact fields must coincide, derived fields within tolerance"""
    if len(impl) != len(lean):
        c.why.append(f"{what}.{kind}: {len(impl)} rows vs {len(lean)}")
        return False
    bi, bl = {}, {}
    for r in impl:
        bi.setdefault(repr(_key_impl(kind, r)), []).append(r)
    for r in lean:
        bl.setdefault(repr(_key_lean(kind, r)), []).append(r)
    if set(bi) != set(bl) or any(len(bi[k]) != len(bl[k]) for k in bi):
        only_i = sorted(set(bi) - set(bl))[:2]
        only_l = sorted(set(bl) - set(bi))[:2]
        c.why.append(f"{what}.{kind}: rows differ; impl-only {only_i} lean-only {only_l}")
        return False
    ok = True
    for k in bi:
        for f in NEAR_ROW[kind]:
            if any(isinstance(r[f], str) for r in bi[k]):
                c.why.append(f"{what}.{kind}.{f}: missing in the implementation's frame")
                ok = False
                continue
            a = sorted(float(r[f]) for r in bi[k])
            b = sorted((F(r[f]) for r in bl[k]))
            for x, y, r in zip(a, b, bi[k]):
                sc = abs(float(r["offset"])) if f == "length" else 0
                ok &= c.near(x, y, f"{what}.{kind}.{f}", scale=sc)
    return ok


def cmp_meta(c, impl, lean, what, near_keys=()):
    ok = True
    for key in META_DEFAULT:
        if key == "samples":
            ok &= cmp_rows(c, "samples", impl[key], lean[key], what)
        elif key in NUM_KEYS:
            if key in near_keys:
                ok &= c.near(float(impl[key]), lean[key], f"{what}.{key}")
            else:
                ok &= c.exact_num(impl[key], lean[key], f"{what}.{key}")
        else:
            if impl[key] != lean[key]:
                c.why.append(f"{what}.{key}: impl {impl[key]!r} vs {lean[key]!r}")
                ok = False
    return ok


def cmp_chart(c, impl, lean, what):
    ok = cmp_meta(c, impl["meta"], lean["meta"], what)
    for kind in ("bpms", "svs", "hits", "holds"):
        ok &= cmp_rows(c, kind, impl[kind], lean[kind], what)
    return ok


def render(tok_lines, ch=None):
    """instantiates the model's Render parameter with Python's own repr / unidecode.  `f"{x}"` of an int-typed timing
    offset is `str(int)` — the renderer of that value — which is what `ch` (the chart as the implementation holds it)
    is consulted for"""
    from unidecode import unidecode
    int_off = set()
    if ch is not None:
        start = next((i for i, l in enumerate(tok_lines) if l and l[0].get("s") == "\n[TimingPoints]"), None)
        if start is not None:
            rows = list(ch["bpms"]) + list(ch["svs"])
            for j, r in enumerate(rows):
                if isinstance(r["offset"], int) and not isinstance(r["offset"], bool):
                    int_off.add(start + 1 + j)
    out = []
    for li, line in enumerate(tok_lines):
        s = ""
        for ti, t in enumerate(line):
            if "s" in t:
                s += t["s"]
            elif "r" in t:
                q = F(t["r"])
                if li in int_off and ti == 0 and q.denominator == 1:
                    s += str(q.numerator)
                else:
                    s += repr(float(q))
            else:
                s += unidecode(t["u"])
        out.append(s)
    return out


def g_lossy(meta):
    """would ':g' (the format before the repair of D30) have lost this number?  (evidence tag only)"""
    for key in G_KEYS:
        v = meta[key]
        txt = format(v, "g")
        try:
            back = int(txt) if key in G_INT_KEYS else float(txt)
        except ValueError:
            return True
        if back != v:
            return True
    return False


# ------------------------------------------------------------------------------------------ run

def run(case, drv):
    return dict(col=run_col, coltable=run_coltable, line=run_line, read=run_read, badtext=run_badtext, write=run_write, cycle=run_cycle, session=run_session, lex=run_lex, lextable=run_lextable)[
        case["claim"]](case, drv)



def _py_num(fn, t):
    try:
        return ("ok", fn(t))
    except ValueError:
        return ("err", "value")
    except Exception as e:      # noqa
        return ("err", err_class(e))


def run_lex(case, drv):
    """Python's int() / float() — and the real reader's use of them (`OsuHit.read_string`: `float` of the time field, `int`
    of the hitsound field) — against the model's `readInt` / `readFloat` / `floatNonFinite`, token by token.  Where the
    model says `nonfinite` the code must return exactly that non-finite double (the documented point where model and code
    part ways: the model has rationals only); everywhere else results agree exactly (a finite literal: the correctly rounded
    double of the model's exact value; beyond the double range: +-inf)."""
    OsuHit = _imports()["OsuHit"]
    toks = case["toks"]
    res = drv.call("c01.lex", toks=toks)["ok"]
    why, tags = [], set()
    agree = True
    for t, m in zip(toks, res):
        pi, pf = _py_num(int, t), _py_num(float, t)
        # --- int
        if pi[0] == "ok":
            good = "ok" in m["int"] and int(F(m["int"]["ok"])) == pi[1]
        else:
            good = m["int"].get("err") == pi[1]
        # --- float
        want_nf = None
        if pf[0] == "ok" and not math.isfinite(pf[1]):
            want_nf = "nan" if math.isnan(pf[1]) else ("inf" if pf[1] > 0 else "-inf")
        if pf[0] == "err":
            goodf = m["float"].get("err") == pf[1] and m["nonfinite"] is None
        elif "ok" in m["float"]:
            q = F(m["float"]["ok"])
            try:
                d = float(q)
            except OverflowError:
                d = math.inf if q > 0 else -math.inf
            goodf = m["nonfinite"] is None and (d == pf[1]) and (math.copysign(1, d) == math.copysign(1, pf[1]) or d == 0)
            if not math.isfinite(d):
                tags.add("beyond-double-range")
        else:
            # the model rejects, Python accepts: allowed exactly on the non-finite tokens
            goodf = want_nf is not None and m["nonfinite"] == want_nf and m["float"].get("err") == "value"
            tags.add("nonfinite-token")
        # --- the real reader on a line that carries the token in its time field and in its hitsound field
        line_f = f"64,192,{t},1,0,0:0:0:0:"
        line_i = f"64,192,0,1,{t},0:0:0:0:"
        for line, kind, py in ((line_f, "float", pf), (line_i, "int", pi)):
            try:
                d_ = OsuHit.read_string(line, 4, True)
                got = ("ok", float(d_["offset"]) if kind == "float" else int(d_["hitsound_set"]))
            except Exception as e:
                got = ("err", err_class(e))
            same = got[0] == py[0] and (got[1] == py[1] or (got[0] == "ok" and kind == "float" and math.isnan(got[1]) and math.isnan(py[1])))
            if not same:
                good = False
                why.append(f"reader on {line!r}: {got} but {kind}() gives {py}")
        if not (good and goodf):
            agree = False
            why.append(f"token {t!r}: int() {pi} model {m['int']}; float() {pf} model {m['float']} nonfinite={m['nonfinite']}")
        tags.add("int-" + pi[0]); tags.add("float-" + pf[0])
        if "_" in t: tags.add("underscore")
        if any(ord(ch) > 127 and ch.isdigit() for ch in t): tags.add("unicode-digit")
        if any(0x1c <= ord(ch) <= 0x1f for ch in t): tags.add("sep-1c-1f")
    return dict(claim="lex", ok=True, agree=agree, dom=False, tags=sorted(tags), nontrivial=True,
                detail={} if agree else dict(why=why[:6]))


def run_lextable(case, drv):
    """the two tables inside the number reader, compared exhaustively with the running interpreter: the runs of Unicode
    decimal digits (`unicodedata`, category Nd) and the white space of `str.strip()` (`str.isspace`)"""
    import unicodedata
    tb = drv.call("c01.lex_tables")["ok"]
    zeros = []
    okv = True
    for cp in range(0x110000):
        ch = chr(cp)
        if unicodedata.category(ch) == "Nd":
            z = cp - unicodedata.decimal(ch)
            if z not in zeros:
                zeros.append(z)
    ws = [cp for cp in range(0x110000) if not (0xD800 <= cp <= 0xDFFF) and chr(cp).isspace()]
    why = []
    if sorted(tb["dec_zeros"]) != sorted(zeros):
        why.append(f"decimal digit runs differ: model-only {sorted(set(tb['dec_zeros']) - set(zeros))[:5]} python-only {sorted(set(zeros) - set(tb['dec_zeros']))[:5]}")
    if tb["ws"] != ws:
        why.append(f"white space differs: model {tb['ws'][:40]} python {ws[:40]}")
    # every digit of every run has the value the model assigns
    for z in zeros:
        for i in range(10):
            if unicodedata.decimal(chr(z + i), None) != i:
                why.append(f"run {hex(z)} is not ten consecutive digits")
                break
    agree = not why
    return dict(claim="lextable", ok=True, agree=agree, dom=False, tags=["unicode-" + unicodedata.unidata_version], nontrivial=True,
                detail={} if agree else dict(why=why[:4]))


def run_col(case, drv):
    NM = _imports()["OsuNoteMeta"]
    k = case["k"]
    if "x" in case:
        x = case["x"]
        impl = int(NM.x_axis_to_column(x, k))
        m = drv.call("c01.x_to_col", x=x, k=k)["ok"]
        agree = impl == m["model"]
        inside = 0 <= x < 512
        ok = drv.call("c01.is_column", x=x, k=k, c=impl)["ok"] if inside else (0 <= impl < k)
        detail = {} if (ok and agree) else dict(x=x, k=k, impl=impl, lean=m)
        return dict(claim="col", ok=ok, agree=agree, dom=True, tags=["x->col", "inside" if inside else "outside"],
                    nontrivial=x != (512 * impl + 256) // k, detail=detail)
    c = case["c"]
    impl = int(NM.column_to_x_axis(c, k))
    m = drv.call("c01.col_to_x", c=c, k=k)["ok"]
    back = int(NM.x_axis_to_column(impl, k))
    ok = back == c and drv.call("c01.is_column", x=impl, k=k, c=c)["ok"]
    agree = impl == m
    return dict(claim="col", ok=ok, agree=agree, dom=True, tags=["col->x"], nontrivial=True,
                detail={} if ok and agree else dict(c=c, k=k, impl=impl, model=m, back=back))


def run_coltable(case, drv):
    NM = _imports()["OsuNoteMeta"]
    k = case["k"]
    t = drv.call("c01.col_table", k=k)["ok"]
    bad_m, bad_s = [], []
    for x in range(512):
        i = int(NM.x_axis_to_column(x, k))
        if i != t["x_to_col"][x]:
            bad_m.append((x, i, t["x_to_col"][x]))
        if i != t["spec"][x]:
            bad_s.append((x, i, t["spec"][x]))
    for c_ in range(k):
        xx = int(NM.column_to_x_axis(c_, k))
        if xx != t["col_to_x"][c_]:
            bad_m.append(("c", c_, xx, t["col_to_x"][c_]))
        if not (0 <= xx < 512) or t["spec"][xx] != c_ or int(NM.x_axis_to_column(xx, k)) != c_:
            bad_s.append(("c", c_, xx))
    return dict(claim="coltable", ok=not bad_s, agree=not bad_m, dom=True, tags=["K%d" % k, "exhaustive"], nontrivial=True,
                detail={} if not (bad_m or bad_s) else dict(k=k, vs_model=bad_m[:5], vs_spec=bad_s[:5]))


READERS = dict(hit=("OsuHit", "c01.read_hit", "hits"), hold=("OsuHold", "c01.read_hold", "holds"), bpm=("OsuBpm", "c01.read_bpm", "bpms"),
               sv=("OsuSv", "c01.read_sv", "svs"), sample=("OsuSample", "c01.read_sample", "samples"))


def run_line(case, drv):
    I = _imports()
    kind, s, k = case["kind"], case["s"], case["k"]
    cls, op, rk = READERS[kind]
    try:
        if kind in ("hit", "hold"):
            d = I[cls].read_string(s, k, True)
        else:
            d = I[cls].read_string(s, True)
        impl = ("ok", {a: _py(b) for a, b in d.items()})
    except Exception as e:
        impl = ("err", err_class(e))
    m = drv.call(op, s=s, k=k) if kind in ("hit", "hold") else drv.call(op, s=s)
    c = Cmp()
    if impl[0] == "err":
        agree = m.get("err") == impl[1]
    elif "ok" not in m:
        agree = False
    else:
        row = dict(impl[1])
        agree = cmp_rows(c, rk, [row], [{f: m["ok"][f] for f in row}], "line")
    # specification: for a line of the dialect the by-the-book reading must coincide
    cl = drv.call("c01.classify", s=s)["ok"]
    ok, dom = True, False
    if kind in ("hit", "hold") and cl["wf_obj"]:
        sp = drv.call("c01.denote_obj", s=s, k=k)
        if "ok" in sp and sp["ok"] is not None:
            dom = True
            want_kind = "hit" if "hit" in sp["ok"] else "hold"
            if want_kind == kind:
                srow = sp["ok"][want_kind]
                ok = impl[0] == "ok" and cmp_rows(c, rk, [impl[1]], [{f: srow[f] for f in impl[1]}], "spec")
                x = int(s.split(",")[0])
                if not (0 <= x < 512):
                    dom = False
    elif kind in ("bpm", "sv") and cl["wf_timing"]:
        sp = drv.call("c01.denote_timing", s=s)
        if "ok" in sp and sp["ok"] is not None and kind in sp["ok"]:
            dom = True
            srow = sp["ok"][kind]
            ok = impl[0] == "ok" and cmp_rows(c, rk, [impl[1]], [{f: srow[f] for f in impl[1]}], "spec")
    detail = {} if (ok and agree) else dict(impl=impl, model=m, why=c.why[:6])
    return dict(claim="line", ok=ok, agree=agree, dom=dom, tags=[kind, impl[0]] + ([impl[1]] if impl[0] == "err" else []),
                nontrivial=True, maxdev=c.maxdev, detail=detail)


def _tmp_path():
    import tempfile
    fd, path = tempfile.mkstemp(prefix="c01-", suffix=".osu", dir="/tmp")
    os.close(fd)
    return path


def _impl_read(lines):
    OsuMap = _imports()["OsuMap"]
    try:
        return ("ok", extract(OsuMap.read(list(lines))))
    except Exception as e:
        return ("err", err_class(e))


def _impl_read_text(text):
    """OsuMap.read_file on a file that holds exactly `text` (utf-8, no newline translation on our side)"""
    OsuMap = _imports()["OsuMap"]
    path = _tmp_path()
    try:
        with open(path, "w", encoding="utf8", newline="") as f:
            f.write(text)
        try:
            return ("ok", extract(OsuMap.read_file(path)))
        except Exception as e:
            return ("err", err_class(e))
    finally:
        os.remove(path)


def D44(meta):
    """predicate of the known finding D44: unidecode turns U+2028 / U+2029 of title / artist into line breaks"""
    from unidecode import unidecode
    return any("\n" in unidecode(meta[k]) or "\r" in unidecode(meta[k]) for k in ("title", "artist"))


def run_read(case, drv):
    lines = case["lines"]
    via = case.get("via", "lines")
    if via == "file":
        # the FILE entry point: the text on disk is "\n".join(lines); the model says what lines read_file sees
        text = "\n".join(lines)
        impl = _impl_read_text(text)
        lines = drv.call("c01.file_lines", text=text)["ok"]
    else:
        impl = _impl_read(lines)
    m = drv.call("c01.read", lines=lines)
    sp = drv.call("c01.denote", lines=lines)
    wf = drv.call("c01.wf", lines=lines)["ok"]
    stripped = [l.strip() for l in lines]
    # a file of the dialect has both sections (the reader documents that it raises otherwise; the suite pins it)
    dom = "ok" in sp and wf["timing"] and wf["objects"] and dialect_ok(lines)
    c, cs = Cmp(), Cmp()
    if impl[0] == "err":
        agree = m.get("err") == impl[1]
        # a text of the dialect must be readable.  The by-the-book denotation skips lines it cannot place (a short
        # `Sample,` event, a marker without a following line), so "of the dialect" also asks that the modelled reader
        # accepts the text: where model and code raise the same class, the error branch is covered by (C) alone.
        ok = not (dom and "ok" in m)
        dom = dom and "ok" in m
        tags = ["impl-raises", impl[1]]
    else:
        agree = "ok" in m and cmp_chart(c, impl[1], m["ok"], "model")
        ok = True
        if dom:
            ok = cmp_chart(cs, impl[1], sp["ok"], "spec")
        tags = ["ok"]
    tags.append("via-" + via)
    if any(ch in l for l in lines for ch in ODD):
        tags.append("odd-chars")
    n = 0
    if impl[0] == "ok":
        n = len(impl[1]["hits"]) + len(impl[1]["holds"]) + len(impl[1]["bpms"]) + len(impl[1]["svs"])
        tags.append("n%d" % min(3, n))
        tags.append("K%d" % int(impl[1]["meta"]["circle_size"]))
    detail = {} if (ok and agree) else dict(impl=impl if impl[0] == "err" else "ok", model_err=m.get("err"), spec_err=sp.get("err"),
                                            why_model=c.why[:6], why_spec=cs.why[:6])
    return dict(claim="read", ok=ok, agree=agree, dom=dom, tags=tags, nontrivial=n > 0, maxdev=max(c.maxdev, cs.maxdev),
                detail=detail)


def run_badtext(case, drv):
    lines = case["lines"]
    impl = _impl_read(lines)
    m = drv.call("c01.read", lines=lines)
    c = Cmp()
    if impl[0] == "err":
        agree = m.get("err") == impl[1]
    else:
        agree = "ok" in m and cmp_chart(c, impl[1], m["ok"], "model")
    detail = {} if agree else dict(impl=impl if impl[0] == "err" else "ok", model_err=m.get("err"), why=c.why[:6])
    return dict(claim="badtext", ok=True, agree=agree, dom=False, tags=[impl[0]] + ([impl[1]] if impl[0] == "err" else []),
                nontrivial=True, detail=detail)


def _adjust_boundary(ch):
    """DESIGN §3 discontinuity rule for int(offset + length): when the exact sum lies within 2^-40 (relative) of an
    integer and the double sum truncates differently, the model is fed the double sum (either side is accepted)"""
    boundary = False
    out = dict(ch, holds=[dict(h) for h in ch["holds"]])
    for h in out["holds"]:
        o, l = float(h["offset"]), float(h["length"])
        ex = Fr(o) + Fr(l)
        fl = o + l
        if math.trunc(ex) != int(fl):
            near = abs(ex - round(ex)) <= Fr(1, 2 ** 40) * (1 + abs(ex))
            if near:
                boundary = True
                h["_length_exact"] = Fr(fl) - Fr(o)
    return out, boundary


def _wire_with_boundary(ch, uni):
    adj, boundary = _adjust_boundary(ch)
    w = chart_to_wire(dict(adj, holds=[{k: v for k, v in h.items() if k != "_length_exact"} for h in adj["holds"]]), uni=uni)
    for hw, h in zip(w["holds"], adj["holds"]):
        if "_length_exact" in h:
            hw["length"] = R(h["_length_exact"])
    return w, boundary


def _check_numbers(ch):
    """the Render assumption float(repr(x)) == x, asserted on every float of the chart"""
    for kind in ("bpms", "svs"):
        for r in ch[kind]:
            for f in ("offset",):
                x = float(r[f])
                if float(repr(x)) != x:
                    return False
    return True


def _impl_write_text(m, via):
    """the text the implementation produces: "\n".join(write()) or, through the file entry point, what write_file
    leaves on disk"""
    if via == "file":
        path = _tmp_path()
        try:
            m.write_file(path)
            with open(path, "r", encoding="utf8", newline="") as f:
                return f.read()
        finally:
            os.remove(path)
    return "\n".join(str(l) for l in m.write())


def run_write(case, drv, cycle=False):
    OsuMap = _imports()["OsuMap"]
    ch = case["chart"]
    via = case.get("via", "lines")
    c_w, c_s, c_r = Cmp(), Cmp(), Cmp()
    tags = ["via-" + via]
    hist = case.get("history", [])
    try:
        m = build_map(ch)
        if hist:
            m, done = apply_history(m, hist)
            eff = normalise(extract(m))
            if _chart_ok(eff):
                ch = eff
                tags += ["h-" + o for o in done]
            else:
                # the history left the domain of the property (e.g. a converter changed the key count to an unsupported
                # one): write the chart as built
                m = build_map(ch)
                tags.append("history-dropped")
        else:
            ch = normalise(extract(m))
        dt = m.hits.df.dtypes.to_dict()
        if len(m.hits) and str(dt.get("column")) == "float64":
            tags.append("float-column")
        if len(m.bpms) and str(m.bpms.df["offset"].dtype).startswith("int"):
            tags.append("int-offset")
        impl_text = _impl_write_text(m, via)
        impl = ("ok", impl_text)
    except Exception as e:
        impl = ("err", err_class(e))
    wire, boundary = _wire_with_boundary(ch, uni=False)
    model_text = "\n".join(render(drv.call("c01.write", chart=wire)["ok"], ch))
    lossy = g_lossy(ch["meta"])
    d102 = D44(ch["meta"])
    if impl[0] == "err":
        return dict(claim=case["claim"], ok=False, agree=False, dom=True, tags=["write-raises", impl[1]], nontrivial=True,
                    detail=dict(impl=impl))
    agree = impl_text == model_text
    if not agree:
        il, ml = impl_text.split("\n"), model_text.split("\n")
        for a, b in zip(il, ml):
            if a != b:
                c_w.why.append(f"line impl {a!r} vs model {b!r}")
                break
        if len(il) != len(ml):
            c_w.why.append(f"{len(il)} lines vs {len(ml)}")
    # (S) the text is well formed and denotes the quantized chart
    if via == "file":
        file_lines = drv.call("c01.file_lines", text=impl_text)["ok"]
    else:
        file_lines = impl_text.split("\n")
    wire_u, _ = _wire_with_boundary(ch, uni=True)
    q = drv.call("c01.quantize", chart=wire_u)["ok"]
    sp = drv.call("c01.denote", lines=file_lines)
    wf = drv.call("c01.wf", lines=file_lines)["ok"]
    ok = True
    if "ok" not in sp or not (wf["timing"] and wf["objects"]):
        ok = False
        c_s.why.append(f"written text is not well formed / not denotable: {sp.get('err')} {wf}")
    else:
        ok &= cmp_lean_charts(c_s, sp["ok"], q, "denote(write) vs quantize")
    # (S) reading what was written — through the same entry point
    back = _impl_read_text(impl_text) if via == "file" else _impl_read(file_lines)
    if back[0] == "err":
        ok = False
        c_r.why.append(f"reading the written text raises {back[1]}")
    else:
        ok &= cmp_chart_q(c_r, back[1], q, "read(write) vs quantize")
    # (S) times moved by less than 1 ms, columns kept
    if ok and back[0] == "ok":
        ok &= moved_less_than_1ms(c_r, ch, back[1])
    kf = "D44" if (not ok and d102) else None
    n = len(ch["hits"]) + len(ch["holds"]) + len(ch["bpms"]) + len(ch["svs"])
    tags += ["K%d" % int(ch["meta"]["circle_size"]), "n%d" % min(3, n)] + (["g-lossy"] if lossy else [])
    if any(o in impl_text for o in ODD):
        tags.append("odd-chars")
    res = dict(claim=case["claim"], ok=ok, agree=agree, dom=not d102, kf=kf, tags=tags, nontrivial=n > 0, boundary=boundary,
               maxdev=max(c_s.maxdev, c_r.maxdev),
               detail={} if (ok and agree) else dict(why_write=c_w.why[:4], why_spec=c_s.why[:6], why_read=c_r.why[:6]))
    if cycle:
        res["_text"] = impl_text
        res["_back"] = back
    return res



def _judge_written(drv, ch, impl_text, via):
    """the judgement of ONE written text against the chart content `ch` it was written from (the same three oracles as
    `run_write`): (C) the text equals the model's text character by character; (S) the text is well formed and the Lean
    `denote` of it equals the Lean `quantize` of `ch`, the implementation reads it back as `quantize ch`, and every note
    has a counterpart less than 1 ms away"""
    c_w, c_s, c_r = Cmp(), Cmp(), Cmp()
    wire, boundary = _wire_with_boundary(ch, uni=False)
    model_text = "\n".join(render(drv.call("c01.write", chart=wire)["ok"], ch))
    agree = impl_text == model_text
    if not agree:
        il, ml = impl_text.split("\n"), model_text.split("\n")
        for a, b in zip(il, ml):
            if a != b:
                c_w.why.append(f"line impl {a!r} vs model {b!r}")
                break
        if len(il) != len(ml):
            c_w.why.append(f"{len(il)} lines vs {len(ml)}")
    file_lines = drv.call("c01.file_lines", text=impl_text)["ok"] if via == "file" else impl_text.split("\n")
    wire_u, _ = _wire_with_boundary(ch, uni=True)
    q = drv.call("c01.quantize", chart=wire_u)["ok"]
    sp = drv.call("c01.denote", lines=file_lines)
    wf = drv.call("c01.wf", lines=file_lines)["ok"]
    ok = True
    if "ok" not in sp or not (wf["timing"] and wf["objects"]):
        ok = False
        c_s.why.append(f"written text is not well formed / not denotable: {sp.get('err')} {wf}")
    else:
        ok &= cmp_lean_charts(c_s, sp["ok"], q, "denote(write) vs quantize(current chart)")
    back = _impl_read_text(impl_text) if via == "file" else _impl_read(file_lines)
    if back[0] == "err":
        ok = False
        c_r.why.append(f"reading the written text raises {back[1]}")
    else:
        ok &= cmp_chart_q(c_r, back[1], q, "read(write) vs quantize(current chart)")
    if ok and back[0] == "ok":
        ok &= moved_less_than_1ms(c_r, ch, back[1])
    return dict(ok=ok, agree=agree, boundary=boundary, maxdev=max(c_s.maxdev, c_r.maxdev),
                why=dict(why_write=c_w.why[:4], why_spec=c_s.why[:6], why_read=c_r.why[:6]))


def run_session(case, drv):
    """WHAT IS WRITTEN DEPENDS ON THE CHART'S CURRENT CONTENT, NOT ON WHAT AN EARLIER CALL SAW: one chart object is written
    2-4 times (write() / write_file()), edited in between through every public editing route (list-property columns in
    place, Stacker, df.loc / df.iloc, a replaced df, replaced lists, metadata attributes) and looked at (iteration, indexing);
    every written text is judged against the content the object has at that moment, read through the plain column API
    (`tl.df.to_dict`, never through iteration)."""
    ch0 = case["chart"]
    hist = case.get("history", [])
    tags, writes = [], 0
    ok = agree = True
    boundary = False
    maxdev = 0.0
    detail = {}
    d44 = False
    try:
        m = build_map(ch0)
        if hist:
            m, done = apply_history(m, hist)
            if _chart_ok(normalise(extract(m))):
                tags += ["h-" + o for o in done]
            else:
                m = build_map(ch0)
                tags.append("history-dropped")
        k = int(m.circle_size)
        edits_since_write = 0
        for ix, st in enumerate(case["steps"]):
            if st["op"] == "look":
                apply_look(m, st["kind"])
                tags.append("look-" + st["kind"])
            elif st["op"] == "edit":
                apply_edit(m, st, k)
                edits_since_write += 1
                tags.append("e-" + st["kind"])
            else:
                cur = normalise(extract(m))
                if not _chart_ok(cur):
                    # only when the generated chart itself is outside the domain (the D44 witness title ends in U+2028): the edits keep the domain
                    return dict(claim="session", ok=True, agree=True, dom=False, tags=tags + ["left-domain"], nontrivial=False)
                d44 = d44 or D44(cur["meta"])
                text = _impl_write_text(m, st["via"])
                j = _judge_written(drv, cur, text, st["via"])
                writes += 1
                if writes > 1 and edits_since_write:
                    tags.append("write-after-edit")
                edits_since_write = 0
                boundary = boundary or j["boundary"]
                maxdev = max(maxdev, j["maxdev"])
                if not (j["ok"] and j["agree"]):
                    ok, agree = ok and j["ok"], agree and j["agree"]
                    detail = dict(step=ix, write_no=writes, **j["why"])
                    break
    except Exception as e:
        return dict(claim="session", ok=False, agree=False, dom=True, tags=tags + ["session-raises", err_class(e)], nontrivial=True,
                    detail=dict(err=f"{type(e).__name__}: {e}"))
    kf = "D44" if (not ok and d44) else None
    return dict(claim="session", ok=ok, agree=agree, dom=not d44, kf=kf, tags=sorted(set(tags)) + ["writes%d" % writes],
                nontrivial=writes > 1, boundary=boundary, maxdev=maxdev, detail=detail)


def cmp_lean_charts(c, a, b, what):
    """two charts from the driver (exact rationals): equal up to row order; bpm/SV values within tolerance
    (the written code is a rounded double)"""
    ai = lean_to_plain(a)
    return cmp_chart_q(c, ai, b, what)


def lean_to_plain(a):
    def row(r):
        return {k: (float(F(v)) if k in NUMF else v) for k, v in r.items()}
    md = {}
    for k, v in a["meta"].items():
        if k == "samples":
            md[k] = [row(r) for r in v]
        elif k in NUM_KEYS:
            md[k] = float(F(v))
        else:
            md[k] = v
    return dict(meta=md, bpms=[row(r) for r in a["bpms"]], svs=[row(r) for r in a["svs"]], hits=[row(r) for r in a["hits"]],
                holds=[row(r) for r in a["holds"]])


def cmp_chart_q(c, impl, q, what):
    ok = cmp_meta(c, impl["meta"], q["meta"], what)
    for kind in ("bpms", "svs", "hits", "holds"):
        ok &= cmp_rows(c, kind, impl[kind], q[kind], what)
    return ok


def moved_less_than_1ms(c, ch, back):
    """there is a one-to-one pairing of the original notes with the notes read back such that partners share the column
    (and hitsound file / volume) and every time (hold: both ends) moved by less than 1 ms — exact bipartite matching
    (Kuhn's augmenting paths) inside each (column, file, volume) bucket"""
    import sys
    sys.setrecursionlimit(max(10000, sys.getrecursionlimit()))
    ok = True
    for kind in ("hits", "holds"):
        pool, orig = {}, {}
        for r in back[kind]:
            pool.setdefault((r["column"], r["hitsound_file"], r["volume"]), []).append(r)
        for h in ch[kind]:
            orig.setdefault((h["column"], h["hitsound_file"], h["volume"]), []).append(h)
        for key, hs in orig.items():
            rs = pool.get(key, [])

            def compatible(h, r):
                if abs(Fr(r["offset"]) - Fr(float(h["offset"]))) >= 1:
                    return False
                if kind == "holds":
                    e0 = Fr(float(h["offset"])) + Fr(float(h["length"]))
                    e1 = Fr(r["offset"]) + Fr(r["length"])
                    if abs(e1 - e0) >= 1 + Fr(1, 2 ** 30):
                        return False
                return True
            adj = [[j for j, r in enumerate(rs) if compatible(h, r)] for h in hs]
            match_r = [-1] * len(rs)

            def try_aug(i, seen):
                for j in adj[i]:
                    if j in seen:
                        continue
                    seen.add(j)
                    if match_r[j] < 0 or try_aug(match_r[j], seen):
                        match_r[j] = i
                        return True
                return False
            for i, h in enumerate(hs):
                if not try_aug(i, set()):
                    c.why.append(f"{kind}: no counterpart within 1 ms for {h}")
                    ok = False
                    break
    return ok


def run_cycle(case, drv):
    OsuMap = _imports()["OsuMap"]
    via = case.get("via", "lines")
    first = run_write(dict(case, claim="cycle"), drv, cycle=True)
    text1, back1 = first.pop("_text", None), first.pop("_back", None)
    if not first["ok"] or not first["agree"] or back1 is None or back1[0] != "ok":
        return first
    c = Cmp()
    ok = True
    texts = [text1]
    gen1 = back1[1]
    cur = text1
    path = _tmp_path()
    try:
        for g in range(2, 5):
            if via == "file":
                with open(path, "w", encoding="utf8", newline="") as f:
                    f.write(cur)
                m = OsuMap.read_file(path)
                m.write_file(path)
                with open(path, "r", encoding="utf8", newline="") as f:
                    cur = f.read()
                chart_g = extract(OsuMap.read_file(path))
            else:
                m = OsuMap.read(cur.split("\n"))
                cur = "\n".join(str(l) for l in m.write())
                chart_g = extract(OsuMap.read(cur.split("\n")))
            texts.append(cur)
            okg = cmp_plain(c, chart_g, gen1, f"generation {g} vs 1")
            ok &= okg
    except Exception as e:
        ok = False
        c.why.append(f"generation raises {type(e).__name__}: {e}")
    finally:
        if os.path.exists(path):
            os.remove(path)
    if ok:
        # no drift in the text either (timing lines carry a recomputed double, compared through the charts above)
        def strip_tp(t):
            ls = t.split("\n")
            i, j = ls.index("[TimingPoints]"), ls.index("[HitObjects]")
            return ls[:i] + ls[j:]
        if strip_tp(texts[2]) != strip_tp(texts[1]):
            ok = False
            c.why.append("text of generation 3 differs from generation 2")
    first["ok"] = ok
    if not ok:
        first["kf"] = None
        first["detail"] = dict(why=c.why[:6])
    first["tags"] = first.get("tags", []) + ["cycle"]
    return first


def cmp_plain(c, a, b, what):
    """two charts extracted from the implementation"""
    bw = chart_to_wire(b)
    return cmp_chart_q(c, a, bw, what)


def evidence_extra(tier):
    return dict(exhaustive_subclaim="claim `coltable` (first 18 cases of every run): x->column for K in 1..18 and all x in 0..511, "
                                    "column->x->column for all K, c — compared with the model and with the search-based specification")
