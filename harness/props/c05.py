"""C05 — BMS writing.

Correspondence: `BMSMap.write(layout, no_sample_default)` (bytes split on CRLF) against `Reamber.BMS.write`
(Model/BMS.lean: K1 `snaps`, `den = beat.den·4`, `findLcm(dens, 100)` per (measure, channel), slot fill, base-36
ids, `#BPMxx` with three decimals, header lines).  Specification: `Reamber.BMS.denote` (Spec/BMS.lean, the same
definition C04 uses) applied to the *implementation's* bytes, compared with the in-memory chart: one object per
hit / a head+LNOBJ pair per hold in the right lane at the in-memory time (exactly on the snap grid, within 1/192
beat otherwise), tempo objects reproducing the tempo timeline, nothing merged or dropped, every data line valid
(`Spec.BMS.lineValid`).  The in-memory numbers are doubles; the model gets their exact values.
"""
from fractions import Fraction as Fr

from lib.rat import R, F, close, dev

ID = "C05"
QUICK_N = 1200
THOROUGH_N = 12000
QUICK_BUDGET_S = 80
THOROUGH_BUDGET_S = 900
RULE = ("in-memory charts over the five layouts: 1-8 (rarely up to 1294) 4/4 tempo points on measure lines (exactly "
        "representable tempos, 3-decimal tempos, arbitrary doubles, 100/3; list order sorted or shuffled; first offset 0 "
        "or not), 0-14 hits and 0-6 holds in the layout's columns at on-grid (divisions 1-96) and off-grid times, known / "
        "unknown / empty samples, LNOBJ ids, misc headers; every list (tempo, hits, holds) built either directly or through a "
        "history of public operations that leaves non-default pandas row labels (rows handed over out of order + .sorted(), "
        ".append(sort=True), .after() / boolean mask removing rows, concat with kept labels) and optionally a map-level "
        "stacker operation (rate(1.0), stack().offset += 0); the model is given the rows in row order; each case runs a script on ONE chart object: write / write_file (bytes "
        "read back from disk), the same object written twice, or write -> in-place edit through the list property setters "
        "(hits.offset, hits.column, bpms.bpm, holds.length, holds.offset, map.bpms) -> write again; every write is judged "
        "against the chart as it is at that moment and the chart is snapshotted (rows, labels, columns, header, tables) around "
        "every write: a writer must not modify it; the layout handed to write is one of the five module tables, or a dict "
        "built on the spot for every write (a copy of a table; a table with an extra lane, without one lane, with two lanes "
        "swapped, in another key order) right after another chart was written with a temporary dict of another table, or ONE "
        "caller-owned dict used for all writes of the script and edited in place between two writes (lane added / removed / two "
        "lanes swapped): model and by-the-book denotation are given the layout as it is at that write, and the writer must not "
        "modify the dict; long charts: a first tempo segment of 985-1000 measures at a high tempo with objects and tempo points "
        "in measures 988-999 (and, outside the domain: D36, in measures >= 1000); HOW THE CHART IS OBTAINED: half of the cases "
        "hand the writer a chart that did not come from the constructors — the chart built in memory is written once with a SOURCE "
        "layout (any of the five) and read back through BMSMap.read / BMSMap.read_file with that layout passed by position, by "
        "keyword or (BME) left to the default argument, or its rows are put into an osu!/Quaver chart and converted with "
        "OsuToBMS / QuaToBMS; then optionally deep-copied, rated (1.0, 2.0, 0.5), edited (hits shifted, title / play level renamed, "
        "lists replaced by copies); the chart that results — rows, header fields, sample table, other keys as they are on the object "
        "— is what model and judge are given; EVERY WRITE NAMES ITS LAYOUT: each write / write_file of the script has its own layout "
        "(any of the five, columns drawn from the lanes common to all layouts involved) handed over by position, by keyword or "
        "(BME table) by the default argument, several writes of one object with different layouts in a row; the written bytes are "
        "judged under the layout in force at THAT write; beyond objects and tempo the judge demands that an object whose in-memory "
        "sample is a file of the chart's #WAV table is denoted with exactly that sample, and that the file's title / artist / play "
        "level are the in-memory ones (D46 when the chart's other keys shadow them); non-trivial = at least 2 tempo points with an "
        "object after the second, or an off-grid object, or a hold")
ASSUMPTIONS = [
    "pandas row LABELS are outside the model (the writer model sees rows by position); they are exercised by the harness: "
    "lists are built through histories that permute, drop and duplicate labels, and the written bytes are judged by the "
    "by-the-book denotation",
    "str(float) of the #BPM header is not modelled character by character: the model writes the exact decimal expansion, "
    "the harness compares the numbers",
    "pandas groupby/sort_values/iterrows are modelled as list operations; row order inside one (measure, channel, den) "
    "group is unspecified (numpy quicksort) and only matters for colliding objects, which the property excludes",
]
ASSUMPTIONS += [
    "a 'hold' whose tail is not after its head (the library's reader makes one from a text whose head and marker sit on split "
    "lines: D05) is outside the property's quantifier",
    "header text fields are compared only when they are plain bytes without line breaks or leading white space; trailing white "
    "space is stripped by every reader (bms_write_read_header states rstrip)",
]
TRUSTED_EXTRA = ["the denotation of the written bytes uses the lexer shared with the reader model (Spec/BMS.lean)"]

LAYOUT_COLS = {"BMS": 14, "BME": 16, "PMS": 9, "PMS_BME": 18, "PMS_5B": 5}
# lanes of the five tables in dict order (channel text, column) — generator-side bookkeeping only; the adapter reads the
# real dicts
LAYOUT_LANES = {
    "BMS": [("11", 0), ("21", 7), ("12", 1), ("22", 8), ("13", 2), ("23", 9), ("14", 3), ("24", 10), ("15", 4), ("25", 11),
            ("16", 5), ("26", 12), ("17", 6), ("27", 13)],
    "BME": [("16", 0), ("21", 8), ("11", 1), ("22", 9), ("12", 2), ("23", 10), ("13", 3), ("24", 11), ("14", 4), ("25", 12),
            ("15", 5), ("28", 13), ("18", 6), ("29", 14), ("19", 7), ("26", 15)],
    "PMS": [("11", 0), ("12", 1), ("13", 2), ("14", 3), ("15", 4), ("22", 5), ("23", 6), ("24", 7), ("25", 8)],
    "PMS_BME": [("11", 0), ("21", 9), ("12", 1), ("22", 10), ("13", 2), ("23", 11), ("14", 3), ("24", 12), ("15", 4),
                ("25", 13), ("18", 5), ("28", 14), ("19", 6), ("29", 15), ("16", 7), ("26", 16), ("17", 8), ("27", 17)],
    "PMS_5B": [("13", 0), ("14", 1), ("15", 2), ("22", 3), ("23", 4)],
}
E_BPMS = [50, 60, 75, 100, 120, 125, 128, 150, 160, 200, 240, 250, 300, 375, 37.5, 62.5, 93.75, 187.5]
B36 = "0123456789ABCDEFGHIJKLMNOPQRSTUVWXYZ"
DENS = [1, 2, 3, 4, 6, 8, 12, 16, 24, 32, 48, 96, 5, 7, 9, 64]
TOL_MARGIN = Fr(1, 10 ** 9)
EPS = Fr(1, 2 ** 30)


def _imports():
    from reamber.bms.BMSMap import BMSMap
    from reamber.bms.BMSChannel import BMSChannel
    from reamber.bms.lists.BMSBpmList import BMSBpmList
    from reamber.bms.lists.notes.BMSHitList import BMSHitList
    from reamber.bms.lists.notes.BMSHoldList import BMSHoldList
    from reamber.bms.BMSBpm import BMSBpm
    from reamber.bms.BMSHit import BMSHit
    from reamber.bms.BMSHold import BMSHold
    return BMSMap, BMSChannel, BMSBpmList, BMSHitList, BMSHoldList, BMSBpm, BMSHit, BMSHold


def rid(rng, avoid=()):
    while True:
        s = rng.choice(B36) + rng.choice(B36)
        if s != "00" and s not in avoid:
            return s


def hx(s):
    return s.encode("latin-1").hex() if isinstance(s, str) else bytes(s).hex()


# ------------------------------------------------------------------------------------------ generator

def gen_bpm(rng):
    r = rng.random()
    if r < 0.6:
        return float(rng.choice(E_BPMS))
    if r < 0.955:
        return float(f"{rng.uniform(40, 400):.{rng.choice([0, 1, 2, 3])}f}")
    if r < 0.985:
        return rng.uniform(40, 400)          # more than three decimals: D06
    return 100 / 3


EXT_CHANNELS = ["17", "27", "18", "28", "19", "29", "1A", "2A", "31"]


def gen_layout_edit(rng, layout, used_cols, lanes_now):
    """an edit of a layout dict: ["extend", channel hex, column] | ["reduce", lane index] | ["swap", i, j] | ["reorder"]
    (`lanes_now`: [(channel text, column)] in dict order)"""
    n = len(lanes_now)
    r = rng.random()
    if r < 0.5 and n >= 2:
        used = [k for k, (_, c) in enumerate(lanes_now) if c in used_cols]
        i = rng.choice(used) if used and rng.random() < 0.8 else rng.randrange(n)
        j = rng.choice([k for k in range(n) if k != i])
        return ["swap", i, j]
    if r < 0.8:
        free_cols = [c for c in range(18) if c not in [c_ for _, c_ in lanes_now]]
        free_ch = [ch for ch in EXT_CHANNELS if ch not in [c_ for c_, _ in lanes_now]]
        if free_cols and free_ch:
            return ["extend", hx(rng.choice(free_ch)), rng.choice(free_cols)]
    if r < 0.93 and n >= 2:
        used = [k for k, (_, c) in enumerate(lanes_now) if c in used_cols]
        return ["reduce", rng.choice(used) if used and rng.random() < 0.5 else rng.randrange(n)]
    return ["reorder"]


def edit_lanes(lanes, e):
    """the effect of a layout edit on [(channel text, column)] (generator-side bookkeeping; the adapter edits the dict)"""
    lanes = list(lanes)
    n = len(lanes)
    if e[0] == "extend":
        lanes.append((bytes.fromhex(e[1]).decode("latin-1"), e[2]))
    elif e[0] == "reduce" and n:
        del lanes[e[1] % n]
    elif e[0] == "swap" and n:
        i, j = e[1] % n, e[2] % n
        (a, ca), (b, cb) = lanes[i], lanes[j]
        lanes[i], lanes[j] = (a, cb), (b, ca)
    elif e[0] == "reorder":
        lanes.reverse()
    return lanes


LONG_BPMS = [240.0, 480.0, 960.0, 1920.0, 300.0, 375.0, 600.0]


SRC_POSTS = ["deepcopy", "rate1", "rate2", "rate_half", "edit_hits", "edit_title", "copy_lists"]


def gen_src(rng, layout):
    """how the chart handed to write is OBTAINED: None = built in memory; otherwise through a real entry point —
    written once as text with the source layout and read back with `read` / `read_file` (layout passed by position, by
    keyword or left to the default argument), or converted from another game — and then optionally deep-copied, rated,
    edited"""
    r = rng.random()
    if r < 0.5:
        return None
    post = []
    while rng.random() < 0.35 and len(post) < 3:
        post.append(rng.choice(SRC_POSTS))
    if r < 0.93:
        sl = rng.choice(list(LAYOUT_COLS))
        if rng.random() < 0.15:
            sl = layout
        arg = rng.choice(["pos", "kw", "default"] if sl == "BME" else ["pos", "kw"])
        return dict(via=rng.choice(["read", "read", "read_file"]), layout=sl, arg=arg, post=post)
    return dict(via=rng.choice(["osu", "qua"]), post=post)


def gen_warg(rng, layout, lay):
    """how the layout is handed to one write: by position, by keyword, or (the BME table only) by the default argument"""
    if layout == "BME" and lay["mode"] == "const":
        return rng.choice(["pos", "kw", "default", "default"])
    return rng.choice(["pos", "pos", "kw"])


def gen(rng, tier, i):
    layout = rng.choice(list(LAYOUT_COLS))
    src = gen_src(rng, layout)
    # the layouts of the later writes of the script (several writes of one object with different layouts in a row)
    more_layouts = [rng.choice(list(LAYOUT_COLS)) for _ in range(3)] if rng.random() < 0.6 else [layout] * 3
    if src is not None and src.get("layout") and src["layout"] != "BME" and rng.random() < 0.3:
        layout = "BME"                      # a good share: obtained with another layout, written with the default table
    involved = [layout] + more_layouts + ([src["layout"]] if src and src.get("layout") else [])
    ncol = min(LAYOUT_COLS[l] for l in involved)
    n_b = rng.choice([1, 1, 2, 2, 3, 4, 6, 8])
    if rng.random() < (0.004 if tier == "quick" else 0.01):
        n_b = rng.choice([40, 200]) if tier == "quick" else rng.choice([40, 200, 900, 1294, 1295])
    long_mode = rng.random() < 0.07
    t = Fr(0) if (rng.random() < 0.94 or long_mode) else Fr(rng.choice([500, 1234.5, -250, 3]))
    segs = []          # (start exact, bpm double, measures)
    if long_mode:
        # a long first segment at a high tempo: the last tempo point sits on bar line `target` (mostly 999 — the last
        # measure `#mmmcc:` can address), the objects are drawn from the last dozen measures
        n_b = rng.choice([1, 2, 2, 3, 4])
        target = rng.choice([999] * 6 + [998, 998, 997, 990, 1000, 1001])
        mids = [rng.choice([1, 1, 2, 3]) for _ in range(max(0, n_b - 2))]
        first = target - sum(mids) + (1 if n_b == 1 else 0)
        nms = [first] + mids + ([1] if n_b > 1 else [])
        for k in range(n_b):
            bpm = rng.choice(LONG_BPMS) if k == 0 or rng.random() < 0.7 else gen_bpm(rng)
            segs.append((t, bpm, nms[k]))
            t = t + nms[k] * 4 * Fr(60000) / Fr(bpm)
    else:
        for k in range(n_b):
            bpm = gen_bpm(rng)
            nm = rng.choice([1, 1, 2, 3, 4]) if n_b < 30 else 1
            segs.append((t, bpm, nm))
            t = t + nm * 4 * Fr(60000) / Fr(bpm)
    # the layout handed to write
    base_lanes = LAYOUT_LANES[layout]
    r = rng.random()
    if r < 0.5:
        lay = dict(mode="const")
        lanes_now = list(base_lanes)
    else:
        mode = "fresh" if r < 0.82 else "owned"
        lanes_now = list(base_lanes)
        variant = ["copy"]
        if rng.random() < (0.5 if mode == "fresh" else 0.3):
            variant = gen_layout_edit(rng, layout, set(range(ncol)), lanes_now)
            lanes_now = edit_lanes(lanes_now, variant)
        lay = dict(mode=mode, variant=variant)
    multi = lay["mode"] == "const" or (lay["mode"] == "fresh" and lay["variant"] == ["copy"])
    if not multi:
        more_layouts = [layout] * 3
    cols_pool = [c for _, c in lanes_now if c < ncol] or [0]
    bpms = [[R(float(s)), R(b)] for s, b, _ in segs]
    lnobj = "ZZ" if rng.random() < 0.6 else rid(rng, avoid=("01",))
    samples = {}
    for _ in range(rng.choice([0, 0, 1, 3, 5])):
        samples[rid(rng, avoid=(lnobj,))] = rng.choice(["k.wav", "snare 01.ogg", "a", "bgm_1.wav", "x.y.z", "b"])
    files = sorted(set(samples.values()))

    def gen_time():
        j = rng.randrange(len(segs))
        s, b, nm = segs[j]
        bl = Fr(60000) / Fr(b)
        extra = rng.choice([0, 0, 1, 3]) if j == len(segs) - 1 else 0
        lo = max(0, nm + extra - 12) if (nm > 20 and rng.random() < 0.9) else 0      # long segment: its last measures
        r = rng.random()
        if r < 0.7:
            d = rng.choice(DENS)
            return float(s + bl * Fr(rng.randrange(4 * lo * d, 4 * (nm + extra) * d), d)), True
        if r < 0.8:
            return float(s + bl * 4 * rng.randrange(lo, nm + extra + 1)), True
        return float(s) + rng.uniform(float(bl) * 4 * lo, float(bl) * 4 * (nm + extra)), False

    def gen_sample():
        r = rng.random()
        if files and r < 0.55:
            return rng.choice(files)
        if r < 0.8:
            return ""
        return rng.choice(["unknown.wav", "zz"])

    hits, holds = [], []
    busy = {}            # column -> list of (from, to) taken by holds; points taken by hits
    careless = rng.random() < 0.08          # sometimes allow overlapping / colliding objects (outside the quantifier)
    gap = 30.0

    def free(c, a, b):
        return careless or all(b + gap < x or y + gap < a for x, y in busy.get(c, []))

    for _ in range(rng.choice([0, 0, 1, 2, 3, 6])):
        tt, _g = gen_time()
        t2, _g = gen_time()
        if t2 <= tt:
            tt, t2 = t2, tt
        if t2 - tt < 1:
            continue
        c = rng.choice(cols_pool)
        if not free(c, tt, t2):
            continue
        busy.setdefault(c, []).append((tt, t2))
        holds.append([c, hx(gen_sample()), R(tt), R(t2 - tt)])
    for _ in range(rng.choice([0, 1, 2, 4, 6, 10, 14])):
        tt, _g = gen_time()
        c = rng.choice(cols_pool)
        if not free(c, tt, tt):
            continue
        busy.setdefault(c, []).append((tt, tt))
        hits.append([c, hx(gen_sample()), R(tt)])
    if rng.random() < 0.12:
        # split-line pattern: a hit, then a hold, in one free column of one measure, on coprime subdivisions
        j = rng.randrange(len(segs))
        sg, bg, nmg = segs[j]
        blg = Fr(60000) / Fr(bg)
        c = rng.choice(cols_pool)
        d1, d2 = rng.choice([(7, 9), (9, 7), (5, 7), (9, 32), (64, 7), (7, 64), (96, 5), (3, 7)])
        mline = sg + blg * 4 * rng.randrange(0, nmg)
        t_hit = float(mline + blg * Fr(rng.randrange(1, d1), d1))
        t_head = float(mline + blg * (1 + Fr(rng.randrange(1, d2), d2)))
        t_tail = float(mline + blg * (2 + Fr(rng.randrange(0, 4), 4)))
        if free(c, t_hit, t_tail):
            busy.setdefault(c, []).append((t_hit, t_tail))
            hits.append([c, hx(gen_sample()), R(t_hit)])
            holds.append([c, hx(gen_sample()), R(t_head), R(t_tail - t_head)])
    if rng.random() < 0.1 and n_b > 1:
        order = list(range(n_b))
        rng.shuffle(order)
        bpms = [bpms[k] for k in order]
    misc = []
    for _ in range(rng.choice([0, 0, 1, 2])):
        misc.append(rng.choice([["GENRE", "test"], ["PLAYER", "1"], ["RANK", "2"], ["TOTAL", "300"], ["STAGEFILE", "a.bmp"],
                                ["LNTYPE", "1"], ["SUBTITLE", "[x y]"]]))
    misc = [[hx(k), hx(v)] for k, v in dict((k, v) for k, v in misc).items()]
    if rng.random() < 0.03 and ncol < 18:
        hits.append([ncol, hx(""), bpms[0][0]])       # a column the layout does not have
    hist = {}
    for key, n_items in (("bpms", len(bpms)), ("hits", len(hits)), ("holds", len(holds))):
        if n_items and rng.random() < 0.45:
            name = rng.choice(HISTS[1:])
            if name == "sorted":
                par = list(range(n_items)); rng.shuffle(par)
            elif name == "mask":
                par = [rng.randrange(n_items + 1) for _ in range(rng.choice([1, 2, 3]))]
            else:
                par = rng.randrange(n_items + 1)
            hist[key] = [name, par]
    if rng.random() < 0.12:
        hist["map"] = rng.choice(["rate1", "stack_touch"])
    r = rng.random()
    beat0 = 60000.0 / float(F(bpms[0][1]))
    if r < 0.55:
        ops = ["write"]
    elif r < 0.75:
        ops = ["write_file"]
    elif r < 0.85:
        ops = [rng.choice(["write", "write_file"]), rng.choice(["write", "write_file"])]        # the same object twice
    else:
        edit = rng.choice([dict(edit="hits_shift", ms=beat0 * rng.choice([1, 2, 4, 0.5])), dict(edit="hits_cols", k=rng.randrange(1, 4)),
                           dict(edit="bpm_scale", f=rng.choice([2, 0.5])), dict(edit="holds_len", f=rng.choice([0.5, 2])),
                           dict(edit="bpms_reverse"), dict(edit="holds_shift", ms=beat0 * rng.choice([1, 4]))])
        ops = [rng.choice(["write", "write_file"]), edit, rng.choice(["write", "write_file"])]
    if lay["mode"] == "owned" and rng.random() < 0.75:
        # the caller edits its own layout dict between two writes of the script
        used = {h[0] for h in hits} | {h[0] for h in holds}
        le = dict(layout_edit=gen_layout_edit(rng, layout, used, lanes_now))
        writes = [o for o in ops if isinstance(o, str)]
        if len(writes) >= 2:
            k = max(j for j, o in enumerate(ops) if isinstance(o, str))
            ops = ops[:k] + [le] + ops[k:]
        else:
            ops = ops + [le, rng.choice(["write", "write_file"])]
    # every write of the script names its layout and the way it is handed over
    k_w = 0
    for j, o in enumerate(ops):
        if isinstance(o, str):
            wl = layout if k_w == 0 else more_layouts[(k_w - 1) % 3]
            ops[j] = dict(w=o, layout=wl, arg=gen_warg(rng, wl, lay))
            k_w += 1
    if multi and k_w == 1 and rng.random() < 0.35:
        for wl in more_layouts[:rng.choice([1, 2, 3])]:
            ops.append(dict(w=rng.choice(["write", "write", "write_file"]), layout=wl, arg=gen_warg(rng, wl, lay)))
    return dict(claim="write", layout=layout, lay=lay, src=src, ops=ops, hist=hist, title=hx(rng.choice(["song", "a b  c", "x:y #1"])), artist=hx(rng.choice(["me", "A feat. B"])),
                version=hx(rng.choice(["3", "12", ""])), ln_end=hx(lnobj), samples=[[hx(k), hx(v)] for k, v in samples.items()],
                misc=misc, bpms=bpms, hits=hits, holds=holds, no_sample_default=hx("01"))


def corpus():
    base = dict(claim="write", layout="BME", title=hx("t"), artist=hx("a"), version=hx("1"), ln_end=hx("ZZ"), samples=[[hx("0A"), hx("k.wav")]],
                misc=[], no_sample_default=hx("01"))
    c = []
    c.append(dict(base, bpms=[[R(0), R(120)]], hits=[[1, hx("k.wav"), R(0)], [1, hx(""), R(500)], [2, hx("x"), R(1000)], [3, hx(""), R(2000.0 / 3)]],
                  holds=[[4, hx("k.wav"), R(2000), R(500)]]))
    # D06: 100/3 bpm written as 33.333
    c.append(dict(base, bpms=[[R(0), R(120)], [R(4000), R(100 / 3)]], hits=[[1, hx(""), R(4000)], [1, hx(""), R(4000 + 7200.0)]], holds=[],
                  _expect="D06"))
    # D35: the first tempo point is not at 0
    c.append(dict(base, bpms=[[R(500), R(120)]], hits=[[1, hx(""), R(500)], [1, hx(""), R(1500)]], holds=[], _expect="D35"))
    # D36: measure 1000
    c.append(dict(base, bpms=[[R(0), R(240)]], hits=[[1, hx(""), R(1000 * 1000.0)]], holds=[], _expect="D36"))
    # D37: a hit inside a hold of its lane
    c.append(dict(base, bpms=[[R(0), R(120)]], hits=[[4, hx(""), R(500)]], holds=[[4, hx(""), R(0), R(1000)]], _expect="D37"))
    # a hit and a later long note in one column of one measure whose denominators have no common multiple below 100
    # (7 and 9 -> 28 and 36): find_lcm leaves the group with two new_den values, the writer emits two lines for the
    # same (measure, channel).  By the book the text still denotes the chart (pairing is by time); only a reader that
    # pairs in file order (the library's own: D05) gets it wrong.
    c.append(dict(base, bpms=[[R(0), R(120)]], hits=[[1, hx(""), R(500 / 7)]], holds=[[1, hx(""), R(500 + 500 / 9), R(700)]]))
    c.append(dict(base, bpms=[[R(0), R(120)]], hits=[[1, hx(""), R(500 / 9)]], holds=[[1, hx(""), R(500 + 500 / 7), R(700)]]))   # head line before hit line in the file
    c.append(dict(base, bpms=[[R(0), R(120)]], hits=[], holds=[]))
    c.append(dict(base, bpms=[[R(0), R(120)]], hits=[[1, hx(""), R(500 / 3)], [1, hx(""), R(125)], [1, hx(""), R(100)], [1, hx(""), R(500 / 7)],
                                                     [1, hx(""), R(2500 / 96)]], holds=[]))
    c.append(dict(base, bpms=[[R(0), R(120)]], hits=[[1, hx(""), R(123.456)], [1, hx(""), R(130)]], holds=[]))
    for lay, n in LAYOUT_COLS.items():
        c.append(dict(base, layout=lay, bpms=[[R(0), R(150)], [R(1600), R(75)]],
                      hits=[[k, hx(""), R(400.0 * k)] for k in range(n)], holds=[[n - 1, hx("k.wav"), R(100), R(3100)]]))
    # caller-built layout dicts: a copy built on the spot (after a write with a temporary dict of another table), a table
    # with an extra lane, and ONE caller-owned dict edited between two writes (lanes swapped / a lane removed)
    five = dict(bpms=[[R(0), R(150)], [R(1600), R(75)]], hits=[[k, hx(""), R(400.0 * k)] for k in range(5)],
                holds=[[4, hx("k.wav"), R(100), R(3100)]])
    for lay in LAYOUT_COLS:
        c.append(dict({**base, **five}, layout=lay, lay=dict(mode="fresh", variant=["copy"]), ops=["write", "write_file"]))
    c.append(dict({**base, **five}, layout="BME", lay=dict(mode="fresh", variant=["extend", hx("17"), 16]),
                  hits=five["hits"] + [[16, hx("k.wav"), R(900.0)]]))
    c.append(dict({**base, **five}, layout="PMS", lay=dict(mode="owned", variant=["copy"]),
                  ops=["write", dict(layout_edit=["swap", 3, 4]), "write"]))
    c.append(dict({**base, **five}, layout="BMS", lay=dict(mode="owned", variant=["copy"]),
                  ops=["write", dict(layout_edit=["reduce", 12]), "write_file", dict(layout_edit=["extend", hx("19"), 3]), "write"]))
    c.append(dict({**base, **five}, layout="PMS_5B", lay=dict(mode="owned", variant=["swap", 0, 4]),
                  ops=["write", dict(layout_edit=["extend", hx("2A"), 9]), dict(edit="hits_cols", k=0), "write"]))
    five = dict(bpms=[[R(0), R(150)], [R(1600), R(75)]], hits=[[k, hx("k.wav" if k == 2 else ""), R(400.0 * k)] for k in range(5)],
                holds=[[4, hx("k.wav"), R(2400), R(800)], [0, hx("zz"), R(800), R(400)]])
    # charts OBTAINED through the readers with every layout (by position / keyword / default argument), then written with
    # every layout — explicitly, by keyword, by default argument; several writes of one object with different layouts
    for k_s, sl in enumerate(LAYOUT_COLS):
        w = [dict(w="write", layout="BME", arg="default"), dict(w="write_file", layout="BME", arg="pos"), dict(w="write", layout="BME", arg="kw")]
        w += [dict(w=("write", "write_file")[(k_s + j) % 2], layout=wl, arg=("pos", "kw")[(k_s + j) % 2]) for j, wl in enumerate(LAYOUT_COLS)]
        w += [dict(w="write_file", layout="BME", arg="default")]
        c.append(dict({**base, **five}, layout="BME", src=dict(via=("read", "read_file")[k_s % 2], layout=sl, arg=("pos", "kw")[k_s % 2], post=[]), ops=w))
        c.append(dict({**base, **five}, layout="BME", src=dict(via="read", layout=sl, arg="kw", post=["deepcopy", "rate2"]),
                      ops=[dict(w="write", layout="BME", arg="pos")]))
    c.append(dict({**base, **five}, layout="BME", src=dict(via="read_file", layout="BME", arg="default", post=["edit_title"]),
                  ops=[dict(w="write", layout="PMS", arg="pos"), dict(w="write", layout="BME", arg="default")]))
    c.append(dict({**base, **five}, layout="PMS", src=dict(via="osu", post=[]), ops=[dict(w="write", layout="PMS", arg="kw"), dict(w="write", layout="BME", arg="default")]))
    c.append(dict({**base, **five}, layout="PMS_5B", src=dict(via="qua", post=["rate1"]), ops=[dict(w="write_file", layout="PMS_5B", arg="pos")]))
    # in-memory chart, several writes with different layouts in a row
    c.append(dict({**base, **five}, layout="PMS", ops=[dict(w="write", layout=wl, arg="pos") for wl in ("PMS", "BME", "PMS_5B", "BMS", "PMS_BME", "BME")]))
    # the last addressable measure: objects and a tempo point in measure 999 (240 bpm: 1000 ms per measure)
    c.append(dict(base, bpms=[[R(0), R(240)]], hits=[[1, hx(""), R(998000.0)], [2, hx("k.wav"), R(999000.0)], [3, hx(""), R(999750.0)],
                                                     [1, hx(""), R(999000.0 + 1000.0 / 3)], [5, hx(""), R(999123.4)]],
                  holds=[[4, hx(""), R(998500.0), R(750.0)], [6, hx("k.wav"), R(999250.0), R(500.0)]]))
    c.append(dict(base, bpms=[[R(0), R(240)], [R(999000.0), R(120)]], hits=[[2, hx("k.wav"), R(999000.0)], [3, hx(""), R(1000500.0)]],
                  holds=[[4, hx(""), R(998500.0), R(1000.0)]]))
    c.append(dict(base, layout="PMS", bpms=[[R(999 * 250.0), R(480)], [R(0), R(960)]], hits=[[0, hx(""), R(999 * 250.0 + 125.0)], [8, hx(""), R(998 * 250.0)]],
                  holds=[]))
    return c


def valid(case):
    try:
        if case.get("claim") != "write" or case.get("layout") not in LAYOUT_COLS:
            return False
        if not case["bpms"]:
            return False
        lay = case.get("lay") or dict(mode="const")
        if lay.get("mode") not in ("const", "fresh", "owned"):
            return False
        edits = [lay.get("variant") or ["copy"]] + [o["layout_edit"] for o in (case.get("ops") or []) if isinstance(o, dict) and "layout_edit" in o]
        for e in edits:
            if not isinstance(e, list) or not e or e[0] not in ("copy", "extend", "reduce", "swap", "reorder"):
                return False
            if e[0] == "extend":
                ch = bytes.fromhex(e[1])
                if len(ch) != 2 or not all(chr(x) in B36 for x in ch) or ch in (b"00", b"01", b"02", b"03", b"08", b"09") or not (isinstance(e[2], int) and 0 <= e[2] < 18):
                    return False
            if e[0] == "reduce" and not isinstance(e[1], int):
                return False
            if e[0] == "swap" and not (isinstance(e[1], int) and isinstance(e[2], int)):
                return False
        for o in (case.get("ops") or []):
            if not (o in ("write", "write_file") or isinstance(o, dict)):
                return False
            if isinstance(o, dict) and "w" in o:
                if o["w"] not in ("write", "write_file") or o.get("layout", case["layout"]) not in LAYOUT_COLS:
                    return False
                if o.get("arg", "pos") not in ("pos", "kw", "default"):
                    return False
                if o.get("arg") == "default" and not (o.get("layout", case["layout"]) == "BME" and lay.get("mode") == "const"):
                    return False
        src = case.get("src")
        if src is not None:
            if not isinstance(src, dict) or src.get("via") not in ("read", "read_file", "osu", "qua"):
                return False
            if src["via"] in ("read", "read_file"):
                if src.get("layout") not in LAYOUT_COLS or src.get("arg", "pos") not in ("pos", "kw", "default"):
                    return False
                if src.get("arg") == "default" and src["layout"] != "BME":
                    return False
            if not all(p_ in SRC_POSTS for p_ in (src.get("post") or [])):
                return False
        for o, b in case["bpms"]:
            if F(b) <= 0:
                return False
            float(F(o)); float(F(b))
        ln = bytes.fromhex(case["ln_end"])
        if len(ln) != 2 or ln == b"00" or not all(chr(x) in B36 for x in ln):
            return False
        dflt = bytes.fromhex(case["no_sample_default"])
        if len(dflt) != 2 or dflt == ln or dflt == b"00" or not all(chr(x) in B36 for x in dflt):
            return False
        for k, v in case["samples"]:
            kk = bytes.fromhex(k)
            if len(kk) != 2 or kk == ln or kk == b"00" or not all(chr(x) in B36 for x in kk):
                return False
            bytes.fromhex(v)
        for k, v in case["misc"]:
            kk = bytes.fromhex(k)
            if not kk or b" " in kk or not kk[:1].isalpha() or kk.upper().startswith((b"BPM", b"WAV")) or kk.upper() in (b"LNOBJ",):
                return False
            if bytes.fromhex(v).strip() != bytes.fromhex(v) or not bytes.fromhex(v):
                return False
        for f in ("title", "artist", "version"):
            v = bytes.fromhex(case[f])
            if v.strip() != v or b"\r" in v or b"\n" in v:
                return False
        if not bytes.fromhex(case["title"]) or not bytes.fromhex(case["artist"]):
            return False
        for c, s, o in case["hits"]:
            if not (isinstance(c, int) and 0 <= c < 18) or F(o) < -10 ** 7 or F(o) > 10 ** 8:
                return False
            bytes.fromhex(s)
        for c, s, o, ln_ in case["holds"]:
            if not (isinstance(c, int) and 0 <= c < 18) or F(ln_) <= 0 or F(o) < -10 ** 7 or F(o) > 10 ** 8:
                return False
            bytes.fromhex(s)
        return True
    except Exception:
        return False


# ------------------------------------------------------------------------------------------ adapter

def err_class(e):
    if isinstance(e, KeyError):
        return "key"
    if isinstance(e, IndexError):
        return "index"
    if isinstance(e, ZeroDivisionError):
        return "zerodiv"
    if isinstance(e, AssertionError):
        return "assert"
    if isinstance(e, ValueError):
        return "value"
    return "other:" + type(e).__name__


HISTS = ["plain", "sorted", "append_sorted", "after", "mask", "concat"]


def apply_hist(cls, items, dummy, h):
    """Build a TimedList from `items` through a history of public list operations that leaves the same rows with
    NON-DEFAULT pandas row labels (permuted, with gaps, duplicated).  `h` = [name, parameter]."""
    import pandas as pd
    name, par = (h or ["plain", 0])[0], (h or ["plain", 0])[1]
    n = len(items)
    if name == "plain" or n == 0:
        return cls(items)
    if name == "sorted":                      # rows handed over out of order, then .sorted(): labels permuted
        perm = [i for i in par if i < n] + [i for i in range(n) if i not in par]
        return cls([items[i] for i in perm]).sorted()
    if name == "append_sorted":               # one row appended with sort=True: labels permuted
        k = par % n
        if n == 1:
            return cls(items)
        return cls(items[:k] + items[k + 1:]).append(items[k], sort=True)
    if name == "after":                       # a row before everything, cut away with .after(): labels start at 1 / have a gap
        k = par % (n + 1)
        lo = min(float(x.offset) for x in items)
        lst = cls(items[:k] + [dummy(lo - 1000.0)] + items[k:])
        return lst.after(lo - 500.0)
    if name == "mask":                        # rows removed with a boolean mask: labels with gaps
        lo = min(float(x.offset) for x in items)
        marks = sorted({p % (n + 1) for p in (par if isinstance(par, list) else [par])})
        rows, keep = [], []
        for i in range(n + 1):
            if i in marks:
                rows.append(dummy(lo - 1000.0)); keep.append(False)
            if i < n:
                rows.append(items[i]); keep.append(True)
        lst = cls(rows)
        return lst[pd.Series(keep, index=lst.df.index)]
    if name == "concat":                      # two lists concatenated with their labels kept: duplicate labels
        k = par % (n + 1)
        if k in (0, n):
            return cls(items)
        return cls(pd.concat([cls(items[:k]).df, cls(items[k:]).df]))
    return cls(items)


def build_map(case):
    BMSMap, BMSChannel, BMSBpmList, BMSHitList, BMSHoldList, BMSBpm, BMSHit, BMSHold = _imports()
    hist = case.get("hist") or {}
    m = BMSMap()
    m.title, m.artist, m.version = (bytes.fromhex(case[k]) for k in ("title", "artist", "version"))
    m.ln_end_channel = bytes.fromhex(case["ln_end"])
    m.samples = {bytes.fromhex(k): bytes.fromhex(v) for k, v in case["samples"]}
    m.misc = {bytes.fromhex(k): bytes.fromhex(v) for k, v in case["misc"]}
    m.bpms = apply_hist(BMSBpmList, [BMSBpm(offset=float(F(o)), bpm=float(F(b)), metronome=4) for o, b in case["bpms"]],
                        lambda t: BMSBpm(offset=t, bpm=120.0, metronome=4), hist.get("bpms"))
    m.hits = apply_hist(BMSHitList, [BMSHit(offset=float(F(o)), column=c, sample=bytes.fromhex(s)) for c, s, o in case["hits"]],
                        lambda t: BMSHit(offset=t, column=0, sample=b""), hist.get("hits"))
    m.holds = apply_hist(BMSHoldList, [BMSHold(offset=float(F(o)), column=c, length=float(F(g)), sample=bytes.fromhex(s))
                                       for c, s, o, g in case["holds"]],
                         lambda t: BMSHold(offset=t, column=0, length=1.0, sample=b""), hist.get("holds"))
    mh = hist.get("map")
    if mh == "rate1":                         # a map-level operation that goes through the stacker
        m = m.rate(1.0)
    elif mh == "stack_touch":
        st = m.stack()
        st.offset += 0.0
    return m


def _bx(x):
    """header bytes of a chart as hex (charts converted from another game may carry str)"""
    if isinstance(x, (bytes, bytearray)):
        return bytes(x).hex()
    if isinstance(x, str):
        return x.encode("shift_jis", "replace").hex()
    return (b"\x00" + repr(x).encode("ascii", "replace")).hex()


def _sx(x):
    """a row's sample as hex; a sample that is not bytes (a chart converted from another game has a float column) is no
    file name of the #WAV table: it is given to the model as a name no table can contain"""
    return bytes(x).hex() if isinstance(x, (bytes, bytearray)) else (b"\x00" + repr(x).encode("ascii", "replace")).hex()


def rows_of(m):
    """the rows of the built lists, in ROW ORDER (positions), as exact values: what the model is given"""
    bpms = [[R(float(b)), R(float(mt)), R(float(o))] for o, b, mt in zip(m.bpms.offset, m.bpms.bpm, m.bpms.metronome)]
    hits = [[int(c), _sx(s), R(float(o))] for c, s, o in zip(m.hits.column, m.hits.sample, m.hits.offset)]
    holds = [[int(c), _sx(s), R(float(o)), R(float(o) + float(g))]
             for c, s, o, g in zip(m.holds.column, m.holds.sample, m.holds.offset, m.holds.length)]
    return bpms, hits, holds


def labels_default(m):
    return all(list(l.df.index) == list(range(len(l.df))) for l in (m.bpms, m.hits, m.holds))


POISON_CHART = dict(layout="PMS", title="65", artist="65", version="39", ln_end="5151", samples=[["5132", "652e776176"]],
                    misc=[["47454e5245", "65"]], no_sample_default="3031",
                    bpms=[[R(0), R(99)], [R(240000.0 / 99), R(33)]], hits=[[2, "652e776176", R(100.0)]],
                    holds=[[3, "", R(5000.0), R(700.0)]])


def snapshot(m):
    """everything the writer can see of the chart, labels included"""
    return dict(rows=rows_of(m),
                labels=[list(map(str, l.df.index)) for l in (m.bpms, m.hits, m.holds)],
                cols=[list(l.df.columns) for l in (m.bpms, m.hits, m.holds)],
                head=[_bx(m.title), _bx(m.artist), _bx(m.version), _bx(m.ln_end_channel)],
                samples=[[_bx(k), _bx(v)] for k, v in m.samples.items()],
                misc=[[_bx(k), _bx(v)] for k, v in m.misc.items()])


def apply_layout_edit(cfg, e):
    """edit a caller-owned layout dict IN PLACE"""
    lanes = [k for k, v in cfg.items() if isinstance(v, int)]
    n = len(lanes)
    if e[0] == "extend":
        cfg[bytes.fromhex(e[1])] = int(e[2])
    elif e[0] == "reduce" and n:
        del cfg[lanes[e[1] % n]]
    elif e[0] == "swap" and n:
        a, b = lanes[e[1] % n], lanes[e[2] % n]
        cfg[a], cfg[b] = cfg[b], cfg[a]
    elif e[0] == "reorder":
        items = list(cfg.items())
        head = [(k, v) for k, v in items if not isinstance(v, int)]
        rest = [(k, v) for k, v in items if isinstance(v, int)]
        cfg.clear()
        cfg.update(head + rest[::-1])
    return cfg


def laydef(cfg):
    """the layout dict as it is now, for the model and the by-the-book denotation"""
    rev = {v: k for k, v in cfg.items()}
    return dict(time_sig=bytes(rev["TIME_SIG"]).hex(), bpm=bytes(rev["BPM_CHANGE"]).hex(), exbpm=bytes(rev["EXBPM_CHANGE"]).hex(),
                lanes=[[bytes(k).hex(), int(v)] for k, v in cfg.items() if isinstance(v, int)])


def do_write(m, case, via, cfg=None, arg="pos"):
    """one call of the writer.  `arg`: the layout is handed over by position / by keyword / not at all (`default`: only
    when `cfg` IS the module's BME table, the default argument of write and write_file)"""
    import os
    import tempfile
    BMSMap, BMSChannel, *_ = _imports()
    if cfg is None:
        cfg = getattr(BMSChannel, case["layout"])
    if arg == "default" and cfg is not BMSChannel.BME:
        arg = "pos"
    dflt = bytes.fromhex(case["no_sample_default"])
    kw = {} if dflt == b"01" and arg == "default" else dict(no_sample_default=dflt)
    if via == "write_file":
        fd, path = tempfile.mkstemp(prefix="c05-", suffix=".bms")
        os.close(fd)
        try:
            if arg == "default":
                m.write_file(path, **kw)
            elif arg == "kw":
                m.write_file(file_path=path, note_channel_config=cfg, **kw)
            else:
                m.write_file(path, cfg, **kw)
            with open(path, "rb") as f:
                return f.read()
        finally:
            try:
                os.remove(path)
            except OSError:
                pass
    if arg == "default":
        return m.write(**kw)
    if arg == "kw":
        return m.write(note_channel_config=cfg, **kw)
    return m.write(cfg, **kw)


def obtain(m, case):
    """the chart handed to the writer, obtained as `case["src"]` says: through `read` / `read_file` of a text (the chart
    built in memory, written once with the source layout) with the source layout handed over by position / keyword /
    default argument, or through a converter from another game; then deep-copied / rated / edited.  Returns (chart, tags);
    when the source text cannot be made or read the in-memory chart is used."""
    import copy
    import os
    import tempfile
    src = case.get("src")
    if not src:
        return m, []
    BMSMap, BMSChannel, *_ = _imports()
    tags = []
    try:
        if src["via"] in ("read", "read_file"):
            table = getattr(BMSChannel, src["layout"])
            text = m.write(table, no_sample_default=bytes.fromhex(case["no_sample_default"]))
            arg = src.get("arg", "pos")
            if arg == "default" and table is not BMSChannel.BME:
                arg = "pos"
            if src["via"] == "read":
                lines = text.decode("shift_jis").split("\r\n")
                m2 = BMSMap.read(lines) if arg == "default" else (
                    BMSMap.read(lines, note_channel_config=table) if arg == "kw" else BMSMap.read(lines, table))
            else:
                fd, path = tempfile.mkstemp(prefix="c05-src-", suffix=".bms")
                try:
                    with os.fdopen(fd, "wb") as f:
                        f.write(text)
                    m2 = BMSMap.read_file(path) if arg == "default" else (
                        BMSMap.read_file(path, note_channel_config=table) if arg == "kw" else BMSMap.read_file(path, table))
                finally:
                    try:
                        os.remove(path)
                    except OSError:
                        pass
            tags.append(f"src:{src['via']}:{src['layout']}")
            tags.append(f"src-arg:{arg}")
        else:
            m2 = convert_from(m, src["via"])
            tags.append(f"src:{src['via']}")
        m = m2
    except Exception as e:
        return m, ["src-failed:" + type(e).__name__]
    for p_ in src.get("post") or []:
        try:
            if p_ == "deepcopy":
                m = copy.deepcopy(m)
            elif p_ == "rate1":
                m = m.rate(1.0)
            elif p_ == "rate2":
                m = m.rate(2.0)
            elif p_ == "rate_half":
                m = m.rate(0.5)
            elif p_ == "edit_hits" and len(m.hits):
                m.hits.offset = m.hits.offset + 60000.0 / float(m.bpms.bpm.iloc[0])
            elif p_ == "edit_title":
                m.title = b"another title"
                m.version = b"7"
            elif p_ == "copy_lists":
                m.hits = m.hits.deepcopy()
                m.bpms = type(m.bpms)(m.bpms.df.copy())
            tags.append("post:" + p_)
        except Exception as e:
            tags.append("post-failed:" + p_)
    return m, tags


def convert_from(m, via):
    """the same rows as a chart of another game, converted to BMS by the library's converter"""
    if via == "osu":
        from reamber.osu.OsuMap import OsuMap as M
        from reamber.osu.OsuHit import OsuHit as H
        from reamber.osu.OsuHold import OsuHold as L
        from reamber.osu.OsuBpm import OsuBpm as B
        from reamber.osu.lists.OsuBpmList import OsuBpmList as BL
        from reamber.osu.lists.notes.OsuHitList import OsuHitList as HL
        from reamber.osu.lists.notes.OsuHoldList import OsuHoldList as LL
        from reamber.algorithms.convert.OsuToBMS import OsuToBMS as Conv
    else:
        from reamber.quaver.QuaMap import QuaMap as M
        from reamber.quaver.QuaHit import QuaHit as H
        from reamber.quaver.QuaHold import QuaHold as L
        from reamber.quaver.QuaBpm import QuaBpm as B
        from reamber.quaver.lists.QuaBpmList import QuaBpmList as BL
        from reamber.quaver.lists.notes.QuaHitList import QuaHitList as HL
        from reamber.quaver.lists.notes.QuaHoldList import QuaHoldList as LL
        from reamber.algorithms.convert.QuaToBMS import QuaToBMS as Conv
    o = M()
    kw = dict(keysounds=[]) if via == "qua" else {}
    o.hits = HL([H(offset=float(t), column=int(c), **kw) for t, c in zip(m.hits.offset, m.hits.column)])
    o.holds = LL([L(offset=float(t), column=int(c), length=float(g), **kw) for t, c, g in zip(m.holds.offset, m.holds.column, m.holds.length)])
    o.bpms = BL([B(offset=float(t), bpm=float(b)) for t, b in zip(m.bpms.offset, m.bpms.bpm)])
    o.title, o.artist = "song", "me"
    if via == "osu":
        o.version = "v"
    else:
        o.difficulty_name = "v"
    out = Conv.convert(o)
    out.ln_end_channel = m.ln_end_channel
    return out


def apply_edit(m, e, ncol):
    """in-place edits of the chart through the list property setters / the map's list setters"""
    kind = e.get("edit")
    if kind == "hits_shift" and len(m.hits):
        m.hits.offset = m.hits.offset + float(e.get("ms", 0))
    elif kind == "hits_cols" and len(m.hits):
        m.hits.column = (m.hits.column + int(e.get("k", 1))) % ncol
    elif kind == "bpm_scale":
        m.bpms.bpm = m.bpms.bpm * float(e.get("f", 2))
    elif kind == "holds_len" and len(m.holds):
        m.holds.length = m.holds.length * float(e.get("f", 0.5))
    elif kind == "bpms_reverse":
        m.bpms = type(m.bpms)(m.bpms.df.iloc[::-1])
    elif kind == "holds_shift" and len(m.holds):
        m.holds.offset = m.holds.offset + float(e.get("ms", 0))


def run(case, drv):
    """build the chart once, then run the script of the case: writes (in memory / to a file) and in-place edits.
    Every write is judged against the chart as it is at that moment; the chart is snapshotted around each write."""
    import logging
    import warnings
    ops = case.get("ops") or ["write"]
    logging.disable(logging.CRITICAL)
    results = []
    try:
        with warnings.catch_warnings():
            warnings.simplefilter("ignore")
            # another chart is written first in EVERY run (state leaking between writes of different charts shows in a
            # replay as well)
            try:
                do_write(build_map(POISON_CHART), POISON_CHART, "write")
            except Exception:
                pass
            m = build_map(case)
            m, src_tags = obtain(m, case)
            BMSChannel = _imports()[1]
            lay = case.get("lay") or dict(mode="const")
            owned = None
            pm = build_map(POISON_CHART) if lay["mode"] == "fresh" else None
            wl_all = [(o.get("layout") or case["layout"]) if isinstance(o, dict) else case["layout"]
                      for o in ops if not isinstance(o, dict) or "w" in o]
            src_l = (case.get("src") or {}).get("layout")
            ncol_eff = min(LAYOUT_COLS[l] for l in wl_all + [case["layout"]] + ([src_l] if src_l in LAYOUT_COLS else []))
            prev_layout = src_l
            for step, op in enumerate(ops):
                if isinstance(op, dict) and "w" not in op:
                    if "layout_edit" in op:
                        if owned is not None:
                            apply_layout_edit(owned, op["layout_edit"])       # the caller edits its own dict
                        continue
                    apply_edit(m, op, ncol_eff)
                    continue
                via, wl, arg = (op, case["layout"], "pos") if isinstance(op, str) else (op["w"], op.get("layout") or case["layout"], op.get("arg", "pos"))
                # the layout dict handed to this write
                if lay["mode"] == "owned":
                    wl = case["layout"]
                table = getattr(BMSChannel, wl)
                if lay["mode"] == "const":
                    cfg = table
                elif lay["mode"] == "owned":
                    if owned is None:
                        owned = apply_layout_edit(dict(table), lay.get("variant") or ["copy"])
                    cfg = owned
                else:
                    # built on the spot, right after another chart was written with a temporary dict of ANOTHER table
                    other = [n for n in LAYOUT_COLS if n != wl][(step + len(case["hits"])) % 4]
                    tmp = dict(getattr(BMSChannel, other))
                    try:
                        do_write(pm, POISON_CHART, "write", tmp)
                    except Exception:
                        pass
                    del tmp
                    cfg = dict(table)
                    apply_layout_edit(cfg, lay.get("variant") or ["copy"])
                ld = None if lay["mode"] == "const" else laydef(cfg)
                cfg_before = list(cfg.items())
                before = snapshot(m)
                dflt_labels = labels_default(m)
                try:
                    b = do_write(m, case, via, cfg, arg)
                    impl4 = ("ok", b.split(b"\r\n"), before["rows"], dflt_labels)
                except Exception as e:
                    impl4 = ("err", err_class(e), before["rows"], dflt_labels)
                after = snapshot(m)
                cfg_after = list(cfg.items())
                logging.disable(logging.NOTSET)
                r = judge(case, drv, impl4, ld, layout=wl, head=before)
                logging.disable(logging.CRITICAL)
                r["tags"] = list(r.get("tags", [])) + [f"op:{via}", f"lay:{lay['mode']}", f"arg:{arg}"] + ([f"step{step}"] if step else []) + src_tags
                if prev_layout is not None and prev_layout != wl:
                    r["tags"].append("layout-differs-from-previous-call" if step else "layout-differs-from-read")
                prev_layout = wl
                if ld is not None:
                    r["tags"].append("layout:" + (lay.get("variant") or ["copy"])[0])
                    if any(isinstance(o, dict) and "layout_edit" in o for o in ops[:step]) and owned is not None:
                        r["tags"].append("layout-edited-between-writes")
                if before != after or cfg_before != cfg_after:
                    r["ok"] = False
                    r["kf"] = None
                    r.setdefault("detail", {})["chart_modified"] = dict(
                        step=step, changed=[k for k in before if before[k] != after[k]] + (["layout dict"] if cfg_before != cfg_after else []))
                    r["tags"].append("chart-modified-by-writer")
                results.append(r)
                if r["ok"] is not True or not r["agree"]:
                    break
    finally:
        logging.disable(logging.NOTSET)
    if not results:
        return dict(claim="write", ok=True, agree=True, dom=False, kf=None, tags=["no-write"], nontrivial=False)
    last = results[-1]
    if last["ok"] is not True or not last["agree"]:
        return last
    out = dict(results[0])
    out["tags"] = sorted({t for r in results for t in r.get("tags", [])})
    out["dom"] = all(r.get("dom") for r in results)
    out["nontrivial"] = any(r.get("nontrivial") for r in results)
    out["maxdev"] = max(float(r.get("maxdev") or 0.0) for r in results)
    out["boundary"] = any(r.get("boundary") for r in results)
    if len(results) > 1:
        out["tags"].append("several-writes")
    return out


def run_impl(case):
    """one plain write of the chart as built: (verdict, lines | error class, rows in row order, default labels?)"""
    import logging
    import warnings
    logging.disable(logging.CRITICAL)
    try:
        with warnings.catch_warnings():
            warnings.simplefilter("ignore")
            m = build_map(case)
            rows = rows_of(m)
            dflt = labels_default(m)
            try:
                b = do_write(m, case, "write")
                return ("ok", b.split(b"\r\n"), rows, dflt)
            except Exception as e:
                return ("err", err_class(e), rows, dflt)
    finally:
        logging.disable(logging.NOTSET)


def model_chart(case, rows, head=None):
    """the chart the model is given: the rows in row order and the header fields / tables AS THEY ARE on the chart object
    at the moment of the write (`head`: its snapshot; a chart obtained through read carries the file's header)"""
    bpms, hits, holds = rows
    if head is not None:
        t, a, v, ln = head["head"]
        return dict(title=t, artist=a, version=v, ln_end=ln, samples=head["samples"], misc=head["misc"], bpms=bpms, hits=hits, holds=holds)
    return dict(title=case["title"], artist=case["artist"], version=case["version"], ln_end=case["ln_end"],
                samples=case["samples"], misc=case["misc"], bpms=bpms, hits=hits, holds=holds)


def is_data(l):
    return len(l) >= 2 and l[:1] == b"#" and l[1:2].isdigit() and b" " not in l


def lines_agree(impl, model):
    """impl: list of bytes; model: list of bytes.  Header lines in order (numbers compared as numbers), data lines as a multiset."""
    ih = [l for l in impl if not is_data(l)]
    mh = [l for l in model if not is_data(l)]
    if len(ih) != len(mh):
        return False, "header-length"
    for a, b in zip(ih, mh):
        if a == b:
            continue
        if a.startswith(b"#BPM ") and b.startswith(b"#BPM "):
            try:
                if Fr(float(a[5:])) == Fr(b[5:].decode()):
                    continue
            except Exception:
                pass
        return False, f"header:{a[:40]!r}/{b[:40]!r}"
    if sorted(l for l in impl if is_data(l)) != sorted(l for l in model if is_data(l)):
        return False, "data-lines"
    return True, ""


def group(rows, key_n):
    g = {}
    for r in rows:
        g.setdefault(tuple(r[:key_n]), []).append(tuple(r[key_n:]))
    return {k: sorted(v) for k, v in g.items()}


def judge(case, drv, impl4, ld=None, layout=None, head=None):
    """one write, judged against the chart as it was when the writer was called (`impl4[2]`: its rows in row order) and
    the layout IN FORCE AT THAT CALL (`layout`: the module table named at this write; `ld`: a caller-built dict)"""
    layout = layout or case["layout"]
    cols = set(range(LAYOUT_COLS[layout])) if ld is None else {c for _, c in ld["lanes"]}
    impl = impl4[:2]
    # the chart as built (rows in ROW ORDER after the history): what the writer was given
    r_bpms, r_hits, r_holds = impl4[2]
    chart = dict(bpms=[[o, b] for b, _mt, o in r_bpms], hits=[[c, s_, o] for c, s_, o in r_hits],
                 holds=[[c, s_, o, R(F(t) - F(o))] for c, s_, o, t in r_holds])
    m = drv.call("c05.write", layout=layout, layout_def=ld, no_sample_default=case["no_sample_default"], chart=model_chart(case, impl4[2], head))
    facts = m["facts"]
    mc = model_chart(case, impl4[2], head)
    # the chart's sample table and text fields as they are at this write (hex)
    table_files = {v for _k, v in mc["samples"]}

    def known(sx):
        """a sample that is a file of the chart's #WAV table and survives the reader's strip (non-empty, no white space at
        its ends): its written object id must point back to it"""
        if sx not in table_files or not sx:
            return None
        b_ = bytes.fromhex(sx)
        return sx if (b_.strip() == b_ and b_ and b"\r" not in b_ and b"\n" not in b_) else None
    head_keys = {bytes.fromhex(k) for k, _v in mc["misc"]}
    d46 = bool(head_keys & {b"TITLE", b"ARTIST", b"PLAYLEVEL"})
    tags = [layout, f"bpms{min(len(chart['bpms']), 4)}"]
    if not impl4[3]:
        tags.append("row-labels-non-default")
    for k, h in (case.get("hist") or {}).items():
        tags.append(f"hist:{k}:{h if isinstance(h, str) else h[0]}")
    detail = {}
    agree, ok, boundary, maxdev = True, True, False, 0.0
    if "err" in m and m["err"] == "unsupported":
        return dict(claim="write", ok=True, agree=True, dom=False, kf=None, tags=tags + ["unsupported"], nontrivial=False)
    all_facts = [f for k in ("hits", "heads", "tails", "bpms") for f in facts[k]]
    near_tie = any(f is not None and f["margin"] is not None and F(f["margin"]) < TOL_MARGIN for f in all_facts)
    off_grid = any(f is not None and not f["on_grid"] for k in ("hits", "heads", "tails") for f in facts[k])
    # ---------------- (C)
    if impl[0] == "err" or "err" in m:
        agree = impl[0] == "err" and "err" in m and impl[1] == m["err"]
        tags.append("raises:" + (impl[1] if impl[0] == "err" else "model-only"))
        if not agree:
            detail["corr"] = dict(impl=impl if impl[0] == "err" else "ok", model=m.get("err", "ok"))
    else:
        ml = [bytes.fromhex(x) for x in m["ok"]]
        a, why = lines_agree(impl[1], ml)
        if not a and why == "data-lines" and (near_tie or facts["collision"]):
            boundary = near_tie
            tags.append("float-boundary" if near_tie else "collision-order")
        elif not a:
            agree = False
            detail["corr"] = dict(why=why, impl=[l.decode("latin-1")[:120] for l in impl[1]][:40],
                                  model=[l.decode("latin-1")[:120] for l in ml][:40])
    # ---------------- (S)
    first_off = min(F(o) for o, _ in chart["bpms"])
    d31 = first_off != 0
    # D06: some tempo is not a three-decimal number (beyond the precision of a double)
    d06 = any(abs(round(F(b) * 1000) - F(b) * 1000) > F(b) * 1000 * EPS for _, b in chart["bpms"])
    d32 = facts["max_measure"] >= 1000
    # a same-lane object strictly inside a hold: the head/LNOBJ encoding cannot express it
    pts = [(c, F(o)) for c, s_, o in chart["hits"]] + [(c, F(o)) for c, s_, o, g in chart["holds"]] + \
          [(c, F(o) + F(g)) for c, s_, o, g in chart["holds"]]
    d33 = any(c == pc and F(o) < pt < F(o) + F(g) for c, s_, o, g in chart["holds"] for pc, pt in pts)
    # "tempo points on measure lines": exactly (theorem domain) or up to the rounding of the in-memory doubles
    sb = sorted((F(o), F(b)) for o, b in chart["bpms"])
    on_lines = all(abs((o2 - o1) / (240000 / b1) - round((o2 - o1) / (240000 / b1))) <= Fr(1, 10 ** 9) and round((o2 - o1) / (240000 / b1)) >= 1
                   for (o1, b1), (o2, _) in zip(sb[:-1], sb[1:]))
    quantified = on_lines and not facts["collision"] and all(f is not None for f in all_facts) \
        and all(c in cols for c, *_ in chart["hits"] + chart["holds"]) and len(chart["bpms"]) < 1295 \
        and (ld is None or len({c for _, c in ld["lanes"]}) == len(ld["lanes"])) \
        and all(F(g) > 0 for _c, _s, _o, g in chart["holds"])      # a "hold" whose tail is not after its head (the library's
    #                                                                 reader makes one from a text whose lines split) is no hold
    kf = None
    if not quantified:
        tags.append("outside-quantifier")
        ok = True            # the property says nothing here (colliding objects, tempo points off the measure lines,
        #                      objects before the first tempo point, columns the layout lacks, too many tempo points)
    elif impl[0] == "err":
        ok = False
        detail["spec"] = dict(impl=impl, why="the chart is inside the property's quantifier: the writer must write it")
    else:
        lines = impl[1]
        keys = [l[:6] for l in lines if is_data(l)]
        if len(keys) != len(set(keys)):
            tags.append("split-lines")          # several lines for one (measure, channel)
        valid_flags = drv.call("c05.lines_valid", lines=[l.hex() for l in lines])["ok"]
        s_valid = all(valid_flags)
        den = drv.call("c04.denote", layout=layout, layout_def=ld, lines=[l.hex() for l in lines])["ok"]["den"]
        s_hits = s_holds = s_tempo = False
        s_samples = s_head = True
        why = []
        if den is None:
            why.append("the written text has no by-the-book meaning")
        else:
            def tol(f):
                return EPS if f["on_grid"] else F(f["beat_len"]) / 192 + EPS
            # hits
            want = group([(c, F(o), tol(f)) for (c, s, o), f in zip(chart["hits"], facts["hits"])], 1)
            got = group([(h[0], F(h[2])) for h in den["hits"]], 1)
            s_hits = set(want) == set(got) and all(len(want[k]) == len(got[k]) for k in want) and all(
                abs(w[0] - g[0]) <= w[1] + abs(w[0]) * EPS for k in want for w, g in zip(want[k], got[k]))
            wanth = group([(c, F(o), F(o) + F(g), tol(f1), tol(f2)) for (c, s, o, g), f1, f2 in zip(chart["holds"], facts["heads"], facts["tails"])], 1)
            goth = group([(h[0], F(h[2]), F(h[2]) + F(h[3])) for h in den["holds"]], 1)
            s_holds = set(wanth) == set(goth) and all(len(wanth[k]) == len(goth[k]) for k in wanth) and all(
                abs(w[0] - g[0]) <= w[2] + abs(w[0]) * EPS and abs(w[1] - g[1]) <= w[3] + abs(w[1]) * EPS
                for k in wanth for w, g in zip(wanth[k], goth[k]))
            # samples: an object whose in-memory sample is a file of the #WAV table is denoted with exactly that sample
            if s_hits and s_holds:
                wants = group([(c, F(o), known(s_) or "") for (c, s_, o) in chart["hits"]], 1)
                gots = group([(h[0], F(h[2]), h[1]) for h in den["hits"]], 1)
                wantsh = group([(c, F(o), known(s_) or "") for (c, s_, o, g) in chart["holds"]], 1)
                gotsh = group([(h[0], F(h[2]), h[1]) for h in den["holds"]], 1)
                s_samples = all(not w[1] or w[1] == g[1] for k in wants for w, g in zip(wants[k], gots[k])) and \
                    all(not w[1] or w[1] == g[1] for k in wantsh for w, g in zip(wantsh[k], gotsh[k]))
                if any(w[1] for k in wants for w in wants[k]) or any(w[1] for k in wantsh for w in wantsh[k]):
                    tags.append("known-samples")
            # text fields of the header: title / artist / version as the file gives them (the reader strips the line)
            hd = den["header"]
            want_head = [bytes.fromhex(x).rstrip().hex() for x in (mc["title"], mc["artist"], mc["version"])]
            got_head = [hd["title"], hd["artist"], hd["version"]]
            plain = all(b"\r" not in bytes.fromhex(x) and b"\n" not in bytes.fromhex(x) and bytes.fromhex(x).lstrip() == bytes.fromhex(x)
                        and not bytes.fromhex(x).startswith(b"\x00") for x in (mc["title"], mc["artist"], mc["version"]))
            s_head = (want_head == got_head) or not plain
            if not s_samples:
                why.append("samples")
            if not s_head:
                why.append("header fields")
            # tempo timeline: the denoted changes (the measure-0 object replaces the header tempo), as (time, bpm)
            tempo = den["tempo"]
            if len(tempo) > 1 and tempo[1][2][0] == 0 and F(tempo[1][2][1]) == 0:
                tempo = tempo[1:]
            tq = drv.call("timing.time_at", t0=R(0), cs=den["tempo"], qs=[t[2] for t in tempo])["ok"]
            got_t = [(F(x), F(t[0])) for x, t in zip(tq, tempo)]
            want_t = sorted((F(o), F(b)) for o, b in chart["bpms"])
            s_tempo = len(got_t) == len(want_t) and all(
                abs(g[0] - w[0]) <= EPS + abs(w[0]) * EPS and abs(g[1] - w[1]) <= abs(w[1]) * EPS for g, w in zip(got_t, want_t))
            maxdev = max([float(abs(w[0] - g[0])) for k in want if k in got for w, g in zip(want[k], got[k]) if w[1] == EPS] or [0.0]) if s_hits else 0.0
            if not s_hits:
                why.append("hits")
            if not s_holds:
                why.append("holds")
            if not s_tempo:
                why.append("tempo timeline")
        if not s_valid:
            why.append("invalid data line")
        ok = s_valid and s_hits and s_holds and s_tempo and s_samples and s_head
        if not ok:
            detail["spec"] = dict(why=why, lines=[l.decode("latin-1")[:100] for l in lines][:30],
                                  denotation=None if den is None else dict(hits=[(h[0], float(F(h[2]))) for h in den["hits"]][:20],
                                                                           holds=[(h[0], float(F(h[2])), float(F(h[3]))) for h in den["holds"]][:20],
                                                                           tempo=[(float(F(t[0])), t[2][0], str(F(t[2][1]))) for t in den["tempo"]][:10],
                                                                           header=[den["header"][k] for k in ("title", "artist", "version")],
                                                                           chart_header=[mc["title"], mc["artist"], mc["version"]]))
            if s_valid and s_hits and s_holds and s_tempo and s_samples and not s_head and d46:
                kf = "D46"
            elif d31:
                kf = "D35"
            elif d06:
                kf = "D06"
            elif d32:
                kf = "D36"
            elif d33:
                kf = "D37"
    if facts["max_measure"] >= 988:
        tags.append("measure-999" if facts["max_measure"] == 999 else ("measures>=1000" if facts["max_measure"] >= 1000 else "measures-988-998"))
    for flag, name in ((d31, "d31-pred"), (d06, "d06-pred"), (d32, "d32-pred"), (d33, "d33-pred"), (off_grid, "off-grid"), (bool(chart["holds"]), "holds"), (d46, "d46-pred")):
        if flag:
            tags.append(name)
    in_dom = bool(quantified and facts["on_measure_lines"] and not d31 and not d06 and not d32 and not d33)
    nontrivial = quantified and (off_grid or bool(chart["holds"]) or (len(chart["bpms"]) >= 2 and len(chart["hits"]) > 0))
    return dict(claim="write", ok=ok, agree=agree, dom=in_dom, kf=kf, tags=tags, nontrivial=bool(nontrivial), maxdev=maxdev,
                boundary=boundary, detail=detail)
